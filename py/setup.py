"""setup_cmd: Coq development (full .vo build), extracted OCaml driver, Rust harness and sfs binary
(debug and release), all offline, into /verif/.cache."""
import sys
import time
from common import build_coq, build_driver, build_impl, log

t0 = time.time()
ok, out = build_coq()
log("coq build:", "ok" if ok else "FAILED", "%.0fs" % (time.time() - t0))
if not ok:
    log(out)
ok2, out2 = build_driver()
log("driver build:", "ok" if ok2 else "FAILED " + out2, "%.0fs" % (time.time() - t0))
ok3, out3 = build_impl(release=False, cli=True)
log("impl debug build:", "ok" if ok3 else "FAILED " + out3, "%.0fs" % (time.time() - t0))
ok4, out4 = build_impl(release=True, cli=True)
log("impl release build:", "ok" if ok4 else "FAILED " + out4, "%.0fs" % (time.time() - t0))
sys.exit(0 if (ok and ok2 and ok3 and ok4) else 1)
