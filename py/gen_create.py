"""Generators of abstract call sets and sample maps for the create-path checks."""
import itertools
import random

GT_POOL_COMPLETE = ["0/0", "0/1", "1/1", "0|1", "1|0", "1|1", "0|0", "1/0"]
GT_POOL_SKIP = ["./.", ".", "./1", "0/.", "1/2", "2/2", "0/2", ".|.", "3/1"]
GT_POOL_PLOIDY = ["0", "1", "0/1/1", "./././.", "0|1|0"]


def names(n):
    return ["s%d" % i for i in range(n)]


def random_gt(rng, p_skip=0.15, p_ploidy=0.0):
    r = rng.random()
    if r < p_ploidy:
        return rng.choice(GT_POOL_PLOIDY)
    if r < p_ploidy + p_skip:
        return rng.choice(GT_POOL_SKIP)
    return rng.choice(GT_POOL_COMPLETE)


def random_callset(rng, nsamples=None, nrecords=None, p_skip=0.15, p_ploidy=0.0):
    n = nsamples if nsamples is not None else rng.randrange(1, 13)
    m = nrecords if nrecords is not None else rng.randrange(0, 41)
    cols = names(n)
    kind = rng.random()
    recs = []
    for _ in range(m):
        k = rng.random()
        if k < 0.1:
            recs.append(["0/0"] * n)                       # monomorphic
        elif k < 0.15:
            recs.append(["./."] * n)                       # all missing
        elif k < 0.2:
            recs.append([rng.choice(["1/2", "2/2", "0/1", "0/3"]) for _ in range(n)])   # multi-ALT
        else:
            recs.append([random_gt(rng, p_skip, p_ploidy) for _ in range(n)])
    return cols, recs


def random_map(rng, cols, max_pops=4, allow_unnamed=True):
    """a subset of the columns assigned to 1..max_pops labels (first appearance order random)"""
    k = rng.randrange(1, len(cols) + 1)
    chosen = rng.sample(cols, k)
    npop = rng.randrange(1, min(max_pops, k) + 1)
    labels = ["P%d" % i for i in range(npop)]
    if allow_unnamed and rng.random() < 0.25:
        labels[rng.randrange(npop)] = None
    # make sure every label is used
    assign = labels[:] + [rng.choice(labels) for _ in range(k - npop)]
    rng.shuffle(assign)
    return list(zip(chosen, assign))


def pop_sizes(smap):
    order, sizes = [], {}
    for n, l in smap:
        if l not in sizes:
            order.append(l); sizes[l] = 0
        sizes[l] += 1
    return [sizes[l] for l in order]


def random_projection(rng, sizes):
    """admissible target (as shape) for population chromosome counts 2*size"""
    shape = [rng.randrange(1, 2 * s + 2) for s in sizes]
    if rng.random() < 0.3:
        shape = [2 * rng.randrange(0, s + 1) + 1 for s in sizes]
        return ("i", [(m - 1) // 2 for m in shape]) if rng.random() < 0.5 else ("s", shape)
    return ("s", shape)
