"""C19 - array, axis-view and iterator API invariants: correspondence of the proved model
(Properties/C19.v) with sfs-core's Array API, exhaustive over small shapes."""
import itertools
import random
import sys

from common import compare_cases, standard_main

RULE = ("shapes enumerated exhaustively within the tier's bound (quick: 1..5 axes with lengths 1..3, 1..3 axes with "
        "lengths 1..5, plus a seeded sample of the remaining shapes with lengths<=5; thorough: all 3905 shapes with 1..5 "
        "axes and lengths 1..5); per shape: iter_indices history (elements+3 calls, len interleaved), every axis 0..d+1 x "
        "every position 0..len (in and out of range) view-iterator history continued 3 calls past exhaustion, iter_axis "
        "history, get AND get_mut (with a write through it: exactly that position changes) at every in-range index of small shapes plus out-of-range (up to two past the end) / wrong-length indices, sum along every "
        "axis; debug build (thorough: also release). non-trivial = model output contains at least one yielded item; View::to_array of every axis view: shape, data, get at every index, views of the copy; histories continued on a clone of a partly consumed view iterator, along every axis; Iterator::last and count on the view iterator at every position of a history; count / last / for_each on the axis iterator in and out of range; Array::new and get with axis lengths anywhere in usize (wrapping products, zero-length axes beside huge ones) against the 64-bit model of Word.v")


def fmt(l):
    return ",".join(map(str, l)) if l else "-"


def elements(sh):
    n = 1
    for x in sh:
        n *= x
    return n


def shapes_for(tier, rng):
    allsh = [sh for d in range(1, 6) for sh in itertools.product(range(1, 6), repeat=d)]
    if tier == "thorough":
        return allsh, True
    base = [sh for d in range(1, 6) for sh in itertools.product(range(1, 4), repeat=d)]
    base += [sh for d in range(1, 4) for sh in itertools.product(range(1, 6), repeat=d)]
    base = list(dict.fromkeys(base))
    rest = [sh for sh in allsh if sh not in set(base)]
    return base + rng.sample(rest, 60), False


def cases_for_shape(sh, rng, small):
    d = len(sh)
    E = elements(sh)
    cs = []
    cs.append("indices %s %d" % (fmt(sh), E + 3))
    for a in range(d + 2):
        n = sh[a] if a < d else 0
        cs.append("axisiter %s %d %d" % (fmt(sh), a, n + 3))
        for i in range(n + 2):
            Ev = E // sh[a] if a < d else 0
            cs.append("view %s %d %d %d" % (fmt(sh), a, i, Ev + 3))
            cs.append("getaxis %s %d %d" % (fmt(sh), a, i))
    # the provided methods of Iterator on the AXIS iterator (count, last, for_each - everything that runs through fold), after
    # 0..len+1 calls of next, for every axis in range and two out of range (an axis the array does not have has no views)
    if E <= 400:
        for a in range(d + 2):
            n = sh[a] if a < d else 0
            for k_ in sorted(set([0, 1, n // 2, n, n + 1])):
                for what in ("count", "last", "foreach"):
                    cs.append("axisfold %s %d %d %s" % (fmt(sh), a, k_, what))
    # View::to_array: the owned copy of every axis view (and of the positions one past the end: no view) indexes like an
    # array of the remaining axes (Proofs/ToArrayP.v) and has views of its own
    if E <= 400:
        for a in range(d + 1):
            for i in range((sh[a] if a < d else 0) + 1):
                cs.append("toarray %s %d %d" % (fmt(sh), a, i))
    if a_small(E, small):
        for idx in itertools.product(*[range(n + 1) for n in sh]):
            cs.append("get %s %s" % (fmt(sh), fmt(idx)))
    else:
        for _ in range(12):
            idx = [rng.randrange(n + 1) for n in sh]
            cs.append("get %s %s" % (fmt(sh), fmt(idx)))
    # the mutable path (get_mut / IndexMut) must address exactly what the shared path addresses: same cases, and indices up
    # to two past the end on each axis (a stride-weighted sum that still falls inside the data must not be accepted)
    cs += [c.replace("get ", "getmut ", 1) for c in cs if c.startswith("get ")]
    if a_small(E, small) and d <= 3:
        for idx in itertools.product(*[range(n + 3) for n in sh]):
            cs.append("getmut %s %s" % (fmt(sh), fmt(idx)))
    # coordinates at the far end of usize (the flat position must not even be computed before the bounds are checked)
    for big in (2**63 - 1, 2**63, 2**64 - 2, 2**64 - 1):
        for ax in range(d):
            for rest in (0, 1):
                idx = [min(rest * (n - 1), n - 1) for n in sh]; idx[ax] = big
                cs.append("get %s %s" % (fmt(sh), fmt(idx)))
                cs.append("getmut %s %s" % (fmt(sh), fmt(idx)))
    cs.append("getmut %s %s" % (fmt(sh), fmt(sh[:-1])))
    cs.append("getmut %s %s" % (fmt(sh), fmt(list(sh) + [0])))
    cs.append("get %s %s" % (fmt(sh), fmt(sh[:-1])))            # too short
    cs.append("get %s %s" % (fmt(sh), fmt(list(sh) + [0])))     # too long
    cs.append("get %s %s" % (fmt(sh), fmt([0] * d)))
    cs.append("get %s %s" % (fmt(sh), fmt([n - 1 for n in sh])))
    # call histories that mix next() with nth(k) (skip, step_by and nth itself all arrive as nth): relative to where the
    # iterator stands, never to the start
    for _ in range(3):
        ops = [rng.choice(["x", "x", "0", "1", "2", "3", str(rng.randrange(0, E + 2))]) for _ in range(rng.randrange(3, 9))]
        cs.append("indiceshist %s %s" % (fmt(sh), ",".join(ops)))
        a_ = rng.randrange(d); i_ = rng.randrange(sh[a_])
        cs.append("viewhist %s %d %d %s" % (fmt(sh), a_, i_, ",".join(ops)))
    # ... and histories that go on with a CLONE of a partly consumed view iterator ("c"), along every axis: the clone stands
    # where the original stood
    for a_ in range(d):
        Ev = E // sh[a_]
        for ncons in sorted(set([0, 1, 2, 3, Ev // 2, max(0, Ev - 1)])):
            if ncons <= Ev:
                cs.append("viewhist %s %d %d %s" % (fmt(sh), a_, rng.randrange(sh[a_]), ",".join(["x"] * ncons + ["c"] + ["x"] * (Ev - ncons + 2))))
        cs.append("viewhist %s %d %d %s" % (fmt(sh), a_, rng.randrange(sh[a_]), ",".join(rng.choice(["x", "x", "c", "1", "0"]) for _ in range(min(Ev + 3, 14)))))
        # the provided methods of Iterator that the view iterator could override (last, count), asked at every position of a
        # history, for every position along the axis: they speak of the items still to come
        for i_ in range(sh[a_]):
            cs.append("viewhist %s %d %d %s" % (fmt(sh), a_, i_, ",".join(["l", "n"] + [y for _ in range(min(Ev + 1, 6)) for y in ("x", "l", "n")])))
    cs.append("indiceshist %s %s" % (fmt(sh), ",".join(["1"] * (E // 2 + 3))))          # step_by(2)
    for a in range(d):
        data = [rng.randrange(-50, 50) for _ in range(E)]
        cs.append("sum %s %d %s" % (fmt(sh), a, fmt(data)))
    return cs


def a_small(E, small):
    return E <= (400 if small else 130)


def nontrivial(case, out):
    return any(t[0] in "SVI" for t in out.split()) or out.startswith("Some") or (case.startswith("sum") and "," in out)


def classify(case, m, i):
    return "array-api:" + case.split()[0]


def zero_axis_cases():
    """arrays with an axis of length zero (no elements): requests in and out of range answer None / an empty view / nothing to
    iterate - they do not panic (F26: get_axis sliced the empty data at a non-zero offset)"""
    cs = []
    for sh in ([0], [0, 3], [3, 0], [2, 0, 2], [0, 0], [4, 1, 0], [0, 2, 5]):
        d = len(sh)
        cs.append("indices %s 3" % fmt(sh))
        cs.append("get %s %s" % (fmt(sh), fmt([0] * d)))
        cs.append("getmut %s %s" % (fmt(sh), fmt([0] * d)))
        for a in range(d + 1):
            n = sh[a] if a < d else 0
            cs.append("axisiter %s %d %d" % (fmt(sh), a, n + 2))
            for what in ("count", "last", "foreach"):
                cs.append("axisfold %s %d 0 %s" % (fmt(sh), a, what))
            for i in range(n + 1):
                cs.append("getaxis %s %d %d" % (fmt(sh), a, i))
                cs.append("view %s %d %d 2" % (fmt(sh), a, i))
                cs.append("toarray %s %d %d" % (fmt(sh), a, i))
            if a < d:
                cs.append("sum %s %d -" % (fmt(sh), a))
    # ... and empty arrays whose other axes are as long as usize allows: their strides saturate (F22), and the start of an axis
    # view, `index * stride`, must not be computed in a way that overflows (F27) - the view exists and is empty
    M = 2**64 - 1
    for sh in ([0, 3, M], [0, 3, M, M], [3, 0, M, M], [2, 0, M, 3], [0, M], [0, 2, 2**63], [0, 2**32, 2**32], [1, 0, 4, M, 2], [0, 5, 2**62, 4], [1, M, 0], [M, 0], [2**63, 0, 2], [1, 1, M, 0, 7]):
        d = len(sh)
        cs.append("indices %s 2" % fmt(sh))
        cs.append("get %s %s" % (fmt(sh), fmt([0] * d)))
        cs.append("getmut %s %s" % (fmt(sh), fmt([max(n - 1, 0) for n in sh])))
        for a in range(d + 1):
            n = sh[a] if a < d else 0
            if n <= 8:
                cs.append("axisiter %s %d %d" % (fmt(sh), a, n + 2))
                for what in ("count", "last", "foreach"):
                    cs.append("axisfold %s %d 0 %s" % (fmt(sh), a, what))
            for i in sorted(set([0, 1, 2, n // 2, max(n - 1, 0), n])):
                cs.append("getaxis %s %d %d" % (fmt(sh), a, i))
                cs.append("view %s %d %d 2" % (fmt(sh), a, i))
    return cs


def word_cases(rng, tier):
    """the 64-bit layer (Model/Word.v, Proofs/WordP.v): Array::new with axis lengths anywhere in usize - products that wrap to
    the data length or to zero, prefix products that overflow before a zero-length axis, zero-length axes beside huge ones
    (strides saturate) - and get on what was accepted, at indices in range, one past the end and at the far end of usize"""
    M = 2**64
    cs = []
    def probes(sh):
        d = len(sh)
        ps = [[0] * d, [max(n - 1, 0) for n in sh], list(sh), [M - 1] * d, [0] * (d + 1), [0] * max(d - 1, 0)]
        for _ in range(4):
            ps.append([rng.randrange(n + 1) if n < 2**32 else rng.choice([0, n - 1, n // 2]) for n in sh])
        return ";".join(fmt(p) for p in ps)
    # accepted, small: the word-level computation is the row-major position
    for d in range(1, 5):
        for _ in range(6 if tier == "quick" else 40):
            sh = [rng.randrange(1, 6) for _ in range(d)]
            cs.append("wnew %d %s %s" % (elements(sh), fmt(sh), probes(sh)))
            cs.append("wnew %d %s %s" % (elements(sh) + rng.choice([-1, 1]), fmt(sh), probes(sh)))
    # wrapped products: the true product is k * 2^64 + len
    for sh in ([2**32, 2**32], [2**63, 2], [2**16, 2**16, 2**16, 2**16], [2**32 + 1, 2**32 - 1], [2**63 + 1, 2], [3, 6148914691236517206],
               [M - 1, M - 1], [2**32, 2**32, 7], [7, 2**32, 2**32], [2**21] * 3 + [2], [M - 1, 2], [2, M - 1], [M - 1]):
        true = elements(sh)
        for ln in sorted(set([0, 1, true % M, (true % M) + 1, 7])):
            if ln <= 4096:
                cs.append("wnew %d %s %s" % (ln, fmt(sh), probes(sh)))
    # zero-length axes beside huge ones: accepted (no elements) when the product BEFORE the zero fits; strides saturate
    for sh in ([0, M - 1, 2], [0, M - 1, M - 1, M - 1], [2, 0, M - 1, 3], [M - 1, 0], [M - 1, 0, M - 1], [2**63, 4, 0], [2**63, 2, 0],
               [2**32, 2**32, 0], [2**32, 2**31, 0, 2**40, 2**40], [0, 2**63, 2, 2], [1, 0, M - 1, M - 1], [0], [0, 0], [5, 0, 5]):
        for ln in (0, 1):
            cs.append("wnew %d %s %s" % (ln, fmt(sh), probes(sh)))
    # one long axis beside short ones: in range, no data of that size is needed when an axis is zero ... and real data when small
    for sh in ([1, 1, 1000], [1000, 1, 1], [10, 10, 10], [1, 4096], [64, 64]):
        cs.append("wnew %d %s %s" % (elements(sh), fmt(sh), probes(sh)))
    return cs


def check(rep, tier, seed):
    rng = random.Random(seed)
    shapes, exhaustive = shapes_for(tier, rng)
    rep.coverage["exhaustive"] = exhaustive
    rep.coverage["shapes"] = len(shapes)
    cases = []
    for sh in shapes:
        cases += cases_for_shape(sh, rng, tier == "thorough")
    compare_cases(rep, "array-api", cases, nontrivial=nontrivial, classify=classify, spec=True,
                  both_builds=(tier == "thorough"))
    # "arrays of every shape": shapes with an axis of length zero, too (outside the theorems' positive_shape, inside the
    # property's statement - the executable model answers, the implementation must not panic and must agree)
    compare_cases(rep, "array-api-zero-length-axis", zero_axis_cases(), nontrivial=lambda c, m: True, classify=lambda c, m, i: "array:zero-length-axis" + (":panic" if "PANIC" in i else ""), spec=True,
                  both_builds=(tier == "thorough"))
    # the machine-word layer under the unbounded model (WordP.v: on every accepted array the 64-bit computation never
    # overflows and is the model's flat index)
    compare_cases(rep, "array-word-layer", word_cases(rng, tier), nontrivial=lambda c, m: m.startswith("Ok"),
                  classify=lambda c, m, i: "array:word-layer" + (":panic" if "PANIC" in i else ""), spec=True, both_builds=(tier == "thorough"))
    rep.assumptions += ["the theorems carry positive_shape (axis lengths >= 1); zero-length axes are exercised against the executable model only",
                        "element values are the row-major ramp (identifies positions) or small integers (sum), exact in f64"]


if __name__ == "__main__":
    sys.exit(standard_main("C19", check, sys.argv[1:], RULE))
