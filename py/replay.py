"""bin/check replay <Cxx> <path>: re-run the recorded case on the current tree (model and
implementation) and print both observations."""
import json
import sys
from common import build_driver, build_impl, run_model, run_impl, sfs_path

pid, path = sys.argv[1], sys.argv[2]
d = json.load(open(path))
print("property:", pid)
print("kind:", d.get("kind"), "| class:", d.get("cls"))
print("detail:", d.get("detail"))
case = d.get("case")
if d.get("argv"):
    import subprocess
    build_impl(release=False, cli=True)
    argv = [sfs_path()] + d["argv"][1:]
    stdin = bytes.fromhex(d["stdin_hex"]) if d.get("stdin_hex") else (d.get("stdin", "").encode())
    if d.get("first_write") and str(d.get("first_write")) != "None":
        # stdin as a pipe whose first write carries only the first bytes
        import time
        fw = int(d["first_write"])
        q = subprocess.Popen(argv, stdin=subprocess.PIPE, stdout=subprocess.PIPE, stderr=subprocess.PIPE)
        try:
            q.stdin.write(stdin[:fw]); q.stdin.flush(); time.sleep(0.5); q.stdin.write(stdin[fw:])
        except OSError:
            pass
        p = subprocess.CompletedProcess(argv, 0)
        try:
            p.stdout, p.stderr = q.communicate()
        except Exception:
            p.stdout, p.stderr = b"", b""
        p.returncode = q.returncode
        print("stdin delivered as a first write of %d bytes, then the rest" % fw)
    elif d.get("cpus") and str(d.get("cpus")) != "None":
        import os
        cp = set(sorted(os.sched_getaffinity(0))[:int(d["cpus"])])
        print("process confined to %d cpu(s)" % len(cp))
        p = subprocess.run(argv, input=stdin, capture_output=True, preexec_fn=lambda: os.sched_setaffinity(0, cp))
    else:
        p = subprocess.run(argv, input=stdin, capture_output=True)
    print("argv:", argv)
    print("exit:", p.returncode)
    print("stdout:", p.stdout[:2000])
    print("stderr:", p.stderr[:2000])
    print("expected:", d.get("expected"))
elif isinstance(case, str):
    build_driver(); build_impl(release=False, cli=False)
    print("case:", case)
    print("model   :", run_model([case])[0])
    print("impl    :", run_impl([case])[0])
    print("recorded expected:", d.get("expected"))
    print("recorded observed:", d.get("observed"))
else:
    print(json.dumps(d, indent=1)[:4000])
