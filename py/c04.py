"""C04 - marginalization: correspondence of the proved model (Properties/C04.v) with Spectrum::marginalize and
the `view -m/-M` CLI, plus order-independence / one-at-a-time on the implementation."""
import itertools
import random
import sys
from fractions import Fraction

from common import (compare_cases, standard_main, run_impl, run_model, parse_value, run_cli_many,
                    parse_text_spectrum, text_spectrum, frac_to_dec)

RULE = ("shapes with 1..5 axes and lengths 1..6 (unequal preferred) with product <= bound (quick 150 + seeded sample up "
        "to 600; thorough 600 = all) x every subset of axes in every order (permutations capped at 24 per subset for 5 "
        "axes) plus duplicate / out-of-range / all-axes requests; random integer data (exact in f64, no ramp masking); "
        "exact comparison with the model; on the implementation: joint = one-at-a-time with renumbering, and every "
        "order gives identical output; CLI -m / -M on text input for a slice. non-trivial = a successful marginalization "
        "of >= 1 axis; spectra of 65-130 axes with -m / -M lists naming axes 63, 64, 65 and beyond, and entries of 2^32 and more; out-of-range axes first / in the middle of lists on 3- and 4-axis spectra")


def fmt(l):
    return ",".join(map(str, l)) if l else "-"


def elements(sh):
    n = 1
    for x in sh:
        n *= x
    return n


def shapes_for(tier, rng):
    allsh = [sh for d in range(1, 6) for sh in itertools.product(range(1, 7), repeat=d) if elements(sh) <= 600]
    if tier == "thorough":
        return allsh, True
    small = [sh for sh in allsh if elements(sh) <= 150 and (len(sh) <= 3 or max(sh) <= 3)]
    rest = [sh for sh in allsh if sh not in set(small)]
    return small + rng.sample(rest, 80), False


def axis_requests(d, rng):
    reqs = []
    for r in range(1, d + 1):
        for sub in itertools.combinations(range(d), r):
            perms = list(itertools.permutations(sub))
            if len(perms) > 24:
                perms = [perms[0]] + rng.sample(perms[1:], 5)
            elif d >= 4 and len(perms) > 6:
                perms = [perms[0], perms[-1]] + rng.sample(perms[1:-1], 2)
            reqs += [list(p) for p in perms]
    reqs.append([0, 0]); reqs.append([d]); reqs.append([d - 1, d + 3]); reqs.append([d, d]); reqs.append(list(range(d)) + [0])
    if d >= 2:
        reqs.append([1, 0, 1])
    return reqs


def check(rep, tier, seed):
    rng = random.Random(seed)
    shapes, exhaustive = shapes_for(tier, rng)
    rep.coverage["exhaustive"] = exhaustive
    rep.coverage["shapes"] = len(shapes)
    cases, meta = [], []
    for sh in shapes:
        d = len(sh)
        pz = rng.choice([0.0, 0.0, 0.6])
        data = [0 if rng.random() < pz else rng.randrange(-99, 1000) for _ in range(elements(sh))]
        for axes in axis_requests(d, rng):
            cases.append("marg %s %s %s" % (fmt(sh), fmt(data), fmt(axes)))
            meta.append((sh, data, axes))
    mo, outs = compare_cases(rep, "marginalize-vs-model", cases, nontrivial=lambda c, m: m.startswith("OK"),
                             classify=lambda c, m, i: "marginalize:model-disagreement", spec=True,
                             both_builds=(tier == "thorough"))
    impl = dict(zip(dict.fromkeys(cases), outs[False]))

    # entries that are not ordinary numbers: subnormal values (sums of them are exact: oracle on the bit patterns) ...
    sub = []
    for sh in [s_ for s_ in shapes if 2 <= len(s_) <= 3 and elements(s_) <= 30][:: 9]:
        ks = [rng.randrange(0, 500) for _ in range(elements(sh))]          # value k * 2^-1074: the bit pattern is k itself
        for a in range(len(sh)):
            sub.append((sh, ks, a))
    so_s = run_impl(["marg %s %s %d" % (fmt(sh), ",".join("0x%016x" % k for k in ks), a) for sh, ks, a in sub])
    for (sh, ks, a), o in zip(sub, so_s):
        rep.count("marginalize-subnormal", "%s axis %d" % (fmt(sh), a), True)
        want = {}
        for idx, k in zip(itertools.product(*[range(n) for n in sh]), ks):
            key = idx[:a] + idx[a + 1:]
            want[key] = want.get(key, 0) + k
        wl = ["0x%016x" % want[k_] for k_ in itertools.product(*[range(n) for j_, n in enumerate(sh) if j_ != a])]
        t = o.split()
        if len(t) != 3 or t[0] != "OK" or t[2].split(",") != wl:
            rep.fail(kind="property-oracle", cls="marginalize:subnormal", case="marg %s axis %d, subnormal values k*2^-1074 with k = %s" % (fmt(sh), a, ks), observed=o[:300],
                     expected="OK ... " + ",".join(wl)[:250], detail="subnormal entries are numbers like any other: the marginal is their exact sum")
    # ... and infinities / NaN, which a sum must carry along (oracle: the same sums in IEEE arithmetic on integers)
    import math
    spec = []
    for sh in ([2, 3], [3, 2, 2], [2, 2, 3], [4, 3]):
        for _ in range(4):
            vals = [float(rng.randrange(0, 50)) for _ in range(elements(sh))]
            for k_ in rng.sample(range(len(vals)), 2):
                vals[k_] = rng.choice([math.inf, -math.inf, math.nan, math.inf])
            for a in range(len(sh)):
                spec.append((sh, vals, a))
    so_ = run_impl(["marg %s %s %d" % (fmt(sh), ",".join("inf" if v == math.inf else "-inf" if v == -math.inf else "nan" if v != v else str(int(v)) for v in vals), a) for sh, vals, a in spec])
    for (sh, vals, a), o in zip(spec, so_):
        rep.count("marginalize-nonfinite", "%s axis %d" % (fmt(sh), a), True)
        idxs = list(itertools.product(*[range(n) for n in sh]))
        want = {}
        for idx, v in zip(idxs, vals):
            key = idx[:a] + idx[a + 1:]
            want[key] = want.get(key, 0.0) + v
        wl = [want[k_] for k_ in itertools.product(*[range(n) for j, n in enumerate(sh) if j != a])]
        t = o.split()
        got = [float(parse_value(x)) if not isinstance(parse_value(x), str) else float(parse_value(x)) for x in t[2].split(",")] if len(t) == 3 and t[0] == "OK" else None
        same = got is not None and len(got) == len(wl) and all((g != g and w != w) or g == w for g, w in zip(got, wl))
        if not same:
            rep.fail(kind="property-oracle", cls="marginalize:nonfinite", case="marg %s axis %d values %s" % (fmt(sh), a, vals), observed=o[:300], expected=str(wl)[:300],
                     detail="a marginal cell must be the IEEE sum of its entries: infinities and NaN are carried along, not dropped")

    # the same spectra against the extended-value model (Model/Ext.v, theorems C04_ext_*), one axis and two axes at once
    tokv = lambda v: "inf" if v == math.inf else "-inf" if v == -math.inf else "nan" if v != v else str(int(v))
    ext_cases = ["marg %s %s %d" % (fmt(sh), ",".join(tokv(v) for v in vals), a) for sh, vals, a in spec]
    ext_cases += ["marg %s %s %s" % (fmt(sh), ",".join(tokv(v) for v in vals), ax) for sh, vals, a in spec if len(sh) == 3 and a == 0 for ax in ("0,2", "2,1", "1,1", "0,3")]
    compare_cases(rep, "marginalize-nonfinite-vs-model", ext_cases, classify=lambda c, m, i: "marginalize:nonfinite")

    # one at a time on the implementation: remove axes[0], renumber, continue
    chain_cases = []
    for sh, data, axes in meta:
        if len(set(axes)) == len(axes) and all(a < len(sh) for a in axes) and 1 < len(axes) < len(sh):
            chain_cases.append((sh, data, axes))
    chain_cases = chain_cases if tier == "thorough" else rng.sample(chain_cases, min(len(chain_cases), 1500))
    cur = [(list(sh), [str(x) for x in data], list(axes)) for sh, data, axes in chain_cases]
    alive = list(range(len(cur)))
    while alive:
        step = ["marg %s %s %s" % (fmt(cur[j][0]), ",".join(cur[j][1]), cur[j][2][0]) for j in alive]
        o = run_impl(step)
        nxt = []
        for j, line in zip(alive, o):
            parts = line.split()
            if parts[0] != "OK":
                sh, data, axes = chain_cases[j]
                rep.fail(kind="property-oracle", cls="marginalize:one-at-a-time", case="marg %s %s %s" % (fmt(sh), fmt(data), fmt(axes)),
                         observed=line, expected="OK", detail="single-axis removal failed in a valid chain")
                continue
            a = cur[j][2][0]
            rest = [b - 1 if b > a else b for b in cur[j][2][1:]]
            cur[j] = ([int(x) for x in parts[1].split(",")], parts[2].split(","), rest)
            if rest:
                nxt.append(j)
        alive = nxt
    for j, (sh, data, axes) in enumerate(chain_cases):
        c = "marg %s %s %s" % (fmt(sh), fmt(data), fmt(axes))
        rep.count("one-at-a-time", c, True)
        joint = impl.get(c, "").split()
        if len(joint) == 3 and joint[0] == "OK":
            got = ("OK", fmt(cur[j][0]), ",".join(cur[j][1]))
            if tuple(joint) != got:
                rep.fail(kind="property-oracle", cls="marginalize:one-at-a-time", case=c, observed=" ".join(got), expected=" ".join(joint),
                         detail="removing the axes one at a time (with renumbering) differs from removing them jointly")
    # order independence on the implementation
    groups = {}
    for (sh, data, axes), c in zip(meta, cases):
        if len(set(axes)) == len(axes):
            groups.setdefault((sh, tuple(sorted(axes))), []).append(c)
    for key, cs in groups.items():
        outs_set = {impl.get(c) for c in cs}
        rep.count("order-independence", cs[0], len(cs) > 1, n=len(cs))
        if len(outs_set) > 1:
            rep.fail(kind="property-oracle", cls="marginalize:order", case=cs[0], observed=sorted(outs_set)[:2], expected="identical output for every order",
                     detail="the result depends on the order in which the axes are named: %s" % cs[:3])
    # mass
    for (sh, data, axes), c in zip(meta, cases):
        o = impl.get(c, "").split()
        if len(o) == 3 and o[0] == "OK":
            tot = sum(parse_value(t) for t in o[2].split(","))
            if tot != sum(data):
                rep.fail(kind="property-oracle", cls="marginalize:mass", case=c, observed=str(tot), expected=str(sum(data)),
                         detail="total mass changed")

    # CLI: -m and -M
    jobs, exp_cases, metas = [], [], []
    pool = [(sh, data) for sh, data, axes in meta if len(sh) >= 2]
    seen = set()
    for sh, data in pool:
        if sh in seen:
            continue
        seen.add(sh)
        if len(seen) > (25 if tier == "quick" else 150):
            break
        d = len(sh)
        ints = [str(abs(x)) for x in data]
        subs = [list(s) for r in range(1, d) for s in itertools.combinations(range(d), r)]
        for sub in rng.sample(subs, min(3, len(subs))):
            order = sub[:]; rng.shuffle(order)
            keep = [i for i in range(d) if i not in sub]; rng.shuffle(keep)
            jobs.append((["view", "-m", ",".join(map(str, order)), "--precision", "1"], text_spectrum(sh, ints)))
            jobs.append((["view", "-M", ",".join(map(str, keep)), "--precision", "1"], text_spectrum(sh, ints)))
            exp_cases += ["marg %s %s %s" % (fmt(sh), ",".join(ints), fmt(order))] * 2
    # keep-lists with an axis named twice or an axis the spectrum does not have (as many entries as axes, or not)
    for sh, data in list(pool)[:8 if tier == "quick" else 60]:
        d = len(sh)
        ints = [str(abs(x)) for x in data]
        a = rng.randrange(d)
        for kl in ([a] * d, [a, a], [a, d + 3] + [a] * (d - 2), list(range(d)) + [0], [a] + [rng.randrange(d) for _ in range(d - 1)]):
            jobs.append((["view", "-M", ",".join(map(str, kl)), "--precision", "1"], text_spectrum(sh, ints)))
            exp_cases.append("viewrun k:%s - 0 0 %s %s" % (fmt(kl), fmt(sh), ",".join(ints)))
    # long axes (129, 131, 201, 257 entries: a population of 64, 65, 100, 128 diploids) removed and kept: every slice along the
    # removed axis enters the sum, the last one included
    for sh in ([129, 3], [3, 131], [2, 201, 3], [130, 2], [128, 3], [257, 2], [2, 255]):
        ints = [str(rng.randrange(0, 50)) for _ in range(elements(sh))]
        for ml in [[a_] for a_ in range(len(sh))] + ([[2, 1], [0, 1]] if len(sh) == 3 else []):
            jobs.append((["view", "-m", ",".join(map(str, ml)), "--precision", "1"], text_spectrum(sh, ints)))
            exp_cases.append("marg %s %s %s" % (fmt(sh), ",".join(ints), fmt(ml)))
    # many axes (more than the 64 bits of a machine word; most of length one): -m / -M lists naming axes 63, 64, 65 and beyond,
    # kept and removed, and keep-list entries far outside the spectrum (2^32, 2^32 + 1: they name no axis and keep none)
    for nax in (65, 66, 70, 130):
        sh = [1] * nax
        for a_, n_ in ((0, 2), (3, 3), (nax - 2, 3), (nax - 1, 2), (63 if nax > 64 else 5, 2)):
            sh[a_] = n_
        ints = [str(rng.randrange(0, 50)) for _ in range(elements(sh))]
        for kl in ([0, nax - 2], [nax - 2, 0], [64, 3], [nax - 1], [63, 64, 65], [3, 2**32 + 3], [2**32, 0], [nax - 2, nax - 1, 2**32 + nax - 1]):
            jobs.append((["view", "-M", ",".join(map(str, kl)), "--precision", "1"], text_spectrum(sh, ints)))
            exp_cases.append("viewrun k:%s - 0 0 %s %s" % (fmt(kl), fmt(sh), ",".join(ints)))
        for ml in ([i for i in range(nax) if i not in (0, nax - 2)], [nax - 1, 64, 1], list(range(1, nax))):
            jobs.append((["view", "-m", ",".join(map(str, ml)), "--precision", "1"], text_spectrum(sh, ints)))
            exp_cases.append("marg %s %s %s" % (fmt(sh), ",".join(ints), fmt(ml)))
    # inadmissible lists through the binary: an axis named twice (adjacent or not), out of range, all axes, too many
    deep = [p_ for p_ in pool if len(p_[0]) == 3][:5] + [p_ for p_ in pool if len(p_[0]) >= 4][:5]        # lists shorter than the number of axes need 3, 4 axes
    for sh, data in list(pool)[:8 if tier == "quick" else 60] + deep:
        d = len(sh)
        ints = [str(abs(x)) for x in data]
        a, b = (rng.sample(range(d), 2) if d >= 2 else (0, 0))
        # (an axis the spectrum does not have in the first, a middle and the last place of the list)
        for ml in ([a, a], [a, b, a], [b, a, a], [d], [a, d + 2], [d + 2, a], [d, a], [d + 5, b, a], [a, d + 1, b], list(range(d)), list(range(d)) + [a]):
            jobs.append((["view", "-m", ",".join(map(str, ml)), "--precision", "1"], text_spectrum(sh, ints)))
            exp_cases.append("marg %s %s %s" % (fmt(sh), ",".join(ints), fmt(ml)))
    mo2 = run_model(exp_cases)
    res = run_cli_many(jobs)
    for job, (rc, so, se), m in zip(jobs, res, mo2):
        if not m.startswith("OK"):
            rep.count("marginalize-cli-rejects", " ".join(job[0]), True)
            if rc == 0 or so != b"" or rc == 101:
                rep.fail(kind="cli-vs-model", cls="marginalize:cli-error-expected", argv=["sfs"] + job[0], stdin=job[1].decode(), case=None,
                         observed={"rc": rc, "stdout": so.decode(errors="replace")[:300]}, expected=m[:200],
                         detail="an inadmissible marginalization list (the model gives %s) must be rejected with an error and no output" % m[:60])
            continue
        case = {"argv": ["sfs"] + job[0], "stdin": job[1].decode()}
        rep.count("marginalize-cli", str(case["argv"]) + case["stdin"], True)
        parsed = parse_text_spectrum(so)
        e = m.split()
        ok = rc == 0 and parsed is not None and e[0] == "OK" and parsed[0] == [int(x) for x in e[1].split(",")] and \
            len(parsed[1]) == len(e[2].split(",")) and all(frac_to_dec(t) == Fraction(x) for t, x in zip(parsed[1], e[2].split(",")))
        if not ok:
            rep.fail(kind="cli-vs-model", cls="marginalize:cli", argv=case["argv"], stdin=case["stdin"], case=None,
                     observed={"rc": rc, "stdout": so.decode(errors="replace")[:400], "stderr": se.decode(errors="replace")[:300]},
                     expected=m, detail="sfs view -m/-M output differs from the proved model's value")
    rep.assumptions += ["integer data: f64 sums are exact, so the exact-arithmetic model must agree bit for bit",
                        "the create/marginalize relation of C04 is checked by the create checks (C01) on call sets"]


if __name__ == "__main__":
    sys.exit(standard_main("C04", check, sys.argv[1:], RULE, needs_cli=True))
