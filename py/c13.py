"""C13 - view = marginalize > project > mask > normalize: combined invocation vs chained single-option invocations through
lossless npy pipes (byte-identical), the proved model of the pipeline (within tolerance), mask / normalize oracles."""
import itertools
import random
import sys
from fractions import Fraction

from common import standard_main, run_cli_many, run_model, parse_text_spectrum, text_spectrum, frac_to_dec, is_panic

TOL = Fraction(1, 10**9)
RULE = ("random spectra (integer counts, 40% zeros, fractional values with a total below one, already-normalised input) with 1-4 axes (lengths 2-5) x ALL 16 option subsets {marginalize, project, mask, "
        "normalize} with an admissible random marginalization set (-m or -M) and projection target for the intermediate "
        "shape: (1) the combined `sfs view` call vs piping through single-option calls (-O npy between steps, text at the "
        "end): stdout must be byte-identical; (2) the combined call vs the model's view_run within 0.5e-6 + 1e-9*sum; (3) "
        "`--mask-monomorphic` alone zeroes exactly the first and last entry; `--normalize` alone sums to one within 1e-9 "
        "and preserves ratios; no options reproduces the input text. non-trivial = at least two options set; the projection target spelled --project-shape, -p / --project-individuals, with '=' attached; spectra of 65539, 2^20+5 and 1025x1025 entries through view, directly and via npy; exact decimal rounding of values next to ties and of normalised counts")


def fmt(l):
    return ",".join(map(str, l)) if l else "-"


def elements(sh):
    n = 1
    for x in sh:
        n *= x
    return n


def check(rep, tier, seed):
    rng = random.Random(seed)
    jobs_comb, chains, mcases, metas = [], [], [], []
    nspec = 12 if tier == "quick" else 120
    for _ in range(nspec):
        d = rng.randrange(1, 5)
        sh = [rng.randrange(2, 6) for _ in range(d)]
        pz = rng.choice([0.0, 0.0, 0.4])
        # counts, and fractional spectra with totals below / around one (frequency-scale input, already normalised input)
        kind = rng.choice(["counts", "counts", "small", "unit", "signed"])
        if kind == "counts":
            data = ["0" if rng.random() < pz else str(rng.randrange(1, 300)) for _ in range(elements(sh))]
        elif kind == "signed":
            # differences of spectra: negative entries, a positive total
            data = [str(rng.randrange(-40, 60)) for _ in range(elements(sh))]
            data[0] = str(50 * elements(sh))
        elif kind == "small":
            data = ["0" if rng.random() < pz else "0.%04d" % rng.randrange(1, 400) for _ in range(elements(sh))]
        else:
            E = elements(sh)
            parts = [rng.randrange(1, 100) for _ in range(E)]
            data = ["%.6f" % (x / sum(parts)) for x in parts]
        if all(x == "0" for x in data):
            data[0] = "5"
        for subset in itertools.product([0, 1], repeat=4):
            um, up, uk, un = subset
            cur = list(sh)
            margarg, mm = [], "-"
            if um:
                if d == 1:
                    continue
                rem = sorted(rng.sample(range(d), rng.randrange(1, d)))
                if rng.random() < 0.5:
                    order = rem[:]; rng.shuffle(order)
                    margarg, mm = ["-m", ",".join(map(str, order))], "r:" + fmt(order)
                else:
                    keep = [i for i in range(d) if i not in rem]; rng.shuffle(keep)
                    margarg, mm = ["-M", ",".join(map(str, keep))], "k:" + fmt(keep)
                cur = [n for i, n in enumerate(cur) if i not in rem]
            projarg, pp = [], "-"
            if up:
                to = [rng.randrange(1, n + 1) for n in cur]
                projarg, pp = ["--project-shape", ",".join(map(str, to))], fmt(to)
                if rng.random() < 0.5:
                    # the other spellings of the same target: by individuals (shape 2i+1), long options, '=' attached
                    to = [m if m % 2 == 1 else (m - 1 if m > 1 else 1) for m in to]
                    ind = ",".join(str((m - 1) // 2) for m in to)
                    projarg, pp = rng.choice([["-p", ind], ["--project-individuals", ind], ["--project-individuals=" + ind], ["--project-shape=" + ",".join(map(str, to))]]), fmt(to)
            maskarg = ["--mask-monomorphic"] if uk else []
            normarg = ["--normalize"] if un else []
            inp = text_spectrum(sh, data)
            jobs_comb.append((["view"] + margarg + projarg + maskarg + normarg, inp))
            steps = [a for a in (margarg, projarg, maskarg, normarg) if a]
            chains.append(steps)
            mcases.append("viewrun %s %s %d %d %s %s" % (mm, pp, uk, un, fmt(sh), ",".join(data)))
            metas.append((sh, data, subset))
    comb = run_cli_many(jobs_comb)
    # chained: run level by level
    cur = [j[1] for j in jobs_comb]
    alive = [True] * len(chains)
    maxlen = max(len(c) for c in chains)
    for level in range(maxlen):
        idxs = [i for i, c in enumerate(chains) if alive[i] and len(c) > level]
        jobs = []
        for i in idxs:
            last = level == len(chains[i]) - 1
            jobs.append((["view"] + chains[i][level] + ([] if last else ["-O", "npy"]), cur[i]))
        for i, (rc, so, se) in zip(idxs, run_cli_many(jobs)):
            if rc != 0:
                alive[i] = False
                cur[i] = None
            else:
                cur[i] = so
    mo = run_model(mcases)
    for i, ((rc, so, se), job, m, (sh, data, subset)) in enumerate(zip(comb, jobs_comb, mo, metas)):
        case = " ".join(job[0]) + " <<< " + job[1].decode().replace("\n", " ")
        rep.count("view-pipeline", case[:300], sum(subset) >= 2)
        if is_panic(rc, se):
            rep.fail(kind="property-oracle", cls="view:panic", case=case[:300], argv=["sfs"] + job[0], stdin=job[1].decode(),
                     observed=se.decode(errors="replace")[-300:], expected="no panic", detail="panic")
            continue
        if len(chains[i]) == 0:
            chained = run_cli_many([(["view"], job[1])])[0][1]
        else:
            chained = cur[i]
        if rc == 0 and chained != so:
            rep.fail(kind="property-oracle", cls="view:chain", case=case[:300], argv=["sfs"] + job[0], stdin=job[1].decode(),
                     observed=so.decode(errors="replace")[:300], expected=(chained or b"<chain failed>").decode(errors="replace")[:300],
                     detail="combined view differs from chaining single-option invocations %s through npy pipes" % chains[i])
        zero_sum = m.startswith("OK") and subset[3] == 1 and all(Fraction(x) == 0 for x in m.split()[2].split(","))
        if zero_sum:
            rep.coverage["zero_sum_normalisations_skipped"] = rep.coverage.get("zero_sum_normalisations_skipped", 0) + 1
        if m.startswith("OK") and not zero_sum:
            e = m.split()
            parsed = parse_text_spectrum(so)
            sc = sum(Fraction(x) for x in data)
            ok = rc == 0 and parsed is not None and parsed[0] == [int(x) for x in e[1].split(",")] and len(parsed[1]) == len(e[2].split(","))
            if ok:
                for tok, x in zip(parsed[1], e[2].split(",")):
                    v = frac_to_dec(tok)
                    if isinstance(v, str) or abs(v - Fraction(x)) > Fraction(1, 2 * 10**6) + TOL * sc:
                        ok = False
            if not ok:
                rep.fail(kind="cli-vs-model", cls="view:model", case=case[:300], argv=["sfs"] + job[0], stdin=job[1].decode(),
                         observed={"rc": rc, "stdout": so.decode(errors="replace")[:300]}, expected=m[:300],
                         detail="sfs view differs from the proved model of the pipeline")
        if m.startswith("ERR") and (rc == 0 or so != b""):
            rep.fail(kind="cli-vs-model", cls="view:error-expected", case=case[:300], argv=["sfs"] + job[0], stdin=job[1].decode(),
                     observed={"rc": rc, "stdout": so.decode(errors="replace")[:300]}, expected=m[:100],
                     detail="the model rejects these options for this spectrum; sfs view must fail without output")
        # single-option oracles
        if subset == (0, 0, 1, 0) and rc == 0:
            p = parse_text_spectrum(so)
            f6 = lambda x: "%.6f" % float(x)
            want = ["0.000000"] + [f6(x) for x in data[1:-1]] + (["0.000000"] if len(data) > 1 else [])
            if p is None or p[1] != want:
                rep.fail(kind="property-oracle", cls="view:mask", case=case[:300], argv=["sfs"] + job[0], stdin=job[1].decode(),
                         observed=so.decode()[:300], expected=" ".join(want)[:300], detail="--mask-monomorphic must zero exactly the first and last entry")
        if subset == (0, 0, 0, 1) and rc == 0:
            jobs13 = run_cli_many([(["view", "--normalize", "--precision", "15"], job[1])])[0]
            p = parse_text_spectrum(jobs13[1])
            vals = [Fraction(t) for t in p[1]]
            tot = sum(Fraction(x) for x in data)
            if abs(sum(vals) - 1) > Fraction(1, 10**9) or any(abs(v - Fraction(x) / tot) > Fraction(1, 10**12) for v, x in zip(vals, data)):
                rep.fail(kind="property-oracle", cls="view:normalize", case=case[:300], argv=["sfs", "view", "--normalize", "--precision", "15"],
                         stdin=job[1].decode(), observed=jobs13[1].decode()[:300], expected="x / sum(x)", detail="--normalize must rescale to sum one preserving ratios")
        if subset == (0, 0, 0, 0) and rc == 0:
            want = text_spectrum(sh, ["%.6f" % float(x) for x in data])
            if so != want:
                rep.fail(kind="property-oracle", cls="view:identity", case=case[:300], argv=["sfs", "view"], stdin=job[1].decode(),
                         observed=so.decode()[:300], expected=want.decode()[:300], detail="view without options must reproduce its input")
    from common import invocation_variants
    invocation_variants(rep, "view:invocation-form", [j for j, (rc, so, se) in zip(jobs_comb, comb) if rc == 0], rng, n=10 if tier == "quick" else 80)
    # inadmissible option values: the pipeline must stop with an error, whatever else is asked for - axes named twice
    # (adjacent or not), out of range, all axes; targets larger than the source on one axis (also when the element count
    # happens to be the same: transposed shapes), of another dimensionality (same element count or not), zero
    bad_jobs, bad_cases = [], []
    for _ in range(10 if tier == "quick" else 100):
        d = rng.randrange(2, 5)
        sh = [rng.randrange(2, 6) for _ in range(d)]
        if len(set(sh)) == 1:
            sh[0] += 1
        data = [str(rng.randrange(0, 50)) for _ in range(elements(sh))]
        inp = text_spectrum(sh, data)
        a, b = rng.sample(range(d), 2)
        margs = [[a, a], [a, b, a], [d], [a, d + 3], list(range(d)), list(range(d)) + [0]]
        projs = [sh[::-1], sorted(sh), sorted(sh, reverse=True), [elements(sh)], sh[:-2] + [sh[-2] * sh[-1]], sh + [1], [0] * d, [n + 1 for n in sh],
                 [sh[0] + 1] + sh[1:], sh[:-1] + [0]]
        projs = [t for t in projs if t != sh]
        for ml in margs:
            for extra, ek, en in (([], 0, 0), (["--normalize"], 0, 1), (["--mask-monomorphic"], 1, 0)):
                bad_jobs.append((["view", "-m", ",".join(map(str, ml))] + extra, inp))
                bad_cases.append("viewrun r:%s - %d %d %s %s" % (fmt(ml), ek, en, fmt(sh), ",".join(data)))
        for to in projs:
            for extra, ek, en in (([], 0, 0), (["--mask-monomorphic", "--normalize"], 1, 1)):
                bad_jobs.append((["view", "--project-shape", ",".join(map(str, to))] + extra, inp))
                bad_cases.append("viewrun - %s %d %d %s %s" % (fmt(to), ek, en, fmt(sh), ",".join(data)))
    for job, (rc, so, se), m, mc in zip(bad_jobs, run_cli_many(bad_jobs), run_model(bad_cases), bad_cases):
        case = " ".join(job[0]) + " <<< " + job[1].decode().split("\n")[0]
        rep.count("view-inadmissible-options", case[:300], True)
        if not m.startswith("ERR"):
            # a generated target that happens to be admissible (e.g. a sorted shape equal to a valid reduction): compare as usual
            if m.startswith("OK") and rc != 0:
                rep.fail(kind="cli-vs-model", cls="view:model", case=case[:300], argv=["sfs"] + job[0], stdin=job[1].decode(), observed={"rc": rc}, expected=m[:200],
                         detail="the model accepts these options; sfs view failed")
            continue
        if is_panic(rc, se) or rc == 0 or so != b"":
            rep.fail(kind="cli-vs-model", cls="view:error-expected", case=case[:300], argv=["sfs"] + job[0], stdin=job[1].decode(),
                     observed={"rc": rc, "stdout": so.decode(errors="replace")[:300], "stderr": se.decode(errors="replace")[-200:]}, expected=m[:100],
                     detail="inadmissible marginalization list / projection target: sfs view must fail with a diagnostic and without output")
    # normalising divides by the TOTAL, whatever its sign: a spectrum with a negative total (differences of spectra) sums to
    # one afterwards and every entry changes sign; also when only the part left by --mask-monomorphic sums below zero
    njobs, nwant = [], []
    for shp_n, vals_n, extra_n in (([4], [-1, -2, -3, -2], []), ([2, 3], [5, -1, -3, -2, -2, 4], ["--mask-monomorphic"]), ([3], [2, -8, 2], []), ([2, 2], [-4, 1, 1, -6], ["--mask-monomorphic"]),
                                  ([5], [1, -3, -3, -3, 4], ["--project-shape", "3"])):
        njobs.append((["view"] + extra_n + ["--normalize", "--precision", "9"], text_spectrum(shp_n, list(map(str, vals_n)))))
        nwant.append("viewrun - %s %d 1 %s %s" % (extra_n[1] if "--project-shape" in extra_n else "-", 1 if "--mask-monomorphic" in extra_n else 0, ",".join(map(str, shp_n)), ",".join(map(str, vals_n))))
    for job, m, (rc, so, se) in zip(njobs, run_model(nwant), run_cli_many(njobs)):
        rep.count("view-negative-total", " ".join(job[0]), True)
        p_ = parse_text_spectrum(so)
        e_ = m.split()
        good = rc == 0 and p_ is not None and e_[0] == "OK" and len(p_[1]) == len(e_[2].split(",")) and all(not isinstance(frac_to_dec(t_), str) and abs(frac_to_dec(t_) - Fraction(x_)) <= Fraction(1, 10**9) for t_, x_ in zip(p_[1], e_[2].split(",")))
        if not good:
            rep.fail(kind="cli-vs-model", cls="view:negative-total", case=" ".join(job[0]) + " <<< " + job[1].decode().replace("\n", " "), argv=["sfs"] + job[0], stdin=job[1].decode(),
                     observed={"rc": rc, "stdout": so.decode(errors="replace")[:300]}, expected=m[:300], detail="normalising a spectrum whose total is negative: entries are x / total (they sum to one)")
    # `view` without options reproduces its input to the printed precision: every entry is printed as the decimal with p
    # decimals NEAREST to its exact binary value (ties to even) - also for values an ulp away from a tie, and after
    # normalising counts to k/20 or k/200 (oracle: python's decimal arithmetic on the exact value of the double)
    from decimal import Decimal, ROUND_HALF_EVEN
    from common import run_cli_many as _rcm_dec
    near = [0.15, 0.35, 0.45, 1.15, 0.05, 0.25, 0.55, 1.115, 2.675, 1.005, 0.125, 0.375, 8.345, 1.0005, 0.0015, 2.5, 0.5, 1.5, 1e-7, 123456.785]
    djobs, dwant = [], []
    for p_ in (0, 1, 2, 3, 6):
        q_ = Decimal(1).scaleb(-p_)
        fmt_d = lambda x: format(Decimal(x).quantize(q_, rounding=ROUND_HALF_EVEN), "f") if p_ else format(Decimal(x).quantize(Decimal(1), rounding=ROUND_HALF_EVEN), "f")
        djobs.append((["view", "--precision", str(p_)], text_spectrum([len(near)], [repr(x) for x in near])))
        dwant.append(text_spectrum([len(near)], [fmt_d(x) for x in near]))
        for counts, tot in (([3, 7, 9, 1], 20), ([1, 13, 27, 59, 100], 200), ([1, 2, 3, 14], 20)):
            djobs.append((["view", "--normalize", "--precision", str(p_)], text_spectrum([len(counts)], list(map(str, counts)))))
            dwant.append(text_spectrum([len(counts)], [fmt_d(c_ / float(tot)) for c_ in counts]))
    for job, want, (rc, so, se) in zip(djobs, dwant, _rcm_dec(djobs)):
        rep.count("view-decimal-rounding", " ".join(job[0]), True)
        if rc != 0 or so.replace(b"-0.", b"0.").replace(b" -0 ", b" 0 ") != want.replace(b"-0.", b"0."):
            rep.fail(kind="property-oracle", cls="view:decimal-rounding", case=" ".join(job[0]) + " <<< " + job[1].decode().replace("\n", " ")[:200], argv=["sfs"] + job[0], stdin=job[1].decode(),
                     observed={"rc": rc, "stdout": so.decode(errors="replace")[:300]}, expected=want.decode()[:300],
                     detail="an entry is not printed as the nearest decimal (at the requested precision) of its exact value")
    # spectra larger than any block a writer or reader might work in (2^16 and 2^20 values and a little more): `view` without
    # options reproduces its input to the printed precision - every value, separated from its neighbours - and the chain
    # through npy gives the same bytes as the single invocation
    from common import run_cli_many as _rcm_big
    for nbig, shp in ((65536 + 3, [65539]), (2**20 + 5, [2**20 + 5]), (1025 * 1025, [1025, 1025])) if True else ():
        vals_big = [str((7 * i + i // 1000) % 10) for i in range(nbig)]
        txt_big = ("#SHAPE=<%s>\n%s\n" % ("/".join(map(str, shp)), " ".join(vals_big))).encode()
        (rc1, so1, se1), (rc2, so2, se2) = _rcm_big([(["view", "--precision", "0"], txt_big), (["view", "-O", "npy"], txt_big)], timeout=600)
        (rc3, so3, se3), = _rcm_big([(["view", "--precision", "0"], so2)], timeout=600)
        rep.count("view-large", "shape %s" % shp, True, n=3)
        if rc1 != 0 or so1 != txt_big or rc2 != 0 or rc3 != 0 or so3 != txt_big:
            got = so1 if (rc1 != 0 or so1 != txt_big) else so3
            k_ = next((i for i, (x, y) in enumerate(zip(got, txt_big)) if x != y), min(len(got), len(txt_big)))
            rep.fail(kind="property-oracle", cls="view:large", case="view --precision 0 on a spectrum of shape %s (%d integer entries)" % (shp, nbig), argv=["sfs", "view", "--precision", "0"],
                     observed={"rc": [rc1, rc2, rc3], "bytes": len(got), "first difference at byte": k_, "there": got[max(0, k_ - 20):k_ + 20].decode(errors="replace")},
                     expected={"bytes": len(txt_big), "there": txt_big[max(0, k_ - 20):k_ + 20].decode()},
                     detail="a large spectrum does not come back from `view` (directly or through npy) as it went in (replay: values (7*i + i//1000) % 10 for i in range(n), one line)")
    rep.assumptions += ["intermediate files are npy (lossless, C07); the same float operations in the same order make the chained and the "
                        "combined outputs byte-identical", "normalisation of an all-zero spectrum (0/0) is outside the theorems and not generated"]


if __name__ == "__main__":
    sys.exit(standard_main("C13", check, sys.argv[1:], RULE, needs_cli=True))
