"""C01 - create without projection = histogram of complete sites: the real binary on rendered VCF (and BCF) call sets
vs the proved model of the run, exhaustive small call sets through the in-memory reader, and the create/marginalize
relation of C04."""
import itertools
import random
import re
import sys

from common import compare_cases, standard_main, run_model, run_cli_many, parse_text_spectrum, is_panic
from callsets import (render_vcf, vcf_to_bcf, model_records, model_samples, cli_samples_arg, bcf_encode_hts)
from gen_create import random_callset, random_map, pop_sizes, names

RULE = ("(a) exhaustive: <=3 samples x <=2 records over GT alphabet {0/0,0/1,1/1,./.,./1,1/2,0|1} x every map of the "
        "samples into <=3 populations (incl. unselected), through the in-memory genotype::Reader (per-record Site values) "
        "- quick: seeded 6000-case slice, thorough: all; (b) random call sets (1-12 samples, 0-40 records, 1-4 "
        "populations, subsets, unnamed label, monomorphic/multi-ALT/all-missing records, extra INFO/FORMAT fields, two "
        "contigs) rendered to VCF and run through `sfs create`: stdout compared as exact text with the model's integers, "
        "exit status, 'Skipped X/Y' line; a slice also as BCF; (c) garbage (other ploidy) in unselected columns must not "
        "change the output; (d) joint spectrum marginalized over a population = spectrum of the remaining populations on "
        "complete data. non-trivial = at least one counted and (for b) one skipped record; the map given inline with labels containing '=', spaces, '#', ':' (split at the first '='); samples files given through a named pipe and as /dev/stdin")

ALPHA = ["0/0", "0/1", "1/1", "./.", "./1", "1/2", "0|1"]


def exhaustive_cases(rng, tier):
    cases = []
    for n in (1, 2, 3):
        cols = names(n)
        maps = []
        for assign in itertools.product([None, "A", "B", "C"], repeat=n):   # None = not selected
            sel = [(c, a) for c, a in zip(cols, assign) if a is not None]
            if sel:
                maps.append(sel)
        for nrec in (1, 2):
            for gts in itertools.product(ALPHA, repeat=n * nrec):
                recs = [list(gts[i * n:(i + 1) * n]) for i in range(nrec)]
                for sm in maps:
                    cases.append("sites %s %s - %s" % (",".join(cols), model_samples(sm), model_records(recs)))
    if tier != "thorough":
        cases = rng.sample(cases, 6000)
    return cases


def compare_cli(rep, family, jobs, exps, metas):
    res = run_cli_many(jobs)
    for job, (rc, so, se), exp, meta in zip(jobs, res, exps, metas):
        stderr = se.decode(errors="replace")
        nt = "skipped=none" not in exp and exp.startswith("OK")
        rep.count(family, meta, nt)
        ok, why = True, ""
        if is_panic(rc, se):
            ok, why = False, "panic"
        elif exp.startswith("OK"):
            e = exp.split()
            parsed = parse_text_spectrum(so)
            if rc != 0 or parsed is None or parsed[0] != [int(x) for x in e[1].split(",")] or parsed[1] != e[2].split(","):
                ok, why = False, "stdout differs from the model's spectrum (exact integer text)"
            m = re.search(r"Skipped (\d+)/(\d+) sites", stderr)
            want = e[3].split("=")[1]
            got = "%s/%s" % (m.group(1), m.group(2)) if m else "none"
            if ok and got != want:
                ok, why = False, "summary %s, expected %s" % (got, want)
        else:
            if rc == 0 or so != b"":
                ok, why = False, "expected a failing run with empty stdout"
        if not ok:
            binary_in = not job[1].startswith(b"##")
            rep.fail(kind="cli-vs-model", cls=family + ":" + why.split()[0], case=meta, argv=["sfs"] + job[0],
                     stdin_hex=job[1].hex() if binary_in else None, stdin=None if binary_in else job[1].decode(),
                     observed={"rc": rc, "stdout": so.decode(errors="replace")[:400], "stderr": stderr[-400:]},
                     expected=exp, detail="sfs create vs the proved model of the run: " + why)
    return res


def check(rep, tier, seed):
    rng = random.Random(seed)
    ex = exhaustive_cases(rng, tier)
    rep.coverage["exhaustive"] = (tier == "thorough")
    compare_cases(rep, "sites-exhaustive", ex, nontrivial=lambda c, m: " S" in m,
                  classify=lambda c, m, i: "create:site-reader", spec=True)

    nrand = 250 if tier == "quick" else 2500
    jobs, mcases, metas = [], [], []
    bjobs, bcases, bmetas = [], [], []
    for k in range(nrand):
        cols, recs = random_callset(rng, p_skip=rng.choice([0.0, 0.05, 0.2]))
        sm = None if rng.random() < 0.15 else random_map(rng, cols)
        # two contigs; the second starts at the POS the first ended on (every record is a site of its own)
        half = len(recs) // 2 if k % 2 == 0 else len(recs)
        contigs = [("chr1" if i < half else "chr2") for i in range(len(recs))]
        positions = [(i + 1 if i < half else i - half + max(half, 1)) for i in range(len(recs))]
        # a missing GT as '.' or '.:12:30'; the other FORMAT values of a sample missing next to a called GT ('0/1:.:30')
        vcf = render_vcf(cols, recs, extra_fields=(k % 3 == 0), dot_fields=(k % 6 == 0), missing_extra=(k % 9 == 0), contigs=contigs, positions=positions)
        argv = ["create"] + cli_samples_arg(sm)
        mc = "create 0 %s %s - %s" % (",".join(cols), model_samples(sm), model_records(recs))
        jobs.append((argv, vcf)); mcases.append(mc); metas.append(mc)
        if k % 10 == 0 and all("." != g for r in recs for g in r):
            b = vcf_to_bcf(vcf, "c01_%d" % k, "raw")
            if b is not None:
                bjobs.append((argv, b)); bcases.append(mc); bmetas.append("bcf:" + mc)
        if k % 5 == 0:
            bjobs.append((argv, bcf_encode_hts(vcf))); bcases.append(mc); bmetas.append("bcf-htslib-layout:" + mc)
        # (c) garbage in unselected columns
        if sm is not None and len(sm) < len(cols) and k % 4 == 0:
            selected = {n for n, _ in sm}
            recs2 = [[g if c in selected else rng.choice(["0", "0/1/1", "5/7", ".", "1|2|3"]) for c, g in zip(cols, r)] for r in recs]
            jobs.append((argv, render_vcf(cols, recs2, extra_fields=(k % 8 == 0), dot_fields=True))); mcases.append(mc); metas.append("unselected-garbage:" + mc)
            if k % 8 == 0:
                bjobs.append((argv, bcf_encode_hts(render_vcf(cols, recs2)))); bcases.append(mc); bmetas.append("bcf-htslib-layout:unselected-garbage:" + mc)
    # the same maps given as a samples file whose labels contain spaces and share their first word (the model case carries
    # plain labels: only the partition into populations and their order matter)
    import os
    from common import WORK
    from callsets import samples_file_bytes
    os.makedirs(WORK, exist_ok=True)
    sfiles = []
    for k in range(12 if tier == "quick" else 120):
        cols, recs = random_callset(rng, nsamples=rng.randrange(3, 9), p_skip=0.1)
        if k % 2 == 0:
            cols = ["#" + c if i % 2 == 0 else c for i, c in enumerate(cols)]          # sample names may begin with '#': no line of the file is a comment
        sm = random_map(rng, cols, allow_unnamed=False)
        spaced = {l: "New %s land" % l for l in dict.fromkeys(l for _, l in sm)}
        path = os.path.join(WORK, "c01_samples_%d.txt" % k)
        sfb = samples_file_bytes([(n, spaced[l]) for n, l in sm])
        if k % 3 == 1:
            sfb = sfb.replace(b"\n", b"\r\n")[:-2]          # a Windows file whose last line has no line ending
        elif k % 3 == 2:
            sfb = b"".join(l + (b"\r\n" if i % 2 else b"\n") for i, l in enumerate(sfb.split(b"\n")[:-1]))     # mixed endings
        open(path, "wb").write(sfb)
        sfiles.append(path)
        mc = "create 0 %s %s - %s" % (",".join(cols), model_samples(sm), model_records(recs))
        jobs.append((["create", "-S", path], render_vcf(cols, recs))); mcases.append(mc); metas.append("samples-file-spaced-labels:" + mc)
    # the same with the map given INLINE (-s sample=label,...) and labels that contain '=', spaces, '#', ':' or are numbers:
    # an entry is split at its FIRST '=' (Proofs/SampleParseGenP.v), everything after it is the label
    for k in range(10 if tier == "quick" else 100):
        cols, recs = random_callset(rng, nsamples=rng.randrange(3, 9), p_skip=0.1)
        sm = random_map(rng, cols, allow_unnamed=False)
        odd = {l: rng.choice(["grp=%s", "%s=", "=%s", "a=b=%s", "pop %s", "#%s", "%s:1", "0%s", "==%s=="]) % l for l in dict.fromkeys(l for _, l in sm)}
        mc = "create 0 %s %s - %s" % (",".join(cols), model_samples(sm), model_records(recs))
        jobs.append((["create", "-s", ",".join("%s=%s" % (n, odd[l]) for n, l in sm)], render_vcf(cols, recs))); mcases.append(mc); metas.append("inline-odd-labels:" + mc)
    # a sample listed MORE THAN ONCE with the same label is one sample (the axis lengths count samples, not list entries),
    # inline and in a samples file
    for k in range(8 if tier == "quick" else 60):
        cols, recs = random_callset(rng, nsamples=rng.randrange(2, 7), p_skip=0.1)
        sm = random_map(rng, cols, allow_unnamed=False)
        if not sm:
            continue
        sm2 = list(sm)
        for _ in range(rng.randrange(1, 4)):
            sm2.insert(rng.randrange(len(sm2) + 1), rng.choice(sm))
        mc = "create 0 %s %s - %s" % (",".join(cols), model_samples(sm2), model_records(recs))
        if k % 2 == 0:
            jobs.append((["create"] + cli_samples_arg(sm2), render_vcf(cols, recs))); mcases.append(mc); metas.append("repeated-sample-entries:" + mc)
        else:
            path = os.path.join(WORK, "c01_dup_%d.txt" % k)
            open(path, "wb").write(samples_file_bytes(sm2))
            jobs.append((["create", "-S", path], render_vcf(cols, recs))); mcases.append(mc); metas.append("repeated-sample-entries-file:" + mc)
    # a samples file beyond 64 KiB (about a thousand samples with long names): every line of it counts
    ncol = 1000
    bcols = ["sample_%04d_%s" % (i, "x" * 56) for i in range(ncol)]
    brecs = [[rng.choice(["0/0", "0/0", "0/1", "1/1", "0|1"]) for _ in bcols] for _ in range(8)]
    brecs[2][ncol - 3] = "./."; brecs[5][ncol - 1] = "0/2"; brecs[6][5] = "./."          # late samples decide, too
    bsm = [(c, "late" if i >= ncol - 12 else "early") for i, c in enumerate(bcols) if i % 17 != 3]
    bsm = bsm[-12:] + bsm[:-12]                                                        # the small population is listed first
    bpath = os.path.join(WORK, "c01_samples_big.txt")
    open(bpath, "wb").write(samples_file_bytes(bsm))
    rep.coverage["big_samples_file_bytes"] = os.path.getsize(bpath)
    sfiles.append(bpath)
    mc = "create 0 %s %s - %s" % (",".join(bcols), model_samples(bsm), model_records(brecs))
    jobs.append((["create", "-S", bpath], render_vcf(bcols, brecs))); mcases.append(mc); metas.append("samples-file-over-64KiB:%d entries" % len(bsm))
    exps = run_model(mcases)
    from common import invocation_variants
    invocation_variants(rep, "create-cli:invocation-form", [j for j in jobs if len(j[1]) > 300], rng, n=8 if tier == "quick" else 60)
    compare_cli(rep, "create-cli-vcf", jobs, exps, metas)
    # a samples file need not be a regular file: given through a named pipe or as /dev/stdin (the call set by path) it
    # assigns the same samples to the same populations
    from common import run_cli_fifo
    sj = [(j, m) for j, m in zip(jobs, metas) if j[0][:2] == ["create", "-S"] and len(j[1]) < 200000][:4 if tier == "quick" else 30]
    for gi, ((argv, vcf), m) in enumerate(sj):
        content = open(argv[2], "rb").read()
        vpath = os.path.join(WORK, "c01_in_%d.vcf" % gi)
        open(vpath, "wb").write(vcf)
        ref_ = run_cli_many([(["create", "-S", argv[2], vpath], b"")])[0]
        fifo = os.path.join(WORK, "c01_fifo_%d" % gi)
        for name, (rc, so, se) in (("named pipe", run_cli_fifo(["create", "-S", fifo, vpath], fifo, content)),
                                   ("/dev/stdin", run_cli_many([(["create", "-S", "/dev/stdin", vpath], content)])[0])):
            rep.count("samples-file-not-regular", "%s: %s" % (name, m[:120]), True)
            if (rc, so) != (ref_[0], ref_[1]) or rc != 0:
                rep.fail(kind="property-oracle", cls="create-cli:samples-file-not-regular", case="samples file given as %s" % name, argv=["sfs", "create", "-S", "<%s>" % name, "<vcf>"],
                         stdin=vcf.decode(), observed={"rc": rc, "stdout": so.decode(errors="replace")[:300], "stderr": se.decode(errors="replace")[-200:]},
                         expected=ref_[1].decode(errors="replace")[:300], detail="the sample map read from a %s gives a different result than the same map read from a regular file" % name)
        os.remove(vpath)
    for f in sfiles:
        os.remove(f)
    compare_cli(rep, "create-cli-bcf", bjobs, run_model(bcases), bmetas)

    # (d) create/marginalize relation on complete data
    jj, meta2 = [], []
    for k in range(30 if tier == "quick" else 300):
        cols, recs = random_callset(rng, nsamples=rng.randrange(2, 9), nrecords=rng.randrange(1, 25), p_skip=0.0)
        recs = [r for r in recs if all(g in ("0/0", "0/1", "1/1", "0|1", "1|0", "1|1", "0|0", "1/0") for g in r)]
        sm = random_map(rng, cols, allow_unnamed=False)
        labels = list(dict.fromkeys(l for _, l in sm))
        if len(labels) < 2 or not recs:
            continue
        drop = rng.randrange(len(labels))
        sm2 = [(n, l) for n, l in sm if l != labels[drop]]
        vcf = render_vcf(cols, recs)
        jj.append((["create"] + cli_samples_arg(sm), vcf)); jj.append((["create"] + cli_samples_arg(sm2), vcf))
        meta2.append((drop, vcf))
    res = run_cli_many(jj)
    joint = [res[2 * i] for i in range(len(meta2))]
    reduced = [res[2 * i + 1] for i in range(len(meta2))]
    marg = run_cli_many([(["view", "-m", str(d), "--precision", "0"], j[1]) for (d, _), j in zip(meta2, joint)])
    for (d, vcf), j, r, mg in zip(meta2, joint, reduced, marg):
        rep.count("create-marginalize", "drop axis %d" % d, True)
        if j[0] != 0 or r[0] != 0 or mg[0] != 0 or mg[1] != r[1]:
            rep.fail(kind="property-oracle", cls="create:marginalize-relation", case="marginalize axis %d of the joint spectrum" % d,
                     argv=["sfs", "create"], stdin=vcf.decode(), observed=mg[1].decode(errors="replace")[:300],
                     expected=r[1].decode(errors="replace")[:300],
                     detail="marginalizing a population out of the joint spectrum differs from creating without it (complete data)")
    rep.assumptions += ["VCF/BCF byte decoding is noodles (not modelled): the harness renders abstract call sets itself and compares "
                        "the binary's result with the model's result on the abstract call set",
                        "every record has one genotype per header column; fewer than 2^53 records"]


if __name__ == "__main__":
    sys.exit(standard_main("C01", check, sys.argv[1:], RULE, needs_cli=True))
