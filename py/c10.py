"""C10 - every record is counted once or reported skipped; strict mode; no partial output: the real binary with faults at
every position of the record stream vs the proved model of the run loop, and the conservation law on its outputs."""
import random
import re
import sys
from fractions import Fraction

from common import standard_main, run_model, run_cli_many, parse_text_spectrum, is_panic, frac_to_dec
from callsets import render_vcf, model_records, model_samples, cli_samples_arg, model_project, cli_project_arg
from callsets import bgzf_compress as bgzf_compress_
from gen_create import random_callset, random_map, pop_sizes, random_projection

TOL = Fraction(1, 10**9)
RULE = ("call sets of 1-12 records x sample maps, each run (i) clean, non-strict and --strict, (ii) with one fault placed at "
        "EVERY record position: a non-diploid genotype in a selected column, an unparsable record line, a record that "
        "would be skipped under --strict; plus a truncation in the middle of the last line; with and without projection "
        "(strict and projection exclude each other on the command line). Compared with the model of the run: exit "
        "status, stdout (exact integers without projection, within 0.5e-6+1e-9*records with), the 'Skipped X/Y' summary, "
        "the contig:position named in the error, empty stdout on every failure. On the binary alone: total(stdout) + X "
        "= Y = number of records. non-trivial = a run with a fault or with at least one skipped record; uncompressed BCF streams cut inside a record (1 byte or more into it) must fail with empty stdout; records whose GT value is no genotype ('0/x', '1/', 'A') in any column are corrupt; the runs repeated by path, with -q / -v and under logging / colour / locale environment variables (invocation_variants); records without a GT key; every target 1..7 against sites with 0-3 missing samples; every single-site ALT class of cohorts of 2-5 (thorough 1-8) samples under every projection target beside a skipped record: the summary must report records, not rounded mass")


def check(rep, tier, seed):
    rng = random.Random(seed)
    jobs, mcases, metas = [], [], []
    nsets = 12 if tier == "quick" else 120
    for k in range(nsets):
        cols, recs = random_callset(rng, nsamples=rng.randrange(1, 7), nrecords=rng.randrange(1, 13), p_skip=rng.choice([0.0, 0.1, 0.3]))
        if k % 2 == 1 and recs:
            # a record whose FORMAT has no GT key at all (DP only): nobody has a genotype there - a site like any other, skipped
            # and reported, never silently dropped
            recs.insert(rng.randrange(len(recs) + 1), ["NOGT"] * len(cols))
        sm = random_map(rng, cols)
        selected = [n for n, _ in sm]
        selcol = cols.index(selected[0])
        pr = None if k % 3 else random_projection(rng, pop_sizes(sm))

        def add(recs_, strict, raw=None, note=""):
            argv = ["create"] + (["--strict"] if strict else []) + cli_samples_arg(sm) + cli_project_arg(None if strict else pr)
            # verbosity is no part of the outcome (stdout, exit status); the skip summary is an info line, silenced by -q
            fl = [[], [], [], ["-v"], ["-vv"]][len(jobs) % 5]
            argv = argv + fl
            mrecs = [("!" if (raw and i in raw) else ",".join("." if g == "NOGT" else g for g in r)) for i, r in enumerate(recs_)]
            mc = "create %d %s %s %s %s" % (1 if strict else 0, ",".join(cols), model_samples(sm),
                                           model_project(None if strict else pr), ";".join(mrecs) if mrecs else "-")
            jobs.append((argv, render_vcf(cols, recs_, raw_lines=raw)))
            mcases.append(mc); metas.append((note, len(recs_), pr if not strict else None))
        add(recs, False, note="clean")
        add(recs, True, note="strict")
        for i in range(len(recs)):
            if recs[i] and recs[i][0] == "NOGT":
                continue            # a record without GT key is rendered as a whole: no single genotype of it is edited
            r2 = [list(r) for r in recs]
            # the non-diploid genotype in ANY selected column; the other selected columns keep whatever they hold
            # (called, missing, multiallelic): the error must win wherever it stands
            fcol = cols.index(rng.choice(selected))
            r2[i][fcol] = rng.choice(["0", "1", "0/1/1", "0|1|1", "./0/1", "././.", ".|1|1|0", "1/."[:1], "0/./1"])
            if len(selected) > 1 and rng.random() < 0.5:
                r2[i][cols.index(selected[0])] = rng.choice(["./.", "1/2"]) if cols.index(selected[0]) != fcol else r2[i][fcol]
            add(r2, False, note="ploidy@%d" % i)
            add(recs, False, raw={i: "chr1\tnot-a-position\t.\tA\tC\t.\t.\t.\tGT" + "\t0/0" * len(cols)}, note="corrupt@%d" % i)
            # a GT value that is no genotype at all (in any column, selected or not): the record is corrupt, not "missing"
            badgt = ["0/0"] * len(cols); badgt[rng.randrange(len(cols))] = rng.choice(["0/x", "1/", "A", "0/-1", "0 /1", "/", "0//1", "1|"])
            add(recs, False, raw={i: "chr1\t%d\t.\tA\tC\t.\t.\t.\tGT\t%s" % (i + 1, "\t".join(badgt))}, note="corrupt-gt@%d" % i)
            r3 = [list(r) for r in recs]
            r3[i][selcol] = "./."
            add(r3, True, note="strict-violation@%d" % i)
        if k % 4 == 0:
            # projection targets next to the number of called chromosomes: a site ONE chromosome short of an (odd) target is not
            # covered - skipped and reported -, a site that has exactly the target is counted whole (every target 1..2n+1)
            c3 = ["u0", "u1", "u2"]
            r3_ = [["0/1", "1/1", "0/0"], ["./.", "0/1", "1/1"], ["./.", "./.", "0/1"], ["./.", "./.", "./."], ["0/0", "./.", "1/1"], ["1/1", "0/1", "."]]
            keep_cols, keep_sm = cols, sm
            for shape_entry in range(1, 8):
                cols, sm = c3, [(c, None) for c in c3]
                saved_pr = pr
                pr = ("s", [shape_entry])
                add(r3_, False, note="target-next-to-total")
                pr = saved_pr
            cols, sm = keep_cols, keep_sm
        # truncation in the middle of the last line
        vcf = render_vcf(cols, recs)
        cut = vcf[:len(vcf) - 1 - rng.randrange(1, 4)]
        jobs.append((["create"] + cli_samples_arg(sm), cut)); mcases.append(None); metas.append(("truncated-last-line", len(recs), None))
    # --strict names the contig and position of the first record that would be skipped - whatever the contig is called:
    # undeclared in the header, symbolic (<name>), named like a number or a sex chromosome
    sj, sw = [], []
    for ctg in ("scaf_7", "<ctg2>", "17", "chrY", "MT", "HLA-A_01"):
        v_ = render_vcf(["a", "b", "c"], [["0/1", "0/0", "1/1"], ["0/0", "0/1", "0/1"], ["0/1", "./.", "0/0"], ["./.", "0/0", "0/0"]], contigs=["chr1", ctg, ctg, ctg], positions=[3, 5, 7, 9])
        for data_ in (v_, bgzf_compress_(v_)):
            sj.append((["create", "--strict"], data_)); sw.append((ctg, 7))
            sj.append((["create", "--strict", "-s", "a,c"], data_)); sw.append((ctg, 9))
    for job, (ctg, pos_), (rc, so, se) in zip(sj, sw, run_cli_many(sj)):
        rep.count("run-loop:strict-names-site", "%s:%d" % (ctg, pos_), True)
        names = ("'%s:%d'" % (ctg, pos_), "'%s:%d'" % (ctg.strip("<>"), pos_))
        if rc == 0 or so != b"" or not any(n_.encode() in se for n_ in names):
            rep.fail(kind="property-oracle", cls="run-loop:strict:name", case="--strict, first skipped record at %s:%d" % (ctg, pos_), argv=["sfs"] + job[0], stdin_hex=job[1].hex()[:20000],
                     observed={"rc": rc, "stdout": so.decode(errors="replace")[:100], "stderr": se.decode(errors="replace")[-300:]}, expected="failure naming %s" % names[0],
                     detail="a strict run fails at the first record that would be skipped, naming its contig and position")
    # an uncompressed BCF stream that ends inside a record (from its first byte on: inside the two length fields as well): the
    # record is corrupt - the run must fail and print no spectrum, not report the records before it
    import struct as _st
    from callsets import bcf_encode_hts
    tjobs, bcuts = [], []
    for k in range(3 if tier == "quick" else 25):
        cols, recs = random_callset(rng, nsamples=rng.randrange(1, 6), nrecords=rng.randrange(2, 10), p_skip=0.1)
        recs = [[g if g != "." else "./." for g in r] for r in recs]
        b = bcf_encode_hts(render_vcf(cols, recs))
        if b is None:
            continue
        pos = 9 + _st.unpack("<I", b[5:9])[0]
        bounds = []
        while pos < len(b):
            ls, li = _st.unpack("<II", b[pos:pos + 8])
            bounds.append((pos, 8 + ls + li)); pos += 8 + ls + li
        for ri, (rp, rl) in enumerate(bounds):
            bcuts.append(b[:rp])           # between two records: a clean end with the records before it
            for inside in sorted(set([1, 2, 3, 4, 7, 8, 9, 20, rl // 2, rl - 7, rl - 1])):
                if 1 <= inside < rl:
                    tjobs.append((["create"] + (["--strict"] if (ri + inside) % 4 == 0 else []), b[:rp + inside], "record %d of %d cut after %d of %d bytes" % (ri + 1, len(bounds), inside, rl)))
    # the same streams through the library reader against the model of the record framing (Model/Frames.v, theorems
    # C10_bcf_stream_cut_*): number of records read, then a clean end or an error
    from common import run_impl
    fcases = list(dict.fromkeys((data.hex(), 9 + _st.unpack("<I", data[5:9])[0]) for data in [d_ for _, d_, _ in tjobs] + bcuts))
    fm = run_model(["frames %d %s" % (off, hx) for hx, off in fcases])
    fi = run_impl(["genos %s" % hx for hx, off in fcases])
    for (hx, off), m, i in zip(fcases, fm, fi):
        it = i.split()
        got = "%d %s" % (len(it) - 2, it[-1]) if len(it) >= 2 and it[0] == "OK" else i
        rep.count("run-loop:bcf-framing-vs-model", "stream of %d bytes" % (len(hx) // 2), True)
        if got != m:
            rep.fail(kind="model-impl-disagreement", cls="run-loop:truncated-bcf", case="genos %s" % hx[:4000], expected=m, observed=got, stdin_hex=hx,
                     detail="records read from a cut BCF stream and how the stream ends (D clean end / E error) differ from the model of the record framing", failing_input=True)
    for (argv, data, what), (rc, so, se) in zip(tjobs, run_cli_many([(a, d_) for a, d_, _ in tjobs])):
        rep.count("run-loop:truncated-bcf", what, True)
        if rc == 0 or so != b"":
            rep.fail(kind="property-oracle", cls="run-loop:truncated-bcf", case="uncompressed BCF, " + what, argv=["sfs"] + argv, stdin_hex=data.hex(),
                     observed={"rc": rc, "stdout": so.decode(errors="replace")[:200], "stderr": se.decode(errors="replace")[-200:]}, expected="non-zero exit, empty stdout",
                     detail="the stream ends in the middle of a record: a failing run, not a spectrum of the records before it")
    # cohorts at the factorial-table seam (170/171 chromosomes) and of several hundred samples, with projection: the
    # conservation law on the binary's own output (mass + skipped = records, all values finite)
    cons_jobs, cons_meta = [], []
    for n in ([85, 86, 87, 172, 560] if tier == "quick" else [84, 85, 86, 87, 88, 170, 171, 172, 173, 300, 560, 900]):
        cols = ["s%d" % i for i in range(n)]
        recs = [["0/1"] + ["0/0"] * (n - 1), ["1/1"] * (n - 1) + ["0/1"], ["0/1", "./."] + ["0/0"] * (n - 2), ["./."] * (n - 3) + ["0/1"] * 3,
                [rng.choice(["0/0", "0/1", "1/1"]) for _ in cols], ["1/1"] + ["0/0"] * (n - 1)]
        ms = [10, n, 2 * n - 2]
        if n >= 515:
            # the band where C(2n, m) just exceeds the largest double while the numerators of the likely cells are still
            # finite: the first m at which the denominator overflows, and a few above it
            import math
            m0 = next(m for m in range(1, n) if math.comb(2 * n, m) > 2**1024)
            ms += [m0 - 2, m0, m0 + 1, m0 + 3, m0 + 6, m0 + 12, m0 + 25]
        for m in ms:
            cons_jobs.append((["create", "--precision", "9", "--project-shape", str(m + 1)], render_vcf(cols, recs))); cons_meta.append((n, m, len(recs)))
    for job, (rc, so, se), (n, m, nrec) in zip(cons_jobs, run_cli_many(cons_jobs, timeout=600), cons_meta):
        rep.count("run-loop:large-cohort-conservation", "%d samples -> %d chromosomes" % (n, m), True)
        parsed = parse_text_spectrum(so)
        mm = re.search(r"Skipped (\d+)/(\d+) sites", se.decode(errors="replace"))
        skipped = int(mm.group(1)) if mm else 0
        good = rc == 0 and parsed is not None
        if good:
            try:
                mass = sum(Fraction(t) for t in parsed[1])
                good = abs(mass + skipped - nrec) <= Fraction(len(parsed[1]), 10**9) + Fraction(1, 10**6)
            except ValueError:
                good = False
        if not good:
            rep.fail(kind="property-oracle", cls="run-loop:large-cohort-conservation", case="%d samples, %d records, --project-shape %d" % (n, nrec, m + 1),
                     argv=["sfs"] + job[0], stdin=job[1].decode()[:300000], observed={"rc": rc, "stdout": so.decode(errors="replace")[:200], "skipped": skipped},
                     expected="finite values with mass + skipped = %d" % nrec, detail="mass + skipped != records (or non-finite values) for a cohort at the factorial-table seam / of hundreds of samples")
    # the summary line counts RECORDS, not spectrum mass: every single-site class of small cohorts under every projection
    # target, next to one record nobody is called at (skipped) - the projected weights of a site add up to one only up to
    # rounding (often to 0.9999999999999999), and 'Skipped X/Y' must still say Y = records read, X = records skipped
    sj, sm = [], []
    for n in (range(2, 6) if tier == "quick" else range(1, 9)):
        cols = ["s%d" % i for i in range(n)]
        allmiss = ["./."] * n
        for m in range(1, 2 * n + 1):
            for a in range(0, 2 * n + 1):
                site = ["1/1"] * (a // 2) + ["0/1"] * (a % 2) + ["0/0"] * (n - a // 2 - a % 2)
                recs = [site, allmiss] if (a + m) % 2 else [allmiss, site]
                sj.append((["create", "--project-shape", str(m + 1)], render_vcf(cols, recs))); sm.append((n, m, "ALT count %d" % a, 2, 1))
            recs = [["1/1"] * (a // 2) + ["0/1"] * (a % 2) + ["0/0"] * (n - a // 2 - a % 2) for a in range(0, 2 * n + 1)] + [allmiss, ["./."] + ["0/1"] * (n - 1)]
            nskip = 1 + (1 if 2 * (n - 1) < m else 0)
            sj.append((["create", "--project-shape", str(m + 1)], render_vcf(cols, recs))); sm.append((n, m, "every class once", len(recs), nskip))
    for job, (rc, so, se), (n, m, what, nrec, nskip) in zip(sj, run_cli_many(sj), sm):
        rep.count("run-loop:summary-counts-records", "%d samples -> %d chromosomes, %s" % (n, m, what), True)
        mm = re.search(r"Skipped (\d+)/(\d+) sites", se.decode(errors="replace"))
        got = (int(mm.group(1)), int(mm.group(2))) if mm else None
        parsed = parse_text_spectrum(so)
        good = rc == 0 and parsed is not None and got == (nskip, nrec)
        if good:
            try:
                good = abs(sum(Fraction(t) for t in parsed[1]) + nskip - nrec) <= Fraction(len(parsed[1]), 10**6)
            except ValueError:
                good = False
        if not good:
            rep.fail(kind="property-oracle", cls="run-loop:summary-counts-records", case="%d samples, --project-shape %d, %s + skipped record(s)" % (n, m + 1, what),
                     argv=["sfs"] + job[0], stdin=job[1].decode(), observed={"rc": rc, "stdout": so.decode(errors="replace")[:200], "summary": got},
                     expected="exit 0, mass %d, 'Skipped %d/%d sites'" % (nrec - nskip, nskip, nrec),
                     detail="mass + skipped = records read, and the summary line reports the records read and skipped (not a number derived from the rounded mass)")
    # the form of the invocation and the environment are no part of the run: the same command by path, with -q / -v, with
    # logging / colour / locale variables set gives the same stdout, exit status and (for the environment) the same stderr -
    # the skip summary included
    from common import invocation_variants
    invocation_variants(rep, "run-loop:invocation-form", [j for j in jobs if not any(a in ("-v", "-vv", "-q", "-qq") for a in j[0])], rng, n=6 if tier == "quick" else 40)
    exps = run_model([m for m in mcases if m is not None])
    it = iter(exps)
    exps = [next(it) if m is not None else None for m in mcases]
    res = run_cli_many(jobs)
    # the same runs silenced (-q, -qq): stdout and exit status must not change
    qsel = rng.sample(range(len(jobs)), min(len(jobs), 40 if tier == "quick" else 400))
    qjobs = [([a for a in jobs[i][0] if a not in ("-v", "-vv")] + [["-q"], ["-qq"], ["-q", "-q", "-q"]][i % 3], jobs[i][1]) for i in qsel]
    for i, qj, (rc, so, se) in zip(qsel, qjobs, run_cli_many(qjobs)):
        rep.count("run-loop:silenced", " ".join(qj[0])[:200], res[i][0] != 0)
        if (rc == 0) != (res[i][0] == 0) or so != res[i][1] or is_panic(rc, se):
            rep.fail(kind="property-oracle", cls="run-loop:silenced", case=" ".join(qj[0])[:300], argv=["sfs"] + qj[0], stdin=qj[1].decode(errors="replace")[:200000],
                     observed={"rc": rc, "stdout": so.decode(errors="replace")[:200]}, expected={"rc": res[i][0], "stdout": res[i][1].decode(errors="replace")[:200]},
                     detail="silencing the log (-q / -qq) changed the exit status or stdout of the run")
    for job, (rc, so, se), exp, mc, (note, nrec, pr) in zip(jobs, res, exps, mcases, metas):
        stderr = se.decode(errors="replace")
        rep.count("run-loop:" + note.split("@")[0], (mc or note)[:300], note != "clean")
        ok, why = True, ""
        parsed = parse_text_spectrum(so)
        if is_panic(rc, se):
            ok, why = False, "panic"
        elif exp is None:
            # truncated last line: either rejected (non-zero, empty stdout) or, if the remaining prefix is still a complete
            # record, counted: in both cases no partial spectrum and conservation must hold
            if rc != 0 and so != b"":
                ok, why = False, "failing run wrote to stdout"
        elif exp.startswith("OK"):
            e = exp.split()
            if rc != 0 or parsed is None or parsed[0] != [int(x) for x in e[1].split(",")] or len(parsed[1]) != len(e[2].split(",")):
                ok, why = False, "exit/shape differs"
            else:
                bound = 0 if pr is None else Fraction(1, 2 * 10**6) + TOL * max(1, nrec)
                for tok, x in zip(parsed[1], e[2].split(",")):
                    v = frac_to_dec(tok)
                    if isinstance(v, str) or abs(v - Fraction(x)) > bound:
                        ok, why = False, "value %s vs %s" % (tok, x); break
                m = re.search(r"Skipped (\d+)/(\d+) sites", stderr)
                got = "%s/%s" % (m.group(1), m.group(2)) if m else "none"
                if ok and got != e[3].split("=")[1]:
                    ok, why = False, "summary %s expected %s" % (got, e[3])
        else:
            m = re.search(r"err=(\w+)(?:@(\S+))?", exp)
            if rc == 0 or so != b"":
                ok, why = False, "expected non-zero exit and empty stdout"
            elif m.group(2) and ("'%s'" % m.group(2)) not in stderr:
                ok, why = False, "error does not name %s" % m.group(2)
            elif stderr.strip() == "":
                ok, why = False, "no diagnostic"
        # conservation on the binary's own output
        if ok and rc == 0 and parsed is not None:
            m = re.search(r"Skipped (\d+)/(\d+) sites", stderr)
            skipped, total = (int(m.group(1)), int(m.group(2))) if m else (0, None)
            mass = sum(Fraction(t) for t in parsed[1])
            slack = 0 if pr is None else Fraction(len(parsed[1]), 2 * 10**6) + TOL * max(1, nrec)
            if exp is not None and (abs(mass + skipped - nrec) > slack or (total is not None and total != nrec)):
                ok, why = False, "conservation: mass %s + skipped %s != records %s (reported total %s)" % (float(mass), skipped, nrec, total)
        if not ok:
            rep.fail(kind="cli-vs-model", cls="run-loop:%s:%s" % (note.split("@")[0], why.split()[0]), case=(mc or note)[:400], argv=["sfs"] + job[0],
                     stdin=job[1].decode(errors="replace"),
                     observed={"rc": rc, "stdout": so.decode(errors="replace")[:300], "stderr": stderr[-400:]}, expected=exp,
                     detail="sfs create run (%s): %s" % (note, why))
    rep.assumptions += ["a record line that noodles cannot parse is the model's IIoErr item", "the summary line is read from stderr (default verbosity)"]


if __name__ == "__main__":
    sys.exit(standard_main("C10", check, sys.argv[1:], RULE, needs_cli=True))
