"""C05 - folding: correspondence of the proved fold model (Properties/C05.v) with Spectrum::fold, plus the
property's own relations (mass, idempotence, polarity) evaluated on the implementation."""
import itertools
import random
import sys
from fractions import Fraction

from common import (compare_cases, standard_main, run_impl, parse_value, run_cli_many, parse_text_spectrum,
                    text_spectrum, frac_to_dec, is_panic)

RULE = ("all shapes with 1..4 axes and lengths 1..7 with product <= bound (quick 300 + seeded sample of larger ones; "
        "thorough 2401 = everything) x random non-antisymmetric dyadic data (2 vectors per shape; ramps hide partner "
        "errors) x 4 fills; exact comparison of bit patterns with the model's rationals / fill tags; metamorphic "
        "relations on the implementation: mass (fill zero), fold(fold0 x) = fold0 x, fold(reverse x) = fold x; "
        "CLI `sfs fold --fill` on text input for a slice. non-trivial = at least one filled and one folded cell; decimal values compared bit for bit with IEEE 0.5*a + 0.5*b, infinities on every diagonal cell")

FILLS = ["nan", "zero", "minus-one", "inf"]


def fmt(l):
    return ",".join(map(str, l)) if l else "-"


def elements(sh):
    n = 1
    for x in sh:
        n *= x
    return n


def rand_val(rng, p_zero=0.0):
    if rng.random() < p_zero:
        return "0"
    k = rng.choice([0, 0, 1, 2, 5])
    num = rng.randrange(0, 1 << 16) * rng.choice([1, 1, 1, -1])
    return "%d/%d" % (num, 1 << k) if k else str(num)


def shapes_for(tier, rng):
    allsh = [sh for d in range(1, 5) for sh in itertools.product(range(1, 8), repeat=d) if elements(sh) <= 2401]
    if tier == "thorough":
        return allsh, True
    small = [sh for sh in allsh if elements(sh) <= 300]
    big = [sh for sh in allsh if elements(sh) > 300]
    return small + rng.sample(big, 25), False


def tokval(t):
    return parse_value(t)


def check(rep, tier, seed):
    rng = random.Random(seed)
    shapes, exhaustive = shapes_for(tier, rng)
    rep.coverage["exhaustive"] = exhaustive
    rep.coverage["shapes"] = len(shapes)
    cases = []
    base = []   # (shape, data list) for metamorphic checks
    # axes longer than the enumerated 1..7 (a per-row shortcut for "long" rows would only show there), of unequal lengths
    shapes = list(shapes) + [(2, 3, 16), (3, 2, 17), (20, 16), (2, 2, 3, 16), (40,), (3, 16), (16, 3), (17, 2, 2), (33, 2), (2, 33), (5, 64), (130,)]
    for sh in shapes:
        E = elements(sh)
        for rep_i in range(3 if tier == "quick" else 4):
            # dense, sparse (most mirror pairs empty) and nearly empty vectors: real spectra are sparse
            pz = [0.0, 0.7, 0.95][rep_i % 3] if rep_i else rng.choice([0.0, 0.7])
            data = [rand_val(rng, pz) for _ in range(E)]
            base.append((sh, data))
            for f in (FILLS if rep_i == 0 else [rng.choice(FILLS)]):
                cases.append("fold %s %s %s" % (fmt(sh), fmt(data), f))

    # values at the top of the f64 range ON the diagonal (index sum = T/2): the average of a mirror pair is finite even when
    # their sum is not; entries off the diagonal stay small (their SUM is the result, and may legitimately overflow)
    def index_sums(sh):
        return [sum(idx) for idx in itertools.product(*[range(n) for n in sh])]
    for sh in [s_ for s_ in ([3], [5], [7], [3, 3], [2, 4], [5, 3], [2, 2, 3], [3, 1, 5], [2, 3, 2, 2]) if (sum(s_) - len(s_)) % 2 == 0]:
        T = sum(sh) - len(sh)
        for _ in range(3):
            data = [str(rng.randrange(8, 16) * 2**1020) if 2 * sm_ == T else str(rng.randrange(0, 50)) for sm_ in index_sums(sh)]
            cases.append("fold %s %s %s" % (fmt(sh), fmt(data), rng.choice(FILLS)))

    # entries that are NaN or infinite: a kept cell is x + mirror (resp. the average) in IEEE arithmetic - NaN where the
    # input says so (also inf + -inf) - and only the cells above the diagonal get the fill value, whatever the fill is
    import math
    nf = []
    for sh in ([4], [5], [6], [3, 3], [3, 4], [2, 3, 2], [2, 2, 2, 1]):
        for _ in range(3):
            vals = [float(rng.randrange(0, 40)) for _ in range(elements(sh))]
            for k_ in rng.sample(range(len(vals)), min(3, len(vals))):
                vals[k_] = rng.choice([math.nan, math.inf, -math.inf])
            if rng.random() < 0.5:                      # inf mirrored by -inf
                vals[0], vals[-1] = math.inf, -math.inf
            for f in FILLS:
                nf.append((sh, vals, f))
    tokf = lambda v: "inf" if v == math.inf else "-inf" if v == -math.inf else "nan" if v != v else str(int(v))
    nfo = run_impl(["fold %s %s %s" % (fmt(sh), ",".join(tokf(v) for v in vals), f) for sh, vals, f in nf])
    fillv = {"nan": math.nan, "zero": 0.0, "minus-one": -1.0, "inf": math.inf}
    for (sh, vals, f), o in zip(nf, nfo):
        rep.count("fold-nonfinite", "%s fill %s" % (fmt(sh), f), True)
        idxs = list(itertools.product(*[range(n) for n in sh]))
        T = sum(sh) - len(sh)
        want = []
        for i_, idx in enumerate(idxs):
            s2 = 2 * sum(idx)
            m_ = vals[len(vals) - 1 - i_]
            want.append(vals[i_] + m_ if s2 < T else (0.5 * vals[i_] + 0.5 * m_ if s2 == T else fillv[f]))
        t = o.split()
        got = [float(parse_value(x)) for x in t[1].split(",")] if len(t) >= 2 else None
        if got is None or len(got) != len(want) or not all((g != g and w != w) or g == w for g, w in zip(got, want)):
            rep.fail(kind="property-oracle", cls="fold:nonfinite", case="fold %s %s %s" % (fmt(sh), ",".join(tokf(v) for v in vals), f), observed=o[:300],
                     expected=",".join(tokf(w) if (w != w or abs(w) == math.inf or w == int(w)) else repr(w) for w in want)[:300],
                     detail="folding a spectrum with NaN / infinite entries: kept cells follow IEEE arithmetic, only cells above the diagonal take the fill value")

    # the same cases against the extended-value model (Model/Ext.v: IEEE addition on rationals + inf, -inf, NaN; theorems
    # C05_ext_*): entries are small integers, so f64 is exact and the model's value is the required one
    compare_cases(rep, "fold-nonfinite-vs-model", ["fold %s %s %s" % (fmt(sh), ",".join(tokf(v) for v in vals), f) for sh, vals, f in nf],
                  classify=lambda c, m, i: "fold:nonfinite")

    # decimal values (no dyadic fractions: 0.1, 0.7, 12.35): every kept cell is the correctly rounded IEEE value of x + mirror
    # (0.5*x + 0.5*mirror on the diagonal) - bit for bit, so that a cell and its mirror image agree, a second fold changes
    # nothing and the mirrored input folds to the same spectrum; and infinite entries ON the diagonal stay infinite
    import struct as _stf
    bits = lambda x: _stf.unpack("<Q", _stf.pack("<d", x))[0]
    dec = []
    for sh in ([3], [5], [2, 2], [3, 3], [2, 4], [4, 2], [3, 5], [2, 3, 2], [3, 1, 3], [3, 3, 3], [2, 2, 2, 3]):
        for _ in range(2):
            dec.append((sh, [rng.randrange(1, 2000) / 100.0 for _ in range(elements(sh))]))
        idxs_ = list(itertools.product(*[range(n) for n in sh]))
        Tm = sum(sh) - len(sh)
        diag = [i_ for i_, ix in enumerate(idxs_) if 2 * sum(ix) == Tm]
        for dcell in diag[:3]:
            v_ = [float(rng.randrange(1, 50)) for _ in range(elements(sh))]
            v_[dcell] = math.inf
            dec.append((sh, v_))
    deco = run_impl(["fold %s %s zero" % (fmt(sh), ",".join("0x%016x" % bits(v) for v in vals)) for sh, vals in dec])
    for (sh, vals), o in zip(dec, deco):
        rep.count("fold-decimal-bitexact", "%s" % fmt(sh), True)
        idxs_ = list(itertools.product(*[range(n) for n in sh]))
        Tm = sum(sh) - len(sh)
        want = []
        for i_, ix in enumerate(idxs_):
            mv_ = vals[len(vals) - 1 - i_]
            want.append(vals[i_] + mv_ if 2 * sum(ix) < Tm else (0.5 * vals[i_] + 0.5 * mv_ if 2 * sum(ix) == Tm else 0.0))
        t_ = o.split()
        got = t_[1].split(",") if len(t_) >= 2 else []
        if got != ["0x%016x" % bits(w) for w in want]:
            rep.fail(kind="property-oracle", cls="fold:nonfinite" if any(v == math.inf for v in vals) else "fold:decimal-bits", case="fold %s %s zero" % (fmt(sh), ",".join(repr(v) for v in vals)),
                     observed=o[:400], expected=",".join("0x%016x" % bits(w) for w in want)[:400],
                     detail="folding decimal values: a kept cell is not the correctly rounded x + mirror / 0.5*x + 0.5*mirror (compared bit for bit)")

    def nontrivial(c, m):
        toks = m.split()[1].split(",") if len(m.split()) > 1 else []
        return len(set(toks)) > 1

    compare_cases(rep, "fold-vs-model", cases, nontrivial=nontrivial,
                  classify=lambda c, m, i: "fold:model-disagreement", spec=True, both_builds=(tier == "thorough"))

    # --- the property's own relations, evaluated on the implementation only
    c0 = ["fold %s %s zero" % (fmt(sh), fmt(d)) for sh, d in base]
    o0 = run_impl(c0)
    c_rev = ["fold %s %s zero" % (fmt(sh), fmt(list(reversed(d)))) for sh, d in base]
    o_rev = run_impl(c_rev)
    second = []
    for (sh, d), o in zip(base, o0):
        parts = o.split()
        second.append("fold %s %s zero" % (fmt(sh), parts[1] if len(parts) > 1 else "-"))
    o1 = run_impl(second)
    for (sh, d), a, b, r, c in zip(base, o0, o1, o_rev, c0):
        rep.count("fold-metamorphic", c, True, n=3)
        pa = a.split()
        if len(pa) < 2 or "PANIC" in a:
            rep.fail(kind="property-oracle", cls="fold:panic", case=c, observed=a, expected="a folded spectrum",
                     detail="fold failed on a valid spectrum")
            continue
        va = [tokval(t) for t in pa[1].split(",")]
        mass_in = sum(Fraction(x) for x in d)
        if any(isinstance(v, str) or v is None for v in va) or sum(va) != mass_in:
            rep.fail(kind="property-oracle", cls="fold:mass", case=c, observed=a, expected="total %s" % mass_in,
                     detail="fold with fill 0 does not preserve total mass")
        if a != b:
            rep.fail(kind="property-oracle", cls="fold:idempotence", case=c, observed=b, expected=a,
                     detail="folding twice (fill 0) differs from folding once")
        if a != r:
            rep.fail(kind="property-oracle", cls="fold:polarity", case=c, observed=r, expected=a,
                     detail="folding the mirrored spectrum differs from folding the spectrum")

    # --- CLI slice: integer data, text in -> text out, every fill
    jobs, meta = [], []
    for sh, d in rng.sample(base, min(len(base), 40 if tier == "quick" else 200)):
        ints = [str(rng.randrange(0, 1000)) if rng.random() < 0.5 else "0" for _ in d]
        for f in FILLS:
            jobs.append((["fold", "--fill", f, "--precision", "3"], text_spectrum(sh, ints)))
            meta.append((sh, ints, f))
    res = run_cli_many(jobs)
    from common import run_model, invocation_variants
    invocation_variants(rep, "fold:invocation-form", jobs + [(["fold", "-s", f, "-p", "2"], j[1]) for j, (_, _, f) in zip(jobs[:8], meta[:8])], rng, n=10 if tier == "quick" else 80)
    mo = run_model(["fold %s %s %s" % (fmt(sh), fmt(ints), f) for sh, ints, f in meta])
    for (sh, ints, f), (rc, so, se), m, job in zip(meta, res, mo, jobs):
        case = {"argv": ["sfs"] + job[0], "stdin": job[1].decode()}
        rep.count("fold-cli", str(case), True)
        parsed = parse_text_spectrum(so)
        exp = m.split()[1].split(",")
        ok = rc == 0 and parsed is not None and parsed[0] == list(sh) and len(parsed[1]) == len(exp) and \
            all(frac_to_dec(t) == (parse_value(e) if e not in ("nan", "inf") else e) for t, e in zip(parsed[1], exp))
        if not ok:
            rep.fail(kind="cli-vs-model", cls="fold:cli", case=None, argv=case["argv"], stdin=case["stdin"],
                     observed={"rc": rc, "stdout": so.decode(errors="replace")[:500], "stderr": se.decode(errors="replace")[:300]},
                     expected=m, detail="sfs fold output differs from the proved model's value")
    rep.assumptions += ["values are dyadic rationals small enough that x+y and (x+y)/2 are exact in binary64, so the exact-"
                        "arithmetic model and the f64 implementation must agree bit for bit",
                        "NaN / inf fills are tags: no arithmetic is performed on them by fold"]


if __name__ == "__main__":
    sys.exit(standard_main("C05", check, sys.argv[1:], RULE, needs_cli=True))
