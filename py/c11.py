"""C11 - no state leaks between records: histories of site classes through site::Reader vs the proved model; additivity and
permutation invariance on the real binary."""
import itertools
import random
import sys

from common import compare_cases, standard_main, run_cli_many, run_model, parse_text_spectrum
from callsets import render_vcf, model_records, model_samples, cli_samples_arg, model_project, cli_project_arg
from gen_create import random_callset, random_map, pop_sizes, random_projection
from fractions import Fraction

TOL = Fraction(1, 10**9)
RULE = ("catalogue of 14 site classes (two of them leave one population without any called genotype) (two of them with equal ALT counts out of different totals) (complete, complete other counts, partially missing in population A / in B, "
        "multiallelic, insufficient for the projection, exactly sufficient, all-missing, monomorphic, a record without a GT key) for 4 samples in 2 "
        "populations: ALL ordered pairs and triples (quick: all pairs + seeded triples) x {no projection, 3 projection "
        "targets} through site::Reader, each record's Site value compared with the model (whose per-record result is proved "
        "state-independent); the same histories and 4-8 record histories as whole runs with 8 boundary targets (a population projected to length 1, no reduction) against the model's spectrum; on the binary: create(A++B) = create(A) + create(B) and every tested permutation of the "
        "records prints identical bytes without projection, equal within 1e-9*records with. non-trivial = history with "
        ">= 2 different classes; cohorts of 70 and 140 samples with records skipping 1, 64, 65, 66, n-1, n samples followed by complete records; additivity with an empty part and with the parts given as BCF")

COLS = ["a", "b", "c", "d"]
SM = [("a", "A"), ("b", "A"), ("c", "B"), ("d", "B")]
CLASSES = {
    "complete1": ["0/1", "1/1", "0/0", "0/1"],
    "complete2": ["1/1", "1/1", "1/1", "0/0"],
    "missA": ["./.", "0/1", "1/1", "0/1"],
    "missB": ["0/1", "0/0", ".", "1/1"],
    "multi": ["1/2", "0/1", "0/0", "0/0"],
    "insufficient": ["./.", "./.", "0/1", "./."],
    "exact": ["./.", "1/1", "./.", "0/1"],
    "allmissing": ["./.", "./.", "./.", "./."],
    "mono": ["0/0", "0/0", "0/0", "0/0"],
    "allalt_full": ["1/1", "1/1", "1/1", "0/0"],         # the same ALT counts as the next class ...
    "allalt_miss": ["1/1", "1/1", "1/1", "./."],         # ... out of fewer called chromosomes (counts = totals in B)
    "missallB": ["0/1", "1/1", ".", "./."],              # population B without any called genotype (A complete)
    "missallA": ["./.", ".", "1/1", "0/1"],              # ... and population A
    "nogt": ["NOGT", "NOGT", "NOGT", "NOGT"],          # FORMAT without a GT key (rendered as DP only): nobody has a genotype
}
PROJS = [None, ("s", [3, 3]), ("s", [5, 1]), ("s", [2, 4]), ("s", [1, 5]), ("s", [3, 1])]


def check(rep, tier, seed):
    rng = random.Random(seed)
    names = list(CLASSES)
    hist = [list(p) for p in itertools.product(names, repeat=2)]
    triples = [list(p) for p in itertools.product(names, repeat=3)]
    hist += triples if tier == "thorough" else rng.sample(triples, 250)
    rep.coverage["exhaustive"] = (tier == "thorough")
    cases = []
    for h in hist:
        for pr in PROJS:
            cases.append("sites %s %s %s %s" % (",".join(COLS), model_samples(SM), model_project(pr), model_records([CLASSES[c] for c in h])))
    compare_cases(rep, "site-histories", cases, tol=TOL, nontrivial=lambda c, m: len(set(m.split()[1:-1])) > 1,
                  classify=lambda c, m, i: "state-leak:site-reader", spec=True, both_builds=(tier == "thorough"))

    # wide cohorts: what a record leaves behind may grow with the number of samples it skips (a list of 65, 100, 139 skipped
    # samples must be as gone at the next record as a list of one)
    wide = []
    for n in (70, 140):
        wcols = ["w%d" % i for i in range(n)]
        wsm = [(c, "A" if i % 3 else "B") for i, c in enumerate(wcols)]
        def wrec(nmiss, kind="./."):
            r = [rng.choice(["0/0", "0/1", "1/1", "0|1"]) for _ in wcols]
            for j in rng.sample(range(n), nmiss):
                r[j] = kind
            return r
        wclasses = {"complete": lambda: wrec(0), "miss1": lambda: wrec(1), "miss64": lambda: wrec(64), "miss65": lambda: wrec(65), "miss66multi": lambda: wrec(66, "1/2"),
                    "missmost": lambda: wrec(n - 1), "allmissing": lambda: wrec(n)}
        wn = list(wclasses)
        whist = [[a, b, "complete", "complete"] for a in wn for b in wn if "complete" in (a, b) or rng.random() < 0.3]
        for h in (whist if tier == "thorough" else rng.sample(whist, 14)):
            recs_w = [wclasses[c]() for c in h]
            for pr in (None, ("s", [3, 3]), ("s", [2 * z + 1 for z in pop_sizes(wsm)])):
                wide.append("sites %s %s %s %s" % (",".join(wcols), model_samples(wsm), model_project(pr), model_records(recs_w)))
    # one population of more than 85 samples (beyond the factorial table, where an implementation may switch to another way
    # of computing the weights), projected: sites with few and with almost only derived alleles in every order - what a site
    # with few derived alleles leaves in a scratch table must not show in the next one
    for n in ((90,) if tier == "quick" else (86, 90, 120, 171)):
        bcols = ["b%d" % i for i in range(n)]
        bsm = [(c, "A") for c in bcols]
        def brec(a):
            return ["1/1"] * (a // 2) + ["0/1"] * (a % 2) + ["0/0"] * (n - a // 2 - a % 2)
        lo, mid, hi, top = 5, n, 2 * n - 8, 2 * n
        for h in ([lo, hi], [hi, lo], [lo, top], [mid, hi, lo, hi], [0, hi], [lo, lo, hi], [hi, top, lo, mid]):
            for m in (40, 2 * n - 100 if 2 * n - 100 > 3 else 7):
                wide.append("sites %s %s %s %s" % (",".join(bcols), model_samples(bsm), model_project(("s", [m + 1])), model_records([brec(a) for a in h])))
    compare_cases(rep, "site-histories-wide-cohorts", wide, tol=TOL, nontrivial=lambda c, m: len(set(m.split()[1:-1])) > 1,
                  classify=lambda c, m, i: "state-leak:site-reader", spec=True)

    # whole runs over the same histories (the spectrum, i.e. after the projection's scratch buffer has been reused from record
    # to record), with targets on the boundary: a population projected away (length 1), no reduction (length 5)
    PROJS_RUN = [("s", [1, 5]), ("s", [5, 1]), ("s", [1, 1]), ("s", [1, 3]), ("s", [3, 1]), ("s", [2, 2]), ("s", [5, 5]), ("s", [4, 5])]
    runs = []
    hs = hist if tier == "thorough" else [h for h in hist if len(h) == 2] + rng.sample([h for h in hist if len(h) == 3], 120)
    longer = [[rng.choice(names) for _ in range(rng.randrange(4, 9))] for _ in range(30 if tier == "quick" else 300)]
    for h in hs + longer:
        for pr in (PROJS_RUN if tier == "thorough" or len(h) > 3 else rng.sample(PROJS_RUN, 3)):
            recs_h = [CLASSES[c] for c in h]
            # where a record stands is no part of what it contributes: consecutive records share their POS across a
            # contig boundary (chr1:7, chr2:7, chr1:7, ...) in every third run, and within a contig (a site split over
            # several records) in another third
            lay = len(runs) % 3
            ctg = [("chr1" if i % 2 == 0 else "chr2") for i in range(len(h))] if lay == 1 else None
            pos = [7] * len(h) if lay == 1 else ([1 + i // 2 for i in range(len(h))] if lay == 2 else None)
            runs.append(("create 0 %s %s %s %s" % (",".join(COLS), model_samples(SM), model_project(pr), model_records(recs_h)),
                         ["create", "--precision", "12"] + cli_samples_arg(SM) + cli_project_arg(pr), render_vcf(COLS, recs_h, contigs=ctg, positions=pos)))
    exps = run_model([r[0] for r in runs])
    outs = run_cli_many([(r[1], r[2]) for r in runs])
    for (mc, argv, vcf), exp, (rc, so, se) in zip(runs, exps, outs):
        rep.count("run-histories", mc, True)
        if exp.startswith("OK"):
            e = exp.split()
            p = parse_text_spectrum(so)
            ok = rc == 0 and p is not None and p[0] == [int(x) for x in e[1].split(",")] and len(p[1]) == len(e[2].split(",")) and \
                all(abs(Fraction(t) - Fraction(x)) <= Fraction(1, 10**9) for t, x in zip(p[1], e[2].split(",")))
        else:
            ok = rc != 0 and so == b""
        if not ok:
            rep.fail(kind="cli-vs-model", cls="state-leak:projection-run", case=mc, argv=["sfs"] + argv, stdin=vcf.decode(),
                     observed={"rc": rc, "stdout": so.decode(errors="replace")[:300]}, expected=exp[:300],
                     detail="the spectrum of a run over this history of site classes differs from the proved model's (sum of per-record contributions)")

    # additivity and permutation on the binary
    jobs, meta = [], []
    for k in range(40 if tier == "quick" else 400):
        cols, recs = random_callset(rng, nsamples=rng.randrange(2, 8), nrecords=rng.randrange(2, 16), p_skip=0.3)
        sm = random_map(rng, cols)
        pr = None if k % 2 == 0 else random_projection(rng, pop_sizes(sm))
        if pr is not None and k % 4 == 1:
            # boundary targets: some populations projected away entirely (length 1), the others kept or reduced
            pr = ("s", [1 if rng.random() < 0.5 else rng.randrange(1, 2 * n + 2) for n in pop_sizes(sm)])
        cut = rng.randrange(0, len(recs) + 1) if k % 5 else rng.choice([0, len(recs)])        # an EMPTY part is a part, too
        argv = ["create", "--precision", "12"] + cli_samples_arg(sm) + cli_project_arg(pr)
        # positions: two contigs, the second starting at the POS the first ended on; now and then the same POS twice in a row
        npos, p_, where = [], 0, []
        for i in range(len(recs)):
            p_ += 0 if (i > 0 and rng.random() < 0.25) else 1
            npos.append(p_)
        split = rng.randrange(0, len(recs) + 1)
        where = [("chr1", npos[i]) if i < split else ("chr2", npos[i] - (npos[split] - npos[split - 1] if 0 < split < len(recs) else 0) if split > 0 else npos[i]) for i in range(len(recs))]
        order = list(range(len(recs))); rng.shuffle(order)
        perm = [recs[i] for i in order]
        for part, idxs in ((recs, range(len(recs))), (recs[:cut], range(cut)), (recs[cut:], range(cut, len(recs))), (perm, order)):
            v_ = render_vcf(cols, [[g if g != "." else "./." for g in r] for r in part] if k % 3 == 0 else part, contigs=[where[i][0] for i in idxs], positions=[where[i][1] for i in idxs])
            if k % 3 == 0:
                # the same through the other container (uncompressed BCF, htslib layout; every sixth: BGZF)
                from callsets import bcf_encode_hts, bgzf_compress
                b_ = bcf_encode_hts(v_)
                v_ = v_ if b_ is None else (bgzf_compress(b_) if k % 6 == 0 else b_)
            jobs.append((argv, v_))
        meta.append((argv, cols, recs, cut, pr))
    res = run_cli_many(jobs)
    for i, (argv, cols, recs, cut, pr) in enumerate(meta):
        whole, a, b, perm = res[4 * i:4 * i + 4]
        rep.count("additivity-permutation", " ".join(argv) + " records=%d cut=%d" % (len(recs), cut), True, n=4)
        if whole[0] == 0 and any(r[0] != 0 for r in (a, b, perm)):
            bad = [n_ for n_, r in (("first part", a), ("second part", b), ("permutation", perm)) if r[0] != 0]
            rep.fail(kind="property-oracle", cls="state-leak:additivity", case="cut at %d of %d: %s fails" % (cut, len(recs), ", ".join(bad)), argv=["sfs"] + argv,
                     stdin_hex=jobs[4 * i + (1 if a[0] != 0 else 2 if b[0] != 0 else 3)][1].hex()[:100000], observed={"rc": [r[0] for r in (a, b, perm)], "stderr": (a[2] + b[2] + perm[2]).decode(errors="replace")[-300:]},
                     expected="every part (an empty one included) and every permutation of a call set that can be read can be read",
                     detail="the whole call set gives a spectrum, yet a part of it (or a permutation) fails")
            continue
        if any(r[0] != 0 for r in (whole, a, b, perm)):
            continue   # projection/builder error for this configuration: covered by C02
        pw, pa, pb, pp = [parse_text_spectrum(r[1]) for r in (whole, a, b, perm)]
        vals = lambda p: [Fraction(t) for t in p[1]]
        tol = TOL * max(1, len(recs)) if pr else 0
        if pw[0] != pa[0] or any(abs(x - (y + z)) > tol for x, y, z in zip(vals(pw), vals(pa), vals(pb))):
            rep.fail(kind="property-oracle", cls="state-leak:additivity", case="cut at %d" % cut, argv=["sfs"] + argv,
                     stdin=jobs[4 * i][1].decode(errors="replace"), observed=whole[1].decode()[:300], expected="sum of %s and %s" % (a[1].decode()[:150], b[1].decode()[:150]),
                     detail="spectrum of the concatenation differs from the sum of the spectra of the parts")
        if (pr is None and whole[1] != perm[1]) or any(abs(x - y) > tol for x, y in zip(vals(pw), vals(pp))):
            rep.fail(kind="property-oracle", cls="state-leak:permutation", case="permuted records", argv=["sfs"] + argv,
                     stdin=jobs[4 * i + 3][1].decode(errors="replace"), observed=perm[1].decode()[:300], expected=whole[1].decode()[:300],
                     detail="a permutation of the records gives a different spectrum")
    rep.assumptions += ["with projection the sums are compared within 1e-9*records (f64 summation order), without projection byte for byte"]


if __name__ == "__main__":
    sys.exit(standard_main("C11", check, sys.argv[1:], RULE, needs_cli=True))
