"""C18 - results do not depend on how the byte stream is chunked; I/O errors surface (partial: the stream logic is
modelled and proved; what noodles does between fill_buf calls is exercised only)."""
import os
import random
import subprocess
import sys
import time

from common import compare_cases, standard_main, run_impl, run_model, WORK, sfs_path, ENV
from callsets import render_vcf, bgzf_compress, vcf_to_bcf, bcf_encode_hts
from floats import tok, random_bits
from gen_create import random_callset

RULE = ("npy input (files written by write_npy, 1-3 axes): first-chunk length enumerated exhaustively 1..len with the rest in "
        "one chunk / in random chunks of 1-7 bytes, plus the all-ones schedule: Array::read_npy over the chunk-scheduled "
        "BufRead vs the proved stream model, and all equal to the whole-buffer result; a read failure injected at EVERY byte "
        "offset must give an error. Writers: npy and text through a writer accepting 1-5 bytes per call (schedules as above) "
        "must produce the same bytes; a failure at EVERY offset of the written stream must give an error (npy vs the model). "
        "Call sets: vcf, BGZF vcf.gz (several block layouts), BGZF bcf, raw bcf through the verif hook "
        "(Builder::verif_build_from_reader) with first-chunk length exhaustive (small files) and later chunks random down "
        "to 1 byte: decoded sites must equal the whole-buffer run; failures injected at sampled offsets must not yield a "
        "successful run; the real binary fed through a pipe with a delayed, split first write. non-trivial = schedule with a "
        "first chunk shorter than the format's magic/header; injected failures of every io::ErrorKind (UnexpectedEof included), also beyond the 64 KiB detection prefix; BGZF streams cut inside a block through the binary; sinks that are full (accept zero bytes) rather than failing, at every offset, npy and text; chunk schedules with the compression and / or the format preset by the caller; sources that return Interrupted once before every delivery")


def fmt(l):
    return ",".join(map(str, l)) if l else "-"


def schedules(n, rng, exhaustive_first=True, extra=6):
    out = [[], [1] * n]
    firsts = range(1, n + 1) if exhaustive_first else sorted(set([1, 2, 3, 5, 8, 17, 18, 19, 27, 28, 29] + [rng.randrange(1, n + 1) for _ in range(12)]))
    for f in firsts:
        if f > n:
            continue
        out.append([f])
        if f % 3 == 0 or not exhaustive_first:
            out.append([f] + [rng.randrange(1, 8) for _ in range(n)])
    for _ in range(extra):
        out.append([rng.randrange(1, 8) for _ in range(n)])
    return out


def check(rep, tier, seed):
    rng = random.Random(seed)
    # ------------------------------------------------------------------ npy reading
    cases = []
    hexes = []
    for sh in ([3], [2, 2], [2, 1, 3]):
        n = 1
        for x in sh:
            n *= x
        vals = [random_bits(rng) for _ in range(n)]
        hexes.append((sh, vals, run_impl(["npyw %s %s" % (fmt(sh), ",".join(tok(v) for v in vals))])[0]))
    # the same arrays as NPY 2.0 and 3.0 files (4-byte header length at offsets 8..11; sfs itself writes 1.0 only)
    import struct

    def reversion(hx, major):
        b = bytes.fromhex(hx)
        hl = struct.unpack("<H", b[8:10])[0]
        d = b[10:10 + hl].rstrip(b" \n")
        pad = (-(6 + 2 + 4 + len(d) + 1)) % 64
        hdr = d + b" " * pad + b"\n"
        return (b[:6] + bytes([major, 0]) + struct.pack("<I", len(hdr)) + hdr + b[10 + hl:]).hex()
    hexes += [(sh, vals, reversion(hx, major)) for sh, vals, hx in hexes[:3] for major in (2, 3)]
    # ... and files of other element types (hand-built as numpy lays them out): one byte per element (no refill is enough for
    # "all of them"), two bytes, big-endian
    others = []          # read only: the writer produces float64 files

    def other_npy(descr, code, shape, ints):
        dct = ("{'descr': '%s', 'fortran_order': False, 'shape': (%s), }" % (descr, "".join("%d, " % k for k in shape).rstrip() if len(shape) > 1 else "%d," % shape[0])).encode()
        hdr = dct + b" " * ((-(10 + len(dct) + 1)) % 64) + b"\n"
        return (b"\x93NUMPY\x01\x00" + struct.pack("<H", len(hdr)) + hdr + b"".join(struct.pack(code, v) for v in ints)).hex()
    for descr, code, shape, ints in (("|u1", "B", [2, 3], [0, 1, 2, 200, 255, 7]), ("|i1", "b", [5], [0, 1, 127, -128, -1]), (">i2", ">h", [3], [1, -2, 300]), ("<u4", "<I", [2, 2], [1, 2, 3, 4000000000])):
        others.append((shape, [struct.unpack("<Q", struct.pack("<d", float(v)))[0] for v in ints], other_npy(descr, code, shape, ints)))
    for sh, vals, hx in hexes + others:
        L = len(hx) // 2
        for sc in schedules(L, rng, exhaustive_first=True):
            cases.append("cnpy %s %s -" % (hx, fmt(sc)))
        for f in range(L):
            cases.append("cnpy %s %s %d" % (hx, fmt(rng.choice([[], [1] * L, [rng.randrange(1, 9) for _ in range(L)]])), f))
            if f % 3 == 0:
                # whatever KIND of error the source fails with (an unexpected end of file is not an end of file)
                cases.append("cnpy %s %s %d:%s" % (hx, fmt(rng.choice([[], [1] * L])), f, rng.choice(["eof", "pipe", "timeout", "invalid", "reset", "wouldblock"])))
    # streams with bytes AFTER the values (one byte, one more value, another file's worth): an error under every schedule - in
    # particular when a chunk ends exactly where the values end and the surplus only arrives with the next refill
    surplus = []
    for sh, vals, hx in hexes[:3] + hexes[3:5] + others[:2]:
        for extra in ("00", "00" * 8, "0a", hx[:40]):
            hx2 = hx + extra
            surplus.append(hx2)
            L = len(hx2) // 2
            for sc in schedules(L, rng, exhaustive_first=True):
                cases.append("cnpy %s %s -" % (hx2, fmt(sc)))
            for k in (1, 2, 3, 8):
                hdr_end = 10 + int.from_bytes(bytes.fromhex(hx[16:20]), "little") if hx[12:14] == "01" else None
                if hdr_end:
                    cases.append("cnpy %s %s -" % (hx2, fmt([hdr_end, len(hx) // 2 - hdr_end] + [k] * L)))
                cases.append("cnpy %s %s -" % (hx2, fmt([len(hx) // 2] + [k] * L)))
    mo, outs = compare_cases(rep, "npy-chunked-read", cases, nontrivial=lambda c, m: c.split()[2] != "-",
                             classify=lambda c, m, i: "chunking:npy-read", spec=True, both_builds=(tier == "thorough"))
    surplus_set = set(surplus)
    for c, o in zip(dict.fromkeys(cases), outs[False]):
        t = c.split()
        hx = t[1]
        if hx in surplus_set:
            want = "ERR"
        else:
            sh, vals = next((s, v) for s, v, h in hexes + others if h == hx)
            want = "OK %s %s" % (fmt(sh), ",".join(tok(v) for v in vals)) if t[3] == "-" else "ERR"
        if o != want:
            rep.fail(kind="property-oracle", cls="chunking:npy-read:" + ("schedule" if t[3] == "-" else "fault"), case=c[:300], observed=o[:200], expected=want[:200],
                     detail="npy read depends on the chunk schedule / a read failure did not surface")
    # ------------------------------------------------------------------ writers
    wcases, wt = [], []
    for sh, vals, hx in hexes:
        L = len(hx) // 2
        bits = ",".join(tok(v) for v in vals)
        for sc in schedules(L, rng, exhaustive_first=False, extra=4):
            wcases.append("cwrite npy %s 0 %s %s -" % (fmt(sh), bits, fmt(sc)))
        for f in range(L):
            wcases.append("cwrite npy %s 0 %s %s %d" % (fmt(sh), bits, fmt(rng.choice([[], [1] * L, [3] * L])), f))
            if f % 2 == 0 or f >= L - 9:
                wcases.append("cwrite npy %s 0 %s %s %d:zero" % (fmt(sh), bits, fmt(rng.choice([[], [5] * L])), f))
        ref = run_impl(["textw %s 4 %s" % (fmt(sh), bits)])[0]
        LT = len(ref) // 2
        for sc in schedules(LT, rng, exhaustive_first=False, extra=4):
            wt.append(("cwrite text %s 4 %s %s -" % (fmt(sh), bits, fmt(sc)), "OK " + ref))
        for f in range(LT):
            wt.append(("cwrite text %s 4 %s %s %d" % (fmt(sh), bits, fmt(rng.choice([[], [1] * LT, [2] * LT])), f), "ERR"))
            # a destination that is FULL rather than failing (accepts zero bytes, as a fixed-size buffer does): an error as well
            wt.append(("cwrite text %s 4 %s %s %d:zero" % (fmt(sh), bits, fmt(rng.choice([[], [3] * LT])), f), "ERR"))
            wt.append(("cwrite text %s 4 %s - %d:%s" % (fmt(sh), bits, f, rng.choice(["eof", "pipe", "timeout", "invalid"])), "ERR"))
    mo_w, outs_w = compare_cases(rep, "npy-short-write", wcases, nontrivial=lambda c, m: True, classify=lambda c, m, i: "chunking:npy-write", spec=True)
    for c, o in zip(dict.fromkeys(wcases), outs_w[False]):
        t = c.split()
        hx = next(h for s, v, h in hexes if fmt(s) == t[2])
        want = "OK " + hx if t[6] == "-" else "ERR"
        if o != want:
            rep.fail(kind="property-oracle", cls="chunking:npy-write:" + ("schedule" if t[6] == "-" else "fault"), case=c[:300], observed=o[:200], expected=want[:200],
                     detail="npy write through a short-write/failing sink")
    for (c, want), o in zip(wt, run_impl([c for c, _ in wt])):
        rep.count("text-short-write", c[:200], True)
        if o != want:
            rep.fail(kind="property-oracle", cls="chunking:text-write:" + ("schedule" if want != "ERR" else "fault"), case=c[:300], observed=o[:200], expected=want[:200],
                     detail="text write through a short-write/failing sink")
    # ------------------------------------------------------------------ the binary writing to a stdout that fails
    # a consumer that has gone away (closed pipe: EPIPE at offset 0, or after the first pipe buffer) and a full device: the
    # process must fail, not report success with nothing or a part written
    import subprocess as _sp
    from common import sfs_path, ENV, text_spectrum as _ts
    big_txt = _ts([300, 300], [str(i % 97) for i in range(90000)])
    small_txt = _ts([3], ["1", "2", "3"])
    small_vcf = render_vcf(["a", "b"], [["0/1", "1/1"], ["0/0", "0/1"]])
    for argv, data, label in ((["view"], small_txt, "view text"), (["view", "-O", "npy"], small_txt, "view npy"), (["fold"], small_txt, "fold"),
                              (["create"], small_vcf, "create"), (["view", "--precision", "9"], big_txt, "view of 90000 entries")):
        for mode in ("closed-pipe", "reader-leaves-early", "/dev/full"):
            if mode == "/dev/full":
                with open("/dev/full", "wb") as full:
                    p_ = _sp.run([sfs_path()] + argv, input=data, stdout=full, stderr=_sp.PIPE, env=ENV)
                rc_, se_ = p_.returncode, p_.stderr
            else:
                p_ = _sp.Popen([sfs_path()] + argv, stdin=_sp.PIPE, stdout=_sp.PIPE, stderr=_sp.PIPE, env=ENV)
                if mode == "closed-pipe":
                    p_.stdout.close()
                try:
                    p_.stdin.write(data); p_.stdin.close()
                except OSError:
                    pass
                if mode == "reader-leaves-early":
                    if len(data) < 100000:
                        p_.stderr.close(); p_.stdout.close(); p_.wait()
                        continue
                    p_.stdout.read(10); p_.stdout.close()
                se_ = p_.stderr.read(); rc_ = p_.wait()
            rep.count("stdout-failure", "%s, stdout %s" % (label, mode), True)
            if rc_ == 0 or rc_ == 101 or rc_ < 0:
                rep.fail(kind="property-oracle", cls="chunking:stdout-failure:" + mode, case="%s with stdout %s" % (label, mode), argv=["sfs"] + argv,
                         stdin=data.decode(errors="replace")[:2000], observed={"rc": rc_, "stderr": se_.decode(errors="replace")[-200:]}, expected="a non-zero exit status (an error, not a panic or signal)",
                         detail="the writer failed (%s) before all output was written, yet the run did not end in an error" % mode)
    # ------------------------------------------------------------------ call sets through the hook
    d = os.path.join(WORK, "c18")
    os.makedirs(d, exist_ok=True)
    cols, recs = random_callset(rng, nsamples=3, nrecords=5, p_skip=0.2)
    recs = [[g if g != "." else "./." for g in r] for r in recs]
    vcf = render_vcf(cols, recs)
    bcf_raw = vcf_to_bcf(vcf, "c18", "raw")
    files = {"vcf": vcf, "vcf.gz": bgzf_compress(vcf), "vcf.gz-smallblocks": bgzf_compress(vcf, sizes=[97, 31, 200], empty_every=3),
             "vcf.gz-noeof": bgzf_compress(vcf, eof=False), "vcf.gz-emptyfirst": bgzf_compress(vcf, sizes=[1, 2, 300], empty_first=True)}
    if bcf_raw:
        files["bcf-raw"] = bcf_raw
        files["bcf"] = bgzf_compress(bcf_raw, sizes=[500])
    # a call set longer than the 64 KiB detection prefix: what follows the prefix must arrive intact whatever chunk straddles
    # the 65536th byte
    bcols, brecs = random_callset(rng, nsamples=4, nrecords=2200, p_skip=0.05)
    brecs = [[g if g != "." else "./." for g in r] for r in brecs]
    bigvcf = render_vcf(bcols, brecs)
    bigfiles = {"big-vcf": bigvcf, "big-vcf.gz": bgzf_compress(bigvcf, sizes=[3000]), "big-bcf-raw": bcf_encode_hts(bigvcf)}
    rep.coverage["big_call_set_bytes"] = {k: len(v) for k, v in bigfiles.items()}
    gcases, gmeta = [], []
    for name, data in bigfiles.items():
        path = os.path.join(d, "in." + name)
        open(path, "wb").write(data)
        files[name] = data
        for sc in [[]] + [[f] + [8192] * 40 for f in (1, 2, 1000, 4097, 8191, 65535, 65536, 65537)] + [[rng.randrange(1, 20000) for _ in range(60)] for _ in range(4)] + [[7919] * 100]:
            gcases.append("cgeno %s %s - 1" % (path, fmt(sc))); gmeta.append((name, "schedule", sc[:1]))
    for name, data in files.items():
        if name.startswith("big-"):
            continue
        path = os.path.join(d, "in." + name)
        open(path, "wb").write(data)
        L = len(data)
        exhaustive = tier == "thorough" or L <= 1200
        firsts = range(1, L + 1) if exhaustive else sorted(set(list(range(1, 40)) + [rng.randrange(1, L + 1) for _ in range(60)]))
        scheds = [[]] + [[f] for f in firsts] + [[f] + [rng.randrange(1, 64) for _ in range(40)] for f in list(firsts)[:: max(1, len(firsts) // 40)]]
        scheds += [[1] * L, [rng.randrange(1, 4) for _ in range(L)]]
        for sc in scheds:
            gcases.append("cgeno %s %s - %d" % (path, fmt(sc), rng.choice([1, 2, 4]))); gmeta.append((name, "schedule", sc[:1]))
        # a read that is interrupted by a signal and retried (ErrorKind::Interrupted once before every delivery, the end of
        # the stream included) loses nothing: the same sites, the same clean end
        for sc in [[], [1] * min(L, 300), [7] * 200, [4096] * 40]:
            gcases.append("cgeno %s %s -:intr 1" % (path, fmt(sc))); gmeta.append((name, "schedule", [0] + sc[:1]))
        # the same when the caller of the library SAYS what the stream holds (compression and / or format preset instead of
        # detected): what is left to detection must still not depend on the first chunk
        comp = "bgzf" if (name.startswith("vcf.gz") or name == "bcf") else "plain"
        form = "bcf" if name.startswith("bcf") else "vcf"
        for preset in (comp, form, comp + "+" + form):
            for sc in [[]] + [[f] for f in list(firsts)[:40]] + [[1] * min(L, 400), [2, 1, 1, 3] * 30]:
                gcases.append("cgeno %s %s - 1 %s" % (path, fmt(sc), preset)); gmeta.append((name, "schedule", sc[:1]))
        for f in sorted(set([0, 1, 2, 3, 10, 27, 28, 29, L - 1, L - 28, L - 29] + [rng.randrange(0, L) for _ in range(25)])):
            if 0 <= f < L:
                gcases.append("cgeno %s %s %d 1" % (path, fmt(rng.choice([[], [7] * 50])), f)); gmeta.append((name, "fault", f))
                gcases.append("cgeno %s %s %d:%s 1" % (path, fmt(rng.choice([[], [7] * 50])), f, rng.choice(["eof", "pipe", "timeout", "invalid", "reset"]))); gmeta.append((name, "fault", f))
    # ... and beyond the 64 KiB the format detection reads ahead, where the record readers are the ones that meet the
    # failure: every kind of error, an "unexpected end of file" included, must surface
    from callsets import bgzf_block, BGZF_EOF
    stored = b"".join(bgzf_block(bigvcf[i:i + 3000], level=0) for i in range(0, len(bigvcf), 3000)) + BGZF_EOF     # longer than the prefix
    files["big-vcf.gz-stored"] = stored
    open(os.path.join(d, "in.big-vcf.gz-stored"), "wb").write(stored)
    for name, data in list(bigfiles.items()) + [("big-vcf.gz-stored", stored)]:
        path = os.path.join(d, "in." + name)
        L = len(data)
        for sc in [[], [4099] * 200, [65536, 1, 8192]]:
            gcases.append("cgeno %s %s -:intr 1" % (path, fmt(sc))); gmeta.append((name, "schedule", [0] + sc[:1]))
        if L < 70000:
            continue
        for f in [65536, 65537, 66000, L - 1, L - 30] + [rng.randrange(65600, L) for _ in range(10 if tier == "quick" else 60)]:
            for kind in (["eof", rng.choice(["pipe", "timeout", "invalid", "reset"])] if tier == "quick" else ["eof", "pipe", "timeout", "invalid", "reset", ""]):
                gcases.append("cgeno %s %s %d%s 1" % (path, fmt(rng.choice([[], [4099] * 200])), f, ":" + kind if kind else "")); gmeta.append((name, "fault", f))
    go = run_impl(gcases)
    ref = {}
    for c, (name, kind, x), o in zip(gcases, gmeta, go):
        if kind == "schedule" and c.split()[2] == "-":
            ref[name] = o
    for c, (name, kind, x), o in zip(gcases, gmeta, go):
        rep.count("callset-chunked:" + name, c[:200], kind == "fault" or (x and x[0] < 30))
        if kind == "schedule":
            if o != ref[name] or not o.endswith(" D"):
                rep.fail(kind="property-oracle", cls="chunking:callset:%s:first-chunk" % name.split("-")[0], case="%s first chunk %s" % (name, x),
                         stdin_hex=files[name].hex()[:6000], observed=o[:300], expected=ref[name][:300], harness_case=c,
                         detail="reading the call set through a chunk schedule (first chunk %s) differs from reading it in one piece" % x)
        else:
            tail_ok = name.startswith("vcf.gz") or name in ("bcf", "big-vcf.gz", "big-vcf.gz-stored")     # the trailing empty BGZF block carries no data
            if o.endswith(" D") and not (tail_ok and x >= len(files[name]) - 28):
                rep.fail(kind="property-oracle", cls="chunking:callset:fault-ignored", case="%s read failure at offset %d" % (name, x), harness_case=c,
                         stdin_hex=files[name].hex()[:6000], observed=o[:300], expected="an error", detail="a read failure before the end of the stream did not surface")
    # ------------------------------------------------------------------ the real binary through a pipe with a split first write
    for name in (["vcf", "vcf.gz", "bcf"] if "bcf" in files else ["vcf", "vcf.gz"]):
        data = files[name]
        whole = subprocess.run([sfs_path(), "create"], input=data, capture_output=True, env=ENV)
        for first in ([1, 2] if tier == "quick" else [1, 2, 3, 10, 27]):
            p = subprocess.Popen([sfs_path(), "create"], stdin=subprocess.PIPE, stdout=subprocess.PIPE, stderr=subprocess.PIPE, env=ENV)
            try:
                p.stdin.write(data[:first]); p.stdin.flush()
                time.sleep(0.25)
                p.stdin.write(data[first:]); p.stdin.close()
            except (BrokenPipeError, OSError):
                pass       # the process gave up before reading everything: its result is compared below
            so = p.stdout.read(); se = p.stderr.read(); rc = p.wait()
            rep.count("binary-pipe-split", "%s first write %d bytes" % (name, first), True)
            if (rc, so) != (whole.returncode, whole.stdout):
                rep.fail(kind="property-oracle", cls="chunking:callset:%s:first-chunk" % name.split("-")[0], case="pipe: %s with a first write of %d bytes" % (name, first),
                         argv=["sfs", "create"], stdin_hex=data.hex()[:6000], observed={"rc": rc, "stdout": so.decode(errors="replace")[:200], "stderr": se.decode(errors="replace")[-200:]},
                         expected=whole.stdout.decode(errors="replace")[:200], detail="the binary's result depends on how the pipe delivers the first bytes")
    # ------------------------------------------------------------------ a compressed stream that ends inside a block
    # (the decompressor meets an unexpected end of file in the middle of the records): an error, not the spectrum of the
    # records that happened to arrive; by path and on stdin, with one and several threads
    tvcf = bigfiles["big-vcf"]
    tgz = bgzf_compress(tvcf, sizes=[2500])
    offs, pos = [], 0
    while pos < len(tgz):
        bs = int.from_bytes(tgz[pos + 16:pos + 18], "little") + 1
        offs.append((pos, bs)); pos += bs
    tjobs = []
    from common import run_cli_many
    for k in sorted(set([len(offs) // 2, len(offs) - 3] + [rng.randrange(8, len(offs) - 2) for _ in range(3 if tier == "quick" else 20)])):
        bpos, bs = offs[k]
        for inside in (18, 19, bs // 2, bs - 9, bs - 1):
            cut = tgz[:bpos + inside]
            tjobs.append((["create"] + rng.choice([[], ["-t", "1"], ["-t", "4"]]), cut, "block %d of %d, %d of %d bytes" % (k, len(offs), inside, bs)))
    tb = bcf_encode_hts(tvcf)
    if tb:
        tbgz = bgzf_compress(tb, sizes=[2500])
        boffs, pos = [], 0
        while pos < len(tbgz):
            bs = int.from_bytes(tbgz[pos + 16:pos + 18], "little") + 1
            boffs.append((pos, bs)); pos += bs
        for k in [len(boffs) // 2, len(boffs) - 3, rng.randrange(8, len(boffs) - 2)]:
            bpos, bs = boffs[k]
            for inside in (18, bs // 2, bs - 1):
                tjobs.append((["create"], tbgz[:bpos + inside], "bcf block %d of %d, %d of %d bytes" % (k, len(boffs), inside, bs)))
        # the layout htslib gives a BCF: every block starts with a record (records do not straddle blocks), so that the end of
        # a block is where a reader expects either the next record or the end of the file
        import struct as _st
        hp = 9 + _st.unpack("<I", tb[5:9])[0]
        rb, pos = [], hp
        while pos < len(tb):
            ls, li = _st.unpack("<II", tb[pos:pos + 8])
            rb.append((pos, 8 + ls + li)); pos += 8 + ls + li
        ablocks = [bgzf_block(tb[:hp])] + [bgzf_block(tb[rb[i][0]:rb[min(i + 25, len(rb)) - 1][0] + rb[min(i + 25, len(rb)) - 1][1]]) for i in range(0, len(rb), 25)]
        for k in [len(ablocks) // 2, len(ablocks) - 2, rng.randrange(6, len(ablocks) - 1)]:
            for inside in (18, 40, len(ablocks[k]) - 1):
                tjobs.append((["create"] + rng.choice([[], ["-t", "1"]]), b"".join(ablocks[:k]) + ablocks[k][:inside],
                              "bcf, records aligned to blocks, block %d of %d, %d of %d bytes" % (k, len(ablocks), inside, len(ablocks[k]))))
    for (argv, data, what), (rc, so, se) in zip(tjobs, run_cli_many([(a, b) for a, b, _ in tjobs])):
        rep.count("truncated-bgzf", what, True)
        if rc == 0 or so != b"":
            rep.fail(kind="property-oracle", cls="chunking:truncated-bgzf", case="BGZF stream cut inside " + what, argv=["sfs"] + argv, stdin_hex=data.hex()[:400000],
                     observed={"rc": rc, "stdout": so.decode(errors="replace")[:200], "stderr": se.decode(errors="replace")[-200:]}, expected="non-zero exit, empty stdout",
                     detail="the compressed stream ends in the middle of a block (an unexpected end of file while records are being read), yet the run reports success with partial data")
    for f in os.listdir(d):
        os.remove(os.path.join(d, f))
    rep.assumptions += ["partial: thread scheduling inside noodles-bgzf, inflate and the record parsers are exercised through the chunked stream, not modelled",
                        "text spectra are read by read_to_end before parsing (schedule independence of read_to_end is proved)"]


if __name__ == "__main__":
    sys.exit(standard_main("C18", check, sys.argv[1:], RULE, needs_cli=True))
