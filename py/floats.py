"""f64 bit-pattern helpers and generators"""
import struct
from fractions import Fraction


def bits(x):
    return struct.unpack(">Q", struct.pack(">d", x))[0]


def unbits(b):
    return struct.unpack(">d", struct.pack(">Q", b))[0]


def tok(b):
    return "b%016x" % b


def frac(b):
    x = unbits(b)
    return Fraction(x)


def is_finite(b):
    return (b >> 52) & 0x7ff != 0x7ff


SPECIAL = [0x0000000000000000, 0x8000000000000000, 0x7ff0000000000000, 0xfff0000000000000, 0x7ff8000000000000,
           0x7ff8000000000001, 0xfff8000000000000, 0x7ff0000000000001, 0x0000000000000001, 0x000fffffffffffff,
           0x0010000000000000, 0x7fefffffffffffff, 0xffefffffffffffff, 0x3ff0000000000000, 0xbff0000000000000,
           0x3fe0000000000000, 0x3ff8000000000000, 0x4004000000000000, 0x3fb999999999999a, 0x4340000000000000,
           0x433fffffffffffff, 0x3cb0000000000000]


def random_bits(rng, kind=None):
    k = kind or rng.choice(["any", "small", "int", "dec", "tie", "special", "sub"])
    if k == "any":
        return rng.getrandbits(64)
    if k == "small":
        return bits(rng.uniform(-1000, 1000))
    if k == "int":
        return bits(float(rng.randrange(-10**6, 10**6)))
    if k == "dec":
        return bits(rng.randrange(0, 10**9) / 10 ** rng.randrange(0, 9))
    if k == "tie":     # exact binary ties at some decimal position: k + 0.5 scaled by powers of two
        return bits((rng.randrange(0, 1000) + 0.5) / 2 ** rng.randrange(0, 12))
    if k == "sub":
        return rng.getrandbits(52) | (rng.getrandbits(1) << 63)
    return rng.choice(SPECIAL)
