"""Confirm a seeded change and run checks against it.
usage: seedtest.py <seed-id> <worktree> <property> [other checks ...]
1. copies patch.diff / demo.sh from the worktree to /verif/seeded/<seed-id>/
2. in the worktree: test suite with the change; demo with the change (must fail) and without (must pass)
3. applies the patch to /repo, runs the quick checks, reverts /repo; writes meta.json"""
import json, os, shutil, subprocess, sys, time

seed, wt, prop = sys.argv[1], sys.argv[2], sys.argv[3]
others = sys.argv[4:]
ROOT = os.path.dirname(os.path.dirname(os.path.abspath(__file__)))
d = os.path.join(ROOT, "seeded", seed)
os.makedirs(d, exist_ok=True)
env = dict(os.environ, CARGO_TARGET_DIR=os.path.join(wt, "target"), CARGO_NET_OFFLINE="true", SFS_ALLOW_STDIN="1")

def sh(cmd, cwd=None, timeout=1800):
    p = subprocess.run(cmd, shell=True, cwd=cwd, env=env, capture_output=True, text=True, timeout=timeout)
    return p.returncode, (p.stdout + p.stderr)

# the patch = diff of tracked files in the worktree (excluding demo / patch files)
rc, diff = sh("git diff -- core/src cli/src", cwd=wt)
open(os.path.join(d, "patch.diff"), "w").write(diff)
for f in os.listdir(wt):
    if f.startswith("demo"):
        shutil.copy(os.path.join(wt, f), os.path.join(d, f))
meta = {"seed": seed, "property": prop, "files_changed": [l[6:] for l in diff.splitlines() if l.startswith("+++ b/")]}
# extra demonstration tests added by the seeding agent are not part of the 89-test suite: move them aside for the suite run
extra = [os.path.join(wt, "core/tests/demo.rs"), os.path.join(wt, "cli/tests/demo.rs")]
for e in extra:
    if os.path.exists(e):
        shutil.copy(e, os.path.join(d, os.path.basename(os.path.dirname(os.path.dirname(e))) + "_tests_demo.rs"))
        os.rename(e, e + ".aside")
rc, out = sh("cargo test --workspace --offline 2>&1 | grep -E 'test result' ", cwd=wt)
for e in extra:
    if os.path.exists(e + ".aside"):
        os.rename(e + ".aside", e)
passed = sum(int(x.split(" passed")[0].split()[-1]) for x in out.splitlines() if " passed" in x)
failed = sum(int(x.split(" failed")[0].split()[-1]) for x in out.splitlines() if " failed" in x)
meta["tests_with_change"] = {"passed": passed, "failed": failed}
rc1, out1 = sh("bash demo.sh", cwd=wt)
meta["demo_with_change"] = {"exit": rc1, "tail": out1[-300:]}
sh("git diff -- core/src cli/src > %s/target/.seed.patch && git checkout -- core/src cli/src" % wt, cwd=wt)   # not `git stash`: the stash is shared by all worktrees
sh("cargo build --offline -p sfs-cli 2>&1 | tail -1", cwd=wt)
rc0, out0 = sh("bash demo.sh", cwd=wt)
meta["demo_without_change"] = {"exit": rc0, "tail": out0[-300:]}
sh("git apply %s/target/.seed.patch" % wt, cwd=wt)
meta["confirmed"] = (failed == 0 and passed >= 89 and rc1 != 0 and rc0 == 0)
# run the checks against /repo with the patch applied
rc, out = sh("git -C /repo apply %s" % os.path.join(d, "patch.diff"))
meta["apply"] = rc
results = {}
if rc == 0:
    try:
        for c in [prop] + others:
            t0 = time.time()
            p = subprocess.run([os.path.join(ROOT, "bin/check"), c, "--tier", "quick"], cwd=ROOT, capture_output=True, text=True, timeout=3600)
            lines = [l for l in p.stdout.splitlines() if l.startswith(("VIOLATION", "OK", "KNOWN"))]
            cls = []
            for l in lines:
                if l.startswith("VIOLATION"):
                    path = l.split("replay=")[1].split()[0]
                    try:
                        r = json.load(open(path))
                        cls.append({"cls": r.get("cls"), "case": str(r.get("case"))[:200], "detail": str(r.get("detail"))[:200], "failing_input": r.get("failing_input")})
                    except Exception:
                        pass
            results[c] = {"exit": p.returncode, "lines": lines[:10], "replays": cls[:6], "wall_s": round(time.time() - t0, 1)}
    finally:
        subprocess.run("git -C /repo checkout -- .", shell=True)
meta["checks"] = results
meta["detected_by"] = [c for c, r in results.items() if r["exit"] != 0]
json.dump(meta, open(os.path.join(d, "meta.json"), "w"), indent=1)
print(json.dumps({k: meta[k] for k in ("seed", "confirmed", "tests_with_change", "detected_by")}))
for c, r in results.items():
    print(c, r["exit"], r["lines"][:3], [x["cls"] for x in r["replays"]][:4])
