"""C03 - projection: correspondence of the proved exact model (Properties/C03.v) with Spectrum::project and the
f64 hypergeometric kernel (within a stated tolerance), finiteness at large sizes, the projection laws on the
implementation, and `view --project-shape/-p`."""
import itertools
import random
import sys
from fractions import Fraction

from common import (compare_cases, standard_main, run_impl, run_model, parse_value, run_cli_many,
                    parse_text_spectrum, text_spectrum, frac_to_dec, tokens_equal)

TOL = Fraction(1, 10**9)
RULE = ("pmf kernel: every (N,K,n,k) with N <= bound (quick 22, thorough 48) exhaustively, N in {169..172} (factorial "
        "table / Lanczos seam) on a stride, N in {500,1000,1029,1030,1031,1200,2000,4000} sampled - compared with the exact "
        "rational pmf within 1e-9; Spectrum::project: every shape with 1..4 axes (lengths <= 5, product <= bound) x every "
        "admissible target plus inadmissible ones (larger, zero, other dimensionality), random integer data, tolerance "
        "1e-9 * sum|x|; one-axis sizes up to 4001 with finite output required; laws on the implementation: two-step = "
        "direct, same shape = identity, mass, commute with marginalization; CLI --project-shape and -p. non-trivial = "
        "a successful projection to a strictly smaller shape / a pmf value strictly between 0 and 1; inadmissible targets too large to allocate (2^64-1, 2^62, 1e13 per axis) through the binary; all-zero and zero-sum spectra")


def fmt(l):
    return ",".join(map(str, l)) if l else "-"


def elements(sh):
    n = 1
    for x in sh:
        n *= x
    return n


def pmf_cases(tier, rng):
    cs = []
    bound = 22 if tier == "quick" else 48
    for N in range(0, bound + 1):
        for K in range(0, N + 1):
            for n in range(0, N + 1):
                for k in range(0, n + 2):
                    cs.append("pmf %d %d %d %d" % (N, K, n, k))
    for N in (169, 170, 171, 172):
        for K in range(0, N + 1, 13):
            for n in range(0, N + 1, 17):
                for k in range(max(0, n - (N - K)), min(n, K) + 1, 5):
                    cs.append("pmf %d %d %d %d" % (N, K, n, k))
    big = (500, 1000, 1029, 1030, 1031, 1200, 2000, 4000)
    for N in big:
        for _ in range((8 if N >= 2000 else 30) if tier == "quick" else (40 if N >= 2000 else 200)):
            K = rng.randrange(0, N + 1); n = rng.randrange(0, N + 1)
            lo, hi = max(0, n - (N - K)), min(n, K)
            mode = (n + 1) * (K + 1) // (N + 2)
            k = min(hi, max(lo, mode + rng.randrange(-3, 4)))
            cs.append("pmf %d %d %d %d" % (N, K, n, k))
        cs.append("pmf %d %d %d %d" % (N, N // 2, N // 2, N // 4))
        # the whole range of k, including the zero-probability region (where a factor is 0 and another may overflow),
        # and draws close to N (denominator finite while numerator factors overflow)
        for _ in range(6 if tier == "quick" else 40):
            K = rng.randrange(N // 2, N + 1); n = rng.choice([N - 1, N - 2, N - rng.randrange(1, 60), rng.randrange(0, N + 1)])
            cs.append("pmf %d %d %d %d" % (N, K, n, rng.randrange(0, n + 2)))
    return cs


def project_cases(tier, rng):
    cs = []
    bound = 60 if tier == "quick" else 400
    shapes = [sh for d in range(1, 5) for sh in itertools.product(range(1, 6), repeat=d) if elements(sh) <= bound]
    for sh in shapes:
        pz = rng.choice([0.0, 0.0, 0.6])
        data = [0 if rng.random() < pz else rng.randrange(0, 200) for _ in range(elements(sh))]
        targets = list(itertools.product(*[range(0, n + 2) for n in sh]))
        if len(targets) > (30 if tier == "quick" else 200):
            targets = rng.sample(targets, 30 if tier == "quick" else 200) + [tuple(sh), tuple(1 for _ in sh)]
        for to in targets:
            cs.append("project %s %s %s" % (fmt(sh), fmt(data), fmt(to)))
        cs.append("project %s %s %s" % (fmt(sh), fmt(data), fmt(sh[:-1] if len(sh) > 1 else list(sh) + [1])))
        cs.append("project %s %s %s" % (fmt(sh), fmt(data), fmt(list(sh) + [1])))
    # spectra with negative entries (differences, residuals): the formula is linear, partial sums may dip below zero
    for sh in [s_ for s_ in shapes if elements(s_) <= 40][:: 7]:
        data = [rng.randrange(-200, 200) for _ in range(elements(sh))]
        for to in [tuple(sh), tuple(max(1, n - 1) for n in sh), tuple(1 for _ in sh)] + [tuple(rng.randrange(1, n + 1) for n in sh) for _ in range(3)]:
            cs.append("project %s %s %s" % (fmt(sh), fmt(data), fmt(to)))
        neg = [-abs(x) - 1 for x in data]
        cs.append("project %s %s %s" % (fmt(sh), fmt(neg), fmt(sh)))
    # spectra whose entries sum to zero - all of them zero (a region without sites), or positive and negative ones that cancel:
    # the projection of zero is zero, of a zero-sum spectrum a zero-sum spectrum; nothing divides by the total
    for sh in [s_ for s_ in shapes if 2 <= elements(s_) <= 40][:: 5]:
        half = [rng.randrange(1, 100) for _ in range(elements(sh) // 2)]
        zsum = half + [-x for x in half] + ([0] if elements(sh) % 2 else [])
        rng.shuffle(zsum)
        for data in ([0] * elements(sh), zsum):
            for to in [tuple(sh), tuple(max(1, n - 1) for n in sh), tuple(1 for _ in sh), tuple(rng.randrange(1, n + 1) for n in sh)]:
                cs.append("project %s %s %s" % (fmt(sh), fmt(data), fmt(to)))
    return cs


def scale_of(case):
    t = case.split()
    if t[0] == "project":
        return max(Fraction(1), sum(abs(Fraction(x)) for x in t[2].split(",")))
    return Fraction(1)


def finite_line(line):
    for t in line.replace(",", " ").split():
        v = parse_value(t)
        if isinstance(v, str):
            return False
    return True


def check(rep, tier, seed):
    rng = random.Random(seed)
    pc = pmf_cases(tier, rng)

    def nt_pmf(c, m):
        v = parse_value(m.strip())
        return v is not None and not isinstance(v, str) and 0 < v < 1
    compare_cases(rep, "pmf-kernel", pc, tol=TOL, scale_fn=scale_of, nontrivial=nt_pmf,
                  classify=lambda c, m, i: "pmf:non-finite" if not finite_line(i) else "pmf:value", spec=True,
                  both_builds=(tier == "thorough"))
    prj = project_cases(tier, rng)

    def nt_prj(c, m):
        t = c.split()
        return m.startswith("OK") and t[1] != t[3]
    mo, outs = compare_cases(rep, "project-vs-model", prj, tol=TOL, scale_fn=scale_of, nontrivial=nt_prj,
                             classify=lambda c, m, i: "project:model-disagreement", spec=True, both_builds=(tier == "thorough"))
    impl = dict(zip(dict.fromkeys(prj), outs[False]))

    # one-axis large sizes, cheap for the exact model (small targets or moderate sizes)
    big = []
    for n, m in [(201, 101), (401, 21), (1201, 3), (2001, 5), (4001, 4), (1031, 2)]:
        data = [rng.randrange(0, 50) for _ in range(n)]
        big.append("project %d %s %d" % (n, fmt(data), m))
    compare_cases(rep, "project-large", big, tol=TOL, scale_fn=scale_of, nontrivial=nt_prj,
                  classify=lambda c, m, i: "project:non-finite" if not finite_line(i) else "project:large-value", spec=True)
    # thousands of chromosomes, mid-range targets: finite, mass-preserving, non-negative output required on the
    # implementation (the exact model is too slow to evaluate here: n*m*3 binomials of several hundred digits)
    huge = []
    for n, m in [(1001, 501), (1201, 601), (1101, 1100), (1201, 1150), (2001, 1001), (2001, 1500), (2001, 1995), (4001, 2001), (3001, 2999)]:
        if tier == "quick" and n > 2001:
            continue
        data = [rng.randrange(0, 50) for _ in range(n)]
        huge.append("project %d %s %d" % (n, fmt(data), m))
    for c, o in zip(huge, run_impl(huge, release=(tier == "thorough"))):
        rep.count("project-huge-finite", c[:60] + "...", True)
        t = o.split()
        sc = scale_of(c)
        if len(t) != 3 or t[0] != "OK" or not finite_line(o):
            rep.fail(kind="property-oracle", cls="project:non-finite", case=c, observed=o[:300], expected="finite values",
                     detail="projection of a finite spectrum gives non-finite values (or fails)")
            continue
        vals = [parse_value(x) for x in t[2].split(",")]
        want = sum(Fraction(x) for x in c.split()[2].split(","))
        if abs(sum(vals) - want) > 100 * TOL * sc or min(vals) < -TOL * sc:
            rep.fail(kind="property-oracle", cls="project:large-mass", case=c, observed=str(float(sum(vals))), expected=str(want),
                     detail="projection at large size loses mass or goes negative")

    # laws on the implementation: two steps = direct (within tol), identity, mass
    law_cases = [c for c in prj if impl.get(c, "").startswith("OK")]
    law_cases = rng.sample(law_cases, min(len(law_cases), 400 if tier == "quick" else 3000))
    second = []
    for c in law_cases:
        t = c.split(); o = impl[c].split()
        to = [int(x) for x in t[3].split(",")]
        to2 = [rng.randrange(1, m + 1) for m in to]
        second.append((c, "project %s %s %s" % (o[1], o[2], fmt(to2)), "project %s %s %s" % (t[1], t[2], fmt(to2))))
    o_two = run_impl([s[1] for s in second]); o_dir = run_impl([s[2] for s in second])
    for (c, c2, cd), a, b in zip(second, o_two, o_dir):
        rep.count("law:two-steps", cd, True, n=2)
        sc = scale_of(c)
        ta, tb = a.split(), b.split()
        if len(ta) != 3 or len(tb) != 3 or ta[1] != tb[1] or not tokens_equal(ta[2], tb[2], 2 * TOL, sc):
            rep.fail(kind="property-oracle", cls="project:two-steps", case=cd, observed=a, expected=b,
                     detail="projecting in two steps (via %s) differs from projecting directly" % c.split()[3])
        if len(tb) == 3 and finite_line(b):
            tot = sum(parse_value(x) for x in tb[2].split(","))
            want = sum(Fraction(x) for x in c.split()[2].split(","))
            if abs(tot - want) > TOL * sc * 10:
                rep.fail(kind="property-oracle", cls="project:mass", case=cd, observed=str(float(tot)), expected=str(want),
                         detail="projection does not preserve total mass")
            if all(Fraction(x) >= 0 for x in c.split()[2].split(",")) and any(parse_value(x) < -TOL * sc for x in tb[2].split(",")):
                rep.fail(kind="property-oracle", cls="project:nonneg", case=cd, observed=b, expected=">= 0",
                         detail="projection of a non-negative spectrum has a negative entry")

    # linearity in the values, exactly: multiplying every value by a power of two multiplies every output by it, bit for
    # bit (binary64 arithmetic is invariant under such scaling as long as nothing underflows) - also for values far below
    # 1 (frequencies, tiny-scaled spectra), which an absolute tolerance cannot see
    lin = rng.sample(law_cases, min(len(law_cases), 120 if tier == "quick" else 1000))
    for k in (-60, -80, -300, 40):
        scaled = []
        for c in lin:
            t = c.split()
            data = [x if x == "0" else ("%s/%d" % (x, 2 ** (-k)) if k < 0 else str(int(x) * 2 ** k)) for x in t[2].split(",")]
            scaled.append("project %s %s %s" % (t[1], ",".join(data), t[3]))
        for c, cs_, o in zip(lin, scaled, run_impl(scaled)):
            rep.count("law:exact-scaling", cs_[:80], True)
            a, b = impl[c].split(), o.split()
            ok = len(a) == 3 and len(b) == 3 and a[1] == b[1] and finite_line(o) and \
                all(parse_value(y) == parse_value(x) * Fraction(2) ** k for x, y in zip(a[2].split(","), b[2].split(",")))
            if not ok:
                rep.fail(kind="property-oracle", cls="project:exact-scaling", case=cs_, observed=o[:300], expected="%s scaled by 2^%d" % (impl[c][:200], k),
                         detail="projection is not linear in the values: the spectrum scaled by 2^%d does not project to the scaled projection" % k)

    # projecting after creation = projecting during creation when no genotype is missing (on the binary)
    from callsets import render_vcf, cli_samples_arg
    from gen_create import random_map, pop_sizes
    cj = []
    for k in range(25 if tier == "quick" else 250):
        nsmp = rng.randrange(2, 9)
        cols = ["s%d" % i for i in range(nsmp)]
        recs = [[rng.choice(["0/0", "0/1", "1/1", "1|0"]) for _ in cols] for _ in range(rng.randrange(1, 30))]
        sm = random_map(rng, cols)
        to = [rng.randrange(1, 2 * sz + 2) for sz in pop_sizes(sm)]
        vcf = render_vcf(cols, recs)
        cj.append((["create"] + cli_samples_arg(sm), vcf, to, len(recs)))
    # projecting during creation with a target of another dimensionality (fewer or more entries than populations): an error
    dj = []
    for (a, v, to, _) in cj:
        if len(to) >= 2:
            dj.append((a + ["--project-shape", ",".join(map(str, to[:-1]))], v)); dj.append((a + ["-p", ",".join(str((m - 1) // 2) for m in to[:1])], v))
        dj.append((a + ["--project-shape", ",".join(map(str, to + [1]))], v))
    for job, (rc, so, se) in zip(dj, run_cli_many(dj)):
        rep.count("create-project-wrong-dimensionality", " ".join(job[0]), True)
        if rc == 0 or so != b"" or rc == 101:
            rep.fail(kind="property-oracle", cls="project:create-wrong-dimensionality", case=" ".join(job[0]), argv=["sfs"] + job[0], stdin=job[1].decode(),
                     observed={"rc": rc, "stdout": so.decode(errors="replace")[:200], "stderr": se.decode(errors="replace")[-200:]}, expected="an error, no output",
                     detail="a projection target with another number of entries than there are populations must be rejected")
    created = run_cli_many([(a, v) for a, v, _, _ in cj])
    after = run_cli_many([(["view", "--project-shape", ",".join(map(str, to)), "--precision", "9"], c[1]) for (_, _, to, _), c in zip(cj, created)])
    during = run_cli_many([(a + ["--project-shape", ",".join(map(str, to)), "--precision", "9"], v) for a, v, to, _ in cj])
    for (a, v, to, nrec), x, y in zip(cj, after, during):
        rep.count("create-then-project", " ".join(a) + " -> " + ",".join(map(str, to)), True, n=2)
        px, py_ = parse_text_spectrum(x[1]), parse_text_spectrum(y[1])
        ok = x[0] == 0 and y[0] == 0 and px is not None and py_ is not None and px[0] == py_[0] and len(px[1]) == len(py_[1]) and \
            all(abs(Fraction(p) - Fraction(q)) <= Fraction(2, 10**9) + TOL * nrec for p, q in zip(px[1], py_[1]))
        if not ok:
            rep.fail(kind="property-oracle", cls="project:create-then-project", case=" ".join(a) + " then --project-shape " + ",".join(map(str, to)),
                     argv=["sfs"] + a, stdin=v.decode(), observed=x[1].decode(errors="replace")[:300], expected=y[1].decode(errors="replace")[:300],
                     detail="projecting after creation differs from projecting during creation on complete data")

    # CLI: --project-shape and -p (odd targets), text in -> text out at precision 6
    jobs, exp = [], []
    pool = [c for c in prj if impl.get(c, "").startswith("OK")]
    for c in rng.sample(pool, min(len(pool), 60 if tier == "quick" else 400)):
        t = c.split()
        sh = [int(x) for x in t[1].split(",")]; to = [int(x) for x in t[3].split(",")]
        jobs.append((["view", "--project-shape", ",".join(map(str, to))], text_spectrum(sh, t[2].split(","))))
        exp.append(c)
        if all(m % 2 == 1 for m in to):
            jobs.append((["view", "-p", ",".join(str((m - 1) // 2) for m in to)], text_spectrum(sh, t[2].split(","))))
            exp.append(c)
    # inadmissible targets through the binary (larger on one axis - also when the element count is unchanged, as for a
    # transposed shape -, another dimensionality with the same or another element count, zero): must be rejected
    for _ in range(12 if tier == "quick" else 120):
        d = rng.randrange(1, 4)
        sh = [rng.randrange(2, 7) for _ in range(d)]
        if d > 1 and len(set(sh)) == 1:
            sh[0] += 1
        vals = [str(rng.randrange(0, 30)) for _ in range(elements(sh))]
        tgts = [sh[::-1], sorted(sh), sorted(sh, reverse=True), [elements(sh)], sh + [1], [1] + sh, [0] * d, [n + 1 for n in sh], [sh[0] + 1] + sh[1:], sh[:-1] + [0]]
        # ... and targets so large that a spectrum of that shape could not even be allocated (the check comes first)
        tgts += [[2**64 - 1] + sh[1:], sh[:-1] + [2**62], [3 * 10**9] * 3, [2**63] * d, sh[:-1] + [3 * 10**18], [3 * 10**18] + [0] * (d - 1), [10**13] * d]
        if d >= 2:
            tgts.append(sh[:-2] + [sh[-2] * sh[-1]])
        for to in tgts:
            if to != sh:
                jobs.append((["view", "--project-shape", ",".join(map(str, to))], text_spectrum(sh, vals)))
                exp.append("project %s %s %s" % (fmt(sh), ",".join(vals), fmt(to)))
    mo2 = run_model(exp)
    res = run_cli_many(jobs)
    for job, (rc, so, se), m, c in zip(jobs, res, mo2, exp):
        if not m.startswith("OK"):
            rep.count("project-cli-rejects", " ".join(job[0]) + " on " + c.split()[1], True)
            if rc == 0 or so != b"" or rc == 101 or rc < 0 or rc >= 128:
                rep.fail(kind="cli-vs-model", cls="project:cli-error-expected", case=c, argv=["sfs"] + job[0], stdin=job[1].decode(),
                         observed={"rc": rc, "stdout": so.decode(errors="replace")[:300]}, expected=m[:200],
                         detail="an inadmissible projection target (the model gives %s) must be rejected with an error and no output" % m[:60])
            continue
        case = {"argv": ["sfs"] + job[0], "stdin": job[1].decode()}
        rep.count("project-cli", str(case["argv"]) + case["stdin"], True)
        parsed = parse_text_spectrum(so)
        e = m.split()
        sc = scale_of(c)
        ok = rc == 0 and parsed is not None and e[0] == "OK" and parsed[0] == [int(x) for x in e[1].split(",")] and \
            len(parsed[1]) == len(e[2].split(","))
        if ok:
            for tok, x in zip(parsed[1], e[2].split(",")):
                v = frac_to_dec(tok)
                if isinstance(v, str) or abs(v - Fraction(x)) > Fraction(1, 2 * 10**6) + TOL * sc:
                    ok = False
        if not ok:
            rep.fail(kind="cli-vs-model", cls="project:cli", argv=case["argv"], stdin=case["stdin"], case=None,
                     observed={"rc": rc, "stdout": so.decode(errors="replace")[:400], "stderr": se.decode(errors="replace")[:300]},
                     expected=m, detail="sfs view projection output differs from the proved model's value beyond 0.5e-6 + 1e-9*sum|x|")
    # an entry near the top of the f64 range at a size where some coefficients of the projection are subnormal (1200 -> 600
    # chromosomes): entry * coefficient is an ordinary number again - every output entry compared RELATIVELY with the exact value
    from math import comb as _comb
    hjobs = []
    for n_h, m_h, k_h in ((1200, 600, 600), (1100, 540, 500)):
        vals_h = ["0"] * (n_h + 1); vals_h[k_h] = "1e308"
        hjobs.append((["view", "--precision", "30", "--project-shape", str(m_h + 1)], text_spectrum([n_h + 1], vals_h), n_h, m_h, k_h))
    for (argv_h, txt_h, n_h, m_h, k_h), (rc, so, se) in zip(hjobs, run_cli_many([(a, b) for a, b, _, _, _ in hjobs], timeout=300)):
        rep.count("project-huge-entry", "%d -> %d chromosomes, x[%d] = 1e308" % (n_h, m_h, k_h), True)
        p_h = parse_text_spectrum(so)
        bad_h = None
        if rc != 0 or p_h is None or len(p_h[1]) != m_h + 1:
            bad_h = "no output"
        else:
            den = _comb(n_h, m_h)
            for j_ in range(m_h + 1):
                want_h = Fraction(10**308) * Fraction(_comb(k_h, j_) * _comb(n_h - k_h, m_h - j_), den)
                if want_h >= Fraction(1, 10**9):
                    got_h = frac_to_dec(p_h[1][j_])
                    if isinstance(got_h, str) or abs(got_h - want_h) > want_h * Fraction(1, 10**6):
                        bad_h = "entry %d: %s, expected about %.6e" % (j_, p_h[1][j_][:40], float(want_h)); break
        if bad_h:
            rep.fail(kind="property-oracle", cls="project:huge-entry", case="view --project-shape %d on shape %d with x[%d] = 1e308" % (m_h + 1, n_h + 1, k_h), argv=["sfs"] + argv_h,
                     observed=bad_h, expected="x[k] * Hypergeom(j; n, k, m) for every j (exact binomials), relative 1e-6",
                     detail="a huge entry times a tiny (subnormal) coefficient of the projection is lost or wrong")
    rep.assumptions += ["theorems are in exact arithmetic; the f64 kernel (floor(0.5+exp(ln n! - ln k! - ln (n-k)!)), Lanczos ln-gamma "
                        "above 170!) is compared with the exact pmf within 1e-9 (relative to sum|x| for spectra); no theorem about exp/ln",
                        "finite results for finite input are asserted on the implementation for sizes up to 4001"]


if __name__ == "__main__":
    sys.exit(standard_main("C03", check, sys.argv[1:], RULE, needs_cli=True))
