"""C12 - output depends only on call data, not container, transport, threads or run (partial: noodles, its worker threads
and inflate are exercised, not modelled)."""
import os
import random
import sys

from common import standard_main, run_model, run_cli_many, run_cli_trickle, WORK, is_panic, parse_text_spectrum
from fractions import Fraction
from callsets import render_vcf, bgzf_compress, vcf_to_bcf, bcf_encode_hts, model_records, model_samples, cli_samples_arg, model_project, cli_project_arg
from gen_create import random_callset, random_map, pop_sizes, random_projection

RULE = ("random diploid call sets (1-10 samples, 0-60 records) x sample maps x optional projection, each rendered as plain VCF, "
        "BGZF VCF in 7 block layouts (64 KiB blocks; one line per block; tiny irregular blocks with empty blocks interleaved; "
        "no EOF block; an empty first block; a first block of 1 and of 2 bytes), BGZF BCF and raw BCF (noodles writer), supplied by path, on stdin in one write and on stdin as a pipe whose first write carries only 1, 2, 3, 20 or 300 bytes, with --threads in {1,2,3,4,8,16} (also with the process confined to one and to two CPUs) "
        "(quick: 3 of them per form), each configuration repeated (fresh process = fresh hash seeds): stdout must be "
        "byte-identical across ALL forms and equal exit status, and equal to the proved model's output on the abstract call "
        "set. non-trivial = call set with >= 2 populations or a projection; the same bytes by path under names suggesting the other container or none (*.vcf for BCF, *.bcf for VCF, *.npy, *.gz, no extension); call sets with no record and with one record")


def check(rep, tier, seed):
    rng = random.Random(seed)
    d = os.path.join(WORK, "c12")
    os.makedirs(d, exist_ok=True)
    nsets = 6 if tier == "quick" else 40
    for k in range(nsets + 2):
        cols, recs = random_callset(rng, nsamples=rng.randrange(1, 11), nrecords=rng.randrange(0, 61), p_skip=rng.choice([0.0, 0.15]))
        if k == nsets:
            recs = []                    # a call set without any record (header only): an all-zero spectrum from every container
        elif k == nsets + 1:
            recs = recs[:1]              # ... and with a single one
        recs_nd = [[g if g != "." else "./." for g in r] for r in recs]       # noodles' BCF writer cannot encode a bare '.'
        sm = None if k % 4 == 0 else random_map(rng, cols)
        pr = None if k % 3 else random_projection(rng, pop_sizes(sm) if sm else [len(cols)])
        # a missing GT written '.', alone or next to other FORMAT values ('.:12:30'), stays as it is in the VCF forms and in
        # the BCF forms laid out as htslib does (hand-written encoder); the forms that go through noodles' writer get './.'
        vcf = render_vcf(cols, recs, extra_fields=(k % 2 == 0), dot_fields=(k % 4 == 0))
        vcf_nd = render_vcf(cols, recs_nd, extra_fields=(k % 2 == 0))
        lines = vcf.split(b"\n")
        forms = {"vcf": vcf, "vcf.gz": bgzf_compress(vcf),
                 "vcf.gz-line-per-block": bgzf_compress(vcf, sizes=[len(l) + 1 for l in lines]),
                 "vcf.gz-tiny": bgzf_compress(vcf, sizes=[7, 113, 29, 1000], empty_every=2),
                 "vcf.gz-noeof": bgzf_compress(vcf, eof=False),
                 "vcf.gz-empty-first": bgzf_compress(vcf, sizes=[4000], empty_first=True),
                 "vcf.gz-first-1-byte": bgzf_compress(vcf, sizes=[1, 2, 5000]),
                 "vcf.gz-first-2-bytes": bgzf_compress(vcf, sizes=[2, 1, 1, 5000])}
        # gzip header fields that BGZF leaves free (htslib writes MTIME 0, XFL 0, OS 255; other writers do not)
        from callsets import bgzf_compress_hdr
        forms["vcf.gz-hdr-unix"] = bgzf_compress_hdr(vcf, os_=3)
        forms["vcf.gz-hdr-xfl-mtime"] = bgzf_compress_hdr(vcf, mtime=1700000000, xfl=2, os_=0, sizes=[900])
        hts = bcf_encode_hts(vcf)
        forms["bcf-hts-hdr-unix-mtime"] = bgzf_compress_hdr(hts, mtime=1, xfl=4, os_=3)
        forms["bcf-hts-raw"] = hts
        # other legal spellings of the same BCF: minor version 1 in the magic (htsjdk), a contig dictionary with explicit IDX
        forms["bcf-hts-raw-v2.1"] = bcf_encode_hts(vcf, minor=1)
        forms["bcf-hts-v2.1"] = bgzf_compress(forms["bcf-hts-raw-v2.1"])
        forms["bcf-hts-raw-idx"] = bcf_encode_hts(vcf, idx_reversed=True)
        forms["bcf-hts"] = bgzf_compress(hts)
        forms["bcf-hts-tiny-blocks"] = bgzf_compress(hts, sizes=[33, 500, 9], empty_every=4)
        raw = vcf_to_bcf(vcf_nd, "c12_%d" % k, "raw")
        if raw is not None:
            forms["bcf-raw"] = raw
            forms["bcf"] = bgzf_compress(raw)
            forms["bcf-tiny-blocks"] = bgzf_compress(raw, sizes=[64, 300, 17], empty_every=3)
            forms["bcf-empty-first"] = bgzf_compress(raw, empty_first=True)
            forms["bcf-first-1-byte"] = bgzf_compress(raw, sizes=[1, 1, 1, 6000])
            forms["bcf-first-2-bytes"] = bgzf_compress(raw, sizes=[2, 3, 6000])
            nb = vcf_to_bcf(vcf_nd, "c12n_%d" % k, "bgzf")
            if nb is not None:
                forms["bcf-noodles-bgzf"] = nb
        argv0 = ["create", "--precision", "6"] + cli_samples_arg(sm) + cli_project_arg(pr)
        mc = "create 0 %s %s %s %s" % (",".join(cols), model_samples(sm), model_project(pr), model_records(recs))
        jobs, labels = [], []
        for name, data in forms.items():
            path = os.path.join(d, "in_%d.%s" % (k, name))
            open(path, "wb").write(data)
            ths = [1, 2, 3, 4, 8, 16] if tier == "thorough" else rng.sample([1, 2, 3, 4, 8, 16], 3)
            for t in ths:
                for via in ("path", "stdin"):
                    for rep_i in range(2 if tier == "quick" else 3):
                        if via == "path":
                            jobs.append((argv0 + ["--threads", str(t), path], b""))
                        else:
                            jobs.append((argv0 + ["--threads", str(t)], data))
                        labels.append("%s via %s threads=%d run=%d" % (name, via, t, rep_i))
        # the NAME of a file is no part of the call data: the same bytes under a name that suggests the other container, no
        # container at all or something else entirely (the content decides, as it does on stdin)
        for name, data in forms.items():
            other = "vcf" if name.startswith("bcf") else "bcf"
            for ext in (other, rng.choice([other + ".gz", "npy", "txt", "dat", "VCF", "gz", ""])):
                path = os.path.join(d, "mis_%d_%s%s" % (k, name.replace(".", "_"), "." + ext if ext else ""))
                open(path, "wb").write(data)
                jobs.append((argv0 + ["--threads", "2", path], b"")); labels.append("%s via path named *.%s" % (name, ext))
        res = run_cli_many(jobs)
        # stdin as a pipe that delivers its bytes in several writes: the first read() of the tool sees only 1, 2, 3, 20 or
        # 300 bytes (inside the gzip / BCF magic, inside the first BGZF block header, inside the first block)
        tjobs = []
        for name in ("vcf", "vcf.gz", "vcf.gz-line-per-block", "bcf-raw", "bcf", "bcf-tiny-blocks", "bcf-hts-raw", "bcf-hts"):
            if name not in forms:
                continue
            data = forms[name]
            for first in ((1, 2, 3, 20, 300) if tier == "thorough" else rng.sample((1, 2, 3, 20, 300), 3)):
                if first < len(data):
                    t = rng.choice([1, 2, 4])
                    mid = first + (len(data) - first) // 2
                    tjobs.append((argv0 + ["--threads", str(t)], [data[:first], data[first:mid], data[mid:]]))
                    jobs.append((argv0 + ["--threads", str(t)], data))
                    labels.append("%s via trickled-stdin first-write=%d threads=%d" % (name, first, t))
        res += run_cli_trickle(tjobs)
        # the environment: the same forms with the process confined to ONE cpu, and to two (thread caps derived from the
        # available parallelism must not change the result, whatever --threads says)
        allowed = sorted(os.sched_getaffinity(0))
        ajobs = []
        for name in ("vcf", "vcf.gz", "vcf.gz-line-per-block", "bcf-hts", "bcf-hts-raw", "bcf"):
            if name not in forms:
                continue
            for cp in ({allowed[0]}, set(allowed[:2])):
                for t in (1, 2, 16):
                    ajobs.append((argv0 + ["--threads", str(t)], forms[name], cp))
                    jobs.append((argv0 + ["--threads", str(t)], forms[name]))
                    labels.append("%s via stdin threads=%d cpus=%d" % (name, t, len(cp)))
        res += run_cli_many(ajobs)
        exp = run_model([mc])[0]
        ref = res[0]
        for lab, job, (rc, so, se) in zip(labels, jobs, res):
            rep.count("forms:" + lab.split()[0], "set %d: %s" % (k, lab), sm is not None or pr is not None)
            if is_panic(rc, se) or (rc, so) != (ref[0], ref[1]):
                rep.fail(kind="property-oracle", cls="forms:" + lab.split()[0].split("-")[0], case="call set %d as %s" % (k, lab), argv=["sfs"] + job[0],
                         stdin_hex=(job[1] or forms[lab.split()[0]]).hex()[:400000],
                         first_write=(int(lab.split("first-write=")[1].split()[0]) if "first-write=" in lab else None),
                         cpus=(int(lab.split("cpus=")[1].split()[0]) if "cpus=" in lab else None),
                         observed={"rc": rc, "stdout": so.decode(errors="replace")[:300], "stderr": se.decode(errors="replace")[-300:]},
                         expected={"rc": ref[0], "stdout": ref[1].decode(errors="replace")[:300], "reference": labels[0]},
                         detail="the same records supplied in another container / transport / thread count gave a different result")
        # and the common result equals the model's
        rc, so, se = ref
        if exp.startswith("OK"):
            from common import parse_text_spectrum, frac_to_dec
            from fractions import Fraction
            e = exp.split()
            p = parse_text_spectrum(so)
            ok = rc == 0 and p is not None and p[0] == [int(x) for x in e[1].split(",")] and len(p[1]) == len(e[2].split(",")) and \
                all(abs(frac_to_dec(t) - Fraction(x)) <= Fraction(1, 2 * 10**6) + Fraction(max(1, len(recs)), 10**9) for t, x in zip(p[1], e[2].split(",")))
        else:
            ok = rc != 0 and so == b""
        if not ok:
            rep.fail(kind="cli-vs-model", cls="forms:model", case=mc[:300], argv=["sfs"] + jobs[0][0], stdin=vcf.decode(),
                     observed={"rc": rc, "stdout": so.decode(errors="replace")[:300]}, expected=exp[:300], detail="result differs from the model on the abstract call set")
        for f in os.listdir(d):
            os.remove(os.path.join(d, f))
    # one large call set (> 64 KiB as text and as BCF): layouts whose first non-empty BGZF block is as long as a block can be
    # and does not lie wholly within the first 64 KiB of the stream (an empty block in front of it)
    cols, recs = random_callset(rng, nsamples=8, nrecords=2600 if tier == "quick" else 6000, p_skip=0.1)
    recs = [[g if g != "." else "./." for g in r] for r in recs]
    vcf = render_vcf(cols, recs)
    hts = bcf_encode_hts(vcf)
    big = {"vcf": vcf, "vcf.gz": bgzf_compress(vcf),
           "vcf.gz-max-stored-first": bgzf_compress(vcf, first_stored_max=True),
           "vcf.gz-empty-then-max-stored": bgzf_compress(vcf, first_stored_max=True, empty_first=True),
           "vcf.gz-tiny-then-default": bgzf_compress(vcf, sizes=[1, 65280]),
           "bcf-hts-raw": hts, "bcf-hts": bgzf_compress(hts),
           "bcf-hts-empty-then-max-stored": bgzf_compress(hts, first_stored_max=True, empty_first=True),
           "bcf-hts-max-stored-first": bgzf_compress(hts, first_stored_max=True)}
    rep.coverage["large_call_set_bytes"] = {k: len(v) for k, v in big.items()}
    jobs, labels = [], []
    for name, data in big.items():
        path = os.path.join(d, "big.%s" % name)
        open(path, "wb").write(data)
        for t in (1, 4):
            jobs.append((["create", "--threads", str(t), path], b"")); labels.append("%s via path threads=%d" % (name, t))
            jobs.append((["create", "--threads", str(t)], data)); labels.append("%s via stdin threads=%d" % (name, t))
    res = run_cli_many(jobs, timeout=300)
    exp = run_model(["create 0 %s ALL - %s" % (",".join(cols), model_records(recs))])[0]
    ref = res[0]
    for lab, job, (rc, so, se) in zip(labels, jobs, res):
        rep.count("large-forms:" + lab.split()[0], lab, True)
        if is_panic(rc, se) or (rc, so) != (ref[0], ref[1]):
            rep.fail(kind="property-oracle", cls="forms:large:" + lab.split()[0].split("-")[0], case="large call set as %s" % lab,
                     argv=["sfs"] + [a for a in job[0] if not a.startswith(d)], stdin_hex=big[lab.split()[0]].hex(),
                     observed={"rc": rc, "stdout": so.decode(errors="replace")[:300], "stderr": se.decode(errors="replace")[-300:]},
                     expected={"rc": ref[0], "stdout": ref[1].decode(errors="replace")[:300], "reference": labels[0]},
                     regenerate="seeded generator: random_callset(nsamples=8) rendered as " + lab.split()[0],
                     detail="the same records (%d of them, %d bytes as VCF) supplied in another container layout gave a different result" % (len(recs), len(vcf)))
    e = exp.split()
    p = parse_text_spectrum(ref[1]) if ref[0] == 0 else None
    if not (exp.startswith("OK") and p is not None and p[0] == [int(x) for x in e[1].split(",")] and [Fraction(t) for t in p[1]] == [Fraction(x) for x in e[2].split(",")]):
        rep.fail(kind="cli-vs-model", cls="forms:large:model", case="large call set", argv=["sfs", "create"], observed={"rc": ref[0], "stdout": ref[1].decode(errors="replace")[:300]},
                 expected=exp[:300], detail="result on the large call set differs from the model on the abstract call set")
    for f in os.listdir(d):
        os.remove(os.path.join(d, f))
    rep.assumptions += ["partial: decoding, inflate and worker-thread scheduling live in noodles/flate2 and are sampled, not proved",
                        "BCF forms are produced by noodles' own writer from the VCF text (bare '.' genotypes are written './.')"]


if __name__ == "__main__":
    sys.exit(standard_main("C12", check, sys.argv[1:], RULE, needs_cli=True))
