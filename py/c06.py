"""C06 - statistics equal their definitions on genotypes and the published estimators: `sfs stat` vs the proved model on
grids, and end to end (call set -> create -> stat) vs the definitions evaluated directly on the genotypes."""
import itertools
import random
import sys
from fractions import Fraction

from common import standard_main, run_model, run_cli_many, is_panic
from callsets import render_vcf, cli_samples_arg
from gen_create import names
from statutil import STATS, DIMS, fmt, run_stats, model_value, close

RULE = ("(a) every statistic (14) on every shape of its dimensionality in a grid (1-D n=3..12 and sampled up to 400; 2-D up "
        "to 6x5 incl. 3x3; 3-D and 4-D up to 4x3x3x3) with positive integer data (2 vectors each), plus every statistic on "
        "shapes of the wrong dimensionality (error expected): `sfs stat --precision 15` vs the model within 1e-9 relative "
        "(D statistics: model numerator / sqrt(model radicand)); (b) end to end: random call sets without missing data -> "
        "`sfs create` -> `sfs stat`, vs the definitions computed directly from the genotypes by enumerating chromosome "
        "pairs / allele frequencies / genotype pairs. non-trivial = statistic defined and non-zero; the same integer spectrum as text and as npy of all 18 element types / byte orders must print the same statistic; and as text without a final line feed, with CR LF, tabs, one value per line, trailing blank lines; fractional (dyadic) spectra with fewer than one segregating site; undefined / infinite / beyond-2^63 statistics at precisions 0, 1, 6 and in precision lists; fixed combinations of a scale-free and a scale-dependent statistic")


def shapes_for(stat, tier, rng):
    d = DIMS[stat]
    if stat in ("king", "r0", "r1"):
        return [[3, 3]]
    if d == 1:
        return [[n] for n in range(4, 13)] + [[rng.randrange(13, 121 if tier == "quick" else 401)] for _ in range(3 if tier == "quick" else 12)] + \
            ([[172], [174]] if tier == "quick" else [[n] for n in range(169, 177)])    # factorial table seam: 171 and 173 chromosomes
    if d == 2:
        return [[a, b] for a in range(3, 7) for b in range(3, 6)]
    if d == 3:
        return [list(s) for s in itertools.product(range(3, 5), repeat=3)][: (4 if tier == "quick" else 8)]
    if d == 4:
        return [[3, 3, 3, 3], [4, 3, 3, 3], [3, 4, 3, 5]][: (2 if tier == "quick" else 3)]
    return [[5], [3, 4], [3, 3, 3], [7], [2, 2, 2, 2]]


def pairs_diff(chroms):
    n = len(chroms)
    return sum(1 for i in range(n) for j in range(i + 1, n) if chroms[i] != chroms[j])


def cross_diff(a, b):
    return sum(1 for x in a for y in b if x != y)


def genotype_level(stat, pops):
    """pops: list over populations of list over sites of chromosome lists (0/1). Returns Fraction or None."""
    nsites = len(pops[0])
    freq = lambda chroms: Fraction(sum(chroms), len(chroms))
    if stat == "sum":
        return Fraction(nsites)
    if stat == "s":
        return Fraction(sum(1 for s in range(nsites) if 0 < sum(sum(p[s]) for p in pops) < sum(len(p[s]) for p in pops)))
    if stat == "pi":
        n = len(pops[0][0])
        return sum(Fraction(pairs_diff(pops[0][s]), n * (n - 1) // 2) for s in range(nsites))
    if stat == "pi-xy":
        return sum(Fraction(cross_diff(pops[0][s], pops[1][s]), len(pops[0][s]) * len(pops[1][s])) for s in range(nsites))
    if stat == "f2":
        return sum((freq(pops[0][s]) - freq(pops[1][s])) ** 2 for s in range(nsites)) / nsites
    if stat == "f3":
        return sum((freq(pops[0][s]) - freq(pops[1][s])) * (freq(pops[0][s]) - freq(pops[2][s])) for s in range(nsites)) / nsites
    if stat == "f4":
        return sum((freq(pops[0][s]) - freq(pops[1][s])) * (freq(pops[2][s]) - freq(pops[3][s])) for s in range(nsites)) / nsites
    if stat == "fst":
        num = den = Fraction(0)
        for s in range(nsites):
            p, q = freq(pops[0][s]), freq(pops[1][s])
            n1, n2 = len(pops[0][s]), len(pops[1][s])
            num += (p - q) ** 2 - p * (1 - p) / (n1 - 1) - q * (1 - q) / (n2 - 1)
            den += p * (1 - q) + q * (1 - p)
        return num / den if den != 0 else None
    if stat in ("king", "r0", "r1"):
        cnt = {}
        for s in range(nsites):
            g = (sum(pops[0][s]), sum(pops[1][s]))
            cnt[g] = cnt.get(g, 0) + 1
        c = lambda a, b: Fraction(cnt.get((a, b), 0))
        if stat == "r0":
            return (c(0, 2) + c(2, 0)) / c(1, 1) if c(1, 1) else None
        if stat == "r1":
            d = c(0, 1) + c(0, 2) + c(1, 0) + c(1, 2) + c(2, 0) + c(2, 1)
            return c(1, 1) / d if d else None
        d = c(0, 1) + c(1, 0) + 2 * c(1, 1) + c(1, 2) + c(2, 1)
        return (c(1, 1) - 2 * (c(0, 2) + c(2, 0))) / d if d else None
    return None


def check(rep, tier, seed):
    rng = random.Random(seed)
    cases = []
    for st in STATS:
        for sh in shapes_for(st, tier, rng):
            E = 1
            for n in sh:
                E *= n
            for _ in range(2):
                cases.append((st, sh, [rng.randrange(1, 60) for _ in range(E)]))
        # wrong dimensionality / shape
        for sh in ([4], [3, 4], [3, 3, 3], [3, 3, 3, 3], [3, 3, 3, 3, 3]):
            if DIMS[st] is not None and (len(sh) != DIMS[st] or (st in ("king", "r0", "r1") and sh != [3, 3])):
                E = 1
                for n in sh:
                    E *= n
                cases.append((st, sh, [rng.randrange(1, 9) for _ in range(E)]))
    # fractional spectra (what projection produces), small enough that fewer than one segregating site is left (0 < S < 1):
    # dyadic values, exact in f64 and in the model
    class Dy(Fraction):
        def __str__(self):
            return repr(float(self))
    for st in ("d-tajima", "d-fu-li", "pi", "theta", "s"):
        for sh in ([5], [8], [4], [12]):
            for top in (64, 1024):
                data = [Dy(rng.randrange(1, 200), 1)] + [Dy(rng.randrange(0, 7), top * (sh[0] - 1)) for _ in range(sh[0] - 2)] + [Dy(rng.randrange(0, 3), 1)]
                cases.append((st, sh, data))
    # sample sizes around the end of the precomputed factorial table (170!): every n from 165 to 180 chromosomes, odd ones too
    for st in ("pi", "theta", "d-tajima", "d-fu-li", "s"):
        for n_ in (range(165, 181) if st in ("pi", "d-tajima") else (169, 170, 171, 172, 173, 174)):
            cases.append((st, [n_ + 1], [rng.randrange(1, 40) for _ in range(n_ + 1)]))
    mt = lambda x: ("%d/%d" % (x.numerator, x.denominator)) if isinstance(x, Fraction) else str(x)
    mo = run_model(["stat %s %s %s" % (st, fmt(sh), fmt([mt(x) for x in data])) for st, sh, data in cases])
    res = run_stats(cases)
    for (st, sh, data), m, (rc, v, se, so) in zip(cases, mo, res):
        mv = model_value(m)
        case = "stat %s %s %s" % (st, fmt(sh), fmt(data))
        rep.count("stat-vs-model:" + st, case, mv not in (None, "undef") and mv != 0)
        if is_panic(rc, se):
            rep.fail(kind="cli-vs-model", cls="stat:panic:" + st, case=case, argv=["sfs", "stat", "-s", st, "--precision", "15"],
                     stdin="#SHAPE=<%s>\n%s\n" % ("/".join(map(str, sh)), " ".join(map(str, data))),
                     observed={"rc": rc, "stderr": se.decode(errors="replace")[-300:]}, expected=m, detail="panic")
        elif mv is None:
            if rc == 0:
                rep.fail(kind="cli-vs-model", cls="stat:error-expected:" + st, case=case, observed=so.decode()[:100], expected="error",
                         argv=["sfs", "stat", "-s", st], stdin="#SHAPE=<%s>\n%s\n" % ("/".join(map(str, sh)), " ".join(map(str, data))),
                         detail="statistic on a spectrum of the wrong dimensionality/shape must be an error")
        elif mv == "undef":
            continue
        elif rc != 0 or v is None or not close(v, mv):
            rep.fail(kind="cli-vs-model", cls="stat:value:" + st, case=case, argv=["sfs", "stat", "-s", st, "--precision", "15"],
                     stdin="#SHAPE=<%s>\n%s\n" % ("/".join(map(str, sh)), " ".join(map(str, data))),
                     observed={"rc": rc, "stdout": so.decode(errors="replace")[:100]}, expected=str(float(mv)),
                     detail="sfs stat differs from the proved model's value by more than 1e-9 relative")

    # (a') several statistics in one invocation: the row is the single-statistic outputs in the order requested, each at its
    # own precision when a precision list is given; -H names them in that order; -d changes only the delimiter
    from common import run_cli_many
    from common import text_spectrum as _ts
    NAMES = {"d-fu-li": "d_fu_li", "d-tajima": "d_tajima", "f2": "f2", "f3": "f3", "f4": "f4", "fst": "fst", "king": "king", "pi": "pi", "pi-xy": "pi_xy",
             "r0": "r0", "r1": "r1", "s": "segregating_sites", "sum": "sum", "theta": "theta"}
    groups = {1: ["d-fu-li", "d-tajima", "pi", "s", "sum", "theta"], 2: ["f2", "fst", "pi-xy", "s", "sum"], 3: ["f3", "s", "sum"], 4: ["f4", "s", "sum"]}
    mjobs, mmeta = [], []
    for _ in range(30 if tier == "quick" else 300):
        d = rng.choice([1, 1, 2, 2, 3, 4])
        if _ % 4 == 0:
            d = [2, 2, 2, 2, 1, 3, 4, 1][(_ // 4) % 8]          # the iterations that carry the fixed combinations below
        sh = [rng.randrange(3, 7) for _i in range(d)]
        pool = list(groups[d])
        if d == 2 and rng.random() < 0.4:
            sh = [3, 3]; pool += ["king", "r0", "r1"]
        E = 1
        for n in sh:
            E *= n
        data = [str(rng.randrange(1, 60)) for _ in range(E)]
        k = rng.randrange(2, len(pool) + 1)
        req = [rng.choice(pool) for _ in range(k)] if rng.random() < 0.3 else rng.sample(pool, k)     # repeats are allowed too
        # fixed companions, whatever the random choices: a scale-free statistic next to a scale-dependent one and nothing else
        fixed_req = {2: [["fst", "pi-xy"], ["pi-xy", "f2"], ["f2", "fst", "pi-xy"], ["pi-xy", "fst", "king"] if sh == [3, 3] else ["pi-xy", "fst"]],
                     1: [["pi", "d-tajima"], ["theta", "d-fu-li"]], 3: [["f3", "sum"], ["s", "f3"]], 4: [["f4", "s"], ["sum", "f4"]]}[d]
        if len(mjobs) < 400 and _ % 4 == 0:
            req = list(fixed_req[(_ // 4) % len(fixed_req)])
        precs = [rng.randrange(0, 13) for _ in req] if rng.random() < 0.5 else [rng.randrange(0, 13)] * len(req)
        delim = rng.choice([",", ";", "\t", " "])
        txt = _ts(sh, data)
        argv = ["stat", "-s", ",".join(req), "-p", ",".join(map(str, precs)) if len(set(precs)) > 1 else str(precs[0]), "-H"] + (["-d", delim] if delim != "," else [])
        mjobs.append((argv, txt))
        for st, p_ in zip(req, precs):
            mjobs.append((["stat", "-s", st, "-p", str(p_)], txt))
        mmeta.append((argv, txt, req, delim))
    mres = run_cli_many(mjobs)
    from common import invocation_variants
    invocation_variants(rep, "stat:invocation-form", [m for m in mjobs if "-H" in m[0]], rng, n=8 if tier == "quick" else 60)
    pos = 0
    for argv, txt, req, delim in mmeta:
        multi = mres[pos]; singles = mres[pos + 1:pos + 1 + len(req)]; pos += 1 + len(req)
        rep.count("stat-multi", " ".join(argv), True)
        if any(r[0] != 0 for r in singles):
            want_ok = False
        else:
            want_ok = True
            want = (delim.join(NAMES[x] for x in req) + "\n" + delim.join(r[1].decode().strip() for r in singles) + "\n").encode()
        if (want_ok and (multi[0] != 0 or multi[1] != want)) or (not want_ok and multi[0] == 0):
            rep.fail(kind="property-oracle", cls="stat:multi", case=" ".join(argv), argv=["sfs"] + argv, stdin=txt.decode(),
                     observed={"rc": multi[0], "stdout": multi[1].decode(errors="replace")[:300]},
                     expected=(want.decode()[:300] if want_ok else "error (one of the statistics is not defined for this shape)"),
                     detail="several statistics in one invocation must print the single-statistic values in the order requested, with -H their names")

    # (a'') the precision option at and beyond the formatter's limit (65535 decimals): the VALUE printed is the statistic
    from common import text_spectrum
    pj, pm = [], []
    for st, sh, data in [c for c in cases if c[0] in ("pi", "theta", "f2", "fst", "pi-xy", "d-tajima")][:: 5][:8]:
        for p_ in ("30", "300", "65535", "65536", "100000", "4294967296"):
            pj.append((["stat", "-s", st, "--precision", p_], text_spectrum(sh, list(map(str, data))))); pm.append((st, sh, data, p_))
    pres = run_cli_many(pj)
    ref15 = {(st, tuple(sh), tuple(data)): v for (st, sh, data), (rc, v, se, so) in zip(cases, res)}
    for (st, sh, data, p_), (rc, so, se) in zip(pm, pres):
        want = ref15.get((st, tuple(sh), tuple(data)))
        rep.count("stat-precision-extremes", "stat -s %s --precision %s" % (st, p_), True)
        if want is None or want != want or abs(want) == float("inf"):
            continue            # undefined on this spectrum
        try:
            got = float(so.decode().strip()[:400]) if rc == 0 else None
        except ValueError:
            got = None
        if is_panic(rc, se) or got is None or not close(got, want, tol=1e-9):
            rep.fail(kind="property-oracle", cls="stat:precision-extreme", case="stat -s %s --precision %s on %s" % (st, p_, fmt(sh)), argv=["sfs", "stat", "-s", st, "--precision", p_],
                     stdin=text_spectrum(sh, list(map(str, data))).decode(), observed={"rc": rc, "stdout": so.decode(errors="replace")[:60]}, expected=repr(want),
                     detail="a very large --precision must still print the statistic's value (more decimals, not another number)")
    # (b) end to end against the definitions on genotypes
    e2e = []
    for k in range(30 if tier == "quick" else 300):
        npop = rng.choice([1, 2, 2, 3, 4])
        sizes = [rng.randrange(2, 5) for _ in range(npop)]
        if k % 5 == 0:
            npop, sizes = 2, [1, 1]
        cols = names(sum(sizes))
        sm, i = [], 0
        for p, sz in enumerate(sizes):
            for _ in range(sz):
                sm.append((cols[i], "P%d" % p)); i += 1
        nrec = rng.randrange(3, 30)
        recs = [[rng.choice(["0/0", "0/1", "1/1", "1|0"]) for _ in cols] for _ in range(nrec)]
        e2e.append((sizes, sm, cols, recs))
    created = run_cli_many([(["create"] + cli_samples_arg(sm), render_vcf(cols, recs)) for sizes, sm, cols, recs in e2e])
    jobs, meta = [], []
    for (sizes, sm, cols, recs), (rc, so, se) in zip(e2e, created):
        if rc != 0:
            rep.fail(kind="harness-error", cls="stat:e2e-create", case=str(sizes), observed=se.decode()[:200], detail="create failed", failing_input=False)
            continue
        pops, i = [], 0
        for sz in sizes:
            idx = list(range(i, i + sz)); i += sz
            pops.append([[int(a) for c in idx for a in recs[s][c].replace("|", "/").split("/")] for s in range(len(recs))])
        for st in STATS:
            ok_dim = DIMS[st] is None or DIMS[st] == len(sizes)
            if st in ("king", "r0", "r1") and sizes != [1, 1]:
                ok_dim = False
            if st in ("d-fu-li", "d-tajima", "theta") or not ok_dim:
                continue
            if st == "fst" and min(sizes) < 2:
                continue
            want = genotype_level(st, pops)
            if want is None:
                continue
            jobs.append((["stat", "-s", st, "--precision", "15"], so)); meta.append((st, want, sizes, cols, recs, sm))
    for (st, want, sizes, cols, recs, sm), (rc, so, se) in zip(meta, run_cli_many(jobs)):
        rep.count("stat-e2e:" + st, "%s sizes=%s records=%d" % (st, sizes, len(recs)), want != 0)
        try:
            v = float(so.decode().strip())
        except ValueError:
            v = None
        if rc != 0 or v is None or not close(v, want):
            rep.fail(kind="property-oracle", cls="stat:genotype-definition:" + st, case="%s on create output, population sizes %s" % (st, sizes),
                     argv=["sfs", "create"] + cli_samples_arg(sm), stdin=render_vcf(cols, recs).decode(),
                     observed={"rc": rc, "stdout": so.decode(errors="replace")[:100]}, expected=str(float(want)),
                     detail="statistic from the created spectrum differs from the same quantity computed directly from the genotypes")
    # (c') values that are no ordinary numbers - a statistic that is undefined (NaN: D without segregating sites), infinite
    # (R0 with an empty denominator) or beyond 2^63 (sums of huge counts) - are printed as such at EVERY precision, 0 included
    sj, sm_ = [], []
    specials = [("d-tajima", [5], ["7", "0", "0", "0", "2"]), ("d-fu-li", [5], ["7", "0", "0", "0", "2"]), ("r0", [3, 3], ["5", "1", "0", "2", "0", "3", "0", "1", "4"]),
                ("r1", [3, 3], ["5", "0", "0", "0", "3", "0", "0", "0", "4"]), ("king", [3, 3], ["5", "0", "0", "0", "0", "0", "0", "0", "4"]), ("fst", [3, 3], ["5", "0", "0", "0", "0", "0", "0", "0", "4"]),
                ("sum", [4], ["5e17", "4e19", "1e19", "3e18"]), ("s", [4], ["5e17", "4e19", "1e19", "3e18"]), ("sum", [3], ["1e300", "1e300", "5"]), ("pi", [4], ["1", "3e19", "2e19", "1"]),
                ("theta", [4], ["1", "3e19", "2e19", "1"]), ("sum", [3], ["inf", "1", "2"]), ("s", [3], ["0", "nan", "2"])]
    for st, sh, vals in specials:
        for p_ in (15, 0, 1, 6):
            sj.append((["stat", "-s", st, "-p", str(p_)], _ts(sh, vals))); sm_.append((st, sh, vals, p_))
        sj.append((["stat", "-s", st + ",sum", "-p", "0,3"], _ts(sh, vals))); sm_.append((st, sh, vals, "0,3"))
    refv_ = None
    for (st, sh, vals, p_), (rc, so, se) in zip(sm_, run_cli_many(sj)):
        tok_ = so.decode(errors="replace").strip().split(",")[0]
        try:
            v_ = float(tok_) if rc == 0 else None
        except ValueError:
            v_ = None
        if p_ == 15:
            refv_ = v_
            continue
        rep.count("stat-special-values", "%s -p %s on %s" % (st, p_, fmt(sh)), True)
        if refv_ is None:
            continue
        import math as _m
        if _m.isnan(refv_):
            good = v_ is not None and _m.isnan(v_)
        elif _m.isinf(refv_):
            good = v_ == refv_
        else:
            good = v_ is not None and abs(v_ - refv_) <= 0.5 * 10.0 ** (-int(str(p_).split(",")[0])) * (1 + 1e-9) + abs(refv_) * 1e-12
        if not good:
            rep.fail(kind="property-oracle", cls="stat:special-value:" + st, case="stat -s %s -p %s on %s %s" % (st, p_, fmt(sh), " ".join(vals)), argv=["sfs", "stat", "-s", st, "-p", str(p_)],
                     stdin=_ts(sh, vals).decode(), observed={"rc": rc, "stdout": so.decode(errors="replace")[:100]}, expected="the value printed at precision 15 (%r), rounded to %s decimals" % (refv_, p_),
                     detail="an undefined, infinite or very large statistic is not printed as such at this precision")
    # (d) the statistic is a function of the spectrum, not of the file it came in: the same integer-valued spectrum as text
    # and as npy of every element type and byte order (files built here with struct, numpy's layout) gives the same bytes
    import struct as _st
    def npy_bytes(sh, vals, descr):
        code = {"f8": "d", "f4": "f", "i8": "q", "i4": "i", "i2": "h", "i1": "b", "u8": "Q", "u4": "I", "u2": "H", "u1": "B"}[descr[1:]]
        hdr = "{'descr': '%s', 'fortran_order': False, 'shape': (%s), }" % (descr, "".join("%d," % n for n in sh) if len(sh) == 1 else ", ".join(map(str, sh)))
        hdr += " " * ((64 - (10 + len(hdr) + 1) % 64) % 64) + "\n"
        bo = {"<": "<", ">": ">", "|": "="}[descr[0]]
        conv = float if code in "df" else int
        return b"\x93NUMPY\x01\x00" + _st.pack("<H", len(hdr)) + hdr.encode() + b"".join(_st.pack(bo + code, conv(v)) for v in vals)
    DESCRS = ["<f8", ">f8", "<f4", ">f4", "<i8", ">i8", "<i4", ">i4", "<i2", ">i2", "|i1", "<u8", ">u8", "<u4", ">u4", "<u2", ">u2", "|u1"]
    cjobs, cmeta = [], []
    for st in STATS:
        for _ in range(1 if tier == "quick" else 6):
            d = DIMS[st] if DIMS[st] is not None else rng.choice([1, 2, 3])
            sh = [3, 3] if st in ("king", "r0", "r1") else [rng.randrange(3, 6) for _ in range(d)]
            E = 1
            for n in sh:
                E *= n
            vals = [rng.randrange(1, 100) for _ in range(E)]
            cjobs.append((["stat", "-s", st, "--precision", "12"], _ts(sh, list(map(str, vals))))); cmeta.append((st, sh, vals, "text"))
            for descr in (DESCRS if tier != "quick" else rng.sample(DESCRS, 6) + [">f8", ">i4"]):
                cjobs.append((["stat", "-s", st, "--precision", "12"], npy_bytes(sh, vals, descr))); cmeta.append((st, sh, vals, descr))
            # ... and as text laid out differently: no final line feed, CR LF, tabs, one value per line, blank lines at the end
            hdr_ = "#SHAPE=<%s>" % "/".join(map(str, sh))
            tv = list(map(str, vals))
            for lname, body in (("text, no final line feed", hdr_ + "\n" + " ".join(tv)), ("text, CR LF", hdr_ + "\r\n" + " ".join(tv) + "\r\n"),
                                ("text, tabs", hdr_ + "\n" + "\t".join(tv) + "\n"), ("text, one value per line", hdr_ + "\n" + "\n".join(tv) + "\n"),
                                ("text, blank lines at the end", hdr_ + "\n" + " ".join(tv) + "\n\n\n"), ("text, one value per line, no final line feed", hdr_ + "\n" + "\n".join(tv))):
                cjobs.append((["stat", "-s", st, "--precision", "12"], body.encode())); cmeta.append((st, sh, vals, lname))
    cres = run_cli_many(cjobs)
    ref_out = None
    for (st, sh, vals, form), (rc, so, se), cj in zip(cmeta, cres, cjobs):
        if form == "text":
            ref_out = (rc, so)
            continue
        rep.count("stat-container:" + form, "%s %s" % (st, fmt(sh)), True)
        if (rc, so) != ref_out or rc != 0:
            rep.fail(kind="property-oracle", cls="stat:container:" + st, case="stat %s on %s given as npy %s" % (st, fmt(sh), form),
                     argv=["sfs", "stat", "-s", st, "--precision", "12"], stdin_hex=cj[1].hex(),
                     observed={"rc": rc, "stdout": so.decode(errors="replace")[:100], "stderr": se.decode(errors="replace")[-200:]},
                     expected={"rc": ref_out[0], "stdout": ref_out[1].decode(errors="replace")[:100]},
                     detail="the statistic of the same spectrum read from %s differs from the one read from plain text" % (form if form.startswith("text") else "an npy file of element type " + form))
    rep.assumptions += ["exact-arithmetic theorems; f64 results compared within 1e-9 relative; sqrt evaluated in floating point for D",
                        "positive data so that no denominator vanishes (x/0 is NaN/inf in f64, outside the theorems' hypotheses)"]


if __name__ == "__main__":
    sys.exit(standard_main("C06", check, sys.argv[1:], RULE, needs_cli=True))
