"""Translator for the constants of /repo's source: reads them out of the Rust files on every run and writes
.cache/work/gen/Generated.v (definitions `src_*`), then compiles GeneratedCheck.v, whose obligations say that each constant
is the one the hand-written model uses (or has the arithmetic property the code relies on). A constant changed in the source
breaks an obligation here even if no generated input happens to reach it.
usage: gen_constants.py  -> prints one line per obligation group, exit 1 if something does not compile"""
import os
import re
import subprocess
import sys

ROOT = os.path.dirname(os.path.dirname(os.path.abspath(__file__)))
REPO = os.environ.get("SFS_REPO", "/repo")
GEN = os.path.join(ROOT, ".cache", "work", "gen")


def _src(rel):
    return open(os.path.join(REPO, rel), encoding="utf-8").read()


def _bytes_literal(s):
    """Rust byte-string literal body -> list of ints"""
    out, i = [], 0
    while i < len(s):
        if s[i] == "\\":
            if s[i + 1] == "x":
                out.append(int(s[i + 2:i + 4], 16)); i += 4
            else:
                out.append({"n": 10, "t": 9, "r": 13, "0": 0, "\\": 92, '"': 34, "'": 39}[s[i + 1]]); i += 2
        else:
            out.append(ord(s[i])); i += 1
    return out


def _int_expr(e):
    e = e.strip().replace("_", "")
    m = re.fullmatch(r"(\d+)\s*<<\s*(\d+)", e)
    if m:
        return int(m.group(1)) << int(m.group(2))
    m = re.fullmatch(r"0x([0-9a-fA-F]+)", e)
    if m:
        return int(m.group(1), 16)
    return int(e)


def extract():
    """returns ({name: value}, [problems]); value is an int or a list of ints"""
    c, problems = {}, []

    def grab(name, rel, pattern, conv):
        try:
            m = re.search(pattern, _src(rel))
            if not m:
                problems.append("constant %s not found in %s (pattern %r)" % (name, rel, pattern))
                return
            c[name] = conv(m.group(1))
        except Exception as e:          # noqa
            problems.append("constant %s: %s" % (name, e))

    grab("src_npy_align", "core/src/array/npy/header.rs", r"const ALIGN: usize = ([^;]+);", _int_expr)
    grab("src_npy_magic", "core/src/array/npy.rs", r'const MAGIC: \[u8; 6\] = \*b"([^"]*)";', _bytes_literal)
    grab("src_text_start", "core/src/spectrum/io/text.rs", r'const START: \[u8; 6\] = \*b"([^"]*)";', _bytes_literal)
    grab("src_detect_prefix_len", "core/src/input/genotype/reader/builder.rs", r"const DETECT_PREFIX_LEN: \w+ = ([^;]+);", _int_expr)
    grab("src_bcf_magic", "core/src/input/genotype/reader/builder.rs", r'const BCF_MAGIC_NUMBER: \[u8; 3\] = \*b"([^"]*)";', _bytes_literal)
    grab("src_gzip_magic", "core/src/input/genotype/reader/builder.rs", r"const GZIP_MAGIC_NUMBER: \[u8; 2\] = \[([^\]]*)\];",
         lambda s: [_int_expr(x) for x in s.split(",")])
    grab("src_factorial_max", "core/src/utils.rs", r"const MAX: usize = ([^;]+);", _int_expr)
    grab("src_factorial_len_minus_max", "core/src/utils.rs", r"const PRECOMPUTED_LEN: usize = MAX \+ ([^;]+);", _int_expr)
    return c, problems


def render(c):
    out = ["(* GENERATED on every run by py/gen_constants.py from /repo's source. Do not edit. *)",
           "From Coq Require Import NArith List.", "Import ListNotations.", "Open Scope N_scope.", ""]
    for k in sorted(c):
        v = c[k]
        if isinstance(v, list):
            out.append("Definition %s : list N := [%s]." % (k, "; ".join(str(x) for x in v)))
        else:
            out.append("Definition %s : N := %d." % (k, v))
    return "\n".join(out) + "\n"


CHECK = r"""(* Obligations tying the constants read out of the source (Generated.v) to the model. *)
From Coq Require Import NArith List Lia.
Import ListNotations.
From Sfs Require Import Npy Text Stream.
Require Import Generated.
Close Scope string_scope. Open Scope N_scope.

(* C07, C15, C16: npy magic and alignment, text start *)
Lemma gen_npy_align : src_npy_align = align.                      Proof. reflexivity. Qed.
Lemma gen_npy_magic : src_npy_magic = magic.                      Proof. reflexivity. Qed.
Lemma gen_text_start : src_text_start = text_start.               Proof. reflexivity. Qed.
Lemma gen_formats_distinct : forall a b, starts_with src_npy_magic (src_text_start ++ a) = false /\ starts_with src_text_start (src_npy_magic ++ b) = false.
Proof. intros; split; reflexivity. Qed.

(* C12, C18: detection prefix and magic numbers *)
Lemma gen_detect_prefix_len : N.to_nat src_detect_prefix_len = detect_prefix_len.   Proof. reflexivity. Qed.
(* a BGZF block is at most 64 KiB: the prefix holds the whole first block *)
Lemma gen_prefix_holds_a_bgzf_block : 65536 <= src_detect_prefix_len.                 Proof. vm_compute. discriminate. Qed.
Lemma gen_bcf_magic : forall g rest, detect_container g (src_bcf_magic ++ rest) = CBcf.  Proof. intros; reflexivity. Qed.
Lemma gen_gzip_magic : forall g rest, detect_container g (src_gzip_magic ++ rest) <> CVcf /\ detect_container g (src_gzip_magic ++ rest) <> CBcf.
Proof. intros g rest; cbn [app src_gzip_magic detect_container]; destruct (g _) as [p|]; [destruct (bytes_eqb _ _)|]; split; discriminate. Qed.

(* C02, C03, C06, C10: the factorial table ends exactly where binary64 does: MAX! is finite, (MAX+1)! is not *)
Fixpoint factN (n : nat) : N := match n with O => 1 | S k => N.of_nat n * factN k end.
Lemma gen_factorial_table_is_finite : factN (N.to_nat src_factorial_max) < 2 ^ 1024 - 2 ^ 970.
Proof. vm_compute. reflexivity. Qed.
Lemma gen_factorial_table_is_maximal : 2 ^ 1024 <= factN (N.to_nat (src_factorial_max + 1)).
Proof. vm_compute. discriminate. Qed.
Lemma gen_factorial_table_len : src_factorial_len_minus_max = 1.   Proof. reflexivity. Qed.
"""

GROUPS = {
    "gen_npy_align": ["C07", "C15", "C16", "C17"], "gen_npy_magic": ["C07", "C15", "C16", "C17"],
    "gen_text_start": ["C07", "C16", "C17"], "gen_formats_distinct": ["C07", "C16"],
    "gen_detect_prefix_len": ["C12", "C18"], "gen_prefix_holds_a_bgzf_block": ["C12", "C18"], "gen_bcf_magic": ["C12", "C18"], "gen_gzip_magic": ["C12", "C18"],
    "gen_factorial_table_is_finite": ["C02", "C03", "C06", "C10"], "gen_factorial_table_is_maximal": ["C02", "C03", "C06", "C10"],
    "gen_factorial_table_len": ["C02", "C03", "C06", "C10", "C17"],
}


def run_check(tag="all"):
    """returns {"constants": {...}, "ok": bool, "broken": [(lemma or None, message)], "lemmas": [...]}"""
    global GEN
    GEN = os.path.join(ROOT, ".cache", "work", "gen", tag)
    os.makedirs(GEN, exist_ok=True)
    c, problems = extract()
    res = {"constants": {k: (v if not isinstance(v, list) else " ".join(map(str, v))) for k, v in c.items()}, "broken": [], "lemmas": sorted(GROUPS)}
    for p in problems:
        res["broken"].append((None, p))
    open(os.path.join(GEN, "Generated.v"), "w").write(render(c))
    coq = os.path.join(ROOT, "coq", "theories")
    q = ["-Q", os.path.join(coq, "Model"), "Sfs", "-Q", os.path.join(coq, "Proofs"), "Sfs", "-Q", GEN, ""]
    p = subprocess.run(["timeout", "300", "coqc", "-q", "-noglob"] + q + [os.path.join(GEN, "Generated.v")], capture_output=True, text=True, cwd=GEN)
    if p.returncode != 0:
        res["broken"].append((None, "Generated.v does not compile: " + (p.stdout + p.stderr)[-400:]))
        res["ok"] = False
        return res
    # one file per lemma group would hide nothing but costs time; compile once, and on failure locate the lemma by bisection
    src = CHECK
    open(os.path.join(GEN, "GeneratedCheck.v"), "w").write(src)
    p = subprocess.run(["timeout", "600", "coqc", "-q", "-noglob"] + q + [os.path.join(GEN, "GeneratedCheck.v")], capture_output=True, text=True, cwd=GEN)
    if p.returncode != 0:
        # find every failing lemma: compile the preamble plus each lemma alone
        parts = re.split(r"\n(?=\(\*|Lemma |Fixpoint )", src)
        pre = [x for x in parts if not x.startswith("Lemma ")]
        for x in parts:
            m = re.match(r"Lemma (\w+)", x)
            if not m:
                continue
            one = "\n".join(pre) + "\n" + x + "\n"
            f = os.path.join(GEN, "One_%s.v" % m.group(1))
            open(f, "w").write(one)
            r = subprocess.run(["timeout", "300", "coqc", "-q", "-noglob"] + q + [f], capture_output=True, text=True, cwd=GEN)
            if r.returncode != 0:
                res["broken"].append((m.group(1), (r.stdout + r.stderr).strip()[-300:]))
        if not res["broken"]:
            res["broken"].append((None, "GeneratedCheck.v does not compile: " + (p.stdout + p.stderr)[-400:]))
    res["ok"] = not res["broken"]
    return res


if __name__ == "__main__":
    r = run_check()
    for k, v in sorted(r["constants"].items()):
        print("%-28s %s" % (k, v))
    for lem, msg in r["broken"]:
        print("BROKEN %s: %s" % (lem, msg))
    print("ok" if r["ok"] else "FAILED")
    sys.exit(0 if r["ok"] else 1)
