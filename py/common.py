"""Shared machinery for the /verif checks: builds, proof-obligation audit, running the extracted
Coq model and the implementation on the same case lines, comparison, evidence, violations."""
import fcntl
import hashlib
import json
import os
import re
import shutil
import subprocess
import sys
import time
from fractions import Fraction

ROOT = os.path.dirname(os.path.dirname(os.path.abspath(__file__)))
REPO = os.environ.get("VERIF_REPO", "/repo")
CACHE = os.path.join(ROOT, ".cache")
COQ = os.path.join(ROOT, "coq")
CARGO_TARGET = os.path.join(CACHE, "cargo")          # harness (sfs-probe) builds
CARGO_TARGET_CLI = os.path.join(CACHE, "cargo-cli")  # the real `sfs` binary
DRIVER = os.path.join(CACHE, "ocaml", "driver")
WORK = os.path.join(CACHE, "work")
ENV = dict(os.environ, CARGO_NET_OFFLINE="true", SFS_ALLOW_STDIN="1")
NPROC = os.cpu_count() or 4

TRUSTED_BASE = [
    "Coq 8.16.1 kernel (coqc; coqchk in the thorough tier); vm_compute used, native_compute not used",
    "no Axiom/Parameter/Admitted in the development (audited by grep on every run); Print Assumptions "
    "of every property theorem compared with an allow-list on every run",
    "hand-written Gallina model of the anchored code (coq/theories/Model); tied to /repo by the "
    "correspondence check: extracted model (ExtrOcamlBasic + ExtrOcamlNatBigInt + ExtrOcamlZBigInt, "
    "zarith) vs sfs-core/sfs built from /repo's working tree, same inputs, observable outputs compared",
    "OCaml 4.13.1 + zarith 1.12 (run the extracted model), ocaml/driver.ml, harness/ (sfs-probe), py/ "
    "(generators, comparator)",
    "not modelled: noodles-vcf/bcf/bgzf, flate2, nom combinators, clap, Rust std float formatting/parsing, libm",
]


def log(*a):
    print(*a, file=sys.stderr, flush=True)


class Lock:
    def __init__(self, name):
        os.makedirs(CACHE, exist_ok=True)
        self.path = os.path.join(CACHE, name + ".lock")

    def __enter__(self):
        self.f = open(self.path, "w")
        fcntl.flock(self.f, fcntl.LOCK_EX)
        return self

    def __exit__(self, *a):
        fcntl.flock(self.f, fcntl.LOCK_UN)
        self.f.close()


def run(cmd, timeout=1800, cwd=None, env=None, input=None, check=False):
    p = subprocess.run(cmd, cwd=cwd, env=env or ENV, input=input, capture_output=True,
                       timeout=timeout, text=isinstance(input, str) or input is None)
    if check and p.returncode != 0:
        raise RuntimeError("command failed: %s\n%s\n%s" % (cmd, p.stdout[-3000:], p.stderr[-3000:]))
    return p


# ------------------------------------------------------------------------------------------------
# builds

def build_coq(targets=None):
    """Full .vo build of the development (or of the given .vo targets) via coq_makefile."""
    with Lock("coq"):
        if not os.path.exists(os.path.join(COQ, "Makefile")) or \
                os.path.getmtime(os.path.join(COQ, "Makefile")) < os.path.getmtime(os.path.join(COQ, "_CoqProject")):
            run(["coq_makefile", "-f", "_CoqProject", "-o", "Makefile"], cwd=COQ, check=True)
        cmd = ["timeout", "3000", "make", "-j%d" % NPROC] + (targets or [])
        p = run(cmd, cwd=COQ, timeout=3100)
        return p.returncode == 0, (p.stdout + p.stderr)[-4000:]


def build_driver():
    with Lock("ocaml"):
        src = [os.path.join(COQ, "theories/Extract/Extract.v"), os.path.join(ROOT, "ocaml/driver.ml")]
        src += [os.path.join(COQ, "theories/Model", f) for f in sorted(os.listdir(os.path.join(COQ, "theories/Model"))) if f.endswith(".v")]
        h = hashlib.sha256()
        for f in src:
            h.update(open(f, "rb").read())
        stamp = os.path.join(CACHE, "ocaml", "stamp")
        if os.path.exists(DRIVER) and os.path.exists(stamp) and open(stamp).read() == h.hexdigest():
            return True, "cached"
        p = run([os.path.join(ROOT, "ocaml/build.sh")], timeout=900)
        if p.returncode == 0:
            open(stamp, "w").write(h.hexdigest())
        return p.returncode == 0, (p.stdout + p.stderr)[-4000:]


def probe_path(release=False):
    return os.path.join(CARGO_TARGET, "release" if release else "debug", "sfs-probe")


def sfs_path(release=False):
    return os.path.join(CARGO_TARGET_CLI, "release" if release else "debug", "sfs")


def build_impl(release=False, cli=True):
    """Rebuild the harness (and the sfs binary) from /repo's current working tree."""
    outs = []
    ok = True
    with Lock("cargo"):
        lock_src = os.path.join(REPO, "Cargo.lock")
        lock_dst = os.path.join(ROOT, "harness", "Cargo.lock")
        if not os.path.exists(lock_dst):
            shutil.copy(lock_src, lock_dst)
        cmd = ["cargo", "build", "--offline", "--features", "verif"] + (["--release"] if release else [])
        p = run(cmd, cwd=os.path.join(ROOT, "harness"), env=dict(ENV, CARGO_TARGET_DIR=CARGO_TARGET), timeout=1800)
        ok &= p.returncode == 0
        outs.append(p.stderr[-3000:])
        if cli:
            cmd = ["cargo", "build", "--offline", "-p", "sfs-cli"] + (["--release"] if release else [])
            p = run(cmd, cwd=REPO, env=dict(ENV, CARGO_TARGET_DIR=CARGO_TARGET_CLI), timeout=1800)
            ok &= p.returncode == 0
            outs.append(p.stderr[-3000:])
    return ok, "\n".join(outs)


# ------------------------------------------------------------------------------------------------
# proof obligations

FORBIDDEN = re.compile(r"\b(Admitted|admit|Axiom|Axioms|Parameter|Parameters|Conjecture|Conjectures|"
                       r"Admit Obligations|bypass_check|Unset Guard Checking|Unset Positivity Checking|"
                       r"Unset Universe Checking|native_compute)\b|type-in-type|impredicative-set")
# axioms of the Coq standard library that a property theorem is allowed to depend on (by name)
AXIOM_ALLOW = set()


def strip_comments(src):
    out, depth, i = [], 0, 0
    while i < len(src):
        if src.startswith("(*", i):
            depth += 1; i += 2
        elif src.startswith("*)", i) and depth > 0:
            depth -= 1; i += 2
        else:
            if depth == 0:
                out.append(src[i])
            i += 1
    return "".join(out)


def audit_sources():
    """grep the whole development for escapes; top-level Variable/Hypothesis outside Sections."""
    problems = []
    for dp, _, fs in os.walk(os.path.join(COQ, "theories")):
        for f in fs:
            if not f.endswith(".v"):
                continue
            path = os.path.join(dp, f)
            src = strip_comments(open(path).read())
            for m in FORBIDDEN.finditer(src):
                problems.append("%s: forbidden token %r" % (os.path.relpath(path, ROOT), m.group(0)))
            depth = 0
            for line in src.splitlines():
                s = line.strip()
                if re.match(r"(Section|Module)\s+\w+", s) and not s.startswith("Module Type") and ":=" not in s:
                    depth += 1
                elif re.match(r"End\s+\w+\s*\.", s):
                    depth = max(0, depth - 1)
                elif depth == 0 and re.match(r"(Variable|Variables|Hypothesis|Hypotheses|Context)\b", s):
                    problems.append("%s: %s outside a Section" % (os.path.relpath(path, ROOT), s[:40]))
    proj = open(os.path.join(COQ, "_CoqProject")).read()
    if re.search(r"-type-in-type|-impredicative-set|-bypass", proj):
        problems.append("_CoqProject: forbidden flag")
    return problems


def check_property_file(pid):
    """Compile Properties/<pid>.v afresh (its dependencies were built by make), collect
    `Theorem` names and the Print Assumptions output. Returns dict."""
    src_path = os.path.join(COQ, "theories/Properties/%s.v" % pid)
    src = strip_comments(open(src_path).read())
    theorems = re.findall(r"^\s*Theorem\s+(\w+)", src, re.M)
    printed = re.findall(r"^\s*Print Assumptions\s+(\w+)\s*\.", src, re.M)
    pins = len(re.findall(r"^\s*Check\s+\(?\w+", src, re.M))
    os.makedirs(os.path.join(WORK, "pf"), exist_ok=True)
    tmpvo = os.path.join(WORK, "pf", "%s.vo" % pid)
    args = ["timeout", "900", "coqc", "-q", "-noglob"]
    for d in ("Model", "Proofs", "Properties", "Extract"):
        args += ["-Q", os.path.join(COQ, "theories", d), "Sfs"]
    args += [src_path, "-o", tmpvo]
    t0 = time.time()
    with Lock("coq"):
        p = run(args, timeout=1000)
    out = p.stdout + p.stderr
    res = {"theorems": theorems, "compiled": p.returncode == 0, "coqc_s": round(time.time() - t0, 1),
           "assumptions": {}, "problems": [], "pins": pins}
    if p.returncode != 0:
        res["problems"].append("coqc failed on Properties/%s.v: %s" % (pid, out[-1500:]))
        # which theorem? find the failing line
        m = re.search(r'line (\d+), characters', out)
        if m:
            res["failing_line"] = int(m.group(1))
        return res
    missing = [t for t in theorems if t not in printed]
    if missing:
        res["problems"].append("theorems without Print Assumptions: %s" % missing)
    # parse Print Assumptions output blocks in order
    blocks = re.split(r"(?m)^(?=Closed under the global context|Axioms:)", p.stdout)
    blocks = [b for b in blocks if b.startswith("Closed under") or b.startswith("Axioms:")]
    if len(blocks) != len(printed):
        res["problems"].append("Print Assumptions output count %d != %d" % (len(blocks), len(printed)))
    for name, b in zip(printed, blocks):
        if b.startswith("Closed under"):
            res["assumptions"][name] = []
        else:
            axs = re.findall(r"(?m)^(\S+)\s*:", b[len("Axioms:"):])
            res["assumptions"][name] = axs
            bad = [a for a in axs if a not in AXIOM_ALLOW]
            if bad:
                res["problems"].append("theorem %s depends on non-allow-listed axioms: %s" % (name, bad))
    return res


def proof_step(pid, tier):
    """make + audit + property file. Returns (info dict, list of broken-obligation descriptions)."""
    t0 = time.time()
    ok, out = build_coq()
    info = {"make_ok": ok}
    broken = []
    if not ok:
        m = re.search(r'File "\./([^"]+)", line (\d+)', out)
        broken.append("coq build failed" + (" at %s:%s" % (m.group(1), m.group(2)) if m else "") + ": " + out[-800:])
    probs = audit_sources()
    info["audit_problems"] = probs
    broken += probs
    pf = check_property_file(pid)
    info.update(pf)
    broken += pf["problems"]
    info["obligations"] = len(pf["theorems"])
    info["discharged"] = len(pf["theorems"]) if pf["compiled"] and not pf["problems"] else 0
    # constants translated from /repo's source on this run, and the obligations tying them to the model
    try:
        import gen_constants
        g = gen_constants.run_check(pid)
        mine = [l for l in g["lemmas"] if pid in gen_constants.GROUPS[l]]
        bad = [(l, m) for l, m in g["broken"] if l is None or pid in gen_constants.GROUPS.get(l, [])]
        if mine:
            info["generated_constants"] = {"constants": g["constants"], "obligations": mine, "broken": [l for l, _ in bad]}
            info["obligations"] += len(mine)
            info["discharged"] += len([l for l in mine if l not in [b for b, _ in bad]]) if not any(l is None for l, _ in bad) else 0
            for l, m in bad:
                broken.append("generated-constant obligation %s no longer holds (source constant vs model): %s" % (l or "(translator)", m[-300:]))
    except Exception as e:      # the translator itself failing is a broken tie, not a pass
        broken.append("constant translator failed: %r" % (e,))
    if tier == "thorough" and pf["compiled"]:
        c = coqchk(pid)
        info["coqchk"] = c
        if not c["ok"]:
            broken.append("coqchk failed: " + c["tail"])
    info["proof_wall_s"] = round(time.time() - t0, 1)
    return info, broken


def coqchk(pid):
    args = ["timeout", "1500", "coqchk", "-silent", "-o"]
    for d in ("Model", "Proofs", "Properties", "Extract"):
        args += ["-Q", os.path.join(COQ, "theories", d), "Sfs"]
    args += ["Sfs.%s" % pid]
    p = run(args, timeout=1600)
    out = p.stdout + p.stderr
    m = re.search(r"Axioms:\s*(.*)", out, re.S)
    return {"ok": p.returncode == 0, "axioms": (m.group(1).strip()[:500] if m else ""), "tail": out[-600:]}


# ------------------------------------------------------------------------------------------------
# running model and implementation on case lines

def _run_lines(binary, lines, env=None, timeout=1800):
    if not lines:
        return []
    shards = min(NPROC, max(1, len(lines) // 50))
    chunks = [lines[i::shards] for i in range(shards)]
    procs = []
    def _stack():
        import resource
        try:
            resource.setrlimit(resource.RLIMIT_STACK, (resource.RLIM_INFINITY, resource.RLIM_INFINITY))
        except (ValueError, OSError):
            pass
    for ch in chunks:
        p = subprocess.Popen([binary], stdin=subprocess.PIPE, stdout=subprocess.PIPE, stderr=subprocess.PIPE,
                             env=env or ENV, text=True, preexec_fn=_stack)
        procs.append((p, ch))
    import threading
    results = [None] * shards

    def work(k):
        p, ch = procs[k]
        try:
            o, e = p.communicate("\n".join(ch) + "\n", timeout=timeout)
        except subprocess.TimeoutExpired:
            p.kill(); o, e = p.communicate()
        results[k] = (o.split("\n"), e, p.returncode)
    ths = [threading.Thread(target=work, args=(k,)) for k in range(shards)]
    [t.start() for t in ths]
    [t.join() for t in ths]
    out = [None] * len(lines)
    for k in range(shards):
        o, e, rc = results[k]
        n = len(chunks[k])
        if o and o[-1] == "":
            o = o[:-1]
        marker = "<no-output rc=%s %s>" % (rc, e.strip()[-200:].replace("\n", " "))
        o = o[:n] + [marker] * max(0, n - len(o))
        for j, line in enumerate(o):
            out[k + j * shards] = line
    return out


def run_model(lines):
    return _run_lines(DRIVER, lines)


def run_impl(lines, release=False):
    return _run_lines(probe_path(release), lines)


# ------------------------------------------------------------------------------------------------
# comparison of observation lines

def bits_to_fraction(hexs):
    import struct
    b = int(hexs, 16)
    x = struct.unpack(">d", b.to_bytes(8, "big"))[0]
    if x != x:
        return "nan"
    if x in (float("inf"), float("-inf")):
        return "inf" if x > 0 else "-inf"
    return Fraction(x)


def parse_value(tok):
    """numeric token -> Fraction | 'nan' | 'inf' | '-inf' | None (not numeric)"""
    if tok.startswith("0x") and len(tok) == 18:
        return bits_to_fraction(tok[2:])
    if re.fullmatch(r"-?\d+(/\d+)?", tok):
        return Fraction(tok)
    if tok in ("nan", "inf", "-inf"):
        return tok
    return None


def tokens_equal(a, b, tol=None, scale=None):
    """compare two observation tokens; comma-separated lists compared element-wise."""
    if a == b:
        return True
    if a and b and a[0] == b[0] and a[0].isalpha() and a[0].isupper() and not a.startswith("ERR"):
        return tokens_equal(a[1:], b[1:], tol, scale)     # tagged payload, e.g. P<values>
    if "," in a or "," in b:
        la, lb = a.split(","), b.split(",")
        return len(la) == len(lb) and all(tokens_equal(x, y, tol, scale) for x, y in zip(la, lb))
    va, vb = parse_value(a), parse_value(b)
    if va is None or vb is None:
        return False
    if isinstance(va, str) or isinstance(vb, str):
        return va == vb
    if va == vb:
        return True
    if tol is not None:
        s = scale if scale is not None else max(abs(va), abs(vb), 1)
        return abs(va - vb) <= tol * s
    return False


def lines_equal(m, i, tol=None, scale=None):
    tm, ti = m.split(), i.split()
    return len(tm) == len(ti) and all(tokens_equal(x, y, tol, scale) for x, y in zip(tm, ti))


# ------------------------------------------------------------------------------------------------
# known findings, violations, evidence

def load_known():
    p = os.path.join(ROOT, "known_findings.json")
    if not os.path.exists(p):
        return []
    return json.load(open(p)).get("findings", [])


def classify_known(pid, failure):
    """returns the open known finding this failure belongs to, or None. Matching is by the
    failure's 'cls' string, computed by the property's own classifier from the specific failing
    input, never by property id alone."""
    for k in load_known():
        if k.get("property") == pid and k.get("status") == "open" and failure.get("cls") in k.get("classes", []):
            return k
    return None


class Report:
    def __init__(self, pid, tier, seed):
        self.pid, self.tier, self.seed = pid, tier, seed
        self.t0 = time.time()
        self.failures = []      # dicts: kind, cls, case, expected, observed, detail, failing_input(bool)
        self.coverage = {"evaluations": 0, "distinct_nontrivial": 0, "samples": [], "families": {}}
        self.assumptions = []
        self.proof = {}
        self._nontrivial = set()

    def count(self, family, case, nontrivial=True, n=1):
        self.coverage["evaluations"] += n
        fam = self.coverage["families"].setdefault(family, {"cases": 0})
        fam["cases"] += n
        if nontrivial:
            self._nontrivial.add(case)
        if len(self.coverage["samples"]) < 12 and (fam["cases"] <= 2):
            self.coverage["samples"].append({"family": family, "case": case if len(str(case)) < 400 else str(case)[:400] + "..."})

    def fail(self, **kw):
        kw.setdefault("failing_input", True)
        self.failures.append(kw)

    def finish(self, level="proof", rule="", checker_cmd="", explanation=None):
        pid = self.pid
        os.makedirs(os.path.join(ROOT, "evidence"), exist_ok=True)
        os.makedirs(os.path.join(ROOT, "replays", pid), exist_ok=True)
        unknown, known_lines = [], {}
        for f in self.failures:
            k = classify_known(pid, f)
            if k is not None:
                known_lines.setdefault(k["id"], (k, f))
            else:
                unknown.append(f)
        cov = self.coverage
        cov["distinct_nontrivial"] = len(self._nontrivial)
        cov["rule"] = rule
        cov["obligations"] = self.proof.get("obligations", 0)
        cov["discharged"] = self.proof.get("discharged", 0)
        cov["checker_cmd"] = checker_cmd or ("make -C coq (coq_makefile, full .vo build) && coqc theories/Properties/%s.v "
                                             "(Print Assumptions audited)%s" % (pid, " && coqchk -o" if self.tier == "thorough" else ""))
        cov["trusted_base"] = TRUSTED_BASE
        cov["theorems"] = self.proof.get("theorems", [])
        cov["print_assumptions"] = self.proof.get("assumptions", {})
        cov["statement_pins"] = self.proof.get("pins", 0)
        if "coqchk" in self.proof:
            cov["coqchk"] = self.proof["coqchk"]
        cov["known_findings_seen"] = sorted(known_lines)
        if explanation:
            cov["explanation"] = explanation
        ev = {"property_id": pid, "tier": self.tier, "seed": self.seed, "level": level, "coverage": cov,
              "assumptions": self.assumptions, "wall_s": round(time.time() - self.t0, 2),
              "violations": len(unknown)}
        json.dump(ev, open(os.path.join(ROOT, "evidence", "%s.json" % pid), "w"), indent=1, default=str)
        for kid, (k, f) in sorted(known_lines.items()):
            print("KNOWN-FINDING: property=%s %s" % (pid, k["text"]))
        if not unknown:
            print("OK property=%s tier=%s evaluations=%d obligations=%d/%d wall=%.1fs" % (
                pid, self.tier, cov["evaluations"], cov["discharged"], cov["obligations"], time.time() - self.t0))
            return 0
        # one replay file per distinct failure class (first failure of each), failing inputs first
        unknown.sort(key=lambda f: (not f.get("failing_input", True), len(json.dumps(f, default=str))))
        seen = set()
        n = 0
        for f in unknown:
            key = (f.get("cls"), f.get("failing_input", True))
            if key in seen:
                continue
            seen.add(key)
            path = os.path.join(ROOT, "replays", pid, "%d.json" % n)
            n += 1
            f = dict(f, property=pid, how_to_replay="bin/check replay %s %s" % (pid, path),
                     total_failures=len(unknown))
            json.dump(f, open(path, "w"), indent=1, default=str)
            suffix = "" if f.get("failing_input", True) else " no-failing-input-found"
            print("VIOLATION property=%s replay=%s%s" % (pid, path, suffix))
            if n >= 8:
                break
        return 1


def compare_cases(rep, family, cases, tol=None, release=False, nontrivial=None, classify=None, spec=True,
                  both_builds=False, scale_fn=None):
    """Run the same case lines through the model and the implementation, compare, record failures.
    `spec`: the model's output on these cases is the value a proved theorem mandates, so a
    disagreement is itself a failing input for the property."""
    cases = list(dict.fromkeys(cases))
    mo = run_model(cases)
    builds = [False, True] if both_builds else [release]
    outs = {}
    for rel in builds:
        outs[rel] = run_impl(cases, release=rel)
    for idx, c in enumerate(cases):
        m = mo[idx]
        nt = nontrivial(c, m) if nontrivial else True
        rep.count(family, c, nt, n=len(builds))
        if "MODEL-EXN" in m or "BAD-CASE" in m or "UNKNOWN-OP" in m or m.startswith("<no-output"):
            rep.fail(kind="harness-error", cls="harness-error", case=c, expected=m, observed=outs[builds[0]][idx],
                     detail="the model driver failed on this case", failing_input=False)
            continue
        for rel in builds:
            i = outs[rel][idx]
            if not lines_equal(m, i, tol, scale_fn(c) if scale_fn else None):
                cls = classify(c, m, i) if classify else family
                rep.fail(kind="model-impl-disagreement", cls=cls, case=c, expected=m, observed=i,
                         build="release" if rel else "debug",
                         detail="implementation output differs from the value the proved model gives",
                         failing_input=bool(spec))
    return mo, outs


def standard_main(pid, generate_and_check, argv, rule, level="proof", needs_cli=False, needs_release=False):
    """common driver: proofs, builds, then the property's own correspondence/oracle function."""
    tier = os.environ.get("VERIF_TIER", "quick")
    if "--tier" in argv:
        tier = argv[argv.index("--tier") + 1]
    seed = int(os.environ.get("VERIF_SEED", "20261001"))
    rep = Report(pid, tier, seed)
    info, broken = proof_step(pid, tier)
    rep.proof = info
    for b in broken:
        rep.fail(kind="broken-proof-obligation", cls="proof:" + b[:60], case=None, detail=b,
                 theorem_or_correspondence="Properties/%s.v" % pid, failing_input=False)
    ok, out = build_driver()
    if not ok:
        rep.fail(kind="harness-error", cls="driver-build", detail=out, failing_input=False)
    ok, out = build_impl(release=False, cli=needs_cli)
    if not ok:
        rep.fail(kind="harness-error", cls="impl-build", detail="implementation does not build: " + out[-1500:], failing_input=False)
    if (needs_release or tier == "thorough") and ok:
        ok2, out2 = build_impl(release=True, cli=needs_cli)
        if not ok2:
            rep.fail(kind="harness-error", cls="impl-build-release", detail=out2[-1500:], failing_input=False)
    if ok:
        generate_and_check(rep, tier, seed)
    return rep.finish(level=level, rule=rule)


# ------------------------------------------------------------------------------------------------
# running the real `sfs` binary

def run_cli_many(jobs, release=False, timeout=60):
    """jobs: list of (argv_without_binary, stdin_bytes). Returns list of (rc, stdout_bytes, stderr_bytes)."""
    from concurrent.futures import ThreadPoolExecutor
    binary = sfs_path(release)

    def one(job):
        argv, data = job[0], job[1]
        cpus = job[2] if len(job) > 2 else None      # optional: the set of CPUs the process may run on
        extra_env = job[3] if len(job) > 3 else None  # optional: environment variables added to (or, value None, removed from) ENV
        env = ENV
        if extra_env:
            env = dict(ENV)
            for k_, v_ in extra_env.items():
                if v_ is None:
                    env.pop(k_, None)
                else:
                    env[k_] = v_
        try:
            def _confine():
                try:
                    os.sched_setaffinity(0, cpus)
                except OSError:
                    pass            # not permitted here: the run is then an ordinary one
            pre = _confine if cpus else None
            p = subprocess.run([binary] + list(argv), input=data, capture_output=True, timeout=timeout, env=env, preexec_fn=pre)
            return (p.returncode, p.stdout, p.stderr)
        except subprocess.TimeoutExpired:
            return (-999, b"", b"timeout")
    with ThreadPoolExecutor(max_workers=NPROC) as ex:
        return list(ex.map(one, jobs))


def run_cli_trickle(jobs, delay=0.25, release=False, timeout=60):
    """jobs: list of (argv, [chunk, chunk, ...]): stdin is a pipe written chunk by chunk with a pause after each chunk, so
    that the first read() of the child returns only the first chunk. Returns list of (rc, stdout, stderr)."""
    import threading
    import time as _t
    from concurrent.futures import ThreadPoolExecutor
    binary = sfs_path(release)

    def one(job):
        argv, chunks = job
        p = subprocess.Popen([binary] + list(argv), stdin=subprocess.PIPE, stdout=subprocess.PIPE, stderr=subprocess.PIPE, env=ENV)
        out = {}
        t1 = threading.Thread(target=lambda: out.__setitem__("o", p.stdout.read()))
        t2 = threading.Thread(target=lambda: out.__setitem__("e", p.stderr.read()))
        t1.start(); t2.start()
        try:
            for k, c in enumerate(chunks):
                if c:
                    p.stdin.write(c); p.stdin.flush()
                if k + 1 < len(chunks):
                    _t.sleep(delay)
        except (BrokenPipeError, OSError):
            pass
        try:
            p.stdin.close()
        except (BrokenPipeError, OSError):
            pass
        try:
            rc = p.wait(timeout=timeout)
        except subprocess.TimeoutExpired:
            p.kill(); rc = -999
        t1.join(); t2.join()
        return (rc, out.get("o", b""), out.get("e", b""))
    with ThreadPoolExecutor(max_workers=NPROC) as ex:
        return list(ex.map(one, jobs))


def run_cli_fifo(argv, fifo_path, fifo_data, stdin_data=b"", release=False, timeout=60):
    """Runs sfs with `fifo_path` (a named pipe created here) among its arguments; fifo_data is written into the pipe once
    the process has opened it. Returns (rc, stdout, stderr)."""
    import errno
    import threading
    import time as _t
    try:
        os.unlink(fifo_path)
    except OSError:
        pass
    os.mkfifo(fifo_path)
    p = subprocess.Popen([sfs_path(release)] + list(argv), stdin=subprocess.PIPE, stdout=subprocess.PIPE, stderr=subprocess.PIPE, env=ENV)

    def feed():
        fd = None
        t0 = _t.time()
        while p.poll() is None and _t.time() - t0 < timeout:
            try:
                fd = os.open(fifo_path, os.O_WRONLY | os.O_NONBLOCK)
                break
            except OSError as e:
                if e.errno != errno.ENXIO:
                    return
                _t.sleep(0.01)
        if fd is None:
            return
        try:
            os.set_blocking(fd, True)
            view = memoryview(fifo_data)
            while len(view):
                view = view[os.write(fd, view[:65536]):]
        except OSError:
            pass
        finally:
            os.close(fd)
    th = threading.Thread(target=feed)
    th.start()
    try:
        so, se = p.communicate(stdin_data, timeout=timeout)
        rc = p.returncode
    except subprocess.TimeoutExpired:
        p.kill()
        so, se = p.communicate()
        rc = -999
    th.join(timeout=5)
    try:
        os.unlink(fifo_path)
    except OSError:
        pass
    return rc, so, se


def invocation_variants(rep, cls, jobs, rng, n=12):
    """The way a command is invoked is no part of its result: for a sample of (argv, stdin) jobs, the same command with the
    input given as a path instead of on stdin, with the output sent to a file (-o, where the subcommand has it), with
    -q / -v / -vv, and with its option groups in reverse order must produce the bytes of the reference run (and its exit
    status). Failures are reported under class `cls`."""
    jobs = [j for j in jobs if j[1]]
    jobs = rng.sample(jobs, min(n, len(jobs)))
    d = os.path.join(WORK, "variants_%s" % rep.pid)
    shutil.rmtree(d, ignore_errors=True)
    os.makedirs(d, exist_ok=True)
    ref = run_cli_many(jobs)
    allj, meta = [], []
    for k, ((argv, data), r) in enumerate(zip(jobs, ref)):
        sub, opts = argv[0], list(argv[1:])
        inp = os.path.join(d, "in_%d" % k)
        open(inp, "wb").write(data)
        # option groups: an option with its value(s) up to the next option
        groups, cur = [], []
        for a in opts:
            if a.startswith("-") and not re.fullmatch(r"-?\d+(,-?\d+)*", a) and cur:
                groups.append(cur); cur = []
            cur.append(a)
        if cur:
            groups.append(cur)
        rev = [x for g in reversed(groups) for x in g]
        # list-valued options given as repeated occurrences instead of one comma list (-m 0,2 = -m 0 -m 2)
        rep_opts = []
        for g in groups:
            if len(g) == 2 and "," in g[1] and g[0] not in ("-d", "--delimiter"):
                rep_opts += [x for v in g[1].split(",") for x in (g[0], v)]
            else:
                rep_opts += g
        variants = [("list options repeated", [sub] + rep_opts, data, None)] if rep_opts != opts else []
        variants += [("input by path", [sub] + opts + [inp], b"", None), ("-q", [sub, "-q"] + opts, data, None), ("-v", [sub, "-v"] + opts, data, None),
                     ("-vv", [sub, "-vv"] + opts, data, None), ("--debug (what it prints belongs on stderr)", ["--debug", sub] + opts, data, None), ("options reversed", [sub] + rev, data, None), ("path first, options after", [sub, inp] + rev, b"", None)]
        # the name of the input file is no part of the input: the same bytes under names that suggest another format
        for ext in rng.sample(["npy", "txt", "sfs", "vcf", "bcf", "vcf.gz", "gz", "NPY"], 3):
            mis = os.path.join(d, "mis_%d.%s" % (k, ext))
            open(mis, "wb").write(data)
            variants.append(("input by path named *.%s" % ext, [sub] + opts + [mis], b"", None))
        if sub in ("view", "fold") and "-o" not in opts and "--output" not in opts:
            outp = os.path.join(d, "out_%d" % k)
            variants.append(("-o file", [sub] + opts + ["-o", outp], data, outp))
            variants.append(("-o file, input by path", [sub, "--output", outp + "b"] + opts + [inp], b"", outp + "b"))
            # ... onto a path that already holds something longer (an earlier, larger output): it must be replaced
            open(outp + "c", "wb").write(b"#SHAPE=<3>\n" + b"9 " * 60000 + b"\n")
            variants.append(("-o onto an existing longer file", [sub] + opts + ["-o", outp + "c"], data, outp + "c"))
            # ... and onto the INPUT file itself (converting / folding a spectrum in place): the input is read in full before
            # the output is created, so this must give the same bytes, by either spelling and argument order
            io1, io2 = os.path.join(d, "inplace_%d" % k), os.path.join(d, "inplace_%db" % k)
            open(io1, "wb").write(data); open(io2, "wb").write(data)
            variants.append(("-o onto the input file itself", [sub] + opts + ["-o", io1, io1], b"", io1))
            variants.append(("--output onto the input file itself, path first", [sub, io2] + rev + ["--output", io2], b"", io2))
        for name, av, din, outfile in variants:
            allj.append((av, din)); meta.append((k, name, outfile))
    # the ENVIRONMENT is no part of the command either: logging, colour, locale and terminal variables set to values other
    # programs react to must change neither stdout nor the exit status nor what is said on stderr
    envs = [{"RUST_LOG": "error"}, {"RUST_LOG": "off"}, {"RUST_LOG": "trace"}, {"RUST_LOG": "sfs=warn"}, {"NO_COLOR": "1", "TERM": "dumb"}, {"CLICOLOR_FORCE": "1", "TERM": "xterm-256color"},
            {"LANG": "de_DE.UTF-8", "LC_ALL": "de_DE.UTF-8", "LC_NUMERIC": "de_DE.UTF-8"}, {"RUST_LOG_STYLE": "always"}, {"COLUMNS": "20"}, {"HOME": "/nonexistent", "TMPDIR": "/nonexistent"}]
    env_jobs, env_meta = [], []
    for k, ((argv, data), r) in enumerate(zip(jobs, ref)):
        for e_ in rng.sample(envs, 4):
            env_jobs.append((list(argv), data, None, e_)); env_meta.append((k, e_))
    for (k, e_), (rc, so, se) in zip(env_meta, run_cli_many(env_jobs)):
        rrc, rso, rse = ref[k]
        rep.count("invocation-variants", "environment %s: %s" % (e_, " ".join(jobs[k][0])[:160]), True)
        plain = lambda b_: re.sub(rb"\x1b\[[0-9;]*m", b"", b_)          # colour is presentation, not content
        if (rc, so, plain(se)) != (rrc, rso, plain(rse)):
            rep.fail(kind="property-oracle", cls=cls, case="environment %s: %s" % (e_, " ".join(jobs[k][0])[:300]), argv=["sfs"] + list(jobs[k][0]), env=e_,
                     stdin_hex=jobs[k][1].hex()[:200000], observed={"rc": rc, "stdout": so[:300].decode(errors="replace"), "stderr": se.decode(errors="replace")[-300:]},
                     expected={"rc": rrc, "stdout": rso[:300].decode(errors="replace"), "stderr": rse.decode(errors="replace")[-300:]},
                     detail="the same command with these environment variables set gives a different result (stdout, exit status or diagnostics)")
    res = run_cli_many(allj)
    # the input as a path that is not a regular file: /dev/stdin, and a named pipe
    for k, ((argv, data), r) in enumerate(zip(jobs, ref)):
        sub, opts = argv[0], list(argv[1:])
        allj.append(([sub] + opts + ["/dev/stdin"], data)); meta.append((k, "input as /dev/stdin", None))
        res.append(run_cli_many([allj[-1]])[0])
        if k % 2 == 0:
            fifo = os.path.join(d, "fifo_%d" % k)
            allj.append(([sub] + opts + [fifo], b"")); meta.append((k, "input through a named pipe", None))
            res.append(run_cli_fifo([sub] + opts + [fifo], fifo, data))
    for (av, din), (k, name, outfile), (rc, so, se) in zip(allj, meta, res):
        rrc, rso, _ = ref[k]
        rep.count("invocation-variants", "%s: %s" % (name, " ".join(jobs[k][0])[:200]), True)
        got = so
        if outfile is not None and rc == 0:
            try:
                got = open(outfile, "rb").read()
            except OSError:
                got = b"<no output file>"
            if so != b"":
                got = b"<stdout not empty with -o> " + so[:100]
        if is_panic(rc, se) or (rc == 0) != (rrc == 0) or (rrc == 0 and got != rso):
            rep.fail(kind="property-oracle", cls=cls, case="%s: %s" % (name, " ".join(jobs[k][0])[:300]), argv=["sfs"] + av,
                     stdin_hex=jobs[k][1].hex()[:200000], observed={"rc": rc, "output": got[:300].decode(errors="replace"), "stderr": se.decode(errors="replace")[-200:]},
                     expected={"rc": rrc, "stdout": rso[:300].decode(errors="replace"), "reference": " ".join(jobs[k][0])[:200]},
                     detail="the same command invoked as '%s' gives a different result than the reference invocation (input on stdin, output on stdout)" % name)


def is_panic(rc, stderr):
    return rc == 101 or rc < 0 or b"panicked at" in stderr


def parse_text_spectrum(out):
    """parse `#SHAPE=<a/b>\\nv v v\\n` -> (shape, [token...]) or None"""
    try:
        s = out.decode()
        lines = s.split("\n")
        m = re.fullmatch(r"#SHAPE=<([0-9/]+)>", lines[0])
        if not m or len(lines) < 2:
            return None
        return [int(x) for x in m.group(1).split("/")], lines[1].split(" ") if lines[1] != "" else []
    except Exception:
        return None


def text_spectrum(shape, values):
    return ("#SHAPE=<%s>\n%s\n" % ("/".join(map(str, shape)), " ".join(values))).encode()


def frac_to_dec(tok):
    """decimal token of a text spectrum -> Fraction / 'nan' / 'inf' / '-inf'"""
    t = tok.strip()
    if t.lower() == "nan":
        return "nan"
    if t.lower() in ("inf", "-inf"):
        return t.lower()
    return Fraction(t)
