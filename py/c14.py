"""C14 - invariances of the statistics: metamorphic relations evaluated on the real binary (stat after view -m / fold /
transposition / scaling / overwriting the monomorphic entries), beside the theorems of Properties/C14.v."""
import itertools
import math
import random
import sys
from fractions import Fraction

from common import standard_main, run_cli_many, parse_text_spectrum, text_spectrum, is_panic
from statutil import STATS, DIMS, fmt, run_stats, close

RULE = ("random positive spectra of the admissible dimensionality with UNEQUAL axis lengths (1-D 4..40; 2-D 3..7 x 3..7 and "
        "3x3; 3-D, 4-D lengths 3..5): f3/f4 vs the documented combinations of f2 of the two-population marginals (`view -m` "
        "then `stat`); every statistic named by the property before and after `fold --fill zero`; with the two monomorphic "
        "entries overwritten by arbitrary values; after swapping the two populations (transposed text); after scaling by "
        "c in {0.5, 3, 1000, 2^-20 (total below one)}. All values from `sfs stat --precision 15`, compared within 1e-9 relative. non-trivial = "
        "statistic value non-zero; monomorphic entries overwritten by values of 1e17 .. 1e300; swap invariance for spectra with an axis of length 1 or 2 (undefined stays undefined)")

FOLD_INV = ["pi", "theta", "s", "d-tajima", "pi-xy", "f2", "f3", "f4", "fst", "king", "r0", "r1"]
MONO_FREE = [s for s in STATS if s not in ("sum", "f2", "f3", "f4")]
SWAP_INV = ["f2", "fst", "pi-xy", "king", "r0", "r1"]
DEG0 = ["f2", "f3", "f4", "fst", "king", "r0", "r1"]
DEG1 = ["sum", "s", "pi", "pi-xy", "theta"]


def rand_shape(st, rng):
    d = DIMS[st]
    if st in ("king", "r0", "r1"):
        return [3, 3]
    if d == 1 or d is None:
        return [rng.randrange(4, 41)]
    lens = rng.sample(range(3, 8), d) if d <= 4 else None
    return lens if d == 2 else [rng.randrange(3, 6) for _ in range(d)]


def elements(sh):
    n = 1
    for x in sh:
        n *= x
    return n


def transpose(sh, data):
    a, b = sh
    return [b, a], [data[i * b + j] for j in range(b) for i in range(a)]


def check(rep, tier, seed):
    rng = random.Random(seed)
    reps = 3 if tier == "quick" else 25
    base = []            # (stat, shape, data)
    for st in STATS:
        for _ in range(reps):
            sh = rand_shape(st, rng)
            base.append((st, sh, [rng.randrange(1, 500) for _ in range(elements(sh))]))
    ref = run_stats(base)
    refv = {}
    for (st, sh, data), (rc, v, se, so) in zip(base, ref):
        if rc != 0 or v is None:
            rep.fail(kind="property-oracle", cls="inv:reference-failed:" + st, case="stat %s %s %s" % (st, fmt(sh), fmt(data)),
                     observed={"rc": rc, "stderr": se.decode(errors="replace")[-200:]}, expected="a value", detail="statistic failed on an admissible spectrum")
        refv[(st, tuple(sh), tuple(data))] = v

    def compare(kind, cases, expect):
        res = run_stats(cases)
        for (st, sh, data), (rc, v, se, so), (want, origin) in zip(cases, res, expect):
            rep.count("inv:" + kind, "%s %s on %s" % (kind, st, fmt(origin[1])), want not in (None, 0.0))
            if want is None:
                continue
            if isinstance(want, float) and (math.isnan(want) or math.isinf(want)):
                # the statistic is undefined on the original spectrum (e.g. Tajima's D with 3 chromosomes: zero variance):
                # nothing to compare; counted
                rep.coverage["undefined_reference_values_skipped"] = rep.coverage.get("undefined_reference_values_skipped", 0) + 1
                continue
            if rc != 0 or v is None or not close(v, want):
                rep.fail(kind="property-oracle", cls="inv:%s:%s" % (kind, st), case="stat %s %s %s" % (origin[0], fmt(origin[1]), fmt(origin[2])),
                         argv=["sfs", "stat", "-s", st, "--precision", "15"], stdin=text_spectrum(sh, list(map(str, data))).decode(),
                         observed={"rc": rc, "value": v}, expected=want,
                         detail="%s changed by '%s' (value on the original spectrum: see expected; transformed input in stdin)" % (st, kind))

    # fold --fill zero (through the binary)
    fcases = [(st, sh, data) for st, sh, data in base if st in FOLD_INV]
    folded = run_cli_many([(["fold", "--fill", "zero", "--precision", "9"], text_spectrum(sh, list(map(str, data)))) for st, sh, data in fcases])
    cases, expect = [], []
    for (st, sh, data), (rc, so, se) in zip(fcases, folded):
        p = parse_text_spectrum(so)
        if rc != 0 or p is None:
            rep.fail(kind="property-oracle", cls="inv:fold-failed", case=fmt(sh), observed=se.decode()[:200], expected="folded spectrum", detail="fold failed")
            continue
        cases.append((st, p[0], p[1])); expect.append((refv[(st, tuple(sh), tuple(data))], (st, sh, data)))
    compare("fold-zero", cases, expect)
    # monomorphic entries overwritten
    cases, expect = [], []
    for st, sh, data in base:
        if st in MONO_FREE:
            d2 = list(data); d2[0] = rng.randrange(0, 10000); d2[-1] = rng.randrange(0, 10000)
            cases.append((st, sh, d2)); expect.append((refv[(st, tuple(sh), tuple(data))], (st, sh, data)))
    compare("monomorphic-overwritten", cases, expect)
    # ... by values many orders of magnitude above everything else (a genome's worth of invariant sites against a few
    # hundred variable ones): they must not enter the computation at all - adding them in and subtracting them again
    # would swamp the polymorphic entries
    cases, expect = [], []
    for st, sh, data in base:
        if st in MONO_FREE:
            for first, last in (("1e17", "4"), ("5", "3e17"), ("2.5e300", "1e299")):
                d2 = list(map(str, data)); d2[0] = first; d2[-1] = last
                cases.append((st, sh, d2)); expect.append((refv[(st, tuple(sh), tuple(data))], (st, sh, data)))
    compare("monomorphic-huge", cases, expect)
    # ... and by values that are no numbers at all (a masked or unknown monomorphic cell: inf, NaN): the statistics that never
    # read those cells cannot notice. Fst is left out: the binary computes it on the spectrum divided by its total, which
    # is not a number then (f2/f3/f4 and sum read the cells anyway)
    cases, expect = [], []
    for st, sh, data in base:
        if st in MONO_FREE and st != "fst":
            for first, last in (("inf", None), (None, "inf"), ("nan", None), (None, "nan"), ("inf", "inf"), ("-inf", "nan")):
                d2 = list(map(str, data))
                if first is not None:
                    d2[0] = first
                if last is not None:
                    d2[-1] = last
                cases.append((st, sh, d2)); expect.append((refv[(st, tuple(sh), tuple(data))], (st, sh, data)))
    compare("monomorphic-nonfinite", cases, expect)
    # swap populations
    cases, expect = [], []
    for st, sh, data in base:
        if st in SWAP_INV:
            sh2, d2 = transpose(sh, data)
            cases.append((st, sh2, d2)); expect.append((refv[(st, tuple(sh), tuple(data))], (st, sh, data)))
    compare("swap-populations", cases, expect)
    # ... also where a population is a single chromosome (axis of length 2) or empty (length 1): a statistic that is undefined
    # there (NaN) is undefined in both orientations, one that is defined has the same value
    small = []
    for st in ("f2", "fst", "pi-xy"):
        for sh in ([2, 5], [2, 4], [3, 2], [2, 2], [1, 4], [2, 3], [6, 2]):
            small.append((st, sh, [rng.randrange(1, 60) for _ in range(elements(sh))]))
    sres = run_stats(small + [(st, ) + transpose(sh, data) for st, sh, data in small])
    for k, (st, sh, data) in enumerate(small):
        (rc1, v1, se1, so1), (rc2, v2, se2, so2) = sres[k], sres[len(small) + k]
        rep.count("inv:swap-populations-degenerate", "%s on %s" % (st, fmt(sh)), v1 is not None and v1 == v1)
        same = (rc1 == 0) == (rc2 == 0) and ((v1 is None and v2 is None) or (v1 is not None and v2 is not None and ((v1 != v1 and v2 != v2) or close(v1, v2) or v1 == v2)))
        if not same:
            rep.fail(kind="property-oracle", cls="inv:swap-populations:" + st, case="stat %s %s %s vs its transpose" % (st, fmt(sh), fmt(data)),
                     argv=["sfs", "stat", "-s", st, "--precision", "15"], stdin=text_spectrum(sh, list(map(str, data))).decode(),
                     observed={"as given": so1.decode(errors="replace").strip(), "populations swapped": so2.decode(errors="replace").strip()}, expected="the same value (or undefined in both orientations)",
                     detail="%s differs between a spectrum with a one-chromosome / empty population and the same spectrum with the populations swapped" % st)
    # scaling
    cases, expect = [], []
    for st, sh, data in base:
        for c in (Fraction(1, 2), 3, 1000, Fraction(1, 1048576), Fraction(1, 2**1040), Fraction(1, 2**1060)):
            if c < Fraction(1, 2**1000) and st not in DEG0:
                continue          # totals below 1/f64::MAX: the scale-free statistics must not notice; the others would be subnormal
            d2 = [repr(float(Fraction(x) * c)) if isinstance(c, Fraction) else str(x * c) for x in data]
            r = refv[(st, tuple(sh), tuple(data))]
            if st in DEG0:
                cases.append((st, sh, d2)); expect.append((r, (st, sh, data)))
            elif st in DEG1:
                cases.append((st, sh, d2)); expect.append((None if r is None else r * float(c), (st, sh, data)))
    compare("scale", cases, expect)
    # the same relations when the statistics are asked for TOGETHER in one invocation (scale-free and scale-dependent ones
    # side by side): every field must behave as it does alone
    mixed = {1: ["pi", "theta", "s", "sum", "d-tajima"], 2: ["f2", "fst", "pi-xy", "s", "sum"], 3: ["f3", "s", "sum"], 4: ["f4", "s", "sum"]}
    seen_sh = set()
    mj, mm = [], []
    for st, sh, data in base:
        if tuple(sh) in seen_sh or len(sh) not in mixed:
            continue
        seen_sh.add(tuple(sh))
        req = mixed[len(sh)][:]; rng.shuffle(req)
        for c in (1, 4, Fraction(1, 64)):
            d2 = [repr(float(Fraction(x) * c)) if isinstance(c, Fraction) else str(x * c) for x in data]
            mj.append((["stat", "-s", ",".join(req), "--precision", "15"], text_spectrum(sh, d2))); mm.append((req, sh, data, c))
    mres = run_cli_many(mj)
    for k in range(0, len(mj), 3):
        req, sh, data, _ = mm[k]
        rows = []
        for (rc, so, se) in mres[k:k + 3]:
            try:
                rows.append([float(x) for x in so.decode().strip().split(",")] if rc == 0 else None)
            except ValueError:
                rows.append(None)
        rep.count("inv:mixed-invocation", "stat -s %s on %s" % (",".join(req), fmt(sh)), True, n=3)
        if any(r is None or len(r) != len(req) for r in rows):
            continue      # a statistic undefined for this shape fails the whole invocation: covered by C06
        for j, stn in enumerate(req):
            single = refv.get((stn, tuple(sh), tuple(data)))
            for r, c in zip(rows, (1, 4, Fraction(1, 64))):
                # D statistics are neither scale-free nor homogeneous: compared at scale 1 only
                want = None if single is None else (single if (stn in DEG0 or c == 1) else (single * float(c) if stn in DEG1 else None))
                if want is None or (isinstance(want, float) and (math.isnan(want) or math.isinf(want))):
                    continue
                if not close(r[j], want):
                    rep.fail(kind="property-oracle", cls="inv:mixed-invocation:" + stn, case="stat -s %s, spectrum %s scaled by %s" % (",".join(req), fmt(sh), c),
                             argv=["sfs", "stat", "-s", ",".join(req), "--precision", "15"],
                             stdin=text_spectrum(sh, [repr(float(Fraction(x) * c)) if isinstance(c, Fraction) else str(x * c) for x in data]).decode(),
                             observed=r[j], expected=want, detail="%s asked for together with %s does not have the value / scaling behaviour it has alone" % (stn, ",".join(x for x in req if x != stn)))
    # f3 / f4 from f2 of marginals
    for st, nd, combos in (("f3", 3, [((2,), 1), ((1,), 1), ((0,), -1)]), ("f4", 4, [((1, 2), 1), ((0, 3), 1), ((1, 3), -1), ((0, 2), -1)])):
        items = [(sh, data) for s, sh, data in base if s == st]
        jobs = []
        for sh, data in items:
            for axes, sign in combos:
                jobs.append((["view", "-m", ",".join(map(str, axes)), "-O", "npy"], text_spectrum(sh, list(map(str, data)))))
        margs = run_cli_many(jobs)
        f2s = run_cli_many([(["stat", "-s", "f2", "--precision", "15"], m[1]) for m in margs])
        k = 0
        for sh, data in items:
            tot = 0.0
            okk = True
            for axes, sign in combos:
                rc, so, se = f2s[k]; k += 1
                try:
                    tot += sign * float(so.decode().strip())
                except ValueError:
                    okk = False
            want = refv[(st, tuple(sh), tuple(data))]
            rep.count("inv:%s-from-f2" % st, "%s %s" % (st, fmt(sh)), True)
            if not okk or want is None or not close(tot / 2, want):
                rep.fail(kind="property-oracle", cls="inv:%s-from-f2" % st, case="stat %s %s %s" % (st, fmt(sh), fmt(data)),
                         argv=["sfs", "stat", "-s", st, "--precision", "15"], stdin=text_spectrum(sh, list(map(str, data))).decode(),
                         observed=tot / 2 if okk else "f2 of a marginal failed", expected=want,
                         detail="%s differs from the documented linear combination of f2 values of its two-population marginals" % st)
    rep.assumptions += ["exact-arithmetic theorems (Properties/C14.v); on the binary the relations hold within 1e-9 relative (f64 rounding)"]


if __name__ == "__main__":
    sys.exit(standard_main("C14", check, sys.argv[1:], RULE, needs_cli=True))
