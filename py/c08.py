"""C08 - genotype -> allele-count classification: exhaustive GT alphabet through the in-memory path (the
classification function itself), the VCF text path and the BCF binary path of the real binary."""
import itertools
import random
import re
import sys

from common import compare_cases, standard_main, run_model, run_cli_many, parse_text_spectrum, is_panic
from callsets import render_vcf, vcf_to_bcf, model_records

RULE = ("every GT string over alleles {., 0,1,2,3,7,10} x separators {/,|} x ploidy 1..3 (exhaustive: 7 + 2*49 + 4*343 = "
        "1477 strings, plus the whole-field '.'): (a) classification function vs model; (b) each GT in a selected column of a "
        "one-record VCF run through `sfs create -vv` (stdout, exit status, per-sample trace reason) vs the model of the run; "
        "(c) the same GT in an unselected column must give the output of a run without it; (d) the same through BCF "
        "(noodles writer; strings noodles cannot encode are counted as skipped). non-trivial = GT is not the reference 0/0")

ALLELES = [".", "0", "1", "2", "3", "7", "10"]


def all_gts():
    gts = ["."]
    for pl in (1, 2, 3):
        for alleles in itertools.product(ALLELES, repeat=pl):
            seps = list(itertools.product("/|", repeat=pl - 1))
            for sp in seps:
                s = alleles[0]
                for a, b in zip(sp, alleles[1:]):
                    s += a + b
                gts.append(s)
    return list(dict.fromkeys(gts))


def check(rep, tier, seed):
    rng = random.Random(seed)
    gts = all_gts()
    rep.coverage["exhaustive"] = True
    rep.coverage["gt_strings"] = len(gts)
    compare_cases(rep, "classify-function", ["classify %s" % g for g in gts], nontrivial=lambda c, m: "0/0" not in c,
                  classify=lambda c, m, i: "classify:" + m.split()[0], spec=True, both_builds=(tier == "thorough"))

    # interaction of the classes within one record: every triple over {called, het, missing, multiallelic, haploid,
    # triploid} in three selected columns (a non-diploid genotype must fail the record wherever it stands, whatever the
    # other columns hold), with and without projection, strict and not, in memory and through the binary
    alpha = ["0/0", "0/1", "./.", "1/2", "0", "0/1/1"]
    triples = list(itertools.product(alpha, repeat=3))
    tcases = []
    for t3 in triples:
        for proj in ("-", "s:3", "s:7"):
            tcases.append("sites a,b,c ALL %s %s;0/1,0/1,0/1" % (proj, ",".join(t3)))
        tcases.append("sites a,b,c a:A,c:B - %s" % ",".join(t3))
    from fractions import Fraction
    compare_cases(rep, "record-class-interaction", tcases, tol=Fraction(1, 10**9), nontrivial=lambda c, m: " E" in m,
                  classify=lambda c, m, i: "classify:interaction", spec=True)
    ijobs, icases = [], []
    for t3 in (triples if tier == "thorough" else rng.sample(triples, 70)):
        for extra, flag in (([], "0"), (["--strict"], "1")):
            ijobs.append((["create"] + extra, render_vcf(["a", "b", "c"], [list(t3), ["0/1", "0/1", "0/1"]])))
            icases.append("create %s a,b,c ALL - %s;0/1,0/1,0/1" % (flag, ",".join(t3)))
    for job, (rc, so, se), exp, mc in zip(ijobs, run_cli_many(ijobs), run_model(icases), icases):
        rep.count("record-class-interaction-cli", mc, "err=genotype" in exp)
        stderr = se.decode(errors="replace")
        if exp.startswith("OK"):
            e = exp.split(); parsed = parse_text_spectrum(so)
            good = rc == 0 and parsed is not None and parsed[1] == e[2].split(",")
        else:
            m = re.search(r"err=(\w+)@(\S+)", exp)
            good = rc != 0 and so == b"" and not is_panic(rc, se) and (m is None or ("'%s'" % m.group(2)) in stderr) and \
                (m is None or m.group(1) != "genotype" or "genotype" in stderr)
        if not good:
            rep.fail(kind="cli-vs-model", cls="classify-cli:interaction", case=mc, argv=["sfs"] + job[0], stdin=job[1].decode(),
                     observed={"rc": rc, "stdout": so.decode(errors="replace")[:200], "stderr": stderr[-300:]}, expected=exp,
                     detail="a record mixing classes in its selected columns: the run differs from the model (a non-diploid genotype must fail the run naming the record)")

    # (b),(c),(d): through the binary. one record, columns s1 (the GT under test), s2 = 0/1
    sel = gts if tier == "thorough" else [g for g in gts if g.count("/") + g.count("|") <= 1] + rng.sample(gts, 150)
    sel = list(dict.fromkeys(sel))
    jobs, metas = [], []
    for g in sel:
        vcf = render_vcf(["s1", "s2"], [[g, "0/1"]])
        jobs.append((["create", "-vv"], vcf)); metas.append(("vcf-selected", g))
        jobs.append((["create", "-vv", "-s", "s2"], vcf)); metas.append(("vcf-unselected", g))
    # BCF: noodles' BCF *writer* mis-encodes records that mix ploidies (end-of-vector padding is emitted after every
    # allele), so the second sample is given the ploidy of the GT under test and is left unselected; the
    # unselected-column variant is run for diploid GTs only (other ploidies: VCF path and in-memory path).
    bcf_sel = sel if tier == "thorough" else rng.sample(sel, min(len(sel), 160))
    nobcf = 0
    pad = {1: "0", 2: "0/1", 3: "0/1/1"}
    bcf_expect_cases = {}
    for k, g in enumerate(bcf_sel):
        ploidy = 1 + g.count("/") + g.count("|")
        vcf = render_vcf(["s1", "s2"], [[g, pad[ploidy]]])
        b = vcf_to_bcf(vcf, "c08_%d" % k, "raw")
        if b is None:
            nobcf += 1
            continue
        jobs.append((["create", "-vv", "-s", "s1"], b)); metas.append(("bcf-selected", g))
        bcf_expect_cases[g] = "create 0 s1,s2 s1:- - %s" % model_records([[g, pad[ploidy]]])
        if ploidy == 2:
            jobs.append((["create", "-vv", "-s", "s2"], b)); metas.append(("bcf-unselected", g))
    rep.coverage["bcf_not_encodable_by_noodles"] = nobcf
    res = run_cli_many(jobs)
    exp_sel = dict(zip(sel, run_model(["create 0 s1,s2 ALL - %s" % model_records([[g, "0/1"]]) for g in sel])))
    exp_uns = run_model(["create 0 s1,s2 s2:- - 0/0,0/1"])[0]
    bkeys = list(bcf_expect_cases)
    exp_bcf = dict(zip(bkeys, run_model([bcf_expect_cases[g] for g in bkeys])))
    cls = dict(zip(sel, run_model(["classify %s" % g for g in sel])))
    for (kind, g), job, (rc, so, se) in zip(metas, jobs, res):
        case = "%s GT=%s" % (kind, g)
        rep.count(kind, case, g != "0/0")
        exp = exp_uns if kind.endswith("unselected") else (exp_bcf[g] if kind == "bcf-selected" else exp_sel[g])
        parsed = parse_text_spectrum(so)
        stderr = se.decode(errors="replace")
        ok = True
        why = ""
        if is_panic(rc, se):
            ok, why = False, "panic"
        elif exp.startswith("OK"):
            e = exp.split()
            if rc != 0 or parsed is None or parsed[0] != [int(x) for x in e[1].split(",")] or parsed[1] != e[2].split(","):
                ok, why = False, "spectrum differs"
            if ok and not kind.endswith("unselected"):
                want = {"missing": "missing", "multiallelic": "multiallelic"}.get(cls[g].split()[0])
                m = re.search(r"Skipping sample 's1' at site 'chr1:1'. Reason: '(\w+)'", stderr)
                if (want is None) != (m is None) or (m and m.group(1) != want):
                    ok, why = False, "trace reason %s, expected %s" % (m.group(1) if m else None, want)
        else:
            if rc == 0 or so != b"" or "chr1:1" not in stderr:
                ok, why = False, "expected failure naming chr1:1 with empty stdout"
        if not ok:
            rep.fail(kind="cli-vs-model", cls="classify-cli:%s:%s" % (kind, cls[g].split()[0]), case=case,
                     argv=["sfs"] + job[0], stdin_hex=job[1].hex() if kind.startswith("bcf") else None,
                     stdin=None if kind.startswith("bcf") else job[1].decode(),
                     observed={"rc": rc, "stdout": so.decode(errors="replace")[:300], "stderr": stderr[-500:]},
                     expected=exp, detail="sfs create on a one-record call set: " + why)
    rep.assumptions += ["a whole GT field '.' is the VCF missing value (decoded as None by noodles): classified Missing",
                        "noodles decodes the GT text/BCF encoding; the classification from decoded alleles onward is modelled"]


if __name__ == "__main__":
    sys.exit(standard_main("C08", check, sys.argv[1:], RULE, needs_cli=True))
