"""C08 - genotype -> allele-count classification: exhaustive GT alphabet through the in-memory path (the
classification function itself), the VCF text path and the BCF binary path of the real binary."""
import itertools
import random
import re
import sys

from common import compare_cases, standard_main, run_model, run_impl, run_cli_many, parse_text_spectrum, is_panic
from callsets import render_vcf, vcf_to_bcf, model_records, bcf_encode_hts, gt_vector, bgzf_compress

RULE = ("every GT string over alleles {., 0,1,2,3,7,10} x separators {/,|} x ploidy 1..3 (exhaustive: 7 + 2*49 + 4*343 = "
        "1477 strings, plus the whole-field '.'): (a) classification function vs model; (b) each GT in a selected column of a "
        "one-record VCF run through `sfs create -vv` (stdout, exit status, per-sample trace reason) vs the model of the run; "
        "(c) the same GT in an unselected column must give the output of a run without it; (d) the same through BCF "
        "(noodles writer; strings noodles cannot encode are counted as skipped). non-trivial = GT is not the reference 0/0; two populations with one projected to no individuals (shape 1) x every class triple; diagnostics for records on contigs the header does not declare; diagnostics on contigs named chrY, Y, MT, chrM, chrMT")

ALLELES = [".", "0", "1", "2", "3", "7", "10"]
WIDE = ["256", "257", "65537", "4294967296", "4294967297"]      # indices that wrap to 0 / 1 in u8, u16, u32


def all_gts():
    gts = ["."]
    for pl in (1, 2, 3):
        for alleles in itertools.product(ALLELES, repeat=pl):
            seps = list(itertools.product("/|", repeat=pl - 1))
            for sp in seps:
                s = alleles[0]
                for a, b in zip(sp, alleles[1:]):
                    s += a + b
                gts.append(s)
    return list(dict.fromkeys(gts))


def container_family(rep, tier, rng, gts):
    """the decoding step in front of the classification: every GT as the text of a VCF sample (alone and next to other
    FORMAT values) and as the int8 vector of a BCF record laid out as htslib does (padded to the widest genotype of the
    record), read by the real readers (`genos`), against the model of the two decoders (Container.v); the two containers
    must classify alike; raw int8 vectors outside htslib's layout and malformed GT texts against the model."""
    ploidy = lambda g: 1 + g.count("/") + g.count("|")
    impl_lines, model_lines, labels = [], [], []

    def add(kind, gts_rows, container, fields_rows, label):
        impl_lines.append("genos " + container.hex())
        model_lines.append("genosm %s %s" % (kind, ";".join(",".join(f.hex() for f in row) for row in fields_rows)))
        labels.append(label)

    valid = [g for g in gts]
    rows = []
    # rows of three columns: the GT under test, a diploid call, another GT of the alphabet (mixed ploidy within a record)
    for g in valid:
        rows.append([g, "0/1", rng.choice(valid)])
    rows += [[".", ".", "."], ["0", "1", "."], [".", "0/1/1", "1"], ["./.", ".", "1|1"]]
    for bi in range(0, len(rows), 6):
        chunk = rows[bi:bi + 6]
        vcf = render_vcf(["a", "b", "c"], chunk)
        add("vcf", chunk, vcf, [[g.encode() for g in r] for r in chunk], "vcf GT-only " + ";".join(",".join(r) for r in chunk))
        vcf2 = render_vcf(["a", "b", "c"], chunk, extra_fields=True, dot_fields=True, missing_extra=(bi % 12 == 0))
        add("vcf", chunk, vcf2, [[g.encode() for g in r] for r in chunk], "vcf GT:DP:GQ " + ";".join(",".join(r) for r in chunk))
        # the same container against the model of the WHOLE sample (FORMAT keys, all values of each sample as written)
        body = [l.split("\t") for l in vcf2.decode().split("\n") if l and not l.startswith("#")]
        impl_lines.append("genos " + vcf2.hex())
        model_lines.append("genosv " + ";".join("%s:%s" % (f[8].encode().hex(), ",".join(x.encode().hex() for x in f[9:])) for f in body))
        labels.append("vcf-whole-sample GT:DP:GQ " + ";".join(",".join(r) for r in chunk))
        vecs = [[gt_vector(g, max(ploidy(x) for x in r)) for g in r] for r in chunk]
        for nm, v in (("bcf(htslib layout)", vcf), ("bcf(htslib layout, GT:DP:GQ)", vcf2)):
            b = bcf_encode_hts(v)
            add("bcf", chunk, b, vecs, nm + " " + ";".join(",".join(r) for r in chunk))
            if bi % 60 == 0:
                add("bcf", chunk, bgzf_compress(b), vecs, "bgzf " + nm + " " + ";".join(",".join(r) for r in chunk))
    # malformed / unusual GT texts, one record each (a record error ends the stream)
    # allele indices around the widths of narrower integer types: must be multiallelic like any index >= 2
    wide = ["255", "256", "257", "511", "512", "513", "65535", "65536", "65537", "4294967295", "4294967296", "4294967297", "18446744073709551614"]
    wrows = [[w + "/0", "0/1", "1|" + w] for w in wide] + [[w + "/" + w, "0/1", "./" + w] for w in wide] + [["0/" + w, "0/1", w + "|1"] for w in wide]
    for bi in range(0, len(wrows), 6):
        chunk = wrows[bi:bi + 6]
        vcfw = render_vcf(["a", "b", "c"], chunk)
        add("vcf", chunk, vcfw, [[g.encode() for g in r] for r in chunk], "vcf wide-allele-indices " + ";".join(",".join(r) for r in chunk))
    nvalid = len(impl_lines)
    odd = ["|0/1", "/0|1", "+1/0", "00/1", "0//1", "/", "0/", "|", "a/b", "-1/0", "0/1/", "01", "1/+0", "./+1", "..", "./..", "0/.1",
           "18446744073709551615/0", "18446744073709551616/0", "0|18446744073709551616", "99999999999999999999", "0 /1", "0/x", "|.", "/1", "|1/1"]
    # every GT text of exactly three bytes over digits, the missing value and the separators (a shortcut for "short" genotypes
    # must still see that `100` is one allele, not 1/0 with something in between), and multi-digit indices in every position
    import itertools as _it
    odd += [t for t in ("".join(x) for x in _it.product("0129./|", repeat=3)) if t not in odd]
    odd += ["10", "11", "100", "101", "110", "111", "120", "200", "1000", "0100", "100/1", "1/100", "10/10", "10|1", "1|10", "100|100", "1/0/0", "10/0/1", "1.0", "1/0.", "1//", "//1"]
    odd = list(dict.fromkeys(odd))
    for t in odd:
        vcf = render_vcf(["a", "b"], [[t, "0/1"], ["0/0", "1/1"]])
        add("vcf", None, vcf, [[t.encode(), b"0/1"], [b"0/0", b"1/1"]], "vcf odd GT text %r" % t)
    # whole samples of unusual form: values dropped from the end, too many values, empty values, no GT key, GT not first
    hdr_fmt = [("GT:DP:GQ", ["0/1", "0/1:5", "0/1:5:6", "0/1:5:6:7", "0/1::6", ":5:6", "0/1:5:", ".:.:.", ".", "./.:.", "1|1:.:."]),
               ("GT", ["0/1", "0/1:", ".", "1/1:3"]), ("DP:GT", ["5:0/1"]), ("GT:DP:GT", ["0/1:5:1/1"]), ("GT:GQ:DP", ["0/1:3:4", "0/1:3"])]
    for fmtk, samples in hdr_fmt:
        for smp in samples:
            other = ":".join(["0/0"] + ["7"] * (len(fmtk.split(":")) - 1)) if fmtk.startswith("GT") else ":".join(["7"] * (len(fmtk.split(":")) - 1) + ["0/0"])
            line = "chr1\t1\t.\tA\tC\t.\t.\t.\t%s\t%s\t%s" % (fmtk, smp, other)
            vcf = render_vcf(["a", "b"], [["0/0", "0/0"], ["0/0", "1/1"]], raw_lines={0: line})
            impl_lines.append("genos " + vcf.hex())
            model_lines.append("genosv %s:%s,%s;%s:%s,%s" % (fmtk.encode().hex(), smp.encode().hex(), other.encode().hex(), b"GT".hex(), b"0/0".hex(), b"1/1".hex()))
            labels.append("vcf-whole-sample odd FORMAT %s sample %r" % (fmtk, smp))
    # raw int8 vectors (not only htslib's): missing (0x80) and end-of-vector (0x81) anywhere, negative values, phased bits
    alphabet = [0, 1, 2, 3, 4, 5, 6, 7, 0x10, 0x7E, 0x7F, 0x80, 0x81, 0xFF, 0xFE]
    import itertools as it
    vectors = [bytes(v) for w in (1, 2) for v in it.product(alphabet, repeat=w)]
    vectors += [bytes(rng.choice(alphabet) for _ in range(3)) for _ in range(150 if tier == "quick" else 1500)]
    base = render_vcf(["a", "b"], [["0/1", "0/1"], ["0/0", "1/1"]])
    for v in vectors:
        other = bytes([2, 4] + [0x81] * (len(v) - 2))[:max(len(v), 1)] if len(v) >= 2 else bytes([2])
        b = bcf_encode_hts(base, gt_override={0: [v, other]})
        add("bcf", None, b, [[v, other], [gt_vector("0/0", 2), gt_vector("1/1", 2)]], "bcf raw GT vector %s" % v.hex())
    mo = run_model(model_lines)
    im = run_impl(impl_lines)
    for k, (lab, m, i) in enumerate(zip(labels, mo, im)):
        rep.count("container-decoding:" + lab.split()[0], lab, True)
        if m != i:
            rep.fail(kind="model-impl-disagreement", cls="container:" + lab.split()[0] + (":odd" if k >= nvalid else ""), case=impl_lines[k][:100000], model_case=model_lines[k],
                     expected=m, observed=i, detail="the genotype readers (VCF text / BCF vector -> classification) differ from the model on: " + lab[:300])
    # the same genotypes must classify alike from both containers (theorem record_container_independent, at run time)
    by = {}
    for lab, i in zip(labels[:nvalid], im[:nvalid]):
        by.setdefault(lab.rsplit(" ", 1)[-1], []).append((lab, i))      # the chunk of genotypes is the last word of the label
    for key, obs in by.items():
        if len(set(o for _, o in obs)) > 1:
            rep.fail(kind="property-oracle", cls="container:vcf-vs-bcf", case=key, observed={l[:60]: o for l, o in obs},
                     expected="one classification for all containers", detail="the same genotypes classified differently depending on the container")
    rep.coverage["container_cases"] = len(impl_lines)


def check(rep, tier, seed):
    rng = random.Random(seed)
    gts = all_gts()
    rep.coverage["exhaustive"] = True
    rep.coverage["gt_strings"] = len(gts)
    gts_f = gts + [a + sp + b for a in WIDE + ["0", "1"] for b in WIDE + ["0", "1"] for sp in "/|" if a in WIDE or b in WIDE]
    compare_cases(rep, "classify-function", ["classify %s" % g for g in gts_f], nontrivial=lambda c, m: "0/0" not in c,
                  classify=lambda c, m, i: "classify:" + m.split()[0], spec=True, both_builds=(tier == "thorough"))

    container_family(rep, tier, rng, gts)

    # interaction of the classes within one record: every triple over {called, het, missing, multiallelic, haploid,
    # triploid} in three selected columns (a non-diploid genotype must fail the record wherever it stands, whatever the
    # other columns hold), with and without projection, strict and not, in memory and through the binary
    alpha = ["0/0", "0/1", "./.", "1/2", "0", "0/1/1"]
    triples = list(itertools.product(alpha, repeat=3))
    tcases = []
    for t3 in triples:
        for proj in ("-", "s:3", "s:7"):
            tcases.append("sites a,b,c ALL %s %s;0/1,0/1,0/1" % (proj, ",".join(t3)))
        tcases.append("sites a,b,c a:A,c:B - %s" % ",".join(t3))
        # two populations, one of them projected down to NO individuals (shape 1) or to one: a non-diploid genotype in it is
        # an error all the same, a missing one leaves the population without enough data
        for proj in ("i:1,0", "i:0,1", "s:1,1", "s:3,1", "i:0,0"):
            tcases.append("sites a,b,c a:A,b:A,c:B %s %s;0/1,0/1,0/1" % (proj, ",".join(t3)))
    from fractions import Fraction
    compare_cases(rep, "record-class-interaction", tcases, tol=Fraction(1, 10**9), nontrivial=lambda c, m: " E" in m,
                  classify=lambda c, m, i: "classify:interaction", spec=True)
    ijobs, icases = [], []
    for t3 in (triples if tier == "thorough" else rng.sample(triples, 70)):
        for extra, flag in (([], "0"), (["--strict"], "1")):
            ijobs.append((["create"] + extra, render_vcf(["a", "b", "c"], [list(t3), ["0/1", "0/1", "0/1"]])))
            icases.append("create %s a,b,c ALL - %s;0/1,0/1,0/1" % (flag, ",".join(t3)))
    for job, (rc, so, se), exp, mc in zip(ijobs, run_cli_many(ijobs), run_model(icases), icases):
        rep.count("record-class-interaction-cli", mc, "err=genotype" in exp)
        stderr = se.decode(errors="replace")
        if exp.startswith("OK"):
            e = exp.split(); parsed = parse_text_spectrum(so)
            good = rc == 0 and parsed is not None and parsed[1] == e[2].split(",")
        else:
            m = re.search(r"err=(\w+)@(\S+)", exp)
            good = rc != 0 and so == b"" and not is_panic(rc, se) and (m is None or ("'%s'" % m.group(2)) in stderr) and \
                (m is None or m.group(1) != "genotype" or "genotype" in stderr)
        if not good:
            rep.fail(kind="cli-vs-model", cls="classify-cli:interaction", case=mc, argv=["sfs"] + job[0], stdin=job[1].decode(),
                     observed={"rc": rc, "stdout": so.decode(errors="replace")[:200], "stderr": stderr[-300:]}, expected=exp,
                     detail="a record mixing classes in its selected columns: the run differs from the model (a non-diploid genotype must fail the run naming the record)")

    # (b),(c),(d): through the binary. one record, columns s1 (the GT under test), s2 = 0/1
    sel = gts if tier == "thorough" else [g for g in gts if g.count("/") + g.count("|") <= 1] + rng.sample(gts, 150)
    sel = list(dict.fromkeys(sel))
    jobs, metas = [], []
    for g in sel:
        vcf = render_vcf(["s1", "s2"], [[g, "0/1"]])
        jobs.append((["create", "-vv"], vcf)); metas.append(("vcf-selected", g))
        jobs.append((["create", "-vv", "-s", "s2"], vcf)); metas.append(("vcf-unselected", g))
    # BCF: noodles' BCF *writer* mis-encodes records that mix ploidies (end-of-vector padding is emitted after every
    # allele), so the second sample is given the ploidy of the GT under test and is left unselected; the
    # unselected-column variant is run for diploid GTs only (other ploidies: VCF path and in-memory path).
    bcf_sel = sel if tier == "thorough" else rng.sample(sel, min(len(sel), 160))
    nobcf = 0
    pad = {1: "0", 2: "0/1", 3: "0/1/1"}
    bcf_expect_cases = {}
    for k, g in enumerate(bcf_sel):
        ploidy = 1 + g.count("/") + g.count("|")
        vcf = render_vcf(["s1", "s2"], [[g, pad[ploidy]]])
        b = vcf_to_bcf(vcf, "c08_%d" % k, "raw")
        if b is None:
            nobcf += 1
            continue
        jobs.append((["create", "-vv", "-s", "s1"], b)); metas.append(("bcf-selected", g))
        bcf_expect_cases[g] = "create 0 s1,s2 s1:- - %s" % model_records([[g, pad[ploidy]]])
        if ploidy == 2:
            jobs.append((["create", "-vv", "-s", "s2"], b)); metas.append(("bcf-unselected", g))
    rep.coverage["bcf_not_encodable_by_noodles"] = nobcf
    res = run_cli_many(jobs)
    exp_sel = dict(zip(sel, run_model(["create 0 s1,s2 ALL - %s" % model_records([[g, "0/1"]]) for g in sel])))
    exp_uns = run_model(["create 0 s1,s2 s2:- - 0/0,0/1"])[0]
    bkeys = list(bcf_expect_cases)
    exp_bcf = dict(zip(bkeys, run_model([bcf_expect_cases[g] for g in bkeys])))
    cls = dict(zip(sel, run_model(["classify %s" % g for g in sel])))
    for (kind, g), job, (rc, so, se) in zip(metas, jobs, res):
        case = "%s GT=%s" % (kind, g)
        rep.count(kind, case, g != "0/0")
        exp = exp_uns if kind.endswith("unselected") else (exp_bcf[g] if kind == "bcf-selected" else exp_sel[g])
        parsed = parse_text_spectrum(so)
        stderr = se.decode(errors="replace")
        ok = True
        why = ""
        if is_panic(rc, se):
            ok, why = False, "panic"
        elif exp.startswith("OK"):
            e = exp.split()
            if rc != 0 or parsed is None or parsed[0] != [int(x) for x in e[1].split(",")] or parsed[1] != e[2].split(","):
                ok, why = False, "spectrum differs"
            if ok and not kind.endswith("unselected"):
                want = {"missing": "missing", "multiallelic": "multiallelic"}.get(cls[g].split()[0])
                m = re.search(r"Skipping sample 's1' at site 'chr1:1'. Reason: '(\w+)'", stderr)
                if (want is None) != (m is None) or (m and m.group(1) != want):
                    ok, why = False, "trace reason %s, expected %s" % (m.group(1) if m else None, want)
        else:
            if rc == 0 or so != b"" or "chr1:1" not in stderr:
                ok, why = False, "expected failure naming chr1:1 with empty stdout"
        if not ok:
            rep.fail(kind="cli-vs-model", cls="classify-cli:%s:%s" % (kind, cls[g].split()[0]), case=case,
                     argv=["sfs"] + job[0], stdin_hex=job[1].hex() if kind.startswith("bcf") else None,
                     stdin=None if kind.startswith("bcf") else job[1].decode(),
                     observed={"rc": rc, "stdout": so.decode(errors="replace")[:300], "stderr": stderr[-500:]},
                     expected=exp, detail="sfs create on a one-record call set: " + why)
    # the error must NAME the site: a non-diploid genotype on the second of two contigs, at an unrelated position, in every
    # container (also a BCF whose contig dictionary numbers the contigs against their listing order, and minor version 1)
    djobs, dwant = [], []
    for g in ("0", "1", "0/1/1", "1|1|0"):
        # ... also on contigs the header does not declare (##contig lines are optional in VCF; BCF cannot express this)
        for (c1, c2, pbad) in (("chr1", "chr2", 7), ("chr2", "chr1", 123456), ("chr1", "chr1", 3), ("scaf_12", "scaf_12", 77), ("chr1", "scaf_9", 12), ("scaf_3", "chr2", 5),
                               # ... and on contigs whose NAME suggests another ploidy (sex chromosomes, mitochondrion): the name decides nothing
                               ("<sym1>", "<sym1>", 9), ("chr1", "<alt_ctg>", 4), ("chrY", "chrY", 7), ("chrX", "Y", 7), ("MT", "MT", 16000), ("chr1", "chrM", 3), ("chrMT", "chrMT", 1), ("X", "M", 2), ("chrW", "chrZ", 4)):
            recs_d = [["0/1", "0/0"], ["1/1", "0/1"], [g, "0/1"], ["0/0", "0/0"]]
            ctgs, poss = [c1, c1, c2, c2], [5, 9, pbad, pbad + 4]
            v = render_vcf(["s1", "s2"], recs_d, contigs=ctgs, positions=poss)
            forms_d = [("vcf", v), ("vcf.gz", bgzf_compress(v))]
            if bcf_encode_hts(v) is not None:
                forms_d += [("bcf", bcf_encode_hts(v)), ("bcf-idx-reversed", bcf_encode_hts(v, idx_reversed=True)), ("bcf-v2.1-bgzf", bgzf_compress(bcf_encode_hts(v, minor=1, idx_reversed=True)))]
            for name, data in forms_d:
                # a symbolic contig (<name>, allowed in VCF) may be named with or without its brackets
                djobs.append((["create"], data)); dwant.append((("'%s:%d'" % (c2, pbad), "'%s:%d'" % (c2.strip("<>"), pbad)), name, g))
                djobs.append((["create", "-s", "s2", "--strict"], data.replace(b"0/0\t0/0", b"0/0\t./.") if name == "vcf" else data)); dwant.append((None, name, g))
    for job, (want, name, g), (rc, so, se) in zip(djobs, dwant, run_cli_many(djobs)):
        if want is None:
            continue
        rep.count("diagnostic-names-site", "%s GT=%s at %s" % (name, g, want[0]), True)
        if rc == 0 or so != b"" or not any(w_.encode() in se for w_ in want) or is_panic(rc, se):
            rep.fail(kind="property-oracle", cls="classify-cli:diagnostic:" + name, case="GT %s at %s as %s" % (g, want[0], name), argv=["sfs", "create"],
                     stdin_hex=job[1].hex()[:20000], observed={"rc": rc, "stderr": se.decode(errors="replace")[-300:]}, expected="failure naming %s" % want[0],
                     detail="a non-diploid genotype in a selected sample must fail the run with an error naming the contig and position of the record")
    rep.assumptions += ["a whole GT field '.' is the VCF missing value (decoded as None by noodles): classified Missing",
                        "noodles decodes the GT text/BCF encoding; the classification from decoded alleles onward is modelled"]


if __name__ == "__main__":
    sys.exit(standard_main("C08", check, sys.argv[1:], RULE, needs_cli=True))
