"""helpers shared by the statistics checks"""
import math
import re
from fractions import Fraction

from common import run_cli_many, text_spectrum, is_panic

STATS = ["d-fu-li", "d-tajima", "f2", "f3", "f4", "fst", "king", "pi", "pi-xy", "r0", "r1", "s", "sum", "theta"]
DIMS = {"d-fu-li": 1, "d-tajima": 1, "f2": 2, "f3": 3, "f4": 4, "fst": 2, "king": 2, "pi": 1, "pi-xy": 2, "r0": 2, "r1": 2,
        "s": None, "sum": None, "theta": 1}


def fmt(l):
    return ",".join(map(str, l)) if l else "-"


def run_stats(cases, precision=15):
    """cases: list of (stat, shape, data tokens (decimal strings)); returns list of (rc, value(float)|None, stderr)"""
    jobs = [(["stat", "-s", s, "--precision", str(precision)], text_spectrum(sh, list(map(str, data)))) for s, sh, data in cases]
    out = []
    for (rc, so, se) in run_cli_many(jobs):
        v = None
        if rc == 0:
            t = so.decode().strip()
            try:
                v = float(t)
            except ValueError:
                v = None
        out.append((rc, v, se, so))
    return out


def model_value(line):
    """model `stat` output -> float | None (error) | 'undef' (zero/negative radicand)"""
    t = line.split()
    if t[0] == "ERR":
        return None
    if t[0] == "V":
        return Fraction(t[1])
    num, rad = Fraction(t[1]), Fraction(t[2])
    if rad <= 0:
        return "undef"
    return float(num) / math.sqrt(float(rad))


def close(a, b, tol=1e-9):
    a, b = float(a), float(b)
    if math.isnan(a) or math.isnan(b) or math.isinf(a) or math.isinf(b):
        return False
    return abs(a - b) <= tol * max(1.0, abs(a), abs(b)) + 1e-14
