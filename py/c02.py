"""C02 - create --project: the site reader's projected contributions and the real binary vs the proved model."""
import itertools
import random
import re
import sys
from fractions import Fraction

from common import compare_cases, standard_main, run_model, run_cli_many, parse_text_spectrum, is_panic, frac_to_dec
from callsets import render_vcf, model_records, model_samples, cli_samples_arg, model_project, cli_project_arg
from gen_create import random_callset, random_map, pop_sizes, random_projection, names

TOL = Fraction(1, 10**9)
RULE = ("(a) in-memory reader histories (per-record Site values: Standard counts / Projected weights / Insufficient) for "
        "every admissible target of <=3 populations of <=3 samples (quick: seeded slice) over records mixing complete, "
        "partially missing, multiallelic, all-missing sites - incl. the boundaries t_j = m_j for all/some j, t_j = m_j - 2, "
        "t_j = 0, m_j = 0 - compared with the exact model within 1e-9; (b) random call sets through `sfs create "
        "--project-shape/-p --precision p`: every printed value within 0.5*10^-p + 1e-9*records of the model, exit "
        "status, summary; cohorts of 100-300 samples; -p i vs --project-shape 2i+1 must print identical bytes; builder "
        "errors (dimension mismatch, too large, zero). non-trivial = at least one Projected site; cohorts of 520-640 samples include monomorphic, singleton, nearly fixed and fixed sites (boundary terms of the log-space kernel); weights below 2^-52 (28-30 samples projected to half, three populations) compared relatively (1e-9); 30-45 populations projected down to nine entries (the unprojected spectrum could not be allocated); cohorts of 515-530 in the band where C(t, m) has just overflowed (m0-1 .. m0+40)")


def scale_of(case):
    return Fraction(1)


def small_cases(rng, tier):
    cases = []
    gts = ["0/0", "0/1", "1/1", "./.", "1/2"]
    for n in (1, 2, 3):
        cols = names(n)
        for labels in itertools.product("AB", repeat=n):
            sm = list(zip(cols, labels))
            sizes = pop_sizes(sm)
            targets = list(itertools.product(*[range(0, 2 * s + 3) for s in sizes]))
            for to in targets:
                recs = [[rng.choice(gts) for _ in range(n)] for _ in range(6)]
                recs.append(["0/1"] * n); recs.append(["./."] * n)
                cases.append("sites %s %s s:%s %s" % (",".join(cols), model_samples(sm), ",".join(map(str, to)), model_records(recs)))
            # targets with fewer / more entries than there are populations (shape and individuals spelling)
            for to in ([list(t) for t in targets[:6]] if len(sizes) >= 1 else []):
                for bad in ([to[:-1], to[:1], to + [1], to + to] if len(to) > 1 else [to + [1], to + to]):
                    if bad and len(bad) != len(sizes):
                        recs = [["0/1"] * n, ["0/0"] * n]
                        cases.append("sites %s %s s:%s %s" % (",".join(cols), model_samples(sm), ",".join(map(str, bad)), model_records(recs)))
                        cases.append("sites %s %s i:%s %s" % (",".join(cols), model_samples(sm), ",".join(str(x // 2) for x in bad), model_records(recs)))
    for _ in range(150 if tier == "quick" else 1500):
        cols, recs = random_callset(rng, nsamples=rng.randrange(1, 8), nrecords=rng.randrange(1, 12), p_skip=0.3)
        sm = random_map(rng, cols)
        cases.append("sites %s %s %s %s" % (",".join(cols), model_samples(sm), model_project(random_projection(rng, pop_sizes(sm))), model_records(recs)))
    return cases


def check(rep, tier, seed):
    rng = random.Random(seed)
    compare_cases(rep, "sites-projected", small_cases(rng, tier), tol=TOL, scale_fn=scale_of,
                  nontrivial=lambda c, m: " P" in m, classify=lambda c, m, i: "create-project:site-reader", spec=True,
                  both_builds=(tier == "thorough"))
    # weights far below f64::EPSILON (balanced sites of 28-30 samples projected to half, several populations whose tail
    # probabilities multiply) are still the hypergeometric products: compared RELATIVELY, entry by entry (1e-9)
    from common import run_impl, parse_value
    tiny = []
    c30 = ["s%d" % i for i in range(30)]
    for a_hom in (14, 13, 15):
        rec = ["./."] * 2 + ["1/1"] * a_hom + ["0/0"] * (28 - a_hom)
        tiny.append("sites %s %s s:29 %s" % (",".join(c30), model_samples([(c, "A") for c in c30]), model_records([rec, ["0/1"] * 30])))
    sm3 = [(c, "ABC"[i // 10]) for i, c in enumerate(c30)]
    tiny.append("sites %s %s i:5,5,5 %s" % (",".join(c30), model_samples(sm3), model_records([(["1/1"] * 5 + ["0/0"] * 5) * 3, ["0/1"] * 30])))
    tiny.append("sites %s %s s:9,11,13 %s" % (",".join(c30), model_samples(sm3), model_records([(["1/1"] * 5 + ["0/0"] * 5) * 3])))
    tm, ti = run_model(tiny), run_impl(tiny)
    for c, m, i in zip(tiny, tm, ti):
        mt, it_ = m.split(), i.split()
        okk = len(mt) == len(it_) and len(mt) >= 2
        nz = 0
        if okk:
            for x, y in zip(mt, it_):
                if x[:1] == "P" and y[:1] == "P":
                    xs, ys = x[1:].split(","), y[1:].split(",")
                    okk = okk and len(xs) == len(ys)
                    for u, v in zip(xs, ys):
                        pu, pv = parse_value(u), parse_value(v)
                        if isinstance(pu, str) or isinstance(pv, str) or pu is None or pv is None or abs(pu - pv) > abs(pu) * Fraction(1, 10**9):
                            okk = False
                        elif 0 < pu < Fraction(1, 2**52):
                            nz += 1
                elif x != y:
                    okk = False
        rep.count("sites-tiny-weights", c[:200], nz > 0)
        if not okk:
            rep.fail(kind="model-impl-disagreement", cls="create-project:site-reader", case=c, expected=m[:2000], observed=i[:2000],
                     detail="projected weights differ from the exact hypergeometric products by more than 1e-9 RELATIVE (weights below 2^-52 included)", failing_input=True)
    jobs, mcases, precs = [], [], []
    for k in range(150 if tier == "quick" else 1500):
        big = (k % 50 == 0)
        cols, recs = random_callset(rng, nsamples=(rng.randrange(100, 301) if big else None),
                                    nrecords=(rng.randrange(3, 8) if big else None), p_skip=rng.choice([0.05, 0.3]))
        sm = random_map(rng, cols, max_pops=(2 if big else 4))
        proj = random_projection(rng, pop_sizes(sm))
        if big:   # keep the exact model affordable: small targets for huge cohorts
            proj = ("s", [rng.randrange(1, 8) for _ in pop_sizes(sm)])
        if k % 17 == 0:
            proj = ("s", [m + rng.choice([0, 50]) for m in proj[1]] if proj[0] == "s" else proj[1]) if rng.random() < 0.5 else ("s", proj[1] + [3])
        elif k % 17 == 1 and len(proj[1]) > 1:
            proj = (proj[0], proj[1][:-1])                     # one entry fewer than there are populations
        p = rng.choice([0, 3, 6, 6, 9])
        if k % 5 == 2 and len(sm) < len(cols):
            # columns that are not selected may hold anything (haploid, triploid, odd): they are no part of the result
            listed = {n_ for n_, _ in sm}
            recs = [[g if c in listed else rng.choice(["0", "1", "0/1/1", ".", "./.", "0/2", "1|2|3"]) for c, g in zip(cols, r)] for r in recs]
        jobs.append((["create", "--precision", str(p)] + cli_samples_arg(sm) + cli_project_arg(proj), render_vcf(cols, recs)))
        mcases.append("create 0 %s %s %s %s" % (",".join(cols), model_samples(sm), model_project(proj), model_records(recs)))
        precs.append((p, len(recs)))
    # dozens of populations projected down to a small spectrum: the spectrum that would hold every population in full could
    # never be allocated (3^40 entries), the projected one has nine - what is created is the projected one
    for npop in (30, 40, 45):
        cols = ["m%d" % i for i in range(npop + 3)]
        sm = [("m0", "q0"), ("m1", "q0"), ("m2", "q0"), ("m3", "q1"), ("m4", "q1")] + [("m%d" % (i + 3), "q%d" % i) for i in range(2, npop)]
        recs = [[rng.choice(["0/0", "0/1", "1/1", "0|1"]) for _ in cols] for _ in range(6)]
        recs[1][0] = "./."; recs[2][4] = "."; recs[3][7] = "./."; recs[4][1] = "0/2"
        for proj in (("s", [3, 3] + [1] * (npop - 2)), ("i", [1, 1] + [0] * (npop - 2)), ("s", [5, 1] + [1] * (npop - 3) + [3])):
            jobs.append((["create", "--precision", "9"] + cli_samples_arg(sm) + cli_project_arg(proj), render_vcf(cols, recs)))
            mcases.append("create 0 %s %s %s %s" % (",".join(cols), model_samples(sm), model_project(proj), model_records(recs)))
            precs.append((9, len(recs)))
    exps = run_model(mcases)
    res = run_cli_many(jobs)
    for job, (rc, so, se), exp, mc, (p, nrec) in zip(jobs, res, exps, mcases, precs):
        stderr = se.decode(errors="replace")
        rep.count("create-project-cli", mc[:300], exp.startswith("OK"))
        ok, why = True, ""
        if is_panic(rc, se):
            ok, why = False, "panic"
        elif exp.startswith("OK"):
            e = exp.split()
            parsed = parse_text_spectrum(so)
            if rc != 0 or parsed is None or parsed[0] != [int(x) for x in e[1].split(",")] or len(parsed[1]) != len(e[2].split(",")):
                ok, why = False, "shape/exit differs"
            else:
                bound = Fraction(1, 2 * 10**p) + TOL * max(1, nrec)
                for tok, x in zip(parsed[1], e[2].split(",")):
                    v = frac_to_dec(tok)
                    if isinstance(v, str) or abs(v - Fraction(x)) > bound:
                        ok, why = False, "value %s vs model %s (bound %s)" % (tok, float(Fraction(x)), float(bound))
                        break
                m = re.search(r"Skipped (\d+)/(\d+) sites", stderr)
                got = "%s/%s" % (m.group(1), m.group(2)) if m else "none"
                if ok and got != e[3].split("=")[1]:
                    ok, why = False, "summary %s, expected %s" % (got, e[3])
        else:
            if rc == 0 or so != b"":
                ok, why = False, "expected a failing run with empty stdout"
        if not ok:
            rep.fail(kind="cli-vs-model", cls="create-project-cli:" + why.split()[0], case=mc[:300], argv=["sfs"] + job[0], stdin=job[1].decode(),
                     observed={"rc": rc, "stdout": so.decode(errors="replace")[:400], "stderr": stderr[-400:]},
                     expected=exp[:600], detail="sfs create with projection vs the proved model: " + why)
    # cohorts of hundreds of samples with mid-range targets (where the binomials overflow f64 and the kernel switches to
    # log-space): the exact Coq model is too slow there (thousands of 300-digit binomials per record), so the expected
    # spectrum is computed here from the property's own formula with exact integer binomials (an oracle, not the model)
    from math import comb
    big_jobs, big_meta = [], []
    seam = [85, 86, 87, 171, 172] if tier == "quick" else [84, 85, 86, 87, 88, 170, 171, 172, 173]
    sizes_big = [rng.randrange(520, 640) for _ in range(2 if tier == "quick" else 8)]
    for k, n in enumerate(seam + sizes_big):
        cols = ["s%d" % i for i in range(n)]
        recs = []
        for _ in range(4):
            miss = rng.choice([0.0, 0.02, 0.3])
            recs.append([("./." if rng.random() < miss else rng.choice(["0/0", "0/1", "1/1", "0|1"])) for _ in cols])
        if n < 500:
            # around 2n = 170..174 chromosomes the factorial table ends and the ln-gamma branch starts: singletons,
            # doubletons and nearly fixed sites put 169..173 into the factorial arguments
            recs.append(["0/1"] + ["0/0"] * (n - 1)); recs.append(["1/1"] * (n - 1) + ["0/1"]); recs.append(["0/1", "./."] + ["0/0"] * (n - 2))
            recs.append(["1/1"] + ["0/0"] * (n - 1)); recs.append(["0/0"] * n); recs.append(["1/1"] * n)
            m = rng.choice([10, 20, 2 * n - 2, 2 * n - 1])
        else:
            # in the log-space branch, too, the boundary terms matter: monomorphic, singleton, doubleton, nearly fixed and
            # fixed sites put C(a, a), C(a, 0), C(t - a, t - a) into the kernel (all of them 1, i.e. ln = 0)
            recs.append(["0/1"] + ["0/0"] * (n - 1)); recs.append(["1/1"] * (n - 1) + ["0/1"]); recs.append(["1/1", "./."] + ["0/0"] * (n - 2))
            recs.append(["0/0"] * n); recs.append(["1/1"] * n); recs.append(["0/0"] * (n - 1) + ["./."])
            m = rng.choice([n, n + 1, 2 * n - 40, n // 2 * 2 + 1])
        big_jobs.append((["create", "--precision", "9", "--project-shape", str(m + 1)], render_vcf(cols, recs)))
        big_meta.append((n, m, recs))
    # the band where the DENOMINATOR C(t, m) has just left the range of a double while the numerators of the likely cells are
    # still finite (t about 1030-1060, m from the first overflowing target on): every weight still comes out right
    for n in ((516, 524) if tier == "quick" else (515, 516, 518, 520, 524, 530)):
        cols = ["s%d" % i for i in range(n)]
        recs = [[rng.choice(["0/0", "0/1", "1/1", "0|1"]) for _ in cols] for _ in range(2)] + [["0/1"] + ["0/0"] * (n - 1), ["0/0"] * n, ["1/1"] * (n // 3) + ["0/0"] * (n - n // 3)]
        m0 = next(mm for mm in range(1, n) if comb(2 * n, mm) > 2**1024)
        for m in ((m0, m0 + 3) if tier == "quick" else (m0 - 1, m0, m0 + 1, m0 + 3, m0 + 12, m0 + 40)):
            big_jobs.append((["create", "--precision", "9", "--project-shape", str(m + 1)], render_vcf(cols, recs)))
            big_meta.append((n, m, recs))
    for job, (rc, so, se), (n, m, recs) in zip(big_jobs, run_cli_many(big_jobs, timeout=600), big_meta):
        rep.count("create-project-large-cohort", "%d samples, %d records -> %d chromosomes" % (n, len(recs), m), True)
        expect = [Fraction(0)] * (m + 1)
        for r in recs:
            called = [g for g in r if "." not in g]
            t = 2 * len(called)
            a = sum(int(x) for g in called for x in g.replace("|", "/").split("/"))
            if t >= m:
                den = comb(t, m)
                for kk in range(m + 1):
                    expect[kk] += Fraction(comb(a, kk) * comb(t - a, m - kk), den)
        parsed = parse_text_spectrum(so)
        ok = rc == 0 and parsed is not None and parsed[0] == [m + 1] and len(parsed[1]) == m + 1
        if ok:
            for tok_, x in zip(parsed[1], expect):
                v = frac_to_dec(tok_)
                if isinstance(v, str) or abs(v - x) > Fraction(1, 2 * 10**9) + Fraction(4, 10**8):
                    ok = False
                    break
        if not ok:
            rep.fail(kind="property-oracle", cls="create-project:large-cohort", case="%d samples, %d records, --project-shape %d" % (n, len(recs), m + 1),
                     argv=["sfs"] + job[0], stdin=job[1].decode()[:200000], observed={"rc": rc, "stdout": so.decode(errors="replace")[:300]},
                     expected="sum over covered records of Hypergeom(k; t, a, %d), e.g. first entries %s" % (m, [float(x) for x in expect[:3]]),
                     detail="create --project on a cohort of hundreds of samples differs from the hypergeometric formula (exact integer oracle) by more than 4e-8")
    # sample names are opaque: a call set whose header names carry leading / trailing / inner blanks, selected by exactly those
    # names, gives the bytes of the same call set with plain names (inline list and samples file)
    import os as _os
    from common import WORK as _WORK
    from callsets import samples_file_bytes as _sfb
    nj = []
    for k in range(4 if tier == "quick" else 30):
        cols, recs = random_callset(rng, nsamples=5, nrecords=rng.randrange(3, 10), p_skip=0.2)
        odd = [" " + cols[0], cols[1] + " ", cols[2], cols[3][:1] + " " + cols[3][1:], "  " + cols[4] + "  "]
        sm_p = [(cols[0], "A"), (cols[1], "A"), (cols[3], "B"), (cols[4], "B")]
        sm_o = [(odd[0], "A"), (odd[1], "A"), (odd[3], "B"), (odd[4], "B")]
        pr_ = ("i", [rng.randrange(0, 3), rng.randrange(0, 3)])
        fp, fo = _os.path.join(_WORK, "c02_names_p_%d.txt" % k), _os.path.join(_WORK, "c02_names_o_%d.txt" % k)
        open(fp, "wb").write(_sfb(sm_p)); open(fo, "wb").write(_sfb(sm_o))
        nj += [(["create"] + cli_samples_arg(sm_p) + cli_project_arg(pr_), render_vcf(cols, recs)), (["create"] + cli_samples_arg(sm_o) + cli_project_arg(pr_), render_vcf(odd, recs)),
               (["create", "-S", fp] + cli_project_arg(pr_), render_vcf(cols, recs)), (["create", "-S", fo] + cli_project_arg(pr_), render_vcf(odd, recs))]
    nr = run_cli_many(nj)
    for i in range(0, len(nr), 4):
        rep.count("blank-padded-names", " ".join(nj[i + 1][0])[:200], True, n=3)
        for j_ in (1, 2, 3):
            if nr[i][0] != 0 or (nr[i + j_][0], nr[i + j_][1]) != (nr[i][0], nr[i][1]):
                rep.fail(kind="property-oracle", cls="create-project:sample-names", case=" ".join(nj[i + j_][0])[:300], argv=["sfs"] + nj[i + j_][0], stdin=nj[i + j_][1].decode(),
                         observed={"rc": nr[i + j_][0], "stdout": nr[i + j_][1].decode(errors="replace")[:300], "stderr": nr[i + j_][2].decode(errors="replace")[-200:]},
                         expected=nr[i][1].decode(errors="replace")[:300], detail="samples named with leading / trailing blanks (selected by exactly those names) give another result than the same call set with plain names")
                break
    # -p i  ==  --project-shape 2i+1 : identical bytes
    jj = []
    for k in range(40 if tier == "quick" else 300):
        cols, recs = random_callset(rng, nsamples=rng.randrange(1, 9), nrecords=rng.randrange(1, 15), p_skip=0.2)
        sm = random_map(rng, cols)
        ind = [rng.randrange(0, s + 1) for s in pop_sizes(sm)]
        vcf = render_vcf(cols, recs)
        jj.append((["create"] + cli_samples_arg(sm) + ["-p", ",".join(map(str, ind))], vcf))
        jj.append((["create"] + cli_samples_arg(sm) + ["--project-shape", ",".join(str(2 * i + 1) for i in ind)], vcf))
    rr = run_cli_many(jj)
    for i in range(0, len(rr), 2):
        rep.count("individuals-vs-shape", " ".join(jj[i][0]), True, n=2)
        if rr[i][0] != rr[i + 1][0] or rr[i][1] != rr[i + 1][1]:
            rep.fail(kind="property-oracle", cls="create-project:individuals-vs-shape", case=" ".join(jj[i][0]), argv=["sfs"] + jj[i][0],
                     stdin=jj[i][1].decode(), observed=rr[i][1].decode(errors="replace")[:300], expected=rr[i + 1][1].decode(errors="replace")[:300],
                     detail="--project-individuals i and --project-shape 2i+1 print different output")
    rep.assumptions += ["the f64 pmf kernel is compared with the exact rational pmf within 1e-9 (no theorem about exp/ln)",
                        "printed values: |printed - exact| <= 0.5*10^-p + 1e-9*records"]


if __name__ == "__main__":
    sys.exit(standard_main("C02", check, sys.argv[1:], RULE, needs_cli=True))
