"""One-off helper: builds Properties/Cxx.v from lemma statements in Proofs/*.v (statement text is copied, so the
property file pins the statement; the proof is `exact (@lemma)`)."""
import re, sys, os
ROOT = os.path.dirname(os.path.dirname(os.path.abspath(__file__)))
P = os.path.join(ROOT, "coq/theories/Proofs")

def statement(fname, lemma):
    src = open(os.path.join(P, fname + ".v")).read()
    m = re.search(r"(?:Theorem|Lemma)\s+%s(?![\w'])(.*?)\.\s*\nProof\." % re.escape(lemma), src, re.S)
    if not m:
        raise SystemExit("lemma %s not found in %s" % (lemma, fname))
    body = m.group(1).strip()
    # split binders from statement at the first top-level ':'
    depth = 0
    for i, ch in enumerate(body):
        if ch in "([{": depth += 1
        elif ch in ")]}": depth -= 1
        elif ch == ":" and depth == 0 and body[i:i+2] != ":=":
            binders, stmt = body[:i].strip(), body[i+1:].strip()
            break
    else:
        raise SystemExit("no colon in " + lemma)
    if "gunzip_prefix" in stmt and "gunzip_prefix" not in binders:
        binders = "(gunzip_prefix : bytes -> option bytes) " + binders     # Section variable of the Detect sections
    return ("forall %s,\n  %s" % (binders, stmt)) if binders.strip() else stmt

def emit(pid, header, imports, items, extra=""):
    out = [header, imports, "", "Close Scope Qc_scope. Close Scope Q_scope. Open Scope nat_scope.", ""]
    for name, fname, lemma, comment in items:
        out.append("(* %s *)" % comment)
        if fname in ("ContainerP", "SampleFieldP"):
            out.append("Open Scope N_scope.")
        out.append("Theorem %s_%s : %s." % (pid, name, statement(fname, lemma)))
        out.append("Proof. exact (@%s). Qed." % lemma)
        out.append("Print Assumptions %s_%s." % (pid, name))
        if fname in ("ContainerP", "SampleFieldP"):
            out.append("Close Scope N_scope.")
        out.append("")
    out.append(extra)
    open(os.path.join(ROOT, "coq/theories/Properties/%s.v" % pid), "w").write("\n".join(out))

IMP = "From Sfs Require Import Index ArrayM Scalar Spectrum Project Create SampleParse Npy Text Container IndexP ArrayP BinomP ProjectP CreateP CreateSpecP SampleParseP SampleParseGenP ContainerP SampleFieldP Frames FramesP.\nFrom Coq Require Import Permutation.\nClose Scope string_scope."

emit("C08", "(* Property C08 - genotype -> allele-count classification is total and exact. Statements + exact + Print Assumptions. *)", IMP, [
 ("called_iff", "CreateP", "classify_called_iff", "a diploid genotype contributes a+b exactly when both alleles are 0 or 1 (phasing is not even an input)"),
 ("multiallelic_iff", "CreateP", "classify_multiallelic_iff", "multiallelic exactly when some allele index is >= 2"),
 ("missing_iff", "CreateP", "classify_missing_iff", "missing exactly when the field or either allele is '.'"),
 ("ploidy_iff", "CreateP", "classify_ploidy_iff", "any other ploidy is an error value"),
 ("called_range", "CreateP", "classify_called_range", "called values are 0, 1 or 2"),
 ("ploidy_error_iff_selected", "CreateP", "site_steps_none_iff", "a record fails exactly when a selected column holds a non-diploid genotype"),
 ("ploidy_aborts_run", "CreateP", "ploidy_aborts_run", "a selected non-diploid genotype fails the whole run, naming contig and position; no spectrum"),
 ("unselected_irrelevant", "CreateP", "read_site_unselected_irrelevant", "genotypes (of any ploidy) in unselected columns never matter"),
 ("vcf_text_path", "ContainerP", "vcf_field_render", "VCF text path: the GT text of a sample decodes to exactly its alleles (noodles' GT parser written out), whatever the separators"),
 ("vcf_missing_field", "ContainerP", "vcf_field_render_missing", "... and the missing value '.' is 'no genotype'"),
 ("bcf_binary_path", "ContainerP", "bcf_field_hts", "BCF binary path: the int8 vector htslib writes for a genotype (any padding width) decodes to exactly its alleles"),
 ("vcf_sample_gt_is_its_first_value", "SampleFieldP", "sample_gt_is_first_value", "VCF text path, whole sample: the genotype of a sample is its GT value, whatever other FORMAT values follow (present, missing or dropped)"),
 ("vcf_sample_other_values_irrelevant", "SampleFieldP", "sample_gt_ignores_other_values", "... so two samples with the same GT value have the same genotype"),
 ("vcf_sample_missing", "SampleFieldP", "sample_missing", "a sample that is '.' as a whole has no genotype"),
 ("vcf_sample_classification", "SampleFieldP", "sample_classification", "end to end: a genotype written into a sample next to any other values is classified by its alleles"),
 ("both_paths_classify_alike", "ContainerP", "gt_container_independent", "both paths give the classification of the alleles: the VCF text path and the BCF binary path agree on every genotype"),
 ("phasing_irrelevant", "ContainerP", "gt_phasing_irrelevant", "regardless of phasing, in both paths"),
 ("bcf_missing_field_was_ploidy_error", "ContainerP", "gt_container_v0_refuted", "refutation kept on record (F16): before the repair the missing field was a ploidy error in BCF and missing in VCF"),
 ("bcf_empty_vector_is_error", "ContainerP", "bcf_field_empty", "a BCF vector with no allele before the end-of-vector value is a record error"),
 ("bcf_negative_is_error", "ContainerP", "bcf_field_negative", "... and so is a negative int8 value"),
], extra="""(* totality and non-vacuity: every decoded GT falls in exactly one class; 0/2 is multiallelic *)
Example C08_examples :
  classify (Some [Some 0; Some 2]) = GMultiallelic /\\ classify (Some [Some 1; Some 1]) = GCalled 2 /\\
  classify (Some [None; Some 1]) = GMissing /\\ classify None = GMissing /\\
  classify (Some [Some 0]) = GPloidyErr /\\ classify (Some [Some 0; Some 1; Some 1]) = GPloidyErr.
Proof. repeat split; reflexivity. Qed.
""")

emit("C09", "(* Property C09 - axes follow first appearance of population labels; only listed samples count. *)", IMP, [
 ("labels_distinct_complete", "CreateSpecP", "labels_spec", "`labels l` lists each label of the sample list once"),
 ("labels_first_appearance", "CreateSpecP", "labels_first_appearance", "... in order of first appearance"),
 ("sample_order_kept", "CreateSpecP", "build_map_keys", "the sample map keeps the listed samples in list order"),
 ("population_id_is_label_position", "CreateSpecP", "build_map_ids", "population id (= axis) of a listed sample = position of its label among the distinct labels"),
 ("unlisted_not_selected", "CreateSpecP", "build_map_get_none", "samples that are not listed are not selected"),
 ("number_of_axes", "CreateSpecP", "number_of_populations_spec", "one axis per distinct label"),
 ("axis_lengths", "CreateSpecP", "map_shape_spec", "axis j has length 2 * (listed samples with the j-th label) + 1"),
 ("unnamed_is_one_population", "CreateSpecP", "from_all_one_population", "samples without a label form one population"),
 ("list_reorder_same_label_order", "CreateSpecP", "build_map_reorder", "reordering list entries while keeping the first-appearance order of labels changes nothing observable"),
 ("map_enters_by_lookup_only", "CreateP", "read_site_map_ext", "the per-record result depends on the map only through lookups by sample name"),
 ("column_order_free", "CreateSpecP", "read_site_column_perm", "reordering the sample columns of the input changes no per-record result"),
 ("samples_file_equals_inline", "SampleParseP", "file_equiv_inline", "--samples-file and --samples with the same content build the same sample map (names and labels free of the separators)"),
 ("inline_list_roundtrip", "SampleParseP", "parse_render_inline", "the inline syntax name=label,... denotes the list"),
 ("samples_file_roundtrip", "SampleParseP", "parse_render_file", "the file syntax name<TAB>label per line denotes the list"),
 ("samples_file_crlf", "SampleParseP", "parse_file_crlf", "Windows line ends are tolerated"),
 ("inline_list_roundtrip_labels_with_equals", "SampleParseGenP", "parse_render_inline_gen", "the inline entry is split at its FIRST '=': labels may contain '=' (anything but ',')"),
 ("samples_file_roundtrip_any_label", "SampleParseGenP", "parse_render_file_gen", "the file line is split at its FIRST tab: labels may contain spaces, '=', ',' and tabs"),
 ("samples_file_equals_inline_general", "SampleParseGenP", "file_equiv_inline_gen", "the two syntaxes build the same map whenever the content can be written in both"),
 ("empty_list_is_error", "CreateSpecP", "build_reader_empty", "an empty list is an error"),
 ("unknown_sample_is_error", "CreateSpecP", "build_reader_unknown", "a listed sample that is absent from the input is an error"),
], extra="""(* non-vacuity: b=B,a=A,c=B gives axes (B: 5, A: 3) *)
Example C09_example :
  map_shape (build_map [([98], Some [66]); ([97], Some [65]); ([99], Some [66])]) = Some [5; 3] /\\
  smap_get (build_map [([98], Some [66]); ([97], Some [65]); ([99], Some [66])]) [97] = Some 1.
Proof. split; reflexivity. Qed.
""")

emit("C11", "(* Property C11 - a site's contribution is independent of earlier sites (additive, order-free). *)", IMP, [
 ("read_site_state_free", "CreateP", "read_site_state_free", "the result for a record does not depend on the reader state left by earlier records (counts, totals, skipped list, projection buffer) - for ALL states of the right dimensions, not only reachable ones"),
 ("state_dims_preserved", "CreateP", "read_site_dims", "dimensions of the state are preserved"),
 ("run_from_any_state", "CreateP", "run_items_shift", "running from any state = running from the initial state plus the spectrum so far"),
 ("concatenation_is_sum", "CreateP", "create_app", "spectrum of a concatenation = element-wise sum of the spectra of the parts"),
 ("concatenation_error", "CreateP", "create_app_err", "a failing part makes the concatenation fail with the same error"),
 ("permutation_invariant", "CreateP", "create_perm", "any permutation of the records yields the same spectrum (exact arithmetic)"),
])

emit("C10", "(* Property C10 - every record is counted once or reported skipped; strict mode; no partial output. *)", IMP, [
 ("conservation", "CreateP", "run_conservation", "total mass + skipped = records read, each counted record has weight exactly one (Standard: +1; Projected: the weights sum to 1)"),
 ("projected_weights_sum_to_one", "ProjectP", "project_value_sum_one", "the weights a projectable site adds sum to one"),
 ("strict_success_same_output", "CreateP", "strict_ok_same", "a strict run that succeeds equals the non-strict run and skipped nothing"),
 ("nonstrict_without_skips_is_strict", "CreateP", "nonstrict_noskip_same", "conversely"),
 ("strict_fails_at_first", "CreateP", "strict_first", "strict mode fails at the FIRST record in input order that would be skipped, naming its contig and position"),
 ("no_partial_output", "CreateP", "no_partial_output", "a failing run has no spectrum"),
 ("summary_iff_skipped", "CreateP", "summary_iff_skipped", "the skipped-sites summary appears iff something was skipped, with the right counts"),
 ("ploidy_error_no_output", "CreateP", "ploidy_aborts_run", "ploidy error at any position: error names the record, no spectrum"),
 ("read_error_no_output", "CreateP", "ioerr_aborts_run", "a corrupt record at any position: error, no spectrum"),
 ("bcf_stream_cut_inside_a_record_is_corrupt", "FramesP", "read_frames_cut_inside", "the record framing of the (repaired) BCF reader: a stream cut anywhere but between two records is an error - it never reads as a shorter list of records"),
 ("bcf_stream_cut_between_records", "FramesP", "read_frames_cut_at_boundary", "... and cut between two records it is the records before the cut"),
])

emit("C01", "(* Property C01 - create counts every complete site once at its per-population ALT index. *)", IMP, [
 ("create_counts", "CreateSpecP", "create_counts", "entry k = number of records complete for every selected sample whose per-population ALT counts are k; incomplete records contribute nothing"),
 ("shape", "CreateSpecP", "map_shape_spec", "shape (2 n_1 + 1, ..., 2 n_d + 1)"),
 ("unselected_never_influence", "CreateP", "read_site_unselected_irrelevant", "samples that were not selected never influence the result (value and error status)"),
 ("mass_is_counted_records", "CreateP", "run_conservation", "values are counts: total = records - skipped"),
 ("genotype_is_the_gt_value_only", "SampleFieldP", "sample_gt_ignores_other_values", "extra FORMAT fields: a sample's genotype is its GT value; the other values of the sample (present, missing, dropped) never influence it"),
 ("genotype_of_a_rendered_sample", "SampleFieldP", "sample_classification", "... and it is classified by its alleles"),
])

emit("C02", "(* Property C02 - create --project: hypergeometric down-sampling of every covered site. *)", IMP, [
 ("create_project_spec", "CreateSpecP", "create_project_spec", "entry k = sum over covered records (t_j >= m_j for all j) of prod_j Hypergeom(k_j; t_j, a_j, m_j); uncovered records add nothing; the exact-coverage branch agrees with the formula"),
 ("iterator_enumerates_target", "ProjectP", "proj_iter_spec", "the per-site iterator visits the target index space in row-major order"),
 ("individuals_is_shape", "CreateSpecP", "build_reader_individuals", "--project-individuals i = --project-shape 2i+1"),
 ("weights_sum_to_one", "ProjectP", "project_value_sum_one", "each covered record has total weight one"),
])

IMP2 = "From Sfs Require Import Index ArrayM Scalar Spectrum Project Create Stat IndexP ArrayP MargP FoldP StatDefP StatInvP ViewP CreateP CreateSpecP CreateRelP."

emit("C06", "(* Property C06 - statistics equal their definitions on genotypes and the published estimators. *)", IMP2, [
 ("histogram_lemma", "StatDefP", "hist_sum", "the spectrum produced by create is the histogram of per-site count vectors (C01); a weighted sum over cells is a sum over sites"),
 ("pairs_differing", "StatDefP", "pairs_differing_count", "chromosome level: unordered pairs that differ = k (n - k)"),
 ("cross_differing", "StatDefP", "cross_differing_count", "between two populations: differing pairs = k1 (n2 - k2) + (n1 - k1) k2"),
 ("number_of_pairs", "StatDefP", "pairs_total", "C(n,2) pairs"),
 ("sum_is_number_of_sites", "StatDefP", "sum_eq", "sum = number of sites"),
 ("S_is_polymorphic_sites", "StatDefP", "S_eq", "S = number of polymorphic sites"),
 ("pi_is_mean_pairwise_difference", "StatDefP", "pi_eq", "pi = sum over sites of differing pairs / number of pairs"),
 ("pixy_is_between_population_difference", "StatDefP", "pixy_eq", "pi_xy = sum over sites of differing between-population pairs / (n1 n2)"),
 ("f2_is_site_average", "StatDefP", "f2_eq", "f2 as printed (normalised) = site average of (p1 - p2)^2"),
 ("f3_is_site_average", "StatDefP", "f3_eq", "f3 = site average of (p1 - p2)(p1 - p3)"),
 ("f4_is_site_average", "StatDefP", "f4_eq", "f4 = site average of (p1 - p2)(p3 - p4)"),
 ("fst_is_ratio_of_sums", "StatDefP", "fst_eq", "Hudson's Fst = ratio of summed per-site numerators and denominators"),
 ("king_r0_r1_are_genotype_pair_ratios", "StatDefP", "king_r0_r1_eq", "R0, R1, KING = ratios of two-individual genotype-pair counts"),
 ("created_spectrum_is_histogram", "CreateRelP", "create_is_hist", "the spectrum produced by create IS the histogram of the complete sites' per-population ALT counts (so every statement above about `hist` is a statement about create's output)"),
 ("harmonic_numbers", "StatDefP", "harmonic_is_a_n", "a_n = sum_{i<n} 1/i, b_n = sum_{i<n} 1/i^2"),
 ("S_formula", "StatDefP", "S_formula", "S = sum of the interior entries"),
 ("watterson", "StatDefP", "theta_w_formula", "Watterson (1975): theta_W = S / a_n"),
 ("tajima_pi", "StatDefP", "pi_formula", "Tajima (1983): pi = sum_i i (n - i) xi_i / C(n,2)"),
 ("tajima_d", "StatDefP", "tajima_d_formula", "Tajima (1989): D = (pi - S/a1) / sqrt(e1 S + e2 S (S - 1)), numerator and radicand"),
 ("fu_li_d", "StatDefP", "fu_li_d_formula", "Fu and Li (1993): D = (S - a_n xi_1) / sqrt(u_D S + v_D S^2), numerator and radicand"),
])

emit("C14", "(* Property C14 - statistics are invariant under the transformations that must not matter. *)", IMP2, [
 ("f3_from_f2", "StatInvP", "f3_as_f2", "f3(A;B,C) = (f2(AB) + f2(AC) - f2(BC)) / 2 on the two-population marginals"),
 ("f4_from_f2", "StatInvP", "f4_as_f2", "f4(A,B;C,D) = (f2(AD) + f2(BC) - f2(AC) - f2(BD)) / 2"),
 ("normalize_commutes_with_marginalize", "StatInvP", "normalize_sum_axis", "so the same holds for what `stat` prints"),
 ("f3_from_f2_as_printed", "StatInvP", "f3_as_f2_calc", "the identity at the level of Statistic::calculate"),
 ("fold_S", "StatInvP", "fold_S", "folding with fill 0 leaves S unchanged"),
 ("fold_pi", "StatInvP", "fold_pi", "... pi"),
 ("fold_theta", "StatInvP", "fold_theta", "... Watterson's theta"),
 ("fold_tajima_d", "StatInvP", "fold_d_tajima", "... Tajima's D (numerator and radicand)"),
 ("fold_pixy", "StatInvP", "fold_pixy", "... pi_xy"),
 ("fold_f2", "StatInvP", "fold_f2", "... f2"),
 ("fold_f3", "StatInvP", "fold_f3", "... f3"),
 ("fold_f4", "StatInvP", "fold_f4", "... f4"),
 ("fold_fst", "StatInvP", "fold_fst", "... Fst (numerator and denominator sums)"),
 ("fold_king_r0_r1", "StatInvP", "fold_king_r0_r1", "... KING, R0, R1"),
 ("fold_commutes_with_normalize", "StatInvP", "fold_normalize", "normalisation and folding commute"),
 ("monomorphic_S", "StatInvP", "mono_S", "the two monomorphic entries do not matter: S"),
 ("monomorphic_pi_theta_D", "StatInvP", "mono_pi_theta", "... pi, theta, D"),
 ("monomorphic_pixy", "StatInvP", "mono_pixy", "... pi_xy"),
 ("monomorphic_fst", "StatInvP", "mono_fst", "... Fst"),
 ("monomorphic_king_r0_r1", "StatInvP", "mono_king_r0_r1", "... KING, R0, R1"),
 ("swap_populations", "StatInvP", "transpose2_wf", "transposition = swapping the two populations"),
 ("swap_f2", "StatInvP", "swap_f2", "f2 is symmetric"),
 ("swap_fst", "StatInvP", "swap_fst", "Fst is symmetric"),
 ("swap_pixy", "StatInvP", "swap_pixy", "pi_xy is symmetric"),
 ("swap_king_r0_r1", "StatInvP", "swap_king_r0_r1", "KING, R0, R1 are symmetric"),
 ("scale_invariant", "StatInvP", "scale_degree0", "f2, f3, f4, Fst, KING, R0, R1 unchanged by a positive factor"),
 ("scale_linear", "StatInvP", "scale_degree1", "sum, S, pi, pi_xy, theta scale by the factor"),
])

emit("C13", "(* Property C13 - view = marginalize > project > mask > normalize, equal to chained single steps. *)", IMP2, [
 ("view_compose", "ViewP", "view_compose", "any combination of options = chaining the single-option invocations in the documented order"),
 ("view_identity", "ViewP", "view_identity", "no options: the input is reproduced"),
 ("mask_exact", "ViewP", "mask_exact", "--mask-monomorphic zeroes exactly the all-zero and all-maximum entries"),
 ("mask_shape", "ViewP", "mask_shape", "... and nothing else changes"),
 ("normalize_sum_one", "ViewP", "normalize_sum_one", "--normalize: entries sum to one"),
 ("normalize_ratios", "ViewP", "normalize_ratios", "... ratios preserved"),
 ("normalize_entry", "ViewP", "normalize_entry", "... every entry divided by the total"),
 ("marginalize_error_stops", "ViewP", "view_marg_error", "an error of a step is the error of the run"),
 ("keep_is_remove", "ViewP", "view_keep_is_remove", "--marginalize-keep = --marginalize-remove of the complement"),
])

IMP3 = "From Sfs Require Import Index Npy Text NpyP TextP NpySpellP TextLayoutP.\nClose Scope string_scope. Open Scope N_scope."

def emit_n(pid, header, items, extra=""):
    out = [header, IMP3, ""]
    for name, fname, lemma, comment in items:
        out.append("(* %s *)" % comment)
        out.append("Theorem %s_%s : %s." % (pid, name, statement(fname, lemma)))
        out.append("Proof. exact (@%s). Qed." % lemma)
        out.append("Print Assumptions %s_%s." % (pid, name))
        out.append("")
    out.append(extra)
    open(os.path.join(ROOT, "coq/theories/Properties/%s.v" % pid), "w").write("\n".join(out))

emit_n("C07", "(* Property C07 - spectrum files round-trip through text and npy; the tool reads what it writes.\n   Values are 64-bit patterns; the std float formatting/parsing functions are modelled by executable stand-ins\n   (print_fixed, parse_f64) that are compared with Rust on every run. *)", [
 ("npy_roundtrip", "NpyP", "npy_roundtrip", "npy: writing and reading back returns the same shape and bit-identical values (any 64-bit pattern: NaN payloads, infinities)"),
 ("auto_detect_npy", "TextP", "detect_write_npy", "what is written as npy is detected as npy"),
 ("auto_detect_text", "TextP", "detect_write_text", "what is written as text is detected as text"),
 ("read_back_npy", "TextP", "read_spectrum_npy", "the auto-detecting reader reads back the npy output"),
 ("text_shape_roundtrip", "TextP", "text_header_roundtrip", "text: the shape line round-trips"),
 ("text_roundtrip_structure", "TextP", "text_roundtrip_struct", "text: reading back yields the shape and, value by value, the parse of what was printed"),
 ("text_printed_digits", "TextP", "print_fixed_digits", "text: the printed digits of a finite value are those of round-half-even(value * 10^p)"),
 ("text_half_unit", "TextP", "scaled_half_unit", "... which differs from value * 10^p by at most one half: the printed decimal is within half a unit of the p-th decimal"),
 ("round_half_even", "TextP", "rne_div_bound", "the rounding used by both stand-ins is to nearest"),
 ("text_special_printed", "TextP", "print_fixed_special", "NaN and infinities are printed as NaN / inf / -inf"),
 ("text_special_parsed", "TextP", "parse_f64_special", "... and read back as NaN / inf / -inf"),
 ("printed_values_are_tokens", "TextP", "print_fixed_nonempty_no_ws", "printed values are non-empty ASCII tokens without whitespace"),
 ("text_tokens_any_layout", "TextLayoutP", "split_ws_layout", "text: the value tokens are found whatever non-empty runs of ASCII whitespace (spaces, tabs, line breaks, CR LF) separate, precede or follow them"),
 ("text_reader_layout_free", "TextLayoutP", "read_text_layout_free", "... so the reader returns for every layout what it returns for the one-line layout the writer produces"),
])

emit_n("C15", "(* Property C15 - npy output conforms to NPY 1.0; reader of the numpy dtypes. *)", [
 ("header_structure", "NpyP", "write_header_structure", "every shape: magic, version 1.0, little-endian u16 header length, dict, space padding, terminating newline; data starts at a multiple of 64"),
 ("file_layout", "NpyP", "write_npy_layout", "then prod(shape) little-endian doubles in C order"),
 ("dict_is_ascii", "NpyP", "fmt_dict_ascii", "the header dict is ASCII"),
 ("dict_parses_to_f8_C_order_shape", "NpyP", "parse_dict_fmt_dict", "the header dict is the Python literal {'descr': '<f8', 'fortran_order': False, 'shape': (...)}: the reader's grammar parses it to exactly that"),
 ("reader_accepts_any_descr_spelling", "NpySpellP", "parse_descr_entry", "reader: the descr entry in either quote style, any spacing around ':', byte order '<' '|' '>' and all ten dtypes"),
 ("reader_accepts_any_fortran_spelling", "NpySpellP", "parse_fortran_entry", "reader: the fortran_order entry likewise"),
 ("reader_accepts_any_shape_spelling", "NpySpellP", "parse_shape_entry", "reader: the shape tuple with any spacing, with or without trailing comma (numpy writes (n,) and (a, b))"),
 ("reader_accepts_any_key_order", "NpySpellP", "parse_dict_any_order", "reader: the three entries in any order, any spacing after '{' and before '}', optional trailing comma, anything after '}'"),
 ("reader_header_record_order_free", "NpySpellP", "dict_of_entries_perm", "... all six orders give the same header record"),
 ("le_words", "NpyP", "le_word_le_bytes", "little-endian words decode to themselves"),
 ("integers_exact_below_2_53", "NpyP", "f64_of_N_exact", "integer dtypes: values up to 2^53 are converted exactly"),
 ("fortran_order_rejected", "NpyP", "npy_fortran_rejected_fixed", "Fortran-ordered files are rejected"),
])

emit_n("C16", "(* Property C16 - damaged spectrum files are rejected, never read as a different spectrum. *)", [
 ("npy_prefix_rejected", "NpyP", "npy_prefix_rejected", "every strict prefix of a written npy file is rejected"),
 ("npy_extension_rejected", "NpyP", "npy_extension_rejected", "every written npy file with extra trailing bytes is rejected"),
 ("npy_count_must_match", "NpyP", "read_npy_count", "npy: accepted only when the number of values equals the product of the shape"),
 ("text_count_must_match", "TextP", "read_text_count", "text: likewise"),
 ("any_format_count_must_match", "TextP", "read_spectrum_count", "auto-detected input: likewise"),
 ("short_input_has_no_format", "TextP", "detect_short", "inputs shorter than the magic have no format (error, not a panic)"),
 ("text_tokens_counted_wherever_they_stand", "TextLayoutP", "read_text_token_count", "text: acceptance is decided by the number of tokens in the whole remainder of the file, on whichever lines they stand"),
 ("text_surplus_line_rejected", "TextLayoutP", "read_text_surplus_line_rejected", "... in particular a complete values line followed by one more token on a later line is rejected"),
])

def emit_s(pid, header, items, imports, extra=""):
    out = [header, imports, ""]
    for name, fname, lemma, comment in items:
        nscope = fname in ("DetectP", "StreamP", "NpyP", "TextP", "ContainerP")
        out.append("Close Scope string_scope. Open Scope N_scope." if nscope else "Close Scope N_scope. Open Scope nat_scope.")
        out.append("(* %s *)" % comment)
        out.append("Theorem %s_%s : %s." % (pid, name, statement(fname, lemma)))
        out.append("Proof. exact (@%s). Qed." % lemma)
        out.append("Print Assumptions %s_%s." % (pid, name))
        out.append("")
    out.append(extra)
    open(os.path.join(ROOT, "coq/theories/Properties/%s.v" % pid), "w").write("\n".join(out))

emit_s("C18", "(* Property C18 - results do not depend on how the byte stream is chunked; I/O errors surface (partial:\n   noodles' use of the stream between fill_buf calls is exercised, not modelled). *)", [
 ("read_exact_schedule_free", "StreamP", "read_exact_sched_free", "std's read_exact over a BufRead returns the same bytes for every chunk schedule"),
 ("read_exact_short_is_error", "StreamP", "read_exact_short", "... and an error when the stream ends early"),
 ("read_to_end_schedule_free", "StreamP", "read_to_end_sched_free", "read_to_end (spectrum files are read whole) likewise"),
 ("npy_values_schedule_free", "StreamP", "read_values_sched_free", "the value loop (fill_buf().is_empty() + read_exact) over any schedule = over the whole buffer"),
 ("npy_reader_schedule_free", "StreamP", "read_npy_sched_free", "the npy reader over any chunk schedule = the npy reader over the whole buffer"),
 ("read_failure_surfaces", "StreamP", "read_to_end_fault", "a source that fails before its end makes read_to_end fail"),
 ("read_exact_failure_surfaces", "StreamP", "read_exact_fault", "... and read_exact"),
 ("npy_read_failure_surfaces", "StreamP", "read_npy_fault", "... and the npy reader: never a result from partial data"),
 ("write_all_completes_short_writes", "StreamP", "write_all_sched_free", "a writer that accepts a few bytes per call receives all bytes, in order"),
 ("write_failure_surfaces", "StreamP", "write_all_fault", "a sink that fails before the end makes write_all fail"),
 ("npy_writer_schedule_free", "StreamP", "write_npy_sched_free", "the npy writer through any short-write schedule produces the same bytes"),
 ("npy_write_failure_surfaces", "StreamP", "write_npy_fault", "... and fails when the sink fails at any offset"),
 ("detection_schedule_free", "DetectP", "detect_sched_free", "compression/format detection of call-set streams (as repaired) sees the same prefix for every chunk schedule, including a first chunk of one byte"),
 ("first_chunk_detection_was_schedule_dependent", "StreamP", "detect_short_first_chunk_refuted", "refutation kept on record: detection from ONE fill_buf (the unrepaired code) depends on the first chunk"),
 ("bcf_records_read_back", "FramesP", "read_frames_frames_bytes", "the record framing of the (repaired) BCF reader: a stream of records is read back as those records"),
 ("bcf_partial_stream_is_error", "FramesP", "read_frames_cut_inside", "... and a stream that stops anywhere but between two records (the source failed or was cut short) is an error, never fewer records (F24)"),
 ("bcf_record_boundaries", "FramesP", "boundaries_spec", "the positions between records are the lengths of the streams of the first k records"),
], "From Sfs Require Import Index Npy Text Stream Frames NpyP StreamP DetectP FramesP.\nClose Scope string_scope. Open Scope N_scope.")

emit_s("C12", "(* Property C12 - output depends only on call data, not container, transport, threads or run (partial: the\n   decoding of VCF/BCF/BGZF by noodles, its worker threads and inflate are exercised, not modelled). What is proved:\n   container detection sees the same 64 KiB prefix for every way the transport chunks the stream and follows from the\n   magic numbers alone; the shape and population ids are functions of the sample list only (no hash-iteration order\n   enters: the model of population_sizes uses point lookups only, as the code does); the modelled pipeline takes the\n   decoded call set as its only input. *)", [
 ("detection_transport_free", "DetectP", "detect_sched_free", "container detection is independent of how the transport chunks the stream"),
 ("detection_bcf", "DetectP", "detect_bcf", "a stream starting with the BCF magic is BCF, for every chunking"),
 ("detection_plain", "DetectP", "detect_plain", "a stream starting with neither the gzip nor the BCF magic is VCF, for every chunking"),
 ("whole_stream_is_read_once", "StreamP", "read_to_end_sched_free", "reading to the end is chunking-independent"),
 ("shape_from_list_only", "CreateSpecP", "map_shape_spec", "the output shape is a function of the sample list (labels in first-appearance order, counts): nothing else, in particular no hash order"),
 ("ids_from_list_only", "CreateSpecP", "build_map_ids", "population ids likewise"),
 ("column_order_free", "CreateSpecP", "read_site_column_perm", "the order of sample columns in the container does not matter"),
 ("genotype_container_free", "ContainerP", "gt_container_independent", "a genotype is classified alike whether it arrives as VCF text or as the int8 vector htslib writes into a BCF record"),
 ("record_container_free", "ContainerP", "record_container_independent", "... for a whole record, every sample padded to the widest genotype of the record (mixed ploidy, missing fields)"),
 ("bcf_text_is_vcf_text", "ContainerP", "bcf_gt_string_hts", "the GT text noodles-bcf rebuilds from an htslib vector is the VCF spelling of the genotype"),
], "From Sfs Require Import Index ArrayM Scalar Spectrum Project Create Npy Text Container Stream IndexP ArrayP NpyP StreamP DetectP CreateP CreateSpecP ContainerP.\nFrom Coq Require Import Permutation.")
