"""One-off helper: builds Properties/Cxx.v from lemma statements in Proofs/*.v (statement text is copied, so the
property file pins the statement; the proof is `exact (@lemma)`)."""
import re, sys, os
ROOT = os.path.dirname(os.path.dirname(os.path.abspath(__file__)))
P = os.path.join(ROOT, "coq/theories/Proofs")

def statement(fname, lemma):
    src = open(os.path.join(P, fname + ".v")).read()
    m = re.search(r"(?:Theorem|Lemma)\s+%s\b(.*?)\.\s*\nProof\." % re.escape(lemma), src, re.S)
    if not m:
        raise SystemExit("lemma %s not found in %s" % (lemma, fname))
    body = m.group(1).strip()
    # split binders from statement at the first top-level ':'
    depth = 0
    for i, ch in enumerate(body):
        if ch in "([{": depth += 1
        elif ch in ")]}": depth -= 1
        elif ch == ":" and depth == 0 and body[i:i+2] != ":=":
            binders, stmt = body[:i].strip(), body[i+1:].strip()
            break
    else:
        raise SystemExit("no colon in " + lemma)
    return ("forall %s,\n  %s" % (binders, stmt)) if binders else stmt

def emit(pid, header, imports, items, extra=""):
    out = [header, imports, "", "Close Scope Qc_scope. Close Scope Q_scope. Open Scope nat_scope.", ""]
    for name, fname, lemma, comment in items:
        out.append("(* %s *)" % comment)
        out.append("Theorem %s_%s : %s." % (pid, name, statement(fname, lemma)))
        out.append("Proof. exact (@%s). Qed." % lemma)
        out.append("Print Assumptions %s_%s." % (pid, name))
        out.append("")
    out.append(extra)
    open(os.path.join(ROOT, "coq/theories/Properties/%s.v" % pid), "w").write("\n".join(out))

IMP = "From Sfs Require Import Index ArrayM Scalar Spectrum Project Create IndexP ArrayP BinomP ProjectP CreateP CreateSpecP.\nFrom Coq Require Import Permutation."

emit("C08", "(* Property C08 - genotype -> allele-count classification is total and exact. Statements + exact + Print Assumptions. *)", IMP, [
 ("called_iff", "CreateP", "classify_called_iff", "a diploid genotype contributes a+b exactly when both alleles are 0 or 1 (phasing is not even an input)"),
 ("multiallelic_iff", "CreateP", "classify_multiallelic_iff", "multiallelic exactly when some allele index is >= 2"),
 ("missing_iff", "CreateP", "classify_missing_iff", "missing exactly when the field or either allele is '.'"),
 ("ploidy_iff", "CreateP", "classify_ploidy_iff", "any other ploidy is an error value"),
 ("called_range", "CreateP", "classify_called_range", "called values are 0, 1 or 2"),
 ("ploidy_error_iff_selected", "CreateP", "site_steps_none_iff", "a record fails exactly when a selected column holds a non-diploid genotype"),
 ("ploidy_aborts_run", "CreateP", "ploidy_aborts_run", "a selected non-diploid genotype fails the whole run, naming contig and position; no spectrum"),
 ("unselected_irrelevant", "CreateP", "read_site_unselected_irrelevant", "genotypes (of any ploidy) in unselected columns never matter"),
], extra="""(* totality and non-vacuity: every decoded GT falls in exactly one class; 0/2 is multiallelic *)
Example C08_examples :
  classify (Some [Some 0; Some 2]) = GMultiallelic /\\ classify (Some [Some 1; Some 1]) = GCalled 2 /\\
  classify (Some [None; Some 1]) = GMissing /\\ classify None = GMissing /\\
  classify (Some [Some 0]) = GPloidyErr /\\ classify (Some [Some 0; Some 1; Some 1]) = GPloidyErr.
Proof. repeat split; reflexivity. Qed.
""")

emit("C09", "(* Property C09 - axes follow first appearance of population labels; only listed samples count. *)", IMP, [
 ("labels_distinct_complete", "CreateSpecP", "labels_spec", "`labels l` lists each label of the sample list once"),
 ("labels_first_appearance", "CreateSpecP", "labels_first_appearance", "... in order of first appearance"),
 ("sample_order_kept", "CreateSpecP", "build_map_keys", "the sample map keeps the listed samples in list order"),
 ("population_id_is_label_position", "CreateSpecP", "build_map_ids", "population id (= axis) of a listed sample = position of its label among the distinct labels"),
 ("unlisted_not_selected", "CreateSpecP", "build_map_get_none", "samples that are not listed are not selected"),
 ("number_of_axes", "CreateSpecP", "number_of_populations_spec", "one axis per distinct label"),
 ("axis_lengths", "CreateSpecP", "map_shape_spec", "axis j has length 2 * (listed samples with the j-th label) + 1"),
 ("unnamed_is_one_population", "CreateSpecP", "from_all_one_population", "samples without a label form one population"),
 ("list_reorder_same_label_order", "CreateSpecP", "build_map_reorder", "reordering list entries while keeping the first-appearance order of labels changes nothing observable"),
 ("map_enters_by_lookup_only", "CreateP", "read_site_map_ext", "the per-record result depends on the map only through lookups by sample name"),
 ("column_order_free", "CreateSpecP", "read_site_column_perm", "reordering the sample columns of the input changes no per-record result"),
 ("empty_list_is_error", "CreateSpecP", "build_reader_empty", "an empty list is an error"),
 ("unknown_sample_is_error", "CreateSpecP", "build_reader_unknown", "a listed sample that is absent from the input is an error"),
], extra="""(* non-vacuity: b=B,a=A,c=B gives axes (B: 5, A: 3) *)
Example C09_example :
  map_shape (build_map [([98], Some [66]); ([97], Some [65]); ([99], Some [66])]) = Some [5; 3] /\\
  smap_get (build_map [([98], Some [66]); ([97], Some [65]); ([99], Some [66])]) [97] = Some 1.
Proof. split; reflexivity. Qed.
""")

emit("C11", "(* Property C11 - a site's contribution is independent of earlier sites (additive, order-free). *)", IMP, [
 ("read_site_state_free", "CreateP", "read_site_state_free", "the result for a record does not depend on the reader state left by earlier records (counts, totals, skipped list, projection buffer) - for ALL states of the right dimensions, not only reachable ones"),
 ("state_dims_preserved", "CreateP", "read_site_dims", "dimensions of the state are preserved"),
 ("run_from_any_state", "CreateP", "run_items_shift", "running from any state = running from the initial state plus the spectrum so far"),
 ("concatenation_is_sum", "CreateP", "create_app", "spectrum of a concatenation = element-wise sum of the spectra of the parts"),
 ("concatenation_error", "CreateP", "create_app_err", "a failing part makes the concatenation fail with the same error"),
 ("permutation_invariant", "CreateP", "create_perm", "any permutation of the records yields the same spectrum (exact arithmetic)"),
])

emit("C10", "(* Property C10 - every record is counted once or reported skipped; strict mode; no partial output. *)", IMP, [
 ("conservation", "CreateP", "run_conservation", "total mass + skipped = records read, each counted record has weight exactly one (Standard: +1; Projected: the weights sum to 1)"),
 ("projected_weights_sum_to_one", "ProjectP", "project_value_sum_one", "the weights a projectable site adds sum to one"),
 ("strict_success_same_output", "CreateP", "strict_ok_same", "a strict run that succeeds equals the non-strict run and skipped nothing"),
 ("nonstrict_without_skips_is_strict", "CreateP", "nonstrict_noskip_same", "conversely"),
 ("strict_fails_at_first", "CreateP", "strict_first", "strict mode fails at the FIRST record in input order that would be skipped, naming its contig and position"),
 ("no_partial_output", "CreateP", "no_partial_output", "a failing run has no spectrum"),
 ("summary_iff_skipped", "CreateP", "summary_iff_skipped", "the skipped-sites summary appears iff something was skipped, with the right counts"),
 ("ploidy_error_no_output", "CreateP", "ploidy_aborts_run", "ploidy error at any position: error names the record, no spectrum"),
 ("read_error_no_output", "CreateP", "ioerr_aborts_run", "a corrupt record at any position: error, no spectrum"),
])

emit("C01", "(* Property C01 - create counts every complete site once at its per-population ALT index. *)", IMP, [
 ("create_counts", "CreateSpecP", "create_counts", "entry k = number of records complete for every selected sample whose per-population ALT counts are k; incomplete records contribute nothing"),
 ("shape", "CreateSpecP", "map_shape_spec", "shape (2 n_1 + 1, ..., 2 n_d + 1)"),
 ("unselected_never_influence", "CreateP", "read_site_unselected_irrelevant", "samples that were not selected never influence the result (value and error status)"),
 ("mass_is_counted_records", "CreateP", "run_conservation", "values are counts: total = records - skipped"),
])

emit("C02", "(* Property C02 - create --project: hypergeometric down-sampling of every covered site. *)", IMP, [
 ("create_project_spec", "CreateSpecP", "create_project_spec", "entry k = sum over covered records (t_j >= m_j for all j) of prod_j Hypergeom(k_j; t_j, a_j, m_j); uncovered records add nothing; the exact-coverage branch agrees with the formula"),
 ("iterator_enumerates_target", "ProjectP", "proj_iter_spec", "the per-site iterator visits the target index space in row-major order"),
 ("individuals_is_shape", "CreateSpecP", "build_reader_individuals", "--project-individuals i = --project-shape 2i+1"),
 ("weights_sum_to_one", "ProjectP", "project_value_sum_one", "each covered record has total weight one"),
])
