"""C16 - damaged spectrum files are rejected: every truncation offset and every extension 1..16 of npy files, token/shape
edits of text files; through the library reader (model and implementation) and through the binary."""
import os
import random
import shutil
import subprocess
import sys
import json

from common import compare_cases, standard_main, run_impl, run_model, run_cli_many, WORK, ROOT, run, is_panic, text_spectrum
from floats import tok, random_bits
from c07 import fmt, elements

RULE = ("npy: files written by write_npy (shapes with 1-5 axes) and by numpy (all dtypes/versions of C15's matrix: a seeded "
        "sample): EVERY truncation offset 0..len-1 and EVERY extension by 1..16 bytes (zero bytes and random bytes) must "
        "be rejected by Array::read_npy and by the model (exhaustive per file; quick: files capped at 400 bytes of data, "
        "thorough: all); text: every removal and insertion of one value token, every single-entry edit of the shape, an "
        "empty value line; on the binary (a slice): view, fold and stat on the damaged file exit non-zero, print no "
        "spectrum / statistics row, and do not panic. non-trivial = damage inside the value region; files whose data begins with spaces / line feeds (the bytes that pad and end the header); extensions that are (the beginning of) another spectrum file: the npy magic, a second npy file, a text spectrum; lone carriage returns, form feeds and tabs as the only separators")


def check(rep, tier, seed):
    rng = random.Random(seed)
    files = []
    for sh in ([3], [2, 3], [1], [4, 1, 2], [2, 2, 2, 2], [5, 3], [1, 1, 1, 1, 7]) if tier == "quick" else \
            [[3], [2, 3], [1], [4, 1, 2], [2, 2, 2, 2], [5, 3], [1, 1, 1, 1, 7], [10], [3, 3, 3], [2, 5, 2], [6, 6], [1, 9], [9, 1], [2, 2, 2, 2, 2]]:
        vals = [random_bits(rng) for _ in range(elements(sh))]
        files.append(("sfs " + fmt(sh), "npyw %s %s" % (fmt(sh), ",".join(tok(v) for v in vals))))
    # files whose data BEGINS with the bytes that pad and end an npy header (spaces, line feed): where the header stops and
    # the data starts is fixed by HEADER_LEN alone
    for sh, first in (([3], 0x4037000000000020), ([2, 2], 0x403700000000000a), ([3], 0x4037000000002020), ([2], 0x0a0a0a0a0a0a0a0a), ([1], 0x2020202020202020), ([4], 0x40370000000a2020)):
        vals = [first] + [random_bits(rng) for _ in range(elements(sh) - 1)]
        files.append(("sfs %s, data starting with 0x%02x" % (fmt(sh), first & 0xff), "npyw %s %s" % (fmt(sh), ",".join(tok(v) for v in vals))))
    written = run_impl([f[1] for f in files])
    blobs = [(lab, bytes.fromhex(w)) for (lab, _), w in zip(files, written) if all(c in "0123456789abcdef" for c in w)]
    # numpy-written files of other dtypes / header versions
    d = os.path.join(WORK, "c16")
    shutil.rmtree(d, ignore_errors=True)
    os.makedirs(d, exist_ok=True)
    p = run(["python3-vt", os.path.join(ROOT, "py/npgen.py"), d, str(seed), "1"], timeout=600)
    metas = [json.loads(l) for l in p.stdout.splitlines() if l.strip() and '"reject"' not in l]
    # one file per dtype x byte order (so that every decoder row meets every truncation offset), then a random slice
    strat = {}
    for m in metas:
        strat.setdefault((m["dtype"], m["order"]), m)
    chosen = list(strat.values()) + rng.sample(metas, min(len(metas), 6 if tier == "quick" else 80))
    rep.coverage["numpy_files_dtype_x_order"] = len(strat)
    for m in chosen:
        b = open(m["path"], "rb").read()
        blobs.append(("numpy %s%s v%d %s" % (m["order"], m["dtype"], m["version"], m["variant"]), b))
    shutil.rmtree(d, ignore_errors=True)
    cases, labels = [], []
    for lab, b in blobs:
        for n in range(len(b)):
            cases.append("npyr %s" % (b[:n].hex() or "-")); labels.append((lab, "prefix %d/%d" % (n, len(b))))
        for k in range(1, 17):
            # zero bytes, random bytes, and fills a lenient reader might be tempted to forgive: line breaks, spaces, CR LF,
            # tabs, form feeds; through the npy reader itself and through the format-detecting reader of view/fold/stat
            ws = [b"\n" * k, b" " * k, (b"\r\n" * k)[:k], b"\t" * k, b"\x0c" * k, bytes(rng.choice(b" \t\n\r\x0c") for _ in range(k))]
            for ext in [bytes(k), bytes(rng.randrange(256) for _ in range(k)), b"\xff" * k] + (ws if k <= 4 or k == 16 else ws[:2]):
                kind = "whitespace-extension" if ext in ws else "extension"
                cases.append("npyr %s" % (b + ext).hex()); labels.append((lab, "%s +%d" % (kind, k)))
                cases.append("read %s" % (b + ext).hex()); labels.append((lab, "%s +%d (detecting reader)" % (kind, k)))
    # ... and extensions that are themselves the beginning of, or a whole, spectrum file: two npy files back to back (what
    # appending to a file gives), the magic alone, a text spectrum after the data - one spectrum per file, nothing after it
    magic_ = b"\x93NUMPY"
    txt_ = b"#SHAPE=<2>\n1 2\n"
    for lab, b in blobs[:12] + blobs[-4:]:
        for ext in [magic_, magic_ + b"\x01\x00", magic_ + b"\x01\x00\x76\x00{'descr", b, blobs[0][1], b[:len(b) // 2], txt_, b"#SHAPE", b"\n" + txt_]:
            cases.append("npyr %s" % (b + ext).hex()); labels.append((lab, "spectrum-like-extension +%d" % len(ext)))
            cases.append("read %s" % (b + ext).hex()); labels.append((lab, "spectrum-like-extension +%d (detecting reader)" % len(ext)))
    # the header-length field itself damaged: zero, too small, too large, in the 2-byte (version 1) and 4-byte (2, 3) forms
    for lab, b in blobs[:3]:
        if b[6] == 1:
            hl = int.from_bytes(b[8:10], "little")
            for major, width in ((1, 2), (2, 4), (3, 4)):
                for v in (0, 1, 2, 9, hl - 1, hl + 1, hl + 8, len(b), 256 ** width - 1):
                    head = b"\x93NUMPY" + bytes([major, 0]) + v.to_bytes(width, "little")
                    for data in (head + b[10:], head, head + b[10:10 + v]):
                        if not (major == 1 and v == hl and data == b):
                            cases.append("npyr %s" % data.hex()); labels.append((lab, "header-length v%d = %d" % (major, v)))
                            cases.append("read %s" % data.hex()); labels.append((lab, "header-length v%d = %d (detecting reader)" % (major, v)))
    mo, outs = compare_cases(rep, "npy-damage", cases, nontrivial=lambda c, m: True,
                             classify=lambda c, m, i: "damage:model-vs-impl", spec=True, both_builds=(tier == "thorough"))
    uniq = list(dict.fromkeys(cases)); pos = {c: k for k, c in enumerate(uniq)}
    rep.coverage["exhaustive"] = True
    for c, (lab, what) in zip(cases, labels):
        got = outs[False][pos[c]]
        if got != "ERR":
            rep.fail(kind="property-oracle", cls="damage:npy-accepted:" + what.split()[0], case="%s: %s" % (lab, what), stdin_hex=c.split()[1][:3000],
                     observed=got[:200], expected="ERR", detail="a damaged npy file (%s of a valid file) was accepted" % what)
    # text edits
    tcases, tlabels = [], []
    for sh in ([4], [2, 3], [3, 1, 2]):
        vals = [str(rng.randrange(0, 100)) + rng.choice(["", ".5", ".25"]) for _ in range(elements(sh))]
        good = text_spectrum(sh, vals)
        tcases.append("read %s" % good.hex()); tlabels.append(("valid", True))
        for i in range(len(vals)):
            tcases.append("read %s" % text_spectrum(sh, vals[:i] + vals[i + 1:]).hex()); tlabels.append(("remove token %d" % i, False))
            tcases.append("read %s" % text_spectrum(sh, vals[:i] + ["7"] + vals[i:]).hex()); tlabels.append(("insert token at %d" % i, False))
        tcases.append("read %s" % text_spectrum(sh, vals + ["1"]).hex()); tlabels.append(("append token", False))
        tcases.append("read %s" % text_spectrum(sh, []).hex()); tlabels.append(("no values", False))
        # tokens that are no numbers must reject the file, not vanish: appended, inserted, in place of a value
        for junk in ("NA", "2,5", "1e", "-", "x", "1.2.3", "--1", "0x10", "1_000", "\u00bd"):
            i = rng.randrange(len(vals) + 1)
            tcases.append("read %s" % text_spectrum(sh, vals[:i] + [junk] + vals[i:]).hex()); tlabels.append(("junk token %r inserted at %d" % (junk, i), False))
            if vals:
                j = rng.randrange(len(vals))
                tcases.append("read %s" % text_spectrum(sh, vals[:j] + [junk] + vals[j + 1:]).hex()); tlabels.append(("junk token %r in place of value %d" % (junk, j), False))
                tcases.append("read %s" % (text_spectrum(sh, vals) + junk.encode() + b"\n").hex()); tlabels.append(("junk token %r on a later line" % junk, False))
        # characters Unicode counts as numeric are no digits of a shape: next to it, inside it or after it they make the header
        # unparsable (they are not trimmed away like other decoration)
        for a, b in ((b">\n", ">\u00b2\n"), (b">\n", ">\u0663\n"), (b"=<", "=<\u0663/"), (b">\n", "/\u2167>\n"), (b"#SHAPE", "#SHAPE\u00bd"), (b">\n", "\U0001d7d9>\n"), (b"=<", "=<\u0969")):
            tcases.append("read %s" % good.replace(a, b.encode("utf-8"), 1).hex()); tlabels.append(("unicode numeric %r in the header line" % b, False))
        for j in range(len(sh)):
            for delta in (1, -1, 5):
                sh2 = list(sh); sh2[j] = max(0, sh2[j] + delta)
                if elements(sh2) != elements(sh):
                    tcases.append("read %s" % text_spectrum(sh2, vals).hex()); tlabels.append(("shape entry %d %+d" % (j, delta), False))
        tcases.append("read %s" % text_spectrum(sh + [2], vals).hex()); tlabels.append(("extra axis", False))
        # the same edits with the value tokens laid out over several lines, tabs, CRLF, no final newline: the count of
        # tokens is taken over the whole remainder of the file, wherever the tokens stand
        def layout(shape, toks, seps, final):
            body = "".join(t + (seps[k % len(seps)] if k + 1 < len(toks) else "") for k, t in enumerate(toks))
            return ("#SHAPE=<%s>\n%s%s" % ("/".join(map(str, shape)), body, final)).encode()
        row = sh[-1]
        layouts = [("one token per line", ["\n"], "\n"), ("rows", [" "] * (row - 1) + ["\n"], "\n"), ("tabs and crlf", ["\t", "\r\n", "  "], "\r\n"),
                   ("no final newline", [" "], ""), ("blank lines", ["\n\n", " "], "\n\n"),
                   # every ASCII whitespace character separates two tokens on its own: a lone carriage return, form feed, tab
                   ("lone carriage returns", ["\r"], "\r"), ("carriage returns and spaces", [" ", "\r", "\r\r"], "\n"), ("form feeds", ["\x0c", " "], "\n"),
                   ("mixed whitespace", ["\r", "\t", "\x0c", "\n", " \r "], "")]
        for lname, seps, final in layouts:
            tcases.append("read %s" % layout(sh, vals, seps, final).hex()); tlabels.append(("valid, " + lname, True))
            tcases.append("read %s" % layout(sh, vals[:-1], seps, final).hex()); tlabels.append(("remove last token, " + lname, False))
            tcases.append("read %s" % layout(sh, vals + ["1"], seps, final).hex()); tlabels.append(("append token, " + lname, False))
            i = rng.randrange(len(vals))
            tcases.append("read %s" % layout(sh, vals[:i] + vals[i + 1:], seps, final).hex()); tlabels.append(("remove token %d, %s" % (i, lname), False))
        # a complete spectrum followed by another one, by a header line, by a '#' and more tokens: one spectrum per file
        for tail in (good, b"#SHAPE=<2>\n1 2\n", b"#SHAPE=<1>\n", b"# 4\n", b"#\n4\n", b"#4", b" # 4 5\n"):
            tcases.append("read %s" % (good + tail).hex()); tlabels.append(("followed by %r" % tail[:12], False))
        tcases.append("read %s" % (text_spectrum(sh, vals[:-1]) + b"#" + vals[-1].encode() + b"\n").hex()); tlabels.append(("last token behind a '#'", False))
        # a complete first line of values followed by surplus tokens on later lines (and a short first line completed later)
        tcases.append("read %s" % (good + b"4\n").hex()); tlabels.append(("surplus token on a second line", False))
        tcases.append("read %s" % (good + " ".join(vals).encode() + b"\n").hex()); tlabels.append(("values line written twice", False))
        tcases.append("read %s" % (good + b"\n\n").hex()); tlabels.append(("valid, trailing blank lines", True))
        tcases.append("read %s" % (text_spectrum(sh, vals[:-1]) + vals[-1].encode() + b"\n").hex()); tlabels.append(("valid, last token on a second line", True))
    # declared shapes whose true product is 2^64 or more (a wrapped product could match the number of values: 0, or the real
    # count), in the debug AND the release build: the number of values differs from the product, so the file must be rejected
    ocases = []
    for shp, vals in (([2**32, 2**32], []), ([2**32, 2**32], ["1"]), ([2**63, 2], []), ([2**63, 2, 3], ["1", "2"]), ([2**64 - 1, 2**64 - 1], ["1"]),
                      ([2**32, 2**32 + 1], ["1"] * 1), ([2**33, 2**31, 3], ["1", "2", "3"]), ([3, 2**64], ["1", "2", "3"]), ([2**64, 1], [])):
        ocases.append("read %s" % text_spectrum(shp, vals).hex())
    mo_o, outs_o = compare_cases(rep, "text-overflowing-shape", ocases, nontrivial=lambda c, m: True,
                                 classify=lambda c, m, i: "damage:text-overflowing-shape", spec=True, both_builds=True)
    for c, m in zip(list(dict.fromkeys(ocases)), mo_o):
        if m != "ERR":
            rep.fail(kind="harness-error", cls="harness-error", case=c, expected="ERR", observed=m, detail="the model accepted an overflowing shape", failing_input=False)
    mo_t, outs_t = compare_cases(rep, "text-damage", tcases, nontrivial=lambda c, m: True, classify=lambda c, m, i: "damage:text-model-vs-impl", spec=True)
    uniq_t = list(dict.fromkeys(tcases)); pos_t = {c: k for k, c in enumerate(uniq_t)}
    for c, (what, valid) in zip(tcases, tlabels):
        got = outs_t[False][pos_t[c]]
        if valid != got.startswith("OK"):
            rep.fail(kind="property-oracle", cls="damage:text:" + what.split()[0], case=what, stdin=bytes.fromhex(c.split()[1]).decode(),
                     observed=got[:200], expected="OK" if valid else "ERR", detail="text file with %s" % what)
    # binary slice
    jobs, jl = [], []
    sample = rng.sample(list(zip(cases, labels)), 60 if tier == "quick" else 600)
    wsx = [(c, l) for c, l in zip(cases, labels) if l[1].startswith("whitespace-extension") and c.startswith("npyr")]
    sample += rng.sample(wsx, min(len(wsx), 40 if tier == "quick" else 400))
    for c, (lab, what) in sample:
        data = bytes.fromhex(c.split()[1]) if c.split()[1] != "-" else b""
        for argv in (["view"], ["fold"], ["stat", "-s", "sum"]):
            jobs.append((argv, data)); jl.append("%s on %s: %s" % (argv[0], lab, what))
    for c, (what, valid) in zip(tcases, tlabels):
        if not valid:
            jobs.append((["view"], bytes.fromhex(c.split()[1]))); jl.append("view on text: " + what)
            jobs.append((["stat", "-s", "sum"], bytes.fromhex(c.split()[1]))); jl.append("stat on text: " + what)
    # verbosity flags are no part of the verdict: every second job also carries -q / -qq / -v / -vv (before or after the
    # subcommand); a rejected input exits non-zero whatever is silenced
    flagsets = [["-q"], ["-qq"], ["-q", "-q"], ["--quiet", "--quiet", "--quiet"], ["-v"], ["-vv"], ["-qq", "-v"]]
    for k in range(len(jobs)):
        if k % 2 == 1:
            fl = flagsets[(k // 2) % len(flagsets)]
            argv, data = jobs[k]
            jobs[k] = ((argv[:1] + fl + argv[1:]) if k % 4 == 1 else (argv + fl), data)
            jl[k] += " [" + " ".join(fl) + "]"
    for lab, job, (rc, so, se) in zip(jl, jobs, run_cli_many(jobs)):
        rep.count("binary-rejects", lab, True)
        short = len(job[1]) < 6
        if is_panic(rc, se):
            # inputs shorter than the format magic: C17's finding F8 (slice panic), reported there
            rep.fail(kind="property-oracle", cls="damage:panic" + (":short-input" if short else ""), case=lab, argv=["sfs"] + job[0], stdin_hex=job[1].hex()[:3000],
                     observed=se.decode(errors="replace")[-200:], expected="diagnosed error", detail="panic on a damaged file")
        elif rc == 0 or so != b"":
            rep.fail(kind="property-oracle", cls="damage:binary-accepted", case=lab, argv=["sfs"] + job[0], stdin_hex=job[1].hex()[:3000],
                     observed={"rc": rc, "stdout": so[:200].decode(errors="replace")}, expected="non-zero exit, empty stdout",
                     detail="the binary accepted or partially processed a damaged file")
    # the way the bytes arrive is no excuse: standard input handed down in NON-BLOCKING mode (as some wrappers do), the valid
    # part of a damaged file first and the damage a moment later - 'no bytes right now' is not the end of the input, so the
    # run must fail (because of the damage or because of the would-block error), never print the spectrum of the first part
    import subprocess, time as _t
    from concurrent.futures import ThreadPoolExecutor
    from common import sfs_path, ENV
    def run_nonblocking(job):
        argv, part1, part2 = job
        r, w = os.pipe()
        os.set_blocking(r, False)
        p = subprocess.Popen([sfs_path(False)] + argv, stdin=r, stdout=subprocess.PIPE, stderr=subprocess.PIPE, env=ENV)
        os.close(r)
        try:
            os.write(w, part1); _t.sleep(0.4); os.write(w, part2)
        except OSError:
            pass
        os.close(w)
        try:
            so, se = p.communicate(timeout=60)
        except subprocess.TimeoutExpired:
            p.kill(); so, se = p.communicate()
        return p.returncode, so, se
    good_t = text_spectrum([2, 3], ["1", "2", "3", "4", "5", "6.5"])
    good_n = blobs[0][1]
    nbj = []
    for argv in (["view"], ["fold"], ["stat", "-s", "sum"]):
        nbj += [(argv, good_t, b"7\n"), (argv, good_t, good_t), (argv, good_n, b"\x00" * 8), (argv, good_n, good_n), (argv, good_n[:-3], b"\x00\x00\x00\x00")]
    with ThreadPoolExecutor(max_workers=8) as ex:
        nbres = list(ex.map(run_nonblocking, nbj))
    for (argv, p1, p2), (rc, so, se) in zip(nbj, nbres):
        rep.count("binary-rejects:non-blocking-stdin", "%s, %d + %d bytes" % (argv[0], len(p1), len(p2)), True)
        if rc == 0 or so != b"":
            rep.fail(kind="property-oracle", cls="damage:accepted-on-non-blocking-stdin", case="%s: a valid spectrum, then (0.4 s later) %d more bytes, on a non-blocking stdin" % (argv[0], len(p2)),
                     argv=["sfs"] + argv, stdin_hex=(p1 + p2).hex()[:3000], observed={"rc": rc, "stdout": so[:200].decode(errors="replace"), "stderr": se[-200:].decode(errors="replace")},
                     expected="non-zero exit, empty stdout", detail="a damaged file delivered in two bursts over a non-blocking standard input was read as the spectrum of its first part")
    rep.assumptions += ["npy cases: shape products below 2^64; text cases include declared shapes whose product overflows (both builds)"]


if __name__ == "__main__":
    sys.exit(standard_main("C16", check, sys.argv[1:], RULE, needs_cli=True, needs_release=True))
