"""C09 - population axes by first appearance; only listed samples count: model vs sample-map / site-reader behaviour under
permutations of columns and list entries, file vs inline lists, label permutations on the binary."""
import itertools
import random
import sys

from common import compare_cases, standard_main, run_cli_many, run_model, parse_text_spectrum, WORK
from callsets import render_vcf, model_records, model_samples, cli_samples_arg, samples_file_bytes
from gen_create import random_callset, random_map, pop_sizes, names
import os

RULE = ("(a) in-memory reader: call sets of 2-5 samples x sample lists (subset, order, named/unnamed mix) x ALL permutations "
        "of the columns (<=5) and of the list entries (<=5; quick: seeded slice of the list permutations) vs the model "
        "(shape and per-record Site values); duplicate/contradictory entries, unknown and empty lists vs the model's "
        "builder; (b) on the binary: column permutations and label-order-preserving list reorderings print identical "
        "bytes; reordering labels permutes the axes (checked by transposing the parsed spectrum); -s vs -S file with the "
        "same content print identical bytes; unknown sample / empty list exit non-zero with empty stdout. non-trivial = "
        "list with >= 2 labels; a listed non-diploid genotype after a listed missing / multiallelic one in every column order is an error; samples files mixing a tab followed by nothing (the population '') with lines without a tab (unnamed); labels spelled like the unnamed population ('[unnamed]', 'unnamed', '-') next to samples without a label; labels containing tabs that differ only after the tab")


def transpose_flat(shape, vals, perm):
    """new axis j = old axis perm[j]"""
    import itertools as it
    d = len(shape)
    strides = [1] * d
    for i in range(d - 2, -1, -1):
        strides[i] = strides[i + 1] * shape[i + 1]
    newshape = [shape[perm[j]] for j in range(d)]
    out = []
    for idx in it.product(*[range(n) for n in newshape]):
        old = [0] * d
        for j in range(d):
            old[perm[j]] = idx[j]
        out.append(vals[sum(o * s for o, s in zip(old, strides))])
    return newshape, out


def check(rep, tier, seed):
    rng = random.Random(seed)
    cases = []
    for n in (2, 3, 4, 5):
        cols = names(n)
        for _ in range(3 if tier == "quick" else 10):
            _, recs = random_callset(rng, nsamples=n, nrecords=4, p_skip=0.15)
            sm = random_map(rng, cols)
            colperms = list(itertools.permutations(range(n)))
            if tier == "quick" and len(colperms) > 24:
                colperms = rng.sample(colperms, 24)
            for cp in colperms:
                pc = [cols[i] for i in cp]
                pr = [[r[i] for i in cp] for r in recs]
                cases.append("sites %s %s - %s" % (",".join(pc), model_samples(sm), model_records(pr)))
            lperms = list(itertools.permutations(sm))
            if len(lperms) > (24 if tier == "quick" else 120):
                lperms = rng.sample(lperms, 24 if tier == "quick" else 120)
            for lp in lperms:
                cases.append("sites %s %s - %s" % (",".join(cols), model_samples(list(lp)), model_records(recs)))
    # a listed sample that is not diploid is an error in whichever column it stands and whatever the other listed samples
    # hold at that site - missing or multiallelic genotypes BEFORE it included (no projection, and with one)
    for n in (3, 4):
        cols = names(n)
        for _ in range(2 if tier == "quick" else 12):
            odd = [rng.choice(["./.", "1/2", ".", "0/2"]), rng.choice(["0", "1", "0/1/1", "0|1|1", "./././."])] + [rng.choice(["0/0", "0/1", "1/1"]) for _ in range(n - 2)]
            recs = [[rng.choice(["0/0", "0/1", "1/1"]) for _ in cols], odd, [rng.choice(["0/0", "0/1"]) for _ in cols]]
            sm = random_map(rng, cols)
            if len(sm) < n:
                sm = [(c, "A" if i % 2 else "B") for i, c in enumerate(cols)]
            for cp in itertools.permutations(range(n)):
                pc = [cols[i] for i in cp]
                pr = [[r[i] for i in cp] for r in recs]
                cases.append("sites %s %s - %s" % (",".join(pc), model_samples(sm), model_records(pr)))
                if cp[0] < cp[1]:
                    cases.append("sites %s %s i:%s %s" % (",".join(pc), model_samples(sm), ",".join("1" for _ in dict.fromkeys(l for _, l in sm)), model_records(pr)))
    # builder corner cases
    cases += ["sites a,b EMPTY - 0/1,0/0", "sites a,b a:A,x:B - 0/1,0/0", "sites a,b x:A,y:B - 0/1,0/0",
              "sites a,b a:A,a:A - 0/1,0/0", "sites a,b,c a:A,b:B,a:B - 0/1,0/0,1/1", "sites a,b,c a:A,b:A,a:A - 0/1,0/0,1/1",
              "sites a,b a:-,b:- - 0/1,1/1", "sites a,b a:-,b:A - 0/1,1/1", "sites a,b b:A,a:- - 0/1,1/1",
              # the same builder errors with a projection requested (shape or individuals), in every position of the list
              "sites a,b a:A,x:B s:3,3 0/1,0/0", "sites a,b x:A,a:B i:1,1 0/1,0/0", "sites a,b a:A,x:A s:3 0/1,0/0", "sites a,b EMPTY s:3 0/1,0/0",
              "sites a,b ghost:- i:1 0/1,0/0", "sites a,b,c a:A,b:B,ghost:B s:3,3 0/1,0/0,1/1", "sites a,b a:A,a:B s:3,3 0/1,0/0"]
    # lists that name a sample twice (the later entry wins; any population may be left empty -> a diagnosed error) and
    # otherwise the map the model builds
    dl = []
    for n in (2, 3, 4):
        for nm in itertools.product("abc", repeat=n):
            if len(set(nm)) < n:
                for lb in itertools.product("ABC", repeat=n):
                    dl.append(",".join("%s:%s" % (x, y) for x, y in zip(nm, lb)))
    for l in (dl if tier == "thorough" else ["a:A,b:B,b:C", "a:A,b:B,a:C", "a:A,b:B,c:C,b:A"] + rng.sample(dl, 150)):
        cases.append("sites a,b,c %s - 0/1,0/0,1/1;1/1,0/1,./." % l)
    from fractions import Fraction
    compare_cases(rep, "sample-map", cases, tol=Fraction(1, 10**9), nontrivial=lambda c, m: m.startswith("SHAPE=") and "," in m.split()[0],
                  classify=lambda c, m, i: "axes:" + ("panic" if "PANIC" in i or "PANIC" in m else "site-reader"), spec=True)

    # the samples-file parser itself (Map::from_reader) vs the model, on well-formed and odd files
    files = [b"a\tA\nb\tB\nc\tA\n", b"a\nb\nc\n", b"a\tA\nb\n", b"a\tA\nb\tB", b"a\tA\r\nb\tB\r\n", b"a\tA\n\nb\tB\n", b"", b"\n", b"\n\n",
             b"#a\tA\nb\tB\n", b"#sample\tpopulation\na\tA\n", b"a\tA\n#\n", b"a\tX\nb\tX \nc\t X\n",
             b"a\tA\tx\nb\tB\n", b"a \tA\nb\t B\n", b"a=A\nb=B\n", b"a,b\tA\n", b"\tA\nb\tA\n", b"a\t\nb\t\n", b"a\tA\na\tB\n", b"a\tA\nb\tB\na\tB\n",
             b"s 0\tpop 1\ns1\tpop 2\ns2\tpop 1\n", b"a\tA\rb\tB\n", b"a\tA\n\r\nb\tA\n", b"x\tA B\ty\n",
             # a line with a tab and nothing after it names the population "" - which is not the unnamed population of a line without a tab
             b"a\t\nb\nc\tB\n", b"a\nb\t\n", b"a\t\nb\t\nc\n", b"a\t\nb\nc\t\nd\n", b"a\nb\t\nc\tB\nd\n",
             # the label is everything after the FIRST tab: labels that contain tabs and differ only after one are different labels
             b"a\tA\r\nb\tB\r\nc\tA", b"a\tA\nb\tA\r\nc\tB\r\n", b"a\r\nb\r\n", b"a\r\nb", b"a\tA\r\n\r\nb\tA\r\n", b"a\tA\r\nb\tA",
             b"a\tX\t1\nb\tX\t2\nc\tX\t1\n", b"a\tX\t\nb\tX\n", b"a\tX\t1\nb\tX\n", b"a\t\t\nb\t\n", b"a\tp q\tr\nb\tp q\ts\nc\tp q\n"]
    for _ in range(40 if tier == "quick" else 400):
        alphabet = b"ab \t\n\r=,AB"
        files.append(bytes(rng.choice(alphabet) for _ in range(rng.randrange(0, 24))))
    compare_cases(rep, "samples-file-parser", ["smapfile %s" % (f.hex() or "-") for f in files], nontrivial=lambda c, m: "," in m,
                  classify=lambda c, m, i: "axes:samples-file-parser", spec=True)

    # binary: invariances
    jobs, groups, groupcases = [], [], []
    for k in range(25 if tier == "quick" else 250):
        cols, recs = random_callset(rng, nsamples=rng.randrange(2, 7), nrecords=rng.randrange(1, 12), p_skip=0.1)
        sm = random_map(rng, cols, allow_unnamed=(k % 3 == 0))
        if k % 2 == 0 and len(sm) < len(cols):
            # unlisted columns carry haploid / triploid / multiallelic / missing genotypes: only listed samples count
            listed = {n for n, _ in sm}
            recs = [[g if c in listed else rng.choice(["0", "1", "0/1/1", "1|2|3", ".", "./.", "0/2", "5"]) for c, g in zip(cols, r)] for r in recs]
        labels = list(dict.fromkeys(l for _, l in sm))
        base = len(jobs)
        jobs.append((["create"] + cli_samples_arg(sm), render_vcf(cols, recs)))
        # column permutation
        cp = list(range(len(cols))); rng.shuffle(cp)
        jobs.append((["create"] + cli_samples_arg(sm), render_vcf([cols[i] for i in cp], [[r[i] for i in cp] for r in recs])))
        # list reorder keeping first-appearance order of labels
        firsts = []
        seen = set()
        rest = []
        for e in sm:
            if e[1] not in seen:
                seen.add(e[1]); firsts.append(e)
            else:
                rest.append(e)
        rng.shuffle(rest)
        re_sm = []
        ri = iter(rest)
        pool = rest[:]
        # firsts stay in order; the others are inserted anywhere after the first entry of their label
        re_sm = firsts[:]
        for e in pool:
            lo = max(i for i, f in enumerate(re_sm) if f[1] == e[1] and f in firsts) + 1
            re_sm.insert(rng.randrange(lo, len(re_sm) + 1), e)
        jobs.append((["create"] + cli_samples_arg(re_sm), render_vcf(cols, recs)))
        # -S file
        path = os.path.join(WORK, "c09_samples_%d.txt" % k)
        os.makedirs(WORK, exist_ok=True)
        open(path, "wb").write(samples_file_bytes(sm))
        jobs.append((["create", "-S", path], render_vcf(cols, recs)))
        # label order reversed -> axes reversed
        rev_sm = sorted(sm, key=lambda e: -labels.index(e[1]))
        jobs.append((["create"] + cli_samples_arg(rev_sm), render_vcf(cols, recs)))
        groups.append((base, len(labels), sm))
        groupcases.append("create 0 %s %s - %s" % (",".join(cols), model_samples(sm), model_records(recs)))
    res = run_cli_many(jobs)
    refmodel = run_model(groupcases)
    for (base, nl, sm), exp in zip(groups, refmodel):
        ref = res[base]
        if exp.startswith("OK"):
            e = exp.split(); p0 = parse_text_spectrum(ref[1])
            if ref[0] != 0 or p0 is None or p0[0] != [int(x) for x in e[1].split(",")] or p0[1] != e[2].split(","):
                rep.fail(kind="cli-vs-model", cls="axes:reference-vs-model", case=exp[:200], argv=["sfs"] + jobs[base][0], stdin=jobs[base][1].decode(),
                         observed={"rc": ref[0], "stdout": ref[1].decode(errors="replace")[:300], "stderr": ref[2].decode(errors="replace")[-300:]}, expected=exp[:300],
                         detail="the spectrum of the listed samples differs from the model's (unlisted columns must not matter)")
    for base, nl, sm in groups:
        ref, colp, reo, fil, rev = res[base:base + 5]
        rep.count("binary-invariances", " ".join(jobs[base][0]), nl >= 2, n=5)
        for name, r, j in (("column-permutation", colp, base + 1), ("list-reorder", reo, base + 2), ("samples-file", fil, base + 3)):
            if r[0] != ref[0] or r[1] != ref[1]:
                rep.fail(kind="property-oracle", cls="axes:" + name, case=name, argv=["sfs"] + jobs[j][0], stdin=jobs[j][1].decode(),
                         observed=r[1].decode(errors="replace")[:300], expected=ref[1].decode(errors="replace")[:300],
                         detail="output changed under %s (reference argv %s)" % (name, jobs[base][0]))
        if ref[0] == 0:
            p0, p1 = parse_text_spectrum(ref[1]), parse_text_spectrum(rev[1])
            perm = list(range(nl))[::-1]
            if p1 is None or (p1[0], p1[1]) != tuple(transpose_flat(p0[0], p0[1], perm)):
                rep.fail(kind="property-oracle", cls="axes:label-permutation", case="labels reversed", argv=["sfs"] + jobs[base + 4][0],
                         stdin=jobs[base + 4][1].decode(), observed=rev[1].decode(errors="replace")[:300],
                         expected="axes of %s reversed" % ref[1].decode(errors="replace")[:200],
                         detail="reordering the labels did not permute the axes correspondingly")
    # the samples file given as something that is not a regular file: a named pipe, /dev/stdin (the call set by path)
    from common import run_cli_fifo
    for gi, (base, nl, sm) in enumerate(groups[:6 if tier == "quick" else 40]):
        vpath = os.path.join(WORK, "c09_in_%d.vcf" % gi)
        open(vpath, "wb").write(jobs[base][1])
        fifo = os.path.join(WORK, "c09_fifo_%d" % gi)
        for name, (rc, so, se) in (("named pipe", run_cli_fifo(["create", "-S", fifo, vpath], fifo, samples_file_bytes(sm))),
                                   ("/dev/stdin", run_cli_many([(["create", "-S", "/dev/stdin", vpath], samples_file_bytes(sm))])[0])):
            rep.count("binary-invariances", "samples file as %s: %s" % (name, model_samples(sm)), True)
            if (rc, so) != (res[base][0], res[base][1]):
                rep.fail(kind="property-oracle", cls="axes:samples-file-not-regular", case="samples file given as %s" % name, argv=["sfs", "create", "-S", "<%s>" % name, "<vcf>"],
                         stdin=jobs[base][1].decode(), observed={"rc": rc, "stdout": so.decode(errors="replace")[:300], "stderr": se.decode(errors="replace")[-200:]},
                         expected=res[base][1].decode(errors="replace")[:300], detail="--samples-file read from a %s differs from --samples with the same content" % name)
        os.remove(vpath)
    for k in range(25 if tier == "quick" else 250):
        try:
            os.remove(os.path.join(WORK, "c09_samples_%d.txt" % k))
        except OSError:
            pass
    # names and labels with spaces and other unusual characters: the samples file is TAB-separated, the inline list uses
    # '=' and ','; the two must stay equivalent and labels that share a first word must stay distinct
    # ... and a label may itself contain '=' (the inline entry is split at its FIRST '=': name, then label)
    odd = [("pop 1", "pop 2"), ("A B C", "A B"), ("pop=north", "pop=south"), ("a=b=c", "a=b"), (" x", "x "), ("p:q", "p;q"), ("naïve", "naive"), ("=", "==")]
    for k, (l1, l2) in enumerate(odd if tier == "thorough" else odd[:5]):
        cols = ["s 0", "s1", "s2", "s3"] if k % 2 == 0 else ["s 0", "#s1", "s2", "s3"]          # a sample may be called '#s1'; no line of the file is a comment
        recs = [[rng.choice(["0/0", "0/1", "1/1"]) for _ in cols] for _ in range(6)]
        sm = [("s 0", l1), (cols[1], l2), ("s2", l1)]
        vcf = render_vcf(cols, recs)
        path = os.path.join(WORK, "c09_odd_%d.txt" % k)
        open(path, "wb").write(samples_file_bytes(sm))
        rr = run_cli_many([(["create"] + cli_samples_arg(sm), vcf), (["create", "-S", path], vcf)])
        exp = run_model(["create 0 a,b,c,d a:L1,b:L2,c:L1 - %s" % model_records(recs)])[0]
        rep.count("odd-names", "labels %r %r" % (l1, l2), True, n=2)
        e = exp.split()
        for which, (rc, so, se) in zip(("inline", "file"), rr):
            p0 = parse_text_spectrum(so)
            if rc != 0 or p0 is None or p0[0] != [int(x) for x in e[1].split(",")] or p0[1] != e[2].split(","):
                rep.fail(kind="property-oracle", cls="axes:odd-names:" + which, case="labels %r / %r, sample name with a space (%s list)" % (l1, l2, which),
                         argv=["sfs", "create"] + (cli_samples_arg(sm) if which == "inline" else ["-S", path]), stdin=vcf.decode(),
                         observed={"rc": rc, "stdout": so.decode(errors="replace")[:200], "stderr": se.decode(errors="replace")[-200:]}, expected=exp,
                         detail="labels / names with unusual characters: the %s list does not give the spectrum of the abstract list" % which)
        os.remove(path)
    # a label that is SPELLED like what the tool prints for the samples without a label ("[unnamed]"), or like other words for
    # nothing, names a population of its own: next to samples without a label there are two populations, in either order
    for k, lab in enumerate(["[unnamed]", "unnamed", "-", "None", "[unnamed] ", "Unnamed", "null"]):
        cols = ["s0", "s1", "s2", "s3"]
        recs = [[rng.choice(["0/0", "0/1", "1/1"]) for _ in cols] for _ in range(7)]
        for sm, mm in (([("s0", lab), ("s1", None), ("s2", lab), ("s3", None)], "a:L1,b:-,c:L1,d:-"), ([("s1", None), ("s0", lab), ("s3", None)], "b:-,a:L1,d:-")):
            vcf = render_vcf(cols, recs)
            path = os.path.join(WORK, "c09_unn_%d.txt" % k)
            open(path, "wb").write(samples_file_bytes(sm))
            rr = run_cli_many([(["create"] + cli_samples_arg(sm), vcf), (["create", "-S", path], vcf)])
            e = run_model(["create 0 a,b,c,d %s - %s" % (mm, model_records(recs))])[0].split()
            rep.count("odd-names", "label %r next to samples without a label" % lab, True, n=2)
            for which, (rc, so, se) in zip(("inline", "file"), rr):
                p0 = parse_text_spectrum(so)
                if rc != 0 or p0 is None or p0[0] != [int(x) for x in e[1].split(",")] or p0[1] != e[2].split(","):
                    rep.fail(kind="property-oracle", cls="axes:odd-names:" + which, case="label %r next to samples without a label (%s list)" % (lab, which),
                             argv=["sfs", "create"] + (cli_samples_arg(sm) if which == "inline" else ["-S", path]), stdin=vcf.decode(),
                             observed={"rc": rc, "stdout": so.decode(errors="replace")[:200], "stderr": se.decode(errors="replace")[-200:]}, expected=" ".join(e)[:300],
                             detail="a population labelled %r is a population of its own, distinct from the samples that carry no label" % lab)
            os.remove(path)
    # errors on the binary
    ejobs = [(["create", "-s", "nosuch"], render_vcf(["a", "b"], [["0/1", "0/0"]])),
             (["create", "-s", "a=A,zzz=B"], render_vcf(["a", "b"], [["0/1", "0/0"]])),
             (["create", "-s", "a=A,zzz=B", "-p", "1,1"], render_vcf(["a", "b"], [["0/1", "0/0"]])),
             (["create", "-s", "a,zzz", "--project-shape", "3"], render_vcf(["a", "b"], [["0/1", "0/0"]])),
             (["create", "-s", "zzz,a", "-p", "1"], render_vcf(["a", "b"], [["0/1", "0/0"]]))]
    # a call set WITHOUT sample columns (sites only): the list of all samples is empty, as is an empty samples file - an error
    from callsets import HEADER_LINES as _HL
    nos = ("\n".join(list(_HL) + ["\t".join(["#CHROM", "POS", "ID", "REF", "ALT", "QUAL", "FILTER", "INFO"]), "chr1\t1\t.\tA\tC\t.\t.\t.", "chr1\t2\t.\tG\tT\t.\tPASS\t."]) + "\n").encode()
    ejobs += [(["create"], nos), (["create", "-s", "a"], nos), (["create", "-p", "1"], nos)]
    gpath = os.path.join(WORK, "c09_ghost.txt"); open(gpath, "wb").write(b"a\tA\nghost\tA\n")
    ejobs.append((["create", "-S", gpath, "-p", "1"], render_vcf(["a", "b"], [["0/1", "0/0"]])))
    ejobs.append((["create", "-S", gpath], render_vcf(["a", "b"], [["0/1", "0/0"]])))
    epath = os.path.join(WORK, "c09_empty.txt"); open(epath, "wb").write(b"")
    ejobs.append((["create", "-S", epath], render_vcf(["a", "b"], [["0/1", "0/0"]])))
    ejobs.append((["create", "-S", epath], nos))
    for job, (rc, so, se) in zip(ejobs, run_cli_many(ejobs)):
        rep.count("binary-errors", " ".join(job[0]), True)
        if rc == 0 or rc == 101 or so != b"" or se == b"":
            rep.fail(kind="property-oracle", cls="axes:error-expected", case=" ".join(job[0]), argv=["sfs"] + job[0], stdin=job[1].decode(),
                     observed={"rc": rc, "stdout": so.decode()[:200], "stderr": se.decode()[:200]}, expected="non-zero exit, diagnostic, empty stdout",
                     detail="unknown sample / empty list must be a diagnosed error")
    rep.assumptions += ["sample names are free of ',', '=', tab and newline; labels of ',', tab and newline", "contradictory duplicate entries are C17's subject (known finding F11)"]


if __name__ == "__main__":
    sys.exit(standard_main("C09", check, sys.argv[1:], RULE, needs_cli=True))
