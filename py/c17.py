"""C17 - every invocation ends in success or a diagnosed error, never a panic (partial: the spectrum commands are modelled
with explicit panic points and proved panic-free; the VCF/BCF decoders are exercised fuzz-style only)."""
import itertools
import os
import re
import random
import sys

from common import standard_main, run_cli_many, WORK, is_panic, text_spectrum, run_impl, load_known
from callsets import render_vcf, bgzf_compress, vcf_to_bcf
from statutil import STATS
from floats import tok, random_bits

RULE = ("(a) the full grid statistic(14) x shapes with 1..4 axes and lengths 0..4 (quick: lengths 0..3 up to 3 axes + "
        "seeded 4-axis sample), text and npy input; (b) fold (4 fills) and view (mask, normalize, -m/-M incl. duplicates "
        "and out-of-range, --project-shape / -p incl. 0, equal, larger, 2^63, 2^64-1) on the same shapes; (b') 1-D sizes 169..176, 345, 1031 and n x 3 spectra around the factorial-table seam, cohorts of 85-88 samples with projection; (c) option "
        "values at and beyond bounds: --precision 0, 17, 65535, 65536, 2^32; --threads 0, 1, 2^40; (d) inputs: empty, "
        "1..7 bytes, headers with absurd shapes (0, 2^32/2^32, 2^64, empty, negative, non-numeric), values nan/1e999/"
        "garbage, npy with absurd header_len (and the header-length field swept from zero upwards in versions 1-3), bit flips and splices of valid text/npy files; (e) create: contradictory / "
        "duplicate / empty / unknown sample lists, sample files with odd lines, projection bounds; mutated VCF, BGZF "
        "and BCF bytes (bit flips, truncations, splices - fuzz-style support only: noodles is not modelled). Every "
        "run must exit 0 or non-zero with a diagnostic on stderr; exit 101 / 'panicked at' / a signal is a failure. "
        "non-trivial = a degenerate shape, an out-of-bounds option or a mutated input; text headers with non-ASCII numeric characters of 2-4 bytes before, inside and after the shape; npy files without any axis ('shape': ()) and with all axes of length one through every statistic; BCF records with more / fewer genotypes than the header has samples")


def fmt(l):
    return ",".join(map(str, l))


def elements(sh):
    n = 1
    for x in sh:
        n *= x
    return n


def panic_class(argv, data):
    """a stable class for a panic: sub-command + the option / input feature that triggers it"""
    sub = argv[0]
    feat = []
    for a in argv[1:]:
        if a.startswith("-"):
            feat.append(a)
    return sub + ":" + ",".join(sorted(set(feat))[:3])


def check(rep, tier, seed):
    rng = random.Random(seed)
    jobs = []
    maxlen = 3 if tier == "quick" else 4
    shapes = [list(s) for d in range(1, 4) for s in itertools.product(range(0, maxlen + 1), repeat=d)]
    four = [list(s) for s in itertools.product(range(0, 5), repeat=4)]
    shapes += four if tier == "thorough" else rng.sample(four, 40)
    for sh in shapes:
        vals = [str(rng.randrange(0, 9)) for _ in range(elements(sh))]
        txt = text_spectrum(sh, vals)
        for st in STATS:
            jobs.append((["stat", "-s", st], txt, "grid"))
        for fill in ("nan", "zero", "minus-one", "inf"):
            jobs.append((["fold", "--fill", fill], txt, "grid"))
        d = len(sh)
        jobs.append((["view", "--mask-monomorphic"], txt, "grid"))
        jobs.append((["view", "--normalize"], txt, "grid"))
        jobs.append((["view", "-O", "npy"], txt, "grid"))
        dup = [[str(a), str(b), str(a)] for a in range(min(d, 4)) for b in range(min(d, 4)) if a != b] if d >= 3 else []   # an axis named twice, not adjacently
        for m in [["0"], [str(d - 1)], [str(d)], ["0", "0"], [str(i) for i in range(d)], ["7"]] + dup:
            jobs.append((["view", "-m", ",".join(m)], txt, "grid"))
            jobs.append((["view", "-M", ",".join(m)], txt, "grid"))
        for to in ([0] * d, sh, [n + 1 for n in sh], [1] * d, [1] * (d + 1), [2**63] * d, [2**64 - 1] * d):
            jobs.append((["view", "--project-shape", fmt(to)], txt, "grid"))
        for ind in ([0] * d, [1] * d, [2**63] * d, [2**64 - 1] * d, [2**62] * d):
            jobs.append((["view", "-p", fmt(ind)], txt, "grid"))
    # sizes around the factorial table / ln-gamma seam (170! is the largest finite f64 factorial) and a few large ones
    for n in (169, 170, 171, 172, 173, 174, 175, 176, 345, 1031):
        txt1 = text_spectrum([n], [str(rng.randrange(0, 9)) for _ in range(n)])
        for st in STATS:
            jobs.append((["stat", "-s", st], txt1, "seam"))
        for to in (1, 5, n - 1, n):
            jobs.append((["view", "--project-shape", str(to)], txt1, "seam"))
        jobs.append((["fold"], txt1, "seam"))
        if n < 200:
            txt2 = text_spectrum([n, 3], [str(rng.randrange(0, 9)) for _ in range(3 * n)])
            for st in ("f2", "fst", "pi-xy"):
                jobs.append((["stat", "-s", st], txt2, "seam"))
            jobs.append((["view", "--project-shape", "7,2"], txt2, "seam"))
            jobs.append((["view", "-m", "1", "--project-shape", "172"], txt2, "seam"))
    # many-axis spectra written as npy: header lengths on and around the 64-byte alignment boundary (the dict is 56 bytes
    # plus the text of the shape tuple; 10 + len(dict) = 0 mod 64 is where the padding arithmetic has its edge)
    for d in range(14, 24):
        for big in range(0, 7):
            shb = [1] * (d - big) + [11] * big
            if elements(shb) > 20000:
                continue
            txtb = text_spectrum(shb, [str(rng.randrange(0, 9)) for _ in range(elements(shb))])
            jobs.append((["view", "-O", "npy"], txtb, "npy-header-boundary"))
            if big in (0, 4):
                jobs.append((["fold", "-O", "npy"], txtb, "npy-header-boundary"))
    # thousands of axes of length 1 (one entry): the npy 1.0 header length is a u16 - from about 21,800 axes on the dict no
    # longer fits; and text / npy conversions of such spectra in general
    for d in (5000, 21000, 21830, 21845, 21850, 22000, 30000):
        txtm = text_spectrum([1] * d, ["5"])
        jobs.append((["view", "-O", "npy"], txtm, "many-axes"))
        jobs.append((["fold", "-O", "npy"], txtm, "many-axes"))
        jobs.append((["view"], txtm, "many-axes"))
        jobs.append((["stat", "-s", "sum"], txtm, "many-axes"))
    base = text_spectrum([3, 3], [str(i) for i in range(9)])
    # options that exclude each other, options given twice, values missing: a usage error, never a crash
    vcf_c = render_vcf(["a", "b"], [["0/1", "1/1"], ["0/0", "0/1"]])
    for argv in (["view", "-p", "1,1", "--project-shape", "3,3"], ["view", "--project-shape", "2,2", "-p", "0,0"], ["view", "-m", "0", "-M", "1"], ["view", "-M", "0", "-m", "0"],
                 ["view", "-p", "1,1", "-p", "1,1"], ["view", "--normalize", "--normalize"], ["view", "-O", "npy", "-O", "text"], ["view", "-o"], ["view", "--precision"],
                 ["fold", "--fill", "zero", "--fill", "inf"], ["fold", "-s"], ["fold", "--fill", "two"], ["stat"], ["stat", "-s"], ["stat", "-s", "sum", "-d", "ab"], ["stat", "-s", "sum", "-d", ""],
                 ["stat", "-s", "sum", "-p", "1,2"], ["stat", "-s", "sum,s", "-p", "1,2,3"], ["stat", "-s", "nosuch"], ["view", "--nosuch"], ["nosuch"]):
        jobs.append((argv, base, "option-conflicts"))
    for argv in (["create", "-p", "1", "--project-shape", "3"], ["create", "-s", "a", "-S", "/dev/null"], ["create", "-p", "1", "--strict"], ["create", "--strict", "--project-shape", "3"],
                 ["create", "--threads", "0"], ["create", "--threads", "-1"], ["create", "--threads", "x"], ["create", "-t"], ["create", "--precision", "-1"], ["create", "-s", "a", "-s", "b"],
                 ["create", "--strict", "--strict"]):
        jobs.append((argv, vcf_c, "option-conflicts"))
    for p in ("0", "17", "65535", "65536", "4294967296", "18446744073709551615"):
        jobs.append((["view", "--precision", p], base, "precision"))
        jobs.append((["fold", "--precision", p], base, "precision"))
        jobs.append((["stat", "-s", "sum,f2", "--precision", p], base, "precision"))
        jobs.append((["stat", "-s", "sum,f2", "--precision", p + ",3"], base, "precision"))
    # (d) inputs
    inputs = [b"", b"#", b"\x93", b"#SHAP", b"\x93NUMP", b"#SHAPE", b"\x93NUMPY", b"#SHAPE=", b"\n", b"\x00" * 7]
    for hdr in ("0", "4294967296/4294967296", "18446744073709551616", "", "-3", "a/b", "3/", "/3", "2//2", "1/1/1/1/1/1/1/1/1", "+2", "2 ", " 2",
                "9223372036854775808/2", "4294967296/4294967296/4294967296", "0/0", "1/0",
                "0/18446744073709551615/2", "0/4294967296/4294967296", "2/0/9223372036854775808", "4294967296/0/4294967296/3", "0/18446744073709551615/18446744073709551615"):
        for vals in ("", "1", "1 2", "nan", "1e999 -1e999", "x", "1 2 3 4"):
            inputs.append(("#SHAPE=<%s>\n%s\n" % (hdr, vals)).encode())
    inputs += [b"#SHAPE=<2>\n1 2", b"#SHAPE=<2>", b"#SHAPE=<2>\n\n\n", b"#SHAPE=<2>\r\n1 2\r\n", b"#SHAPE=<2>\n1\t2\n", b"#SHAPE=<2>\n1 \xff\n", b"#SHAPE=<\xc2\xb2>\n1 2\n"]
    # text headers with non-ASCII characters that Unicode counts as numeric (2, 3 and 4 bytes long: superscripts, fractions,
    # Arabic-Indic and mathematical digits, Roman numerals) before, inside and after the shape, and non-numeric ones
    for line in ["#SHAPE=<3/\u0663>", "#SHAPE=<3>\u00b2", "#SHAPE\u00b2=<3>", "#SHAPE=<\u0663/3>", "#SHAPE=<3>\u00bd", "#SHAPE=<3>\u2167", "#SHAPE=<3\U0001d7d9>",
                 "#SHAPE=<\U0001d7d9>", "#SHAPE=<3>\u2460 ", "#SHAPE=<3>\u00e9", "#SHAPE\u00e9=<3>", "#SHAPE=<3\u00e9>", "#SHAPE=<1\u00e92>", "#SHAPE=<\u0969>", "#SHAPE=<3>\u3007"]:
        for vals in ("1 2 3", "1 2 \u0663", ""):
            inputs.append(("%s\n%s\n" % (line, vals)).encode("utf-8"))
    # npy headers whose string values are unusual: wrong lengths, non-ASCII (valid UTF-8 of 2-4 bytes per character) in the
    # descr / key / value positions, in every header version
    import struct as _st
    def npy_with(dict_text, major=1):
        dct = dict_text.encode("utf-8")
        lenw = 2 if major == 1 else 4
        padl = (-(6 + 2 + lenw + len(dct) + 1)) % 64
        hdr = dct + b" " * padl + b"\n"
        return b"\x93NUMPY" + bytes([major, 0]) + (_st.pack("<H", len(hdr)) if major == 1 else _st.pack("<I", len(hdr))) + hdr + _st.pack("<3d", 1.0, 2.0, 3.0)
    for descr in ["f8", "<f88", "xf8", "<f9", "abc", "\u00e9", "\u00e98", "\u20ac", "<\u00e9", "\u00e9f8", "<\u20ac", "\u00dff", "\u21928", "<f8\u00e9", "\u65e5\u672c", "\U0001f600", "", " <f8", "<f8 ", "<F8", "=f8"]:
        for major in (1, 2, 3):
            inputs.append(npy_with("{'descr': '%s', 'fortran_order': False, 'shape': (3,), }" % descr, major))
    for dtxt in ["{'d\u00e9scr': '<f8', 'fortran_order': False, 'shape': (3,), }", "{'descr': '<f8', 'fortran_order': F\u00e4lse, 'shape': (3,), }",
                 "{'descr': '<f8', 'fortran_order': False, 'shape': (\u0663,), }", "{'descr': '<f8', 'fortran_order': False, 'shape': (3,), } \u00e9"]:
        inputs.append(npy_with(dtxt))
    good_npy = bytes.fromhex(run_impl(["npyw 2,3 " + ",".join(tok(random_bits(rng, "small")) for _ in range(6))])[0])
    inputs.append(good_npy)
    inputs.append(good_npy[:8] + b"\xff\xff" + good_npy[10:])                       # header_len 65535
    inputs.append(b"\x93NUMPY\x02\x00\xff\xff\xff\xff" + good_npy[10:])           # v2, header_len 2^32-1
    inputs.append(b"\x93NUMPY\x03\x00\x00\x00\x00\x80" + good_npy[10:])
    # the header-length field swept over what a damaged file can hold: zero (no dict at all), less than the dict, one less and
    # one more than it, more than the file - with the 2-byte field of version 1 and the 4-byte field of versions 2 and 3, with
    # the rest of the file kept, dropped, or cut right behind the field
    hl = int.from_bytes(good_npy[8:10], "little")
    for major, width in ((1, 2), (2, 4), (3, 4)):
        for v in (0, 1, 2, 3, 5, 9, 10, 11, 63, 64, hl - 1, hl + 1, len(good_npy), len(good_npy) - 10, len(good_npy) - 9):
            if 0 <= v < 256 ** width:
                head = b"\x93NUMPY" + bytes([major, 0]) + v.to_bytes(width, "little")
                inputs += [head + good_npy[10:], head, head + good_npy[10:10 + v], head + b"\n" * v]
    for hdr in (b"{'descr': '<f8', 'fortran_order': False, 'shape': (0,), }", b"{'descr': '<f8', 'fortran_order': False, 'shape': (4294967296, 4294967296), }",
                b"{'descr': '<f8', 'fortran_order': False, 'shape': (18446744073709551616,), }", b"{'descr': '<f8', 'fortran_order': False, 'shape': (), }",
                b"{'descr': '<f8', 'fortran_order': False, 'shape': (2, 3), 'shape': (3, 2), }", b"{'shape': (6,), }", b"{}", b"{'descr': '', 'fortran_order': False, 'shape': (6,), }",
                b"{'descr': '<f8', 'fortran_order': False, 'shape': (0, 5), }", b"{'descr': '|u1', 'fortran_order': False, 'shape': (48,), }"):
        pad = b" " * (63 - (10 + len(hdr)) % 64) + b"\n"
        inputs.append(b"\x93NUMPY\x01\x00" + (len(hdr) + len(pad)).to_bytes(2, "little") + hdr + pad + good_npy[-48:])
    nmut = 150 if tier == "quick" else 1500
    for _ in range(nmut):
        src = bytearray(rng.choice([good_npy, base, text_spectrum([2, 2, 2], ["0.5"] * 8)]))
        for _ in range(rng.randrange(1, 4)):
            k = rng.randrange(len(src))
            r = rng.random()
            if r < 0.5:
                src[k] ^= 1 << rng.randrange(8)
            elif r < 0.75:
                del src[k:k + rng.randrange(1, 9)]
            else:
                src[k:k] = bytes(rng.randrange(256) for _ in range(rng.randrange(1, 9)))
        inputs.append(bytes(src))
    # spectra with as many entries as the 3x3 the kinship statistics want, in another shape: a diagnosed shape error
    for shp9 in ([1, 9], [9, 1], [9], [3, 3, 1], [1, 3, 3], [1, 1, 9], [3, 1, 3]):
        t9 = text_spectrum(shp9, [str(v) for v in range(9)])
        for st in ("king", "r0", "r1", "king,r0,r1", "fst", "f2", "pi-xy"):
            jobs.append((["stat", "-s", st], t9, "nine-entries"))
    # npy files of degenerate shape - no axis at all ('shape': (), which numpy writes for a scalar) with zero, one or two
    # values, one entry, all axes of length one - through EVERY statistic (the diagnostic of a shape error prints the shape)
    for shp_txt, nvals in (("()", 1), ("()", 0), ("()", 2), ("(,)", 1), ("(1,)", 1), ("(1, 1)", 1), ("(1, 1, 1)", 1), ("(2,)", 2), ("(1, 2)", 2), ("(2, 1, 1, 1)", 2), ("(3, 3)", 9)):
        for major in (1, 2):
            dct = ("{'descr': '<f8', 'fortran_order': False, 'shape': %s, }" % shp_txt).encode()
            lw = 2 if major == 1 else 4
            hdr = dct + b" " * ((-(6 + 2 + lw + len(dct) + 1)) % 64) + b"\n"
            data = b"\x93NUMPY" + bytes([major, 0]) + (_st.pack("<H", len(hdr)) if major == 1 else _st.pack("<I", len(hdr))) + hdr + _st.pack("<%dd" % nvals, *[float(k + 1) for k in range(nvals)])
            for st in STATS:
                jobs.append((["stat", "-s", st], data, "degenerate-npy"))
            jobs.append((["stat", "-s", ",".join(STATS)], data, "degenerate-npy"))
            for argv in (["view"], ["fold"], ["view", "-m", "0"], ["view", "-M", "0"], ["view", "--project-shape", "1"], ["view", "--mask-monomorphic", "-n"], ["view", "-O", "npy"]):
                jobs.append((argv, data, "degenerate-npy"))
    for data in inputs:
        jobs.append((["view"], data, "input"))
        jobs.append((["fold"], data, "input"))
        jobs.append((["stat", "-s", rng.choice(STATS)], data, "input"))
        jobs.append((["view", "--mask-monomorphic", "--normalize", "-m", "0"], data, "input"))
    # (e) create
    vcf = render_vcf(["a", "b", "c"], [["0/1", "1/1", "0/0"], ["0/0", "./.", "1/1"], ["1/2", "1/1", "0/1"]])
    os.makedirs(WORK, exist_ok=True)
    sfiles = {"dup.txt": b"a\tA\na\tB\n", "odd.txt": b"a\tA\tx\n\nb\n\tB\n", "crlf.txt": b"a\tA\r\nb\tB\r\n", "empty.txt": b"", "nl.txt": b"\n\n", "bin.txt": b"\xff\xfe\x00a\n"}
    for n, b in sfiles.items():
        open(os.path.join(WORK, "c17_" + n), "wb").write(b)
    # every list of 2-4 entries over samples {a,b,c} x labels {A,B,C} that names a sample twice (a later entry replaces the
    # population of an earlier one and may leave ANY of the populations - first, middle, last - without samples)
    dup_lists = []
    for n in (2, 3, 4):
        for names in itertools.product("abc", repeat=n):
            if len(set(names)) == n:
                continue
            for labels in itertools.product("ABC", repeat=n):
                dup_lists.append(",".join("%s=%s" % (x, y) for x, y in zip(names, labels)))
    dup_lists = dup_lists if tier == "thorough" else ["a=A,b=B,b=C", "a=A,b=B,a=C", "a=A,b=B,c=C,b=A", "a=A,b=B,c=C,a=C"] + rng.sample(dup_lists, 120)
    rep.coverage["contradictory_sample_lists"] = len(dup_lists)
    for s in ["a=A,a=B", "a=A,b=B,a=B", "a=A,b=A,a=B", "a,a", "a=A,a=A", "a=,b=", "=A", ",", "a==A", "a=A=B", "zz", "a=A,zz=B", "a,b=B,c"] + dup_lists:
        jobs.append((["create", "-s", s], vcf, "samples"))
        jobs.append((["create", "-s", s, "-p", "1"], vcf, "samples"))
    for n in sfiles:
        jobs.append((["create", "-S", os.path.join(WORK, "c17_" + n)], vcf, "samples"))
    jobs.append((["create", "-S", "/nonexistent/file"], vcf, "samples"))
    for pr in (["-p", "0"], ["-p", "3"], ["-p", "4"], ["-p", str(2**63)], ["-p", str(2**64 - 1)], ["-p", "1,1"], ["--project-shape", "0"], ["--project-shape", "7"],
               ["--project-shape", "8"], ["--project-shape", str(2**64 - 1)], ["--project-shape", "3,3"]):
        jobs.append((["create"] + pr, vcf, "project-bounds"))
        jobs.append((["create", "-s", "a=A,b=B,c=B"] + pr, vcf, "project-bounds"))
    for t in ("0", "1", "1099511627776"):
        jobs.append((["create", "--threads", t], vcf, "threads"))
        jobs.append((["create", "--threads", t], bgzf_compress(vcf), "threads"))
    for p in ("65535", "65536", "4294967296"):
        jobs.append((["create", "--precision", p, "-p", "1"], vcf, "precision"))
    # dozens of populations: the spectrum has one axis per population, so the number of entries (product of 2n+1) outgrows
    # memory, Vec and usize in turn - a diagnosed error, whatever the number (F25)
    mcols = ["s%d" % i for i in range(130)]
    mvcf = render_vcf(mcols, [["0/1"] * 130, ["0/0"] * 129 + ["1/1"]])
    for k in (11, 25, 30, 38, 39, 40, 41, 45, 64, 100, 130):
        lst = ",".join("s%d=p%d" % (i, i) for i in range(k))
        jobs.append((["create", "-s", lst], mvcf, "many-populations"))
        if k >= 25:
            jobs.append((["create", "-s", lst, "-p", ",".join(["1"] * k)], mvcf, "many-populations"))
            jobs.append((["create", "-s", lst, "--strict"], mvcf, "many-populations"))
    for k in (27, 28, 40):       # two samples each: 5^k
        jobs.append((["create", "-s", ",".join("s%d=p%d" % (i, i // 2) for i in range(2 * k))], mvcf, "many-populations"))
    # cohorts at the seam with projection
    for nsmp in (85, 86, 87, 88):
        cols_ = ["s%d" % i for i in range(nsmp)]
        recs_ = [["0/1"] + ["0/0"] * (nsmp - 1), ["1/1"] * (nsmp - 1) + ["0/1"], ["0/1", "./."] + ["0/0"] * (nsmp - 2), ["1/1"] * nsmp]
        for pr in (["-p", "5"], ["--project-shape", str(2 * nsmp)], ["--project-shape", "172"]):
            jobs.append((["create"] + pr, render_vcf(cols_, recs_), "seam"))
    # records that carry MORE (or fewer) genotypes than the header declares samples - internally consistent BCF records taken
    # from a call set of 3 (or 1) samples behind the header of a call set of 2 - and a VCF line with a surplus column
    from callsets import bcf_encode_hts as _benc
    import struct as _stb
    def bcf_parts(v_):
        b_ = _benc(v_)
        lt = _stb.unpack("<I", b_[5:9])[0]
        return b_[:5], b_[9:9 + lt], b_[9 + lt:]
    v3 = render_vcf(["a", "b", "c"], [["0/1", "1/1", "0/0"], ["0/0", "0/1", "1/1"], ["1/1", "0/0", "0/1"]])
    v2 = render_vcf(["a", "b"], [["0/1", "1/1"], ["0/0", "0/1"]])
    v1 = render_vcf(["a"], [["0/1"], ["1/1"]])
    mg, h2, r2 = bcf_parts(v2)
    for recs_from, what in ((v3, "3 genotypes per record"), (v1, "1 genotype per record")):
        _, _, rr_ = bcf_parts(recs_from)
        for body in (rr_, r2[: len(r2) // 2] + rr_, rr_ + r2):
            blob = mg + _stb.pack("<I", len(h2)) + h2 + body
            for data in (blob, bgzf_compress(blob)):
                for argv in (["create"], ["create", "-s", "a"], ["create", "-s", "a=x,b=y"], ["create", "-p", "1"], ["create", "--strict"], ["create", "-s", "b", "-p", "1"]):
                    jobs.append((argv, data, "bcf-sample-count-mismatch"))
    surplus = v2.replace(b"\t1/1\n", b"\t1/1\t0/1\n", 1)
    jobs.append((["create"], surplus, "bcf-sample-count-mismatch")); jobs.append((["create", "-s", "b"], surplus, "bcf-sample-count-mismatch"))
    # mutated call-set containers (fuzz-style; noodles is not modelled)
    cont = {"vcf": vcf, "vcf.gz": bgzf_compress(vcf, sizes=[60, 200])}
    raw = vcf_to_bcf(vcf, "c17", "raw")
    if raw:
        cont["bcf-raw"] = raw
        cont["bcf"] = bgzf_compress(raw)
    for name, data in cont.items():
        for _ in range(120 if tier == "quick" else 1500):
            src = bytearray(data)
            for _ in range(rng.randrange(1, 3)):
                if not src:
                    break                     # truncated to nothing by the previous step: the empty input is a case of its own
                k = rng.randrange(len(src))
                r = rng.random()
                if r < 0.55:
                    src[k] ^= 1 << rng.randrange(8)
                elif r < 0.8:
                    del src[k:]
                else:
                    src[k:k + 1] = bytes([rng.randrange(256)])
            jobs.append((["create", "--threads", "1"], bytes(src), "mutated-" + name))
    # a BCF laid out as htslib does (hand-written encoder): EVERY single-bit flip of its record region and of the magic /
    # header length (exhaustive), and valid records whose GT vector is typed int16 / int32 (htslib does so from allele 63 on)
    import struct
    from callsets import bcf_encode_hts
    hvcf = render_vcf(["a", "b", "c"], [["0/1", "1/1", "0/0"], ["0/0", "./.", "1/1"], ["1/2", ".", "0/1"]], extra_fields=True)
    hb = bcf_encode_hts(hvcf)
    rstart = 9 + struct.unpack("<I", hb[5:9])[0]
    for k in list(range(0, 9)) + list(range(rstart, len(hb))):
        for bit in range(8):
            src = bytearray(hb); src[k] ^= 1 << bit
            jobs.append((["create", "--threads", "1"], bytes(src), "bcf-every-bit-flip"))
    rep.coverage["bcf_bit_flips_exhaustive_over_bytes"] = 9 + len(hb) - rstart
    for ty, pk in ((0x22, "<h"), (0x23, "<i")):
        out, off, first = hb[:rstart], rstart, True
        while off < len(hb):
            ls, li = struct.unpack("<II", hb[off:off + 8])
            sh, ind = hb[off + 8:off + 8 + ls], hb[off + 8 + ls:off + 8 + ls + li]
            if first and ind[2] == 0x21:
                n = 2 * 3
                ind = ind[:2] + bytes([ty]) + b"".join(struct.pack(pk, x if x < 0x80 else x - 256) for x in ind[3:3 + n]) + ind[3 + n:]
                first = False
            out += struct.pack("<II", len(sh), len(ind)) + sh + ind
            off += 8 + ls + li
        jobs.append((["create", "--threads", "1"], out, "bcf-gt-int%d" % (16 if ty == 0x22 else 32)))
    res = run_cli_many([(a, d) for a, d, _ in jobs], timeout=120)
    seen_classes = {}
    for (argv, data, fam), (rc, so, se) in zip(jobs, res):
        rep.count("no-panic:" + fam, " ".join(argv) + " <<< " + data[:60].hex(), True)
        if is_panic(rc, se) or rc == -999:
            where = ""
            s = se.decode(errors="replace")
            m = re.search(r"panicked at ([^\n:]+:\d+)", s)
            loc = m.group(1) if m else ("timeout" if rc == -999 else "signal %d" % rc)
            dep = re.search(r"/registry/src/[^/]+/([^/]+)/src/(.*)$", loc)
            if dep:
                cls = "panic:dependency:" + dep.group(1) + "/" + dep.group(2)
            else:
                cls = "panic:" + loc
            if cls in seen_classes:
                seen_classes[cls] += 1
                continue
            seen_classes[cls] = 1
            rep.fail(kind="panic", cls=cls, case=" ".join(argv), argv=["sfs"] + argv, stdin_hex=data.hex()[:20000],
                     observed={"rc": rc, "stderr": s[-600:]}, expected="exit 0, or non-zero with a diagnostic",
                     detail="the process aborted with a Rust panic / signal at %s (family %s)" % (loc, fam))
        elif rc != 0 and se.strip() == b"":
            rep.fail(kind="undiagnosed-error", cls="silent-failure:" + argv[0], case=" ".join(argv), argv=["sfs"] + argv, stdin_hex=data.hex()[:4000],
                     observed={"rc": rc}, expected="a diagnostic on stderr", detail="non-zero exit without a diagnostic")
    rep.coverage["panic_classes_seen"] = seen_classes
    for n in sfiles:
        try:
            os.remove(os.path.join(WORK, "c17_" + n))
        except OSError:
            pass
    rep.assumptions += ["partial: noodles (VCF/BCF/BGZF decoding), flate2 and clap are not modelled; mutated call-set bytes are fuzz-style support",
                        "allocation failure on absurd declared sizes is an OS matter outside the model"]


if __name__ == "__main__":
    sys.exit(standard_main("C17", check, sys.argv[1:], RULE, needs_cli=True, level="proof"))
