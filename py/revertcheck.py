"""Regression seeds: for every `fix:` commit in /repo, re-introduce the original defect (reverse of the commit's diff, applied
to the working tree and reverted afterwards), run the quick checks of the properties the fix is recorded under, and record
the outcome in seeded/revert-<id>/meta.json. usage: revertcheck.py [finding-id ...]"""
import json, os, re, subprocess, sys, time
ROOT = os.path.dirname(os.path.dirname(os.path.abspath(__file__)))
known = json.load(open(os.path.join(ROOT, "known_findings.json")))["findings"]
want = set(sys.argv[1:])
for k in known:
    if k.get("status") != "fixed" or (want and k["id"] not in want):
        continue
    props = [k["property"]] + re.findall(r"\bC\d\d\b", k["line"].split("also", 1)[1] if "also" in k["line"] else "")
    props = list(dict.fromkeys(p for p in props if p != "property"))
    d = os.path.join(ROOT, "seeded", "revert-%s" % k["id"])
    os.makedirs(d, exist_ok=True)
    c = k["commit"]
    diff = subprocess.run("git -C /repo diff %s %s~1 -- core/src cli/src" % (c, c), shell=True, capture_output=True, text=True).stdout
    open(os.path.join(d, "patch.diff"), "w").write(diff)
    assert subprocess.run("git -C /repo status --porcelain", shell=True, capture_output=True, text=True).stdout.strip() == "", "/repo not clean"
    meta = {"seed": "revert-" + k["id"], "what": "the defect repaired by %s re-introduced" % c, "properties": props}
    rc = subprocess.run("git -C /repo apply %s" % os.path.join(d, "patch.diff"), shell=True, capture_output=True, text=True)
    meta["apply"] = rc.returncode
    res = {}
    try:
        if rc.returncode == 0:
            t = subprocess.run("cd /repo && cargo test --workspace --no-fail-fast --offline 2>&1 | grep -E 'test result'", shell=True, capture_output=True, text=True).stdout
            meta["tests_with_change"] = {"passed": sum(int(x.split(" passed")[0].split()[-1]) for x in t.splitlines()),
                                         "failed": sum(int(x.split(" failed")[0].split()[-1]) for x in t.splitlines())}
            for p in props:
                t0 = time.time()
                r = subprocess.run([os.path.join(ROOT, "bin/check"), p, "--tier", "quick"], cwd=ROOT, capture_output=True, text=True, timeout=3600)
                cls = []
                for l in r.stdout.splitlines():
                    if l.startswith("VIOLATION"):
                        try:
                            cls.append(json.load(open(l.split("replay=")[1].split()[0])).get("cls"))
                        except Exception:
                            pass
                res[p] = {"exit": r.returncode, "violation_classes": cls[:6], "wall_s": round(time.time() - t0, 1)}
        else:
            meta["apply_error"] = rc.stderr[-300:]
    finally:
        subprocess.run("git -C /repo checkout -- .", shell=True)
    meta["checks_now"] = res
    meta["detected_by_now"] = [p for p, r in res.items() if r["exit"] != 0]
    json.dump(meta, open(os.path.join(d, "meta.json"), "w"), indent=1)
    print(k["id"], c, "apply", rc.returncode, "tests", meta.get("tests_with_change"), "->", meta["detected_by_now"], "of", props, flush=True)
