"""Abstract call sets -> VCF text / BCF / BGZF bytes, and the matching model case lines."""
import os
import struct
import zlib
import re

from common import probe_path, run, WORK, ENV

HEADER_LINES = [
    "##fileformat=VCFv4.3",
    '##FILTER=<ID=PASS,Description="All filters passed">',
    "##contig=<ID=chr1,length=1000000>",
    "##contig=<ID=chr2,length=1000000>",
    '##INFO=<ID=DP,Number=1,Type=Integer,Description="Total depth">',
    '##FORMAT=<ID=GT,Number=1,Type=String,Description="Genotype">',
    '##FORMAT=<ID=DP,Number=1,Type=Integer,Description="Depth">',
    '##FORMAT=<ID=GQ,Number=1,Type=Integer,Description="Quality">',
]


def max_allele(gts):
    m = 0
    for g in gts:
        if g == "NOGT":
            continue
        for a in re.split(r"[/|]", g):
            if a.isdigit() and len(a) < 4:
                m = max(m, int(a))
    return m


def render_vcf(cols, records, extra_fields=False, contigs=None, positions=None, raw_lines=None, dot_fields=False, missing_extra=False):
    """records: list of lists of GT strings (one per column). raw_lines: {index: raw text line} replaces a record by
    arbitrary (corrupt) text."""
    out = list(HEADER_LINES)
    out.append("\t".join(["#CHROM", "POS", "ID", "REF", "ALT", "QUAL", "FILTER", "INFO", "FORMAT"] + list(cols)))
    alts = ["C", "G", "T"] + ["A" * k for k in range(2, 12)]
    for i, gts in enumerate(records):
        if raw_lines and i in raw_lines:
            out.append(raw_lines[i])
            continue
        ctg = contigs[i] if contigs else "chr1"
        pos = positions[i] if positions else i + 1
        m = max_allele(gts)
        alt = ",".join(alts[:m]) if m > 0 else "."
        if gts and all(g == "NOGT" for g in gts):
            # a record whose FORMAT has no GT key at all: no sample has a genotype
            fmt = "DP"
            samples = [str(10 + j) for j in range(len(gts))]
            info = "."
        elif extra_fields and i % 2 == 0:
            fmt = "GT:DP:GQ"
            # a sample whose GT is the missing value: the whole sample as '.', or (dot_fields) '.' next to the other values
            samples = [g + ":%d:%d" % (10 + j, 30 + j) if (g != "." or dot_fields) else "." for j, g in enumerate(gts)]
            if missing_extra:
                # the OTHER values of a sample missing ('0/1:.:30', '1/1:11:.', '0/0:.:.') while its GT is called (or not)
                def vary(j, sv):
                    gt = sv.split(":")[0]
                    k = (j + i) % 4
                    return sv if k == 0 or sv == "." else ("%s:.:%d" % (gt, 30 + j) if k == 1 else "%s:%d:." % (gt, 10 + j) if k == 2 else "%s:.:." % gt)
                samples = [vary(j, sv) for j, sv in enumerate(samples)]
            info = "DP=%d" % (50 + i)
        else:
            fmt = "GT"
            samples = list(gts)
            info = "."
        out.append("\t".join([ctg, str(pos), ".", "A", alt, ".", "PASS" if i % 3 == 0 else ".", info, fmt] + samples))
    return ("\n".join(out) + "\n").encode()


def model_records(records):
    return ";".join(",".join("." if g == "NOGT" else g for g in r) for r in records) if records else "-"


def model_samples(samples):
    """samples: None (all) | [] | [(name, label or None)]"""
    if samples is None:
        return "ALL"
    if not samples:
        return "EMPTY"
    return ",".join("%s:%s" % (n, l if l is not None else "-") for n, l in samples)


def cli_samples_arg(samples):
    if samples is None:
        return []
    return ["-s", ",".join(n if l is None else "%s=%s" % (n, l) for n, l in samples)]


def samples_file_bytes(samples):
    return ("".join((n if l is None else "%s\t%s" % (n, l)) + "\n" for n, l in samples)).encode()


def model_project(project):
    """project: None | ('s', [..]) | ('i', [..])"""
    return "-" if project is None else "%s:%s" % (project[0], ",".join(map(str, project[1])))


def cli_project_arg(project):
    if project is None:
        return []
    return ["--project-shape" if project[0] == "s" else "-p", ",".join(map(str, project[1]))]


# ---------------------------------------------------------------- BGZF
BGZF_EOF = bytes.fromhex("1f8b08040000000000ff0600424302001b0003000000000000000000")


BGZF_HEADER_FIELDS = {"mtime": 0, "xfl": 0, "os": 0xff}     # what htslib writes; any values are legal gzip / BGZF


def bgzf_block(data, level=6):
    co = zlib.compressobj(level, zlib.DEFLATED, -15)
    cdata = co.compress(data) + co.flush()
    bsize = len(cdata) + 25
    h = BGZF_HEADER_FIELDS
    hdr = struct.pack("<BBBBIBBHBBHH", 0x1f, 0x8b, 8, 4, h["mtime"], h["xfl"], h["os"], 6, 0x42, 0x43, 2, bsize)
    return hdr + cdata + struct.pack("<II", zlib.crc32(data) & 0xffffffff, len(data) & 0xffffffff)


def bgzf_compress_hdr(data, mtime=0, xfl=0, os_=0xff, **kw):
    """bgzf_compress with other (legal) values in the gzip header fields MTIME, XFL, OS of every block"""
    old = dict(BGZF_HEADER_FIELDS)
    BGZF_HEADER_FIELDS.update({"mtime": mtime, "xfl": xfl, "os": os_})
    try:
        return bgzf_compress(data, **kw)
    finally:
        BGZF_HEADER_FIELDS.update(old)


def bgzf_compress(data, sizes=None, eof=True, empty_every=0, empty_first=False, first_stored_max=False):
    """sizes: iterable of uncompressed block sizes (cycled); default 65280. first_stored_max: the first data block is
    stored (not deflated) and as long on disk as a BGZF block can be (64 KiB), so that with anything in front of it
    (an empty block) it ends beyond the first 64 KiB of the stream."""
    out = [bgzf_block(b"")] if empty_first else []
    i = 0
    k = 0
    if first_stored_max and len(data) > 70000:
        n = 65480
        co = zlib.compressobj(0, zlib.DEFLATED, -15)
        while len(co.compress(data[:n + 1]) + co.flush()) + 26 <= 65536:
            n += 1
            co = zlib.compressobj(0, zlib.DEFLATED, -15)
        out.append(bgzf_block(data[:n], level=0))
        i = n
    sizes = list(sizes) if sizes else [65280]
    while i < len(data):
        n = max(1, min(65280, sizes[k % len(sizes)]))
        out.append(bgzf_block(data[i:i + n]))
        i += n
        k += 1
        if empty_every and k % empty_every == 0:
            out.append(bgzf_block(b""))
    if eof:
        out.append(BGZF_EOF)
    return b"".join(out)


def vcf_to_bcf(vcf_bytes, tag, mode="raw"):
    """uses noodles' BCF writer through the harness; returns bytes or None when noodles refuses"""
    d = os.path.join(WORK, "bcf")
    os.makedirs(d, exist_ok=True)
    vin = os.path.join(d, "%s.vcf" % tag)
    vout = os.path.join(d, "%s.%s.bcf" % (tag, mode))
    open(vin, "wb").write(vcf_bytes)
    p = run([probe_path()], input="vcf2bcf %s %s %s\n" % (vin, vout, mode))
    ok = p.stdout.startswith("OK")
    data = open(vout, "rb").read() if ok and os.path.exists(vout) else None
    for f in (vin, vout):
        try:
            os.remove(f)
        except OSError:
            pass
    return data


# ---------------------------------------------------------------------------------------------------------------
# BCF 2.2 written by hand, the way htslib/bcftools lay a record out (so that records noodles' own writer refuses or
# mis-encodes - a whole-field '.', mixed ploidy within a record - can be supplied in the binary container too)
def _typed_int(v):
    if -120 <= v <= 127:
        return bytes([0x11]) + struct.pack("<b", v)
    if -32000 <= v <= 32767:
        return bytes([0x12]) + struct.pack("<h", v)
    return bytes([0x13]) + struct.pack("<i", v)


def _typed_desc(n, ty):
    return bytes([(n << 4) | ty]) if n < 15 else bytes([0xF0 | ty]) + _typed_int(n)


def _typed_str(s):
    b = s.encode()
    return _typed_desc(len(b), 7) + b


def _gt_bytes(gt, width):
    """htslib: allele k -> (k+1)<<1 | phased, '.' -> 0 | phased; shorter genotypes padded with end-of-vector (0x81)"""
    if gt == ".":
        vals = [0]
    else:
        vals, phased = [], 0
        for tok in re.split(r"([/|])", gt):
            if tok == "/":
                phased = 0
            elif tok == "|":
                phased = 1
            else:
                vals.append(((0 if tok == "." else int(tok) + 1) << 1) | phased)
    return bytes(vals + [0x81] * (width - len(vals)))


def gt_vector(gt, width):
    return _gt_bytes(gt, width)


def bcf_encode_hts(vcf_bytes, gt_override=None, minor=2, idx_reversed=False):
    """VCF text as produced by render_vcf -> uncompressed BCF bytes (None if a line is not of the supported form).
    gt_override: {record index: [int8 vector (bytes) per sample, all of one width]} replaces the GT vectors of a record."""
    lines = vcf_bytes.decode().split("\n")
    hdr = [l for l in lines if l.startswith("#")]
    recs = [l for l in lines if l and not l.startswith("#")]
    # idx_reversed: the contig dictionary carries explicit IDX= values that run AGAINST the order of the ##contig lines
    # (legal BCF: the dictionary, not the listing order, numbers the contigs)
    nctg = sum(1 for l in hdr if l.startswith("##contig="))
    if idx_reversed:
        k_ = [0]

        def put_idx(m):
            k_[0] += 1
            return "%s,IDX=%d>" % (m.group(1), nctg - k_[0])
        hdr = [re.sub(r"^(##contig=<ID=[^>]*)>", put_idx, l) for l in hdr]
    text = ("\n".join(hdr) + "\n").encode() + b"\x00"
    out = [b"BCF\x02" + bytes([minor]), struct.pack("<I", len(text)), text]
    strmap, ctgmap = {"PASS": 0}, {}
    for l in hdr:
        m = re.match(r"##(FILTER|INFO|FORMAT)=<ID=([^,>]+)", l)
        if m and m.group(2) not in strmap:
            strmap[m.group(2)] = len(strmap)
        m = re.match(r"##contig=<ID=([^,>]+)", l)
        if m:
            mi = re.search(r"IDX=(\d+)", l)
            ctgmap[m.group(1)] = int(mi.group(1)) if mi else len(ctgmap)
    for ri, l in enumerate(recs):
        f = l.split("\t")
        if len(f) < 9 or f[0] not in ctgmap:
            return None
        chrom, pos, vid, ref, alt, qual, filt, info, fmt = f[:9]
        samples = f[9:]
        alleles = [ref] + ([] if alt == "." else alt.split(","))
        infos = [] if info == "." else [kv.split("=") for kv in info.split(";")]
        fmts = fmt.split(":")
        shared = struct.pack("<iii", ctgmap[chrom], int(pos) - 1, len(ref))
        shared += struct.pack("<I", 0x7F800001) if qual == "." else struct.pack("<f", float(qual))
        shared += struct.pack("<I", (len(alleles) << 16) | len(infos))
        shared += struct.pack("<I", (len(fmts) << 24) | len(samples))
        shared += _typed_str("" if vid == "." else vid)
        for a in alleles:
            shared += _typed_str(a)
        shared += bytes([0x00]) if filt == "." else _typed_desc(1, 1) + struct.pack("<b", strmap[filt])
        for k, v in infos:
            shared += _typed_int(strmap[k]) + _typed_int(int(v))
        indiv = b""
        cols = [s.split(":") for s in samples]
        for j, key in enumerate(fmts):
            indiv += _typed_int(strmap[key])
            vals = [c[j] if j < len(c) else "." for c in cols]
            if key == "GT" and gt_override and ri in gt_override:
                vecs = gt_override[ri]
                indiv += _typed_desc(len(vecs[0]), 1) + b"".join(vecs)
            elif key == "GT":
                width = max([1] + [len(re.split(r"[/|]", v)) for v in vals])
                indiv += _typed_desc(width, 1) + b"".join(_gt_bytes(v, width) for v in vals)
            else:
                indiv += _typed_desc(1, 1) + bytes((0x80 if v == "." else int(v) & 0xFF) for v in vals)
        out += [struct.pack("<II", len(shared), len(indiv)), shared, indiv]
    return b"".join(out)
