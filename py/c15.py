"""C15 - npy output conforms to NPY 1.0 (numpy loads it); every supported numpy dtype is read exactly."""
import json
import os
import random
import shutil
import subprocess
import sys

from common import compare_cases, standard_main, run_impl, run_model, WORK, ROOT, run
from floats import tok, random_bits
from c07 import shapes_all_header_lengths, fmt, elements

RULE = ("reader: the full matrix dtype(10) x byte order(<,>,| for 1-byte types) x header version(1.0, 2.0, 3.0) x header spelling "
        "variants (numpy's own, double quotes, extra spaces, no spaces, key order, no trailing comma, tabs), written by numpy "
        "itself (tooling venv) with the boundary values of each type (min, max, +-1 around 2^53, 2^64-1, subnormal/inf/NaN for "
        "floats) plus random values: Array::read_npy and the model must both return exactly the bit patterns of numpy's "
        "astype(float64); Fortran-ordered and unsupported-dtype files (complex, bool, f2, unicode, timedelta) must be "
        "rejected by both. writer: for a shape of EVERY header length modulo 64 (1-27 axes) numpy.load must accept the "
        "file written by write_npy and return the same shape and bit-identical values; the model's structural theorem covers "
        "all shapes. non-trivial = file with a non-f8 dtype or a non-default header spelling; headers aligned to 16 bytes (numpy <= 1.13) and not padded at all; data whose first bytes are spaces / line feeds; data whose last byte is an ASCII whitespace code; hand-built files declaring fortran_order True with one and more axes; numpy files of every element type through chunk schedules of 1, 3, 5, 7 bytes")


def check(rep, tier, seed):
    rng = random.Random(seed)
    d = os.path.join(WORK, "c15")
    shutil.rmtree(d, ignore_errors=True)
    os.makedirs(d, exist_ok=True)
    p = run(["python3-vt", os.path.join(ROOT, "py/npgen.py"), d, str(seed), "1" if tier == "quick" else "4"], timeout=600)
    if p.returncode != 0:
        rep.fail(kind="harness-error", cls="numpy-generator", detail=p.stderr[-800:], failing_input=False)
        return
    metas = [json.loads(l) for l in p.stdout.splitlines() if l.strip()]
    cases, expected = [], []
    for m in metas:
        hexb = open(m["path"], "rb").read().hex()
        cases.append("npyr %s" % hexb)
        if m.get("reject"):
            expected.append("ERR")
        else:
            expected.append("OK %s %s" % (fmt(m["shape"]), ",".join("b" + b for b in m["bits"])))
    mo, outs = compare_cases(rep, "numpy-written-files", cases,
                             nontrivial=lambda c, m: True, classify=lambda c, m, i: "npy-reader:model-vs-impl", spec=True,
                             both_builds=(tier == "thorough"))
    impl = outs[False]
    uniq = list(dict.fromkeys(cases))
    pos = {c: k for k, c in enumerate(uniq)}
    for m, c, want in zip(metas, cases, expected):
        got = impl[pos[c]]
        got_model = mo[pos[c]]
        label = m.get("what") or "%s%s v%d %s %s" % (m["order"], m["dtype"], m["version"], m["variant"], m["shape"])
        rep.count("numpy-matrix", label, not m.get("reject") and (m["dtype"] != "f8" or m["variant"] != "numpy"))

        def same(a, b):
            ta, tb = a.split(), b.split()
            if len(ta) != len(tb) or ta[:2] != tb[:2]:
                return False
            if len(ta) < 3:
                return True
            xs, ys = ta[2].split(","), tb[2].split(",")
            if len(xs) != len(ys):
                return False
            for x, y in zip(xs, ys):
                if x != y:
                    # NaN: numpy and Rust may differ in payload/quiet bit when widening f4 NaNs; both must be NaN
                    xv, yv = int(x[1:], 16), int(y[1:], 16)
                    isnan = lambda v: (v >> 52) & 0x7ff == 0x7ff and v & 0xfffffffffffff
                    if not (isnan(xv) and isnan(yv)):
                        return False
            return True
        for who, g in (("implementation", got), ("model", got_model)):
            if not same(g, want):
                rep.fail(kind="numpy-oracle", cls="npy-reader:%s:%s" % (who, "reject" if m.get("reject") else m["dtype"]), case=label,
                         stdin_hex=open(m["path"], "rb").read().hex()[:4000], observed=g[:300], expected=want[:300],
                         detail="%s disagrees with numpy's astype(float64) on a file written by numpy" % who,
                         failing_input=(who == "implementation"))
    # the same files delivered in pieces that cut the elements apart (1, 3, 5, 7 bytes per read: no element type is read from
    # ONE buffer refill): Array::read_npy over the chunk-scheduled source vs the stream model, and the whole-buffer values
    strat_c = {}
    for m in metas:
        if not m.get("reject"):
            strat_c.setdefault((m["dtype"], m["order"], m["version"] if m["version"] > 1 else 1), m)
    ccases, cwant = [], []
    for m in list(strat_c.values())[:: 1 if tier == "thorough" else 2]:
        hexb = open(m["path"], "rb").read().hex()
        L = len(hexb) // 2
        for sc in ([1] * L, [3] * L, [5] * L, [7] * L, [L - 3, 2, 1], [11, 13] * L):
            ccases.append("cnpy %s %s -" % (hexb, fmt(sc))); cwant.append((m, "OK %s %s" % (fmt(m["shape"]), ",".join("b" + b for b in m["bits"]))))
    mo_c, outs_c = compare_cases(rep, "numpy-files-chunked", ccases, nontrivial=lambda c, m: True, classify=lambda c, m, i: "npy-reader:chunked", spec=True)
    # the same files through the BINARY (the reader of view / fold / stat in front of the npy reader: input handling, format
    # detection): `sfs view -O npy` on stdin must give numpy's float64 values back, bit for bit
    import struct as _s2
    from common import run_cli_many as _rcm
    ok_metas = [m for m in metas if not m.get("reject")]
    pick = ok_metas[::3] + ok_metas[2::3][:60 if tier == "quick" else 10**6] + rng.sample(ok_metas, min(len(ok_metas), 20 if tier == "quick" else 300))
    pick = list({m["path"]: m for m in pick}.values())
    bres = _rcm([(["view", "-O", "npy"], open(m["path"], "rb").read()) for m in pick])
    for m, (rc, so, se) in zip(pick, bres):
        label = "%s%s v%d %s %s" % (m["order"], m["dtype"], m["version"], m["variant"], m["shape"])
        rep.count("numpy-matrix-through-view", label, True)
        got = None
        if rc == 0 and so[:6] == b"\x93NUMPY":
            hl = _s2.unpack("<H", so[8:10])[0]
            payload = so[10 + hl:]
            if len(payload) % 8 == 0:
                got = "OK %s %s" % (fmt(m["shape"]), ",".join("b%016x" % _s2.unpack("<Q", payload[i:i + 8])[0] for i in range(0, len(payload), 8)))
        want = "OK %s %s" % (fmt(m["shape"]), ",".join("b" + b for b in m["bits"]))
        def same2(a, b):
            xs, ys = a.split()[2].split(","), b.split()[2].split(",")
            isnan = lambda v: (v >> 52) & 0x7ff == 0x7ff and v & 0xfffffffffffff
            return a.split()[:2] == b.split()[:2] and len(xs) == len(ys) and all(x == y or (isnan(int(x[1:], 16)) and isnan(int(y[1:], 16))) for x, y in zip(xs, ys))
        if got is None or not same2(got, want):
            rep.fail(kind="numpy-oracle", cls="npy-reader:binary:" + m["dtype"], case=label, argv=["sfs", "view", "-O", "npy"], stdin_hex=open(m["path"], "rb").read().hex()[:4000],
                     observed=(got or {"rc": rc, "stderr": se.decode(errors="replace")[-200:]}) if got is None else got[:300], expected=want[:300],
                     detail="`sfs view -O npy` on a file written by numpy does not give numpy's astype(float64) values back")
    # Fortran order is refused whatever the number of axes (a one-axis array is laid out the same in both orders, but numpy
    # never writes that header and the reader does not special-case it): hand-built, every version, several element types
    fcases = []
    for descr, code in (("<f8", "<d"), (">i2", ">h"), ("|u1", "B"), ("<i4", "<i")):
        for shape in ([5], [1], [2, 3], [1, 1], [3, 1]):
            n = 1
            for x in shape:
                n *= x
            for major in (1, 2, 3):
                dct = ("{'descr': '%s', 'fortran_order': True, 'shape': (%s), }" % (descr, "".join("%d, " % k for k in shape).rstrip() if len(shape) > 1 else "%d," % shape[0])).encode()
                lw = 2 if major == 1 else 4
                hdr = dct + b" " * ((-(6 + 2 + lw + len(dct) + 1)) % 64) + b"\n"
                b = b"\x93NUMPY" + bytes([major, 0]) + (_s2.pack("<H", len(hdr)) if major == 1 else _s2.pack("<I", len(hdr))) + hdr + b"".join(_s2.pack(code, 1 + k) for k in range(n))
                fcases.append("npyr %s" % b.hex()); fcases.append("read %s" % b.hex())
    mo_f, outs_f = compare_cases(rep, "fortran-order-refused", fcases, nontrivial=lambda c, m: True, classify=lambda c, m, i: "npy-reader:fortran", spec=True)
    for c, o in zip(dict.fromkeys(fcases), outs_f[False]):
        if not o.startswith("ERR"):
            rep.fail(kind="property-oracle", cls="npy-reader:fortran", case=c[:200], stdin_hex=c.split()[1], observed=o[:200], expected="ERR",
                     detail="an npy file declaring fortran_order True was read (Fortran-ordered files are rejected with an error, for any number of axes)")
    # reader: axes longer than 65535 entries (shape entries are 64-bit numbers), hand-built as numpy lays files out
    def mk_npy(descr, shape, payload, major=1):
        dct = ("{'descr': '%s', 'fortran_order': False, 'shape': (%s), }" % (descr, "".join("%d, " % n for n in shape).rstrip() if len(shape) > 1 else "%d," % shape[0])).encode()
        lw = 2 if major == 1 else 4
        hdr = dct + b" " * ((-(6 + 2 + lw + len(dct) + 1)) % 64) + b"\n"
        return b"\x93NUMPY" + bytes([major, 0]) + (_s2.pack("<H", len(hdr)) if major == 1 else _s2.pack("<I", len(hdr))) + hdr + payload
    f8bits = lambda x: "b%016x" % _s2.unpack("<Q", _s2.pack("<d", float(x)))[0]
    longs = []
    for n in (65535, 65536, 65537, 70000):
        vals_ = [(7 * i) % 251 for i in range(n)]
        longs.append((mk_npy("|u1", [n], bytes(vals_)), [n], vals_))
    vals_ = [(i % 2000) - 1000 for i in range(140002)]
    longs.append((mk_npy(">i2", [2, 70001], b"".join(_s2.pack(">h", v) for v in vals_), major=2), [2, 70001], vals_))
    vals_ = [i / 8.0 for i in range(65537)]
    longs.append((mk_npy("<f4", [65537, 1], b"".join(_s2.pack("<f", v) for v in vals_), major=3), [65537, 1], vals_))
    for (b, shp, vals_), o in zip(longs, run_impl(["npyr %s" % b.hex() for b, _, _ in longs])):
        rep.count("npy-reader-long-axis", "shape %s" % fmt(shp), True)
        want = "OK %s %s" % (fmt(shp), ",".join(f8bits(v) for v in vals_))          # every value is exactly representable
        if o != want:
            rep.fail(kind="property-oracle", cls="npy-reader:long-axis", case="npy file of shape %s" % fmt(shp), stdin_hex=b.hex()[:4000], observed=o[:200], expected=want[:200],
                     detail="an npy file with an axis longer than 65535 entries must be read like any other")
    # writer at the limit of the 2-byte header length field: spectra with thousands of axes of length 1 (numpy itself
    # stops at 32/64 axes, so these are compared with the model only): bytes below the limit, a refusal - with nothing
    # written - above it
    lim = ["npyw %s %s" % (",".join(["1"] * dd), tok(random_bits(rng))) for dd in [33, 5000, 21000] + list(range(21805, 21830)) + [22000, 30000]]
    mo_l, outs_l = compare_cases(rep, "npy-writer-header-length-limit", lim, nontrivial=lambda c, m: True,
                                 classify=lambda c, m, i: "npy-writer:header-length-limit", spec=True)
    rep.coverage["header_length_limit"] = {"accepted": sum(1 for m in mo_l if m != "ERR"), "refused": sum(1 for m in mo_l if m == "ERR")}
    # the binary writing npy to a file (-o) - a fresh path and a path that already holds a longer file - and to stdout: the
    # bytes must be exactly those of the library writer (which are compared with the model above and loaded by numpy below)
    from common import run_cli_many, text_spectrum
    oj, ometa = [], []
    # ... spectra of hundreds to thousands of fractional values among them: their bytes hold line feeds (3.25 is 0x400A000000000000)
    # and exceed the buffers standard output sits behind (a line-buffered 1 KiB writer, a 64 KiB pipe)
    for k, sh in enumerate([[3], [2, 3], [4, 1, 2], [9, 7], [300], [17, 19], [2100], [9000], [3, 3001]]):
        ivals = [str(rng.randrange(0, 1000)) for _ in range(elements(sh))]
        if elements(sh) >= 300:
            ivals = [str(rng.randrange(0, 1024) / 16) for _ in range(elements(sh))]
            for j in (0, 7, elements(sh) // 2, elements(sh) - 150):
                ivals[j] = "3.25"
        txt = text_spectrum(sh, ivals)
        fresh, stale = os.path.join(d, "o_fresh_%d.npy" % k), os.path.join(d, "o_stale_%d.npy" % k)
        open(stale, "wb").write(b"\x93NUMPY" + bytes(5000))
        oj += [(["view", "-O", "npy"], txt), (["view", "-O", "npy", "-o", fresh], txt), (["view", "-O", "npy", "-o", stale], txt), (["fold", "-o", stale + "t"], txt)]
        ometa.append((sh, ivals, fresh, stale))
    ores = run_cli_many(oj)
    import struct as _st
    want_l = run_impl(["npyw %s %s" % (fmt(sh), ",".join("b%016x" % _st.unpack("<Q", _st.pack("<d", float(v)))[0] for v in iv)) for sh, iv, _, _ in ometa])
    for k, ((sh, iv, fresh, stale), want) in enumerate(zip(ometa, want_l)):
        so = ores[4 * k][1]
        for name, got in (("stdout", so), ("-o fresh file", open(fresh, "rb").read() if os.path.exists(fresh) else b""), ("-o onto a longer existing file", open(stale, "rb").read())):
            rep.count("npy-output-destinations", "%s shape %s" % (name, fmt(sh)), True)
            if got.hex() != want:
                rep.fail(kind="property-oracle", cls="npy-writer:destination", case="view -O npy, %s, shape %s" % (name, fmt(sh)), argv=["sfs"] + oj[4 * k + 2][0],
                         stdin=oj[4 * k][1].decode(), observed="%d bytes: %s..." % (len(got), got.hex()[:200]), expected="%d bytes" % (len(want) // 2),
                         detail="npy output to %s is not exactly header + prod(shape) doubles as the library writes them" % name)
    # writer: numpy must load what sfs writes, for every header length modulo 64
    shapes, residues = shapes_all_header_lengths(rng)
    wcases = []
    for sh in shapes + [[3], [2, 3], [4, 1, 2], [1023], [1024], [1025], [2049], [33, 33], [8192], [8193], [3, 5000]]:
        vals = [random_bits(rng) for _ in range(elements(sh))]
        wcases.append((sh, vals))
    written = run_impl(["npyw %s %s" % (fmt(sh), ",".join(tok(v) for v in vals)) for sh, vals in wcases])
    script = ["import numpy as np, sys, struct, json"]
    paths = []
    for k, ((sh, vals), w) in enumerate(zip(wcases, written)):
        path = os.path.join(d, "sfs_%d.npy" % k)
        try:
            open(path, "wb").write(bytes.fromhex(w))
        except ValueError:
            rep.fail(kind="property-oracle", cls="npy-writer:failed", case="npyw %s" % fmt(sh), observed=w[:100], expected="npy bytes", detail="writer failed")
            continue
        paths.append((path, sh, vals))
    pyfile = os.path.join(d, "load.py")
    open(pyfile, "w").write("import numpy as np, sys, struct, json\nfor path in sys.argv[1:]:\n    try:\n        a = np.load(path)\n        raw = open(path,'rb').read()\n        hl = int.from_bytes(raw[8:10],'little')\n        print(json.dumps({'ok': True, 'shape': list(a.shape), 'dtype': a.dtype.str, 'fortran': bool(a.flags['F_CONTIGUOUS'] and not a.flags['C_CONTIGUOUS']), 'bits': ['%016x' % struct.unpack('<Q', struct.pack('<d', float(x)))[0] for x in a.ravel()], 'data_offset': 10 + hl, 'nl': raw[10+hl-1] == 10, 'ver': list(raw[6:8])}))\n    except Exception as e:\n        print(json.dumps({'ok': False, 'err': str(e)}))\n")
    pl = run(["python3-vt", pyfile] + [p_[0] for p_ in paths], timeout=600)
    lines = [json.loads(l) for l in pl.stdout.splitlines() if l.strip()]
    for (path, sh, vals), r in zip(paths, lines):
        rep.count("numpy-loads-sfs-output", "shape %s" % fmt(sh), True)
        isnan = lambda v: (v >> 52) & 0x7ff == 0x7ff and v & 0xfffffffffffff
        ok = r.get("ok") and r["shape"] == sh and r["dtype"] == "<f8" and r["data_offset"] % 64 == 0 and r["nl"] and r["ver"] == [1, 0] and \
            len(r["bits"]) == len(vals) and all(int(b, 16) == v or (isnan(int(b, 16)) and isnan(v)) for b, v in zip(r["bits"], vals))
        if not ok:
            rep.fail(kind="numpy-oracle", cls="npy-writer:numpy-load", case="npyw %s" % fmt(sh), stdin_hex=open(path, "rb").read().hex()[:2000],
                     observed=str(r)[:300], expected="numpy.load returns shape %s, '<f8', data at a multiple of 64, same values" % sh,
                     detail="numpy does not load the written file as the same array")
    shutil.rmtree(d, ignore_errors=True)
    rep.assumptions += ["numpy (tooling venv) is used only to produce and to read files: it supports the fidelity of the NPY spec in the model, "
                        "it is not part of the proof", "widening of f4 NaNs: only NaN-ness is compared (payload/quiet bit differ between numpy and x86 cvtss2sd)",
                        "the model rejects non-ASCII header bytes; valid UTF-8 after the closing brace (accepted by the implementation) is not generated"]


if __name__ == "__main__":
    sys.exit(standard_main("C15", check, sys.argv[1:], RULE, needs_cli=True))
