"""Regenerates MANIFEST.json from the table below (kept in one place so it stays valid)."""
import json, os
ROOT = os.path.dirname(os.path.dirname(os.path.abspath(__file__)))

EXTRACTION = ("Extraction: Require Extraction, ExtrOcamlBasic, ExtrOcamlNatBigInt, ExtrOcamlZBigInt (standard library "
              "files; their Extract Inductive/Constant directives map bool/option/list/prod/sumbool/unit to OCaml's and "
              "nat/positive/N/Z with their arithmetic to zarith's Big_int_Z); no other Extract directive. Extracted code is "
              "used only by the correspondence check; no theorem depends on it.")

TIE = ("Tie to code: correspondence check on every run - the extracted model and the implementation (sfs-core through the "
       "sfs-probe harness and/or the real `sfs` binary, rebuilt from /repo's working tree) run on the same generated inputs; "
       "a disagreement on a case covered by a theorem's hypotheses is reported with that input as replay. The constants the model "
       "relies on (npy ALIGN/MAGIC, text START, detection prefix length, BCF/gzip magic, factorial table bound) are translated from "
       "the Rust source on every run (py/gen_constants.py) and tied to the model by small generated obligations. ")
BASE_NOTE = ("Trusted: Coq 8.16.1 kernel (coqchk in the thorough tier), no axioms (every property theorem 'Closed under the global "
             "context', audited on every run); the hand-written Gallina model; the correspondence harness (sfs-probe, driver.ml, py/). "
             "the constants translator (regular expressions over the source). "
             "Modelled rather than verified: noodles (of which the GT parser and the BCF GT-vector conversion are modelled in Container.v and "
             "compared with the real readers; record framing, BGZF, header parsing are exercised only), flate2, clap, nom's combinator implementation, Rust std "
             "float formatting/parsing, libm; f64 rounding is bounded empirically (stated tolerances), theorems are in exact arithmetic. ")

def C(text, technique, design, note=""):
    return dict(text=text + " " + TIE, note=BASE_NOTE + note + " " + EXTRACTION, technique=technique, design=design)

CLAIMED = {
 "C01": C("Proof: the run loop without projection yields, for every in-bounds k, the number of records complete for every selected "
          "sample whose per-population ALT counts are k (create_counts), the shape (2n_j+1), unselected columns irrelevant, mass = "
          "counted records - for all configurations produced by the builder and all record streams, by induction.",
          "Rocq proof (fold invariants over the record stream) + model/binary differential on rendered VCF/BCF call sets", "7/C01",
          "The VCF/BCF bytes -> genotypes step is noodles: exercised, not proved."),
 "C02": C("Proof: with a projection target every covered record adds prod_j Hypergeom(k_j; t_j, a_j, m_j), uncovered ones nothing, the "
          "exact-coverage branch agrees (hyp_id), the per-site iterator enumerates the target index space in row-major order, "
          "-p i = --project-shape 2i+1.", "Rocq proof (odometer invariant, hypergeometric identities) + differential within 1e-9", "7/C02",
          "The f64 pmf kernel (exp/ln-gamma) is compared with the exact rational pmf, not proved."),
 "C03": C("Proof: Spectrum::project refines sum_k x[k] prod_j Hypergeom; mass, non-negativity, identity, two-step = direct "
          "(hyp_compose), commutation with marginalization, exact error characterisation; Vandermonde from mathcomp. All shapes, "
          "unbounded.", "Rocq proof (mathcomp binomial identities bridged to an N-valued binomial, Fubini) + kernel/spectrum differential", "7/C03",
          "Finite results at large sizes are asserted on the implementation (sizes up to 4001); no theorem about exp/ln."),
 "C04": C("Proof: marginalize = sums over all indices of the removed axes (remaining axes in order), order-free, one-at-a-time = "
          "joint, mass, exact error characterisation with precedence, keep = remove of complement.",
          "Rocq proof (indicator sums, Fubini over one axis, sortedness) + exact differential on integer data", "7/C04"),
 "C05": C("Proof: fold = x[k]+x[mirror k] below the diagonal, average on it, fill above; mass (fill 0), idempotence, polarity "
          "symmetry, for every shape of positive lengths.", "Rocq proof (flat/mirror bijection, pairing argument) + bit-exact differential on dyadic data", "7/C05"),
 "C06": C("Proof: histogram lemma; S, sum, pi, pi_xy, f2/f3/f4, Fst, KING/R0/R1 computed from the histogram spectrum equal the "
          "per-site definitions (differing chromosome pairs, allele-frequency products, genotype-pair counts); Watterson, Tajima pi, "
          "Tajima's D and Fu-Li's D (numerator and radicand) equal the published formulas.",
          "Rocq proof over Qc (histogram lemma, field) + `sfs stat` differential and an independent genotype-level oracle", "7/C06",
          "The square root of the D statistics is left symbolic (numerator, radicand)."),
 "C08": C("Proof: exact iff-characterisation of the four classes of a decoded GT; a selected non-diploid genotype fails the run at "
          "that record with its contig:position and no spectrum; unselected columns never matter; the VCF text path (noodles' GT parser "
          "written out) and the BCF binary path (int8 vector as htslib lays it out -> text -> the same parser) decode every genotype to its "
          "alleles and classify it alike, whatever the phasing and padding (the pre-repair disagreement on '.' is kept as a refutation).",
          "Rocq proof (case analysis, run-loop induction, parser round trip) + exhaustive GT alphabet through function, VCF and BCF paths, "
          "real readers on in-memory containers incl. hand-encoded BCF (mixed ploidy, '.', raw int8 vectors)", "7/C08",
          "Record framing around the GT value (VCF line splitting, BCF typed values) is noodles: exercised, not modelled."),
 "C09": C("Proof: population ids = position of first appearance of the label, axis lengths 2n+1, unnamed = one population, "
          "label-order-preserving reorderings and column permutations change nothing observable, empty/unknown are errors.",
          "Rocq proof (fold invariant of the IndexMap/IndexSet model, permutation invariance) + differential incl. -s vs -S on the binary", "7/C09"),
 "C10": C("Proof: mass + skipped = records for every stream (each counted record has weight exactly one: Vandermonde per axis), strict "
          "fails at the FIRST would-be-skipped record and otherwise equals the non-strict run, every error leaves no spectrum.",
          "Rocq proof (run-loop invariant) + faults placed at every record position on the binary", "7/C10"),
 "C11": C("Proof: the per-record result is independent of ALL prior states of the right dimensions (counts, totals, skipped, "
          "projection buffer); concatenation = element-wise sum; permutation invariance.",
          "Rocq proof (state relation, commutative-monoid sums) + site-class histories through site::Reader", "7/C11"),
 "C13": C("Proof: view_run = bind-chain of the single-option runs in the order marginalize > project > mask > normalize; mask zeroes "
          "exactly the all-zero/all-max entries; normalize sums to one preserving ratios; identity.",
          "Rocq proof + combined vs chained invocations through npy pipes (byte-identical) on the binary", "7/C13"),
 "C14": C("Proof: f3/f4 = documented f2 combinations of marginals; fold-invariance of pi, theta, S, Tajima's D, pi_xy, f2/f3/f4, Fst, "
          "KING, R0, R1; independence from the monomorphic entries; swap symmetry; homogeneity of degree 0/1.",
          "Rocq proof over Qc (mirror-symmetric weights, Fubini, field) + metamorphic runs of the binary", "7/C14"),
 "C19": C("Proof: flat<->multi-index bijection, row-major enumeration, get/get_axis None-iff, the view odometer for every call "
          "history (fusedness, len), iter_axis, sum = adding views - all shapes with positive lengths; "
          "and the 64-bit layer (Word.v / WordP.v): Array::new's checked element count never accepts a wrapped product, "
          "Shape::strides never overflows, and on every accepted array the usize computation of the flat index never overflows and is "
          "the unbounded model's (refinement).",
          "Rocq proof (induction on shapes, odometer invariant) + exhaustive small-shape differential", "7/C19",
          "Zero-length axes are outside the theorems (positive_shape)."),
}


CLAIMED.update({
 "C07": C("Proof: npy write/read round trip is bit-identical for every 64-bit pattern (NaN payloads, infinities) and every non-empty shape; "
          "written files are auto-detected and read back; text: shape line round-trips, reading back yields value-by-value the parse of "
          "what was printed, printed digits = round-half-even(value*10^p) within half a unit of the p-th decimal; specials survive.",
          "Rocq proof about a byte-level model (nom grammar, LE words, decimal printer) + exact differential (bytes, strings, bit patterns)", "7/C07",
          "Rust's `{:.p}` and f64::from_str are modelled by executable stand-ins (print_fixed, parse_f64) compared with Rust on every run "
          "(20k-200k values, exact); the 'at most 15 significant digits' re-print claim is checked on the implementation, not proved."),
 "C15": C("Proof: for every shape the written header is magic, version 1.0, LE u16 length, the dict, spaces, a terminating newline, with "
          "the data offset a multiple of 64 (pad 1..64); the dict parses (by the reader's own grammar) to '<f8', C order and the exact "
          "shape; integers up to 2^53 convert exactly; Fortran-ordered files are rejected.",
          "Rocq proof about the writer/reader model + numpy (tooling venv) as producer and consumer of files over the full dtype x order x version x spelling matrix", "7/C15",
          "numpy is used only to write and read files; integer rounding above 2^53 and f4 widening are validated against numpy and Rust, not proved."),
 "C16": C("Proof: every strict prefix and every non-empty extension of a written npy file is rejected; npy, text and auto-detected input "
          "are accepted only when the value count equals the product of the shape (and no axis has length zero); inputs shorter than "
          "the magic have no format.", "Rocq proof (case analysis on the cut position) + exhaustive truncation/extension per file, text edits, binary exit status", "7/C16"),
 "C18": C("Proof (partial): std's read_exact / read_to_end loops, the npy value loop and the whole npy reader over ANY chunk schedule "
          "equal the whole-buffer result; a source failing at any offset before the end yields an error; write_all completes short "
          "writes and surfaces failures; the repaired container detection sees the same 64 KiB prefix for every schedule (the "
          "unrepaired first-fill_buf detection is refuted by a 1-byte first chunk).",
          "Rocq proof about a stream model (reader/writer schedules, failure offsets) + chunk-scheduled BufRead/Write through the verif hook and real pipes", "7/C18",
          "Partial: what noodles does between fill_buf calls (record parsing, inflate, BGZF worker threads) is exercised through the "
          "chunked stream, not modelled."),
 "C12": C("Proof (partial): container detection is transport-independent and follows from the magic numbers; shape and population ids are "
          "functions of the sample list only (no hash order); column order of the container is irrelevant; a genotype, and a whole record "
          "padded to its widest genotype, is classified alike from VCF text and from the BCF vector. Exercised: the same call "
          "set as VCF, BGZF VCF (8 block layouts incl. empty / tiny / maximum-length stored first blocks), BGZF BCF, raw BCF (noodles' writer and a "
          "hand-written htslib-layout encoder) x path / stdin / stdin trickled in short writes x threads 1..16 x repeated runs give "
          "byte-identical stdout, equal to the model's.",
          "Rocq proof of the modelled logic + implementation-vs-implementation and vs-model runs across containers/transports/threads", "7/C12",
          "Partial: decoding, inflate and worker-thread scheduling live in noodles/flate2: sampled, not proved."),
 "C17": C("Proof (partial): the panic skeleton of fold / stat (all 14) / view (Model/Panic.v: every unsigned subtraction, division, "
          "index and panicking constructor with its source site) never reaches Panic on any spectrum the readers accept, for every "
          "shape, statistic and option value; the readers guarantee count, no zero-length axis, no format for short inputs.",
          "Rocq proof about a panic skeleton + grid/bounds/mutation runs of the binary (exit 101, 'panicked at', signals)", "7/C17",
          "Partial: clap, the VCF/BCF/BGZF decoders (noodles) and allocation are not modelled; mutated call-set bytes (incl. EVERY single-bit "
          "flip of a BCF's record region) are support only; three panics inside noodles-bcf 0.32 reached that way are open known findings "
          "F19-F21 (known_findings.json, DESIGN 13.3). The skeleton is hand-written from the repaired sources; its fidelity is supported by the grid runs in debug "
          "(overflow checks on)."),
})

NOT_YET = {}

def main():
    props = [json.loads(l) for l in open(os.path.join(ROOT, "properties.jsonl"))]
    checks = []
    na = []
    for p in props:
        pid = p["id"]
        if pid in CLAIMED:
            c = CLAIMED[pid]
            checks.append({
                "property_id": pid,
                "quick_cmd": "bin/check %s --tier quick" % pid,
                "thorough_cmd": "bin/check %s --tier thorough" % pid,
                "evidence_file": "/verif/evidence/%s.json" % pid,
                "replay_cmd_template": "bin/check replay %s {path}" % pid,
                "engine": "rocq-model-correspondence",
                "level_claimed": {"category": c.get("category", "proof"), "text": c["text"], "design_ref": "DESIGN.md section " + c["design"]},
                "level_note": c["note"],
                "technique": c["technique"],
            })
        else:
            na.append({"property_id": pid, "reason": NOT_YET.get(pid, "check not built yet in this commit (work in progress; see DESIGN.md section 11 for the order of work)")})
    m = {
        "version": 1,
        "setup_cmd": "bin/setup",
        "hooks": {
            "guard": "cargo feature `verif` on sfs-core",
            "enable": "cargo build --features verif (harness crate /verif/harness enables sfs-core/verif); the sfs binary is built without hooks",
            "baseline_off_cmd": "cd /repo && cargo test --workspace --no-fail-fast --offline",
            "source_commits": ["114c126"],
            "add_only": True,
        },
        "engines": [{"name": "rocq-model-correspondence", "path": "/verif/bin/check",
                     "serves_properties": sorted(CLAIMED),
                     "kind_free_text": "Rocq (Coq 8.16) theorems about a hand-written Gallina model + correspondence check "
                                       "(extracted OCaml model vs sfs-core / sfs built from /repo's working tree)"}],
        "checks": checks,
        "not_applicable": na,
        "notes": "Genuine defects repaired by fix: commits are listed in known_findings.json (status fixed, 17 of them); three open "
                 "findings (panics inside noodles-bcf on unusual / corrupt BCF, property C17) are listed there with status open, "
                 "identified by panic site, replays under findings/. "
                 "Every check rebuilds the harness and the sfs binary from /repo's working tree (cargo, incremental).",
    }
    json.dump(m, open(os.path.join(ROOT, "MANIFEST.json"), "w"), indent=1)

if __name__ == "__main__":
    main()
