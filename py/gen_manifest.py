"""Regenerates MANIFEST.json from the table below (kept in one place so it stays valid)."""
import json, os
ROOT = os.path.dirname(os.path.dirname(os.path.abspath(__file__)))

EXTRACTION = ("Extraction: Require Extraction, ExtrOcamlBasic, ExtrOcamlNatBigInt, ExtrOcamlZBigInt (standard library "
              "files; their Extract Inductive/Constant directives map bool/option/list/prod/sumbool/unit to OCaml's and "
              "nat/positive/N/Z with their arithmetic to zarith's Big_int_Z); no other Extract directive. Extracted code is "
              "used only by the correspondence check; no theorem depends on it.")

CLAIMED = {
 "C19": dict(
    text="Proof: 11 theorems (Properties/C19.v, all 'Closed under the global context') about an executable Gallina model of "
         "Array/View/AxisIter/IndicesIter: flat<->multi-index bijection, row-major enumeration, get/get_axis None-iff, "
         "the view odometer for every call history (fusedness, len), iter_axis, sum = adding views - for all shapes with "
         "positive lengths, unbounded. Tie to code: correspondence of the extracted model with sfs-core's API on every "
         "shape in the bound (ramp data identifies positions), debug and release.",
    note="Trusted: Coq kernel; hand-written model (coq/theories/Model/{Index,ArrayM}.v); correspondence harness (sfs-probe, "
         "driver.ml, py/). Zero-length axes are outside the theorems (positive_shape hypothesis). " + EXTRACTION,
    technique="Rocq proof (induction on shapes, odometer invariant) + extracted-model/implementation differential check",
    design="7/C19"),
}

NOT_YET = {}

def main():
    props = [json.loads(l) for l in open(os.path.join(ROOT, "properties.jsonl"))]
    checks = []
    na = []
    for p in props:
        pid = p["id"]
        if pid in CLAIMED:
            c = CLAIMED[pid]
            checks.append({
                "property_id": pid,
                "quick_cmd": "bin/check %s --tier quick" % pid,
                "thorough_cmd": "bin/check %s --tier thorough" % pid,
                "evidence_file": "/verif/evidence/%s.json" % pid,
                "replay_cmd_template": "bin/check replay %s {path}" % pid,
                "engine": "rocq-model-correspondence",
                "level_claimed": {"category": c.get("category", "proof"), "text": c["text"], "design_ref": "DESIGN.md section " + c["design"]},
                "level_note": c["note"],
                "technique": c["technique"],
            })
        else:
            na.append({"property_id": pid, "reason": NOT_YET.get(pid, "check not built yet in this commit (work in progress; see DESIGN.md section 11 for the order of work)")})
    m = {
        "version": 1,
        "setup_cmd": "bin/setup",
        "hooks": {
            "guard": "cargo feature `verif` on sfs-core",
            "enable": "cargo build --features verif (harness crate /verif/harness enables sfs-core/verif); the sfs binary is built without hooks",
            "baseline_off_cmd": "cd /repo && cargo test --workspace --no-fail-fast --offline",
            "source_commits": ["114c126"],
            "add_only": True,
        },
        "engines": [{"name": "rocq-model-correspondence", "path": "/verif/bin/check",
                     "serves_properties": sorted(CLAIMED),
                     "kind_free_text": "Rocq (Coq 8.16) theorems about a hand-written Gallina model + correspondence check "
                                       "(extracted OCaml model vs sfs-core / sfs built from /repo's working tree)"}],
        "checks": checks,
        "not_applicable": na,
        "notes": "Genuine defects repaired by fix: commits are listed in known_findings.json (status fixed). "
                 "Every check rebuilds the harness and the sfs binary from /repo's working tree (cargo, incremental).",
    }
    json.dump(m, open(os.path.join(ROOT, "MANIFEST.json"), "w"), indent=1)

if __name__ == "__main__":
    main()
