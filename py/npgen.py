"""Run under python3-vt (numpy): writes .npy test files as numpy lays them out, with header spelling variants, and
prints one JSON line per file: {path, dtype, order, version, variant, shape, f64bits:[...]} where f64bits are the values
numpy converts to float64. Usage: npgen.py OUTDIR SEED COUNT_PER_CELL"""
import io
import json
import os
import struct
import sys

import numpy as np

outdir, seed, per = sys.argv[1], int(sys.argv[2]), int(sys.argv[3])
rng = np.random.default_rng(seed)
os.makedirs(outdir, exist_ok=True)
DT = ["f4", "f8", "i1", "i2", "i4", "i8", "u1", "u2", "u4", "u8"]


def boundary(dt):
    k = np.dtype(dt)
    if k.kind == "f":
        fi = np.finfo(k)
        return [0.0, -0.0, 1.0, -1.5, float(fi.max), float(fi.tiny), float(fi.tiny) / 4, float("inf"), float("-inf"), float("nan"), 0.1, 1e-7, 123456.789]
    ii = np.iinfo(k)
    vals = [0, 1, ii.max, ii.min, ii.max - 1]
    if ii.min < 0:
        vals += [-1, ii.min + 1]
    if k.itemsize == 8:
        vals += [2**53, 2**53 + 1, 2**53 - 1, 2**53 + 2, 2**62 + 3]
        if ii.min < 0:
            vals += [-(2**53) - 1, -(2**53) - 2]
        else:
            vals += [2**63 + 1025, 2**64 - 1, 2**64 - 1025]
    return vals


def header_variant(h, variant):
    """h: numpy's own header dict text (bytes, padded, newline-terminated) -> respelled, same meaning"""
    s = h.decode("latin1").rstrip(" \n")
    if variant == "numpy":
        return s
    if variant == "doublequote":
        return s.replace("'", '"')
    if variant == "spaces":
        return s.replace(":", "  :   ").replace(", '", " ,  '")
    if variant == "nospaces":
        return s.replace(": ", ":").replace(", ", ",")
    if variant == "reordered":
        import ast
        d = ast.literal_eval(s)
        return "{'shape': %r, 'fortran_order': %r, 'descr': %r}" % (d["shape"], d["fortran_order"], d["descr"])
    if variant == "notrailing":
        return s.replace(", }", "}")
    if variant == "tabs":
        return s.replace(": ", ":\t")
    return s


def build(dt, order, version, variant, shape, arr):
    bio = io.BytesIO()
    np.lib.format.write_array(bio, arr, version=version)
    raw = bio.getvalue()
    hl_size = 2 if version == (1, 0) else 4
    hlen = int.from_bytes(raw[8:8 + hl_size], "little")
    hdr = raw[8 + hl_size:8 + hl_size + hlen]
    data = raw[8 + hl_size + hlen:]
    text = header_variant(hdr, variant)
    total = 8 + hl_size + len(text) + 1
    # numpy up to 1.13 (and NEP 1) align the data to 16 bytes, not 64; a hand-written header may not pad at all
    align = 16 if variant == "align16" else (1 if variant == "unpadded" else 64)
    pad = (align - total % align) % align
    text = text + " " * pad + "\n"
    return raw[:8] + len(text).to_bytes(hl_size, "little") + text.encode("latin1") + data


n = 0
for dt in DT:
    for order in ("<", ">", "|"):
        size = np.dtype(dt).itemsize
        if order == "|" and size != 1:
            continue
        if order != "|" and size == 1 and order == ">":
            pass
        for version in ((1, 0), (2, 0), (3, 0)):
            variants = ["numpy", "doublequote", "spaces", "nospaces", "reordered", "notrailing", "tabs", "align16", "unpadded"]
            for variant in (variants if version == (1, 0) else ["numpy", "doublequote", "align16"]):
                for rep in range(per):
                    vals = boundary(dt)
                    k = np.dtype(dt)
                    extra = 6
                    if k.kind == "f":
                        vals = vals + list(rng.normal(size=extra) * 10.0 ** rng.integers(-5, 6, size=extra))
                        arr = np.array(vals, dtype=k)
                    else:
                        ii = np.iinfo(k)
                        vals = vals + [int(x) for x in rng.integers(ii.min, ii.max, size=extra, dtype=k, endpoint=True)]
                        arr = np.array(vals, dtype=k)
                    shape = (len(vals),) if rep % 2 == 0 or len(vals) % 2 else (2, len(vals) // 2)
                    arr = arr.reshape(shape)
                    arr = arr.astype(np.dtype(order.replace("|", "=") + dt) if size > 1 else k)
                    if n % 2 == 1:
                        # the first byte(s) of the data equal to a space or a line feed (what pads and ends the header)
                        raw = bytearray(arr.tobytes())
                        k0 = 1 if n % 4 == 1 else min(len(raw), size)
                        raw[:k0] = (b" " if n % 8 < 4 else b"\n") * k0
                        arr = np.frombuffer(bytes(raw), dtype=arr.dtype).reshape(shape)
                    if n % 3 == 2:
                        # ... and the LAST byte of the data equal to an ASCII whitespace code (nothing is trimmed off a binary file)
                        raw = bytearray(arr.tobytes())
                        raw[-1] = [0x0a, 0x20, 0x0d, 0x09, 0x0c][(n // 3) % 5]
                        arr = np.frombuffer(bytes(raw), dtype=arr.dtype).reshape(shape)
                    b = build(dt, order, version, variant, shape, arr)
                    if size == 1 and order in ("<", ">"):
                        # numpy writes '|i1'; respell the byte order explicitly
                        b = b.replace(b"|" + dt.encode(), order.encode() + dt.encode(), 1)
                    path = os.path.join(outdir, "np_%05d.npy" % n)
                    open(path, "wb").write(b)
                    with np.errstate(all="ignore"):
                        f = np.load(path).astype(np.float64).ravel()
                    bits = [struct.unpack("<Q", struct.pack("<d", float(x)))[0] for x in f]
                    print(json.dumps({"path": path, "dtype": dt, "order": order, "version": version[0], "variant": variant,
                                      "shape": list(shape), "bits": ["%016x" % x for x in bits]}))
                    n += 1
# rejected families: Fortran order, unsupported dtypes
for k, arr in enumerate([np.asfortranarray(np.arange(6, dtype="f8").reshape(2, 3)), np.arange(4, dtype="c16"), np.array([True, False]),
                         np.arange(3, dtype="f2"), np.array(["ab", "cd"]), np.arange(4, dtype="<i8").astype("timedelta64[s]")]):
    path = os.path.join(outdir, "np_reject_%d.npy" % k)
    np.save(path, arr)
    print(json.dumps({"path": path, "reject": True, "what": str(arr.dtype) + ("/F" if k == 0 else "")}))
