"""C07 - spectrum files round-trip through text and npy; the tool reads what it writes."""
import itertools
import os
import random
import sys
from fractions import Fraction

from common import compare_cases, standard_main, run_impl, run_model, run_cli_many, WORK, is_panic, parse_text_spectrum, text_spectrum
from floats import bits, unbits, tok, frac, is_finite, SPECIAL, random_bits

RULE = ("(a) npy writer and reader vs the proved byte-level model: shapes with 1-6 axes chosen so that EVERY header length "
        "modulo 64 occurs, values over all f64 classes (random bit patterns, subnormal, huge, negative, +-0, NaN with "
        "payloads, +-inf): written bytes compared exactly, read-back values bit-identical; (b) the executable stand-ins for "
        "std's `{:.p}` and f64::from_str vs Rust: quick 20k / thorough 200k values x precision 0..17, exact strings and "
        "bit patterns; text writer/reader vs the model; (c) on the implementation: text round trip |y - x| <= 0.5*10^-p + "
        "0.5 ulp(y) for finite x, specials survive; text -> npy -> text reproduces the text when the printed values have <= "
        "15 significant digits; (d) on the binary: output of create|view|fold in both formats, to a file and to a pipe, is "
        "accepted by view|fold|stat with auto-detection. non-trivial = value not 0 / shape with >= 2 axes; spectra of 65537 and 2^20+1 entries through view, text and npy; values an ulp from a decimal tie at precisions 0-4; npy through a pipe with line-feed bytes in the payload; writer refusal at 21810 axes")


def fmt(l):
    return ",".join(map(str, l)) if l else "-"


def elements(sh):
    n = 1
    for x in sh:
        n *= x
    return n


def shapes_all_header_lengths(rng):
    """shapes whose header dict lengths cover every residue modulo 64: the dict is 56 bytes plus the text 'a, b, c' of the
    shape; with t axes of length 10 and d-t axes of length 1 that text has 3d-2+t bytes and the array 10^t elements"""
    out = {}
    for L in range(1, 80):
        t = (L + 2) % 3
        d = (L + 2 - t) // 3
        if d < max(1, t):
            continue
        sh = [10] * t + [1] * (d - t)
        rng.shuffle(sh)
        assert len(", ".join(map(str, sh))) == L
        out.setdefault((10 + 56 + L) % 64, sh)
    return [out[r] for r in sorted(out)], sorted(out)


def check(rep, tier, seed):
    rng = random.Random(seed)
    shapes, residues = shapes_all_header_lengths(rng)
    rep.coverage["header_length_residues_mod_64"] = len(residues)
    shapes = [sh for sh in shapes if elements(sh) <= 20000]
    rep.coverage["header_length_residues_written"] = len(shapes)
    cases_w, cases_t = [], []
    # sizes around the block sizes a buffering writer might use (1024 and 8192 values = 8 and 64 KiB)
    blocky = [[1023], [1024], [1025], [2048], [2049], [33, 33], [8192], [8193], [3, 5000], [21, 21, 21]] if True else []
    for sh in shapes + [[3], [2, 3], [1, 1, 1, 1, 1, 2]] + blocky:
        vals = [random_bits(rng) for _ in range(elements(sh))]
        cases_w.append("npyw %s %s" % (fmt(sh), ",".join(tok(v) for v in vals) if vals else "-"))
        if elements(sh) <= 300:
            for p in rng.sample(range(0, 18), 3):
                cases_t.append("textw %s %d %s" % (fmt(sh), p, ",".join(tok(v) for v in vals)))
        elif sh in ([1025], [8193], [33, 33]):
            cases_t.append("textw %s %d %s" % (fmt(sh), rng.choice([0, 2, 6]), ",".join(tok(v) for v in vals)))     # long value lines too
    # files whose LAST byte (the top byte of the last little-endian double) is an ASCII control / space code, and whose first
    # value bytes look like text: nothing about a binary file may be trimmed or sniffed beyond the magic
    for top in (0x09, 0x0a, 0x0c, 0x0d, 0x20, 0x00, 0x23):
        for sh in ([3], [2, 2]):
            vals = [random_bits(rng) for _ in range(elements(sh) - 1)] + [(top << 56) | rng.getrandbits(56)]
            cases_w.append("npyw %s %s" % (fmt(sh), ",".join(tok(v) for v in vals)))
    # negative zero, and negatives so small that they print as -0.000..., at the first and at later positions
    NEGZ = 1 << 63
    for sh in ([4], [2, 3]):
        for _ in range(2):
            vals = [rng.choice([NEGZ, 0, NEGZ | random_bits(rng, "small") >> 12 if False else NEGZ, 0x3ff0000000000000, 0xbe112e0be826d695, 0x3e112e0be826d695, random_bits(rng)]) for _ in range(elements(sh))]
            cases_w.append("npyw %s %s" % (fmt(sh), ",".join(tok(v) for v in vals)))
            for p_ in (0, 3, 6, 9):
                cases_t.append("textw %s %d %s" % (fmt(sh), p_, ",".join(tok(v) for v in vals)))
    # decimal fractions that lie within an ulp or two of a rounding boundary of the printed precision without being exact
    # binary ties (0.15 and 0.35 at one decimal, 1.115 and 2.675 at two, k/20 and k/200 as normalising or projecting counts
    # produces them): printed as the decimal nearest to the EXACT binary value
    import struct as _stq
    fb = lambda x: _stq.unpack("<Q", _stq.pack("<d", x))[0]
    near = [0.15, 0.35, 0.45, 1.15, 0.05, 0.25, 0.55, 1.115, 2.675, 1.005, 0.125, 0.375, 8.345, 1.0005, 0.0015, 2.5, 0.5, 1.5] + [k / 20.0 for k in range(1, 20, 2)] + [k / 200.0 for k in range(1, 60, 6)]
    for p_ in (0, 1, 2, 3, 4):
        for i_ in range(0, len(near), 6):
            chunk = near[i_:i_ + 6] + [-near[i_]]
            cases_t.append("textw %d %d %s" % (len(chunk), p_, ",".join(tok(fb(v)) for v in chunk)))
    # spectra with so many axes that the header no longer fits the 2-byte length field of NPY 1.0: the writer refuses (an
    # error value, model: write_npy_checked = None) - the hypothesis header_len < 65536 of the round-trip theorems, at its edge
    for dd in (21800, 21809, 21810, 22000):
        cases_w.append("npyw %s %s" % (",".join(["1"] * dd), tok(random_bits(rng))))
    mo, outs = compare_cases(rep, "npy-writer", cases_w, nontrivial=lambda c, m: "," in c.split()[1],
                             classify=lambda c, m, i: "npy-writer:" + ("panic" if "PANIC" in i else "bytes"), spec=True, both_builds=(tier == "thorough"))
    # read back what the implementation wrote, with the implementation and with the model
    written = [(c, o) for c, o in zip(dict.fromkeys(cases_w), outs[False]) if "PANIC" not in o and o and not o.startswith("<") and not o.startswith("ERR")]      # a refusal (header too long) writes nothing
    rb = ["npyr %s" % o for c, o in written]
    mo2, outs2 = compare_cases(rep, "npy-reader-on-written", rb, nontrivial=lambda c, m: True,
                               classify=lambda c, m, i: "npy-roundtrip", spec=True)
    for (c, o), back in zip(written, outs2[False]):
        want = "OK %s %s" % (c.split()[1], c.split()[2])
        if back != want:
            rep.fail(kind="property-oracle", cls="npy-roundtrip", case=c[:300], observed=back[:300], expected=want[:300],
                     detail="reading back the written npy file does not return bit-identical shape and values")
    mo_t, outs_t = compare_cases(rep, "text-writer", cases_t, nontrivial=lambda c, m: True, classify=lambda c, m, i: "text-writer", spec=True)
    # the auto-detecting reader (the real read::Builder path: file -> read_to_end -> detect -> parse -> checks) on everything
    # the writers produced, npy and text, every shape incl. axes of length 1: must accept, and agree with the model
    produced = [o for c, o in written] + [o for o in outs_t[False] if o and all(ch in "0123456789abcdef" for ch in o)]
    rd_cases = ["read %s" % o for o in produced]
    mo_r, outs_r = compare_cases(rep, "reader-on-own-output", rd_cases, nontrivial=lambda c, m: m.startswith("OK"),
                                 classify=lambda c, m, i: "reads-what-it-writes:library", spec=True)
    for c, o in zip(dict.fromkeys(rd_cases), outs_r[False]):
        if not o.startswith("OK"):
            rep.fail(kind="property-oracle", cls="reads-what-it-writes:library", case=c[:200], stdin_hex=c.split()[1][:4000], observed=o[:100],
                     expected="OK <shape> <values>", detail="a file written by the tool is rejected by the tool's auto-detecting reader")

    # what the tool wrote, handed back to view / fold / stat in every form an input can take (stdin, path, /dev/stdin, a
    # named pipe; output on stdout or -o): the same bytes must come out
    from common import invocation_variants
    small = [bytes.fromhex(o) for o in produced if len(o) < 6000]
    vj = []
    for b in rng.sample(small, min(len(small), 6 if tier == "quick" else 40)):
        vj += [(["view", "--precision", "4"], b), (["view", "-O", "npy"], b), (["fold", "-p", "3"], b), (["stat", "-s", "sum"], b)]
    invocation_variants(rep, "reads-what-it-writes:invocation-form", vj, rng, n=10 if tier == "quick" else 80)
    # npy written to STDOUT (a pipe: std's line-buffered handle) whose payload holds line-feed bytes (3.25, 2053.0) followed by
    # more than a buffer's worth of values: every byte arrives, and the tool reads its own output back
    import struct as _stn
    for nvals, special in ((300, {0: 3.25}), (2000, {5: 2053.0, 700: 3.25}), (1500, {1499: 3.25}), (140, {3: 3.25})):
        vv = [float((7 * i) % 50) for i in range(nvals)]
        for k_, x_ in special.items():
            vv[k_] = x_
        txt_in = text_spectrum([nvals], [repr(x) for x in vv])
        (rc_a, so_a, se_a), = run_cli_many([(["view", "-O", "npy"], txt_in)])
        rep.count("npy-to-stdout-with-line-feeds", "%d values" % nvals, True)
        hl_ = _stn.unpack("<H", so_a[8:10])[0] if len(so_a) > 10 else 0
        payload = so_a[10 + hl_:]
        want_p = b"".join(_stn.pack("<d", x) for x in vv)
        (rc_b, so_b, se_b), = run_cli_many([(["view", "--precision", "2"], so_a)])
        want_t = text_spectrum([nvals], ["%.2f" % x for x in vv])
        if rc_a != 0 or payload != want_p or rc_b != 0 or so_b != want_t:
            rep.fail(kind="property-oracle", cls="reads-what-it-writes:npy-stdout", case="view -O npy to a pipe, %d values with line-feed bytes at %s" % (nvals, sorted(special)),
                     argv=["sfs", "view", "-O", "npy"], stdin=txt_in.decode()[:4000], observed={"rc": [rc_a, rc_b], "payload bytes": len(payload), "stderr": (se_a + se_b).decode(errors="replace")[-200:]},
                     expected={"payload bytes": len(want_p)}, detail="npy output through stdout is incomplete or is not read back by the tool")
    # stand-ins for std formatting / parsing vs Rust
    n = 20000 if tier == "quick" else 200000
    fcases, pcases = [], []
    for k in range(n):
        b = random_bits(rng) if k >= len(SPECIAL) * 18 else SPECIAL[k // 18]
        p = rng.randrange(0, 18) if k >= len(SPECIAL) * 18 else k % 18
        fcases.append("fmt %s %d" % (tok(b), p))
    mo3, outs3 = compare_cases(rep, "std-format-standin", fcases, nontrivial=lambda c, m: True,
                               classify=lambda c, m, i: "oracle:fmt_fixed", spec=False)
    strings = list(dict.fromkeys(o[1:] for o in outs3[False] if o.startswith("S") and len(o) < 700))
    extra = ["1e5", "1E-3", ".5", "5.", "+1.25", "-0", "inf", "-Infinity", "nan", "NaN", "1e400", "1e-400", "4.9e-324", "2.4703282292062327e-324",
             "2.4703282292062328e-324", "1.7976931348623157e308", "1.7976931348623159e308", "0.1", "123456789012345678901234567890", "", ".", "e5", "1e",
             "1_000", "0x10", " 1", "1 ", "--1", "+-1", "1.2.3", "9007199254740993", "9007199254740992.5", "0.30000000000000004"]
    pcases = ["parse %s" % s for s in strings[: (8000 if tier == "quick" else 80000)]] + ["parse %s" % (x.encode().hex() or "-") for x in extra]
    compare_cases(rep, "std-parse-standin", pcases, nontrivial=lambda c, m: m != "ERR", classify=lambda c, m, i: "oracle:parse_f64", spec=False)

    # (c) text round-trip bound on the implementation
    bound_cases = []
    for _ in range(300 if tier == "quick" else 3000):
        vals = [random_bits(rng, rng.choice(["small", "int", "dec", "tie", "any", "special"])) for _ in range(6)]
        p = rng.randrange(0, 18)
        bound_cases.append(([6], p, vals))
    tw = run_impl(["textw 6 %d %s" % (p, ",".join(tok(v) for v in vals)) for sh, p, vals in bound_cases])
    rd = run_impl(["read %s" % t for t in tw])
    for (sh, p, vals), t, r in zip(bound_cases, tw, rd):
        rep.count("text-roundtrip-bound", "textw 6 %d %s" % (p, ",".join(tok(v) for v in vals)), True)
        parts = r.split()
        if len(parts) != 3 or parts[0] != "OK" or parts[1] != "6":
            # values too large for p decimals are still printed exactly; a failure to read back is a violation
            rep.fail(kind="property-oracle", cls="text-roundtrip:unreadable", case="textw 6 %d %s" % (p, ",".join(tok(v) for v in vals)),
                     observed=r[:200], expected="OK 6 ...", detail="the tool cannot read the text it wrote: " + bytes.fromhex(t).decode(errors="replace")[:200])
            continue
        for v, yb in zip(vals, parts[2].split(",")):
            y = int(yb[1:], 16)
            if not is_finite(v):
                isnan = (v & 0xfffffffffffff) != 0
                if (isnan and not ((y >> 52) & 0x7ff == 0x7ff and (y & 0xfffffffffffff))) or (not isnan and y != v):
                    rep.fail(kind="property-oracle", cls="text-roundtrip:special", case="%s p=%d" % (tok(v), p), observed=yb, expected=tok(v), detail="NaN/inf lost in the text round trip")
                continue
            x, yv = frac(v), frac(y) if is_finite(y) else None
            if yv is None:
                rep.fail(kind="property-oracle", cls="text-roundtrip:bound", case="%s p=%d" % (tok(v), p), observed=yb, expected="finite", detail="finite value read back as non-finite")
                continue
            ulp = abs(frac(y + 1) - yv) if is_finite(y + 1) else Fraction(0)
            if abs(yv - x) > Fraction(1, 2 * 10**p) + ulp / 2:
                rep.fail(kind="property-oracle", cls="text-roundtrip:bound", case="%s p=%d" % (tok(v), p), observed=yb,
                         expected="within 0.5*10^-%d (+0.5ulp) of %s" % (p, tok(v)), detail="text round trip moved a value by more than half a unit of the p-th decimal")
    # text -> npy -> text at the same precision (<= 15 significant digits)
    t2 = []
    for _ in range(200 if tier == "quick" else 2000):
        p = rng.randrange(0, 10)
        vals = [str(Fraction(rng.randrange(0, 10 ** (15 - p)), 10 ** p).__float__().__format__(".%df" % p)) for _ in range(4)]
        t2.append((p, vals))
    texts = [text_spectrum([4], vals).hex() for p, vals in t2]
    r1 = run_impl(["read %s" % t for t in texts])
    w1 = run_impl(["npyw 4 %s" % r.split()[2] if r.startswith("OK") else "npyw 4 -" for r in r1])
    r2 = run_impl(["npyr %s" % w for w in w1])
    w2 = run_impl(["textw 4 %d %s" % (p, r.split()[2]) if r.startswith("OK") else "textw 4 0 -" for (p, vals), r in zip(t2, r2)])
    for (p, vals), t, back in zip(t2, texts, w2):
        rep.count("text-npy-text", "p=%d %s" % (p, " ".join(vals)), True)
        if back != t:
            rep.fail(kind="property-oracle", cls="text-npy-text", case="p=%d %s" % (p, " ".join(vals)), observed=bytes.fromhex(back).decode(errors="replace")[:200] if all(c in "0123456789abcdef" for c in back) else back,
                     expected=bytes.fromhex(t).decode(), detail="text -> npy -> text at the same precision does not reproduce the text (<= 15 significant digits)")

    # (d) the binary reads what it writes: formats x file/pipe x producer x consumer
    os.makedirs(WORK, exist_ok=True)
    from callsets import render_vcf
    vcf = render_vcf(["a", "b", "c"], [["0/1", "1/1", "0/0"], ["0/0", "0/1", "1/1"], ["1/1", "1/1", "0/1"], ["0/1", "0/0", "0/0"]])
    prod = {"create": (["create", "-s", "a=A,b=A,c=B"], vcf)}
    base = run_cli_many([prod["create"]])[0][1]
    jobs, labels = [], []
    for fmtname in ("text", "npy"):
        for producer in ("view", "fold"):
            pargv = [producer] + (["-O", fmtname] if producer == "view" else [])
            if producer == "fold" and fmtname == "npy":
                continue    # fold has no npy output option
            for via in ("pipe", "file"):
                path = os.path.join(WORK, "c07_%s_%s_%s" % (producer, fmtname, via))
                if via == "file":
                    r = run_cli_many([(pargv + ["-o", path], base)])[0]
                    data = open(path, "rb").read() if os.path.exists(path) else b""
                else:
                    data = run_cli_many([(pargv, base)])[0][1]
                for consumer in (["view"], ["fold", "--fill", "zero"], ["stat", "-s", "sum,f2"]):
                    if via == "file":
                        open(path, "wb").write(data)
                        jobs.append((consumer + [path], b"")); labels.append("%s -> %s (%s, file)" % (producer, consumer[0], fmtname))
                    else:
                        jobs.append((consumer, data)); labels.append("%s -> %s (%s, pipe)" % (producer, consumer[0], fmtname))
    # spectra with axes of length 1 and 2, produced by the tool itself (projection to 0 / 1 chromosomes)
    for to in ("1,3", "5,1", "1,1", "2,1"):
        for fmtname in ("text", "npy"):
            small = run_cli_many([(["view", "--project-shape", to, "-O", fmtname], base)])[0][1]
            for consumer in (["view"], ["fold", "--fill", "zero"], ["stat", "-s", "sum"]):
                jobs.append((consumer, small)); labels.append("view --project-shape %s -> %s (%s, pipe)" % (to, consumer[0], fmtname))
    jobs.append((["view"], base)); labels.append("create -> view (text, pipe)")
    jobs.append((["stat", "-s", "sum"], base)); labels.append("create -> stat (text, pipe)")
    # writing to a path that already holds a LONGER output (re-running into the same file): the file must be exactly
    # the new spectrum and must be read back
    for fmtname, ext in (("text", "txt"), ("npy", "npy")):
        for producer in (["view", "-O", fmtname], ["fold", "--fill", "zero"]):
            if producer[0] == "fold" and fmtname == "npy":
                continue
            path = os.path.join(WORK, "c07_overwrite.%s" % ext)
            big = text_spectrum([6, 5], [str(i) + ".125" for i in range(30)])
            small = text_spectrum([3], ["1.5", "2.25", "3"])
            run_cli_many([(producer + ["--precision", "9", "-o", path], big)])
            run_cli_many([(producer + ["--precision", "2", "-o", path], small)])
            fresh = run_cli_many([(producer + ["--precision", "2"], small)])[0][1]
            got = open(path, "rb").read() if os.path.exists(path) else b""
            rep.count("overwrite-existing-output", " ".join(producer) + " -o (existing longer file)", True)
            if got != fresh:
                rep.fail(kind="property-oracle", cls="reads-what-it-writes:overwrite", case=" ".join(producer) + " -o PATH over a longer existing file",
                         argv=["sfs"] + producer + ["--precision", "2", "-o", path], stdin=small.decode(), observed=got[:300].hex(), expected=fresh[:300].hex(),
                         detail="writing a spectrum to an existing longer file leaves stale bytes: the file is not the spectrum that was written")
            jobs.append((["view", path], b"")); labels.append("%s -o over longer file -> view (%s)" % (producer[0], fmtname))
    for lab, job, (rc, so, se) in zip(labels, jobs, run_cli_many(jobs)):
        rep.count("reads-what-it-writes", lab, True)
        if rc != 0 or so == b"":
            rep.fail(kind="property-oracle", cls="reads-what-it-writes", case=lab, argv=["sfs"] + job[0], stdin_hex=job[1].hex(),
                     observed={"rc": rc, "stderr": se.decode(errors="replace")[-300:]}, expected="accepted with auto-detected format",
                     detail="output written by the tool is not accepted by the tool")
    # spectra larger than any block a writer or reader might work in (2^16 and 2^20 values and a little more): `view` without
    # options reproduces its input to the printed precision - every value, separated from its neighbours - and the chain
    # through npy gives the same bytes as the single invocation
    from common import run_cli_many as _rcm_big
    for nbig, shp in ((2**20 + 1, [2**20 + 1]), (65537, [65537])) if True else ():
        vals_big = [str((7 * i + i // 1000) % 10) for i in range(nbig)]
        txt_big = ("#SHAPE=<%s>\n%s\n" % ("/".join(map(str, shp)), " ".join(vals_big))).encode()
        (rc1, so1, se1), (rc2, so2, se2) = _rcm_big([(["view", "--precision", "0"], txt_big), (["view", "-O", "npy"], txt_big)], timeout=600)
        (rc3, so3, se3), = _rcm_big([(["view", "--precision", "0"], so2)], timeout=600)
        rep.count("roundtrip-large", "shape %s" % shp, True, n=3)
        if rc1 != 0 or so1 != txt_big or rc2 != 0 or rc3 != 0 or so3 != txt_big:
            got = so1 if (rc1 != 0 or so1 != txt_big) else so3
            k_ = next((i for i, (x, y) in enumerate(zip(got, txt_big)) if x != y), min(len(got), len(txt_big)))
            rep.fail(kind="property-oracle", cls="reads-what-it-writes:large", case="view --precision 0 on a spectrum of shape %s (%d integer entries)" % (shp, nbig), argv=["sfs", "view", "--precision", "0"],
                     observed={"rc": [rc1, rc2, rc3], "bytes": len(got), "first difference at byte": k_, "there": got[max(0, k_ - 20):k_ + 20].decode(errors="replace")},
                     expected={"bytes": len(txt_big), "there": txt_big[max(0, k_ - 20):k_ + 20].decode()},
                     detail="a large spectrum does not come back from `view` (directly or through npy) as it went in (replay: values (7*i + i//1000) % 10 for i in range(n), one line)")
    rep.assumptions += ["print_fixed / parse_f64 are executable stand-ins for Rust's `{:.p}` and f64::from_str: compared on every run (exact), "
                        "theorems about text values are about the stand-ins", "NaN payload through text is not preserved (NaN -> 'NaN' -> canonical NaN)"]


if __name__ == "__main__":
    sys.exit(standard_main("C07", check, sys.argv[1:], RULE, needs_cli=True))
