"""Re-run the quick checks against every recorded seeded change (patch applied to /repo, reverted afterwards) and record
the outcome in seeded/<id>/meta.json under "checks_now". usage: seedrecheck.py [seed-id ...]"""
import json, os, subprocess, sys, time
ROOT = os.path.dirname(os.path.dirname(os.path.abspath(__file__)))
PLAN = {
 "C01-multiallelic-and": ["C01", "C08"], "C02-logspace-denominator": ["C02", "C03"], "C03-denominator-only-check": ["C03"],
 "C04-is-sorted-chunks": ["C04", "C13"], "C05-skip-empty-pairs": ["C05"], "C06-fst-wrong-axis": ["C06", "C14"],
 "C07-read-guard-le1": ["C07", "C13"], "C08-multiallelic-and": ["C08"], "C09-unknown-with-projection": ["C09"],
 "C10-factorial-table-171": ["C10", "C02", "C03"], "C11-reset-early-return": ["C11", "C10", "C01"],
 "C12-single-member-gzdecoder": ["C12", "C18"], "C13-normalize-skip-le1": ["C13", "C14"], "C14-theta-take-dropped": ["C14", "C06"],
 "C15-be-u2-as-i16": ["C15"], "C16-npy-short-tail-dropped": ["C16"], "C17-factorial-table-oob": ["C17", "C03", "C06"],
 "C18-skip-prefix-when-3-bytes": ["C18"], "C19-axisiter-index-after-none": ["C19"],
 # round 2 (agents were told which changes were already known)
 "C01b-unselected-multiallelic-flag": ["C01", "C08"], "C02b-lazy-denominator": ["C02", "C03"], "C03b-binomial-u64-saturate": ["C03", "C02"],
 "C04b-swap-remove-shape": ["C04", "C19"], "C05b-single-entry-guard": ["C05"], "C06b-lngamma-x": ["C06", "C03"],
 "C07b-no-truncate-output": ["C07"], "C08b-break-after-skip": ["C08", "C10"], "C09b-samples-file-whitespace": ["C09"],
 "C10b-summary-gt-1": ["C10", "C01"],
 "C11b-tobuf-rewind-axis0": ["C11", "C03"], "C12b-single-read-prefix": ["C12", "C18"], "C13b-mask-slice-pattern": ["C13", "C17"],
 "C14b-normalize-sum-le-1": ["C14", "C13"], "C15b-pad-boundary-no-newline": ["C15"], "C16b-text-read-line": ["C16"],
 "C17b-segsites-slice": ["C17", "C06"], "C18b-bufwriter-no-flush": ["C18", "C15"], "C19b-view-iter-guard": ["C19", "C04"],
 # round 3
 "C01c-samples-file-split-whitespace": ["C01", "C09"], "C02c-lnfactorial-gamma-x": ["C02", "C03"], "C03c-skip-tiny-weights": ["C03"],
 "C04c-adjacent-duplicate-check": ["C04", "C17"], "C05c-index-sum-first-axis-shortcut": ["C05"], "C06c-segsites-by-frequency": ["C06", "C14"],
 "C07c-precision-clamp-15": ["C07"], "C08c-all-missing-any-ploidy": ["C08"], "C09c-rsplit-once-eq": ["C09"],
 "C10c-break-after-skip-no-projection": ["C10", "C08"], "C11c-cached-projection-status": ["C11", "C02"], "C12c-bgzf-reader-in-detect": ["C12", "C18"],
 "C13c-is-unsorted-strictly-descending": ["C13", "C04"], "C14c-segsites-includes-first": ["C14", "C06"], "C15c-v3-header-len-2-bytes": ["C15"],
 "C16c-trim-ascii-before-detect": ["C16", "C07"], "C17c-adjacent-duplicate-check": ["C17", "C04"], "C18c-read-not-exact-v2-len": ["C18", "C15"],
 "C19c-get-mut-unchecked": ["C19"],
 # round 4
 "C01d-any-missing-format-value": ["C01", "C08"], "C02d-projectable-needs-positive-total": ["C02", "C11"],
 "C03d-view-skip-project-same-elements": ["C03", "C13"], "C04d-cli-remove-arm-filter": ["C04", "C13"], "C05d-fill-minus-one-sign": ["C05"],
 "C06d-harmonic-asymptotic": ["C06"], "C07d-npy-buffer-not-cleared": ["C07", "C15"], "C08d-early-insufficient-with-projection": ["C08"],
 "C09d-ploidy-error-unselected": ["C09", "C01"], "C10d-numerator-finite-only": ["C10", "C02"], "C11d-skip-same-position": ["C11", "C01"],
 "C12d-threads-cap-minus-one": ["C12"], "C13d-mask-before-project": ["C13"], "C14d-tajima-variance-s": ["C14", "C06"],
 "C15d-npy-block-buffer-not-cleared": ["C15", "C07"], "C16d-i4-read-as-i16": ["C16", "C15"], "C17d-populations-nonempty-any": ["C17", "C09"],
 "C18d-peek-magic-fill-buf": ["C18"], "C19d-get-axis-off-by-one": ["C19"],
 # round 5
 "C01e-samples-file-64k-cap": ["C01"], "C02e-projectable-total-plus-one": ["C02", "C10"], "C03e-create-fewer-projection-dims": ["C03", "C02"],
 "C04e-keep-all-shortcut": ["C04"], "C05e-diagonal-sum-overflow": ["C05"], "C06e-upfront-normalize-pixy": ["C06"], "C07e-file-metadata-len": ["C07", "C13"],
 "C08e-allele-index-u8": ["C08"], "C09e-samples-file-is-file": ["C09"], "C10e-projectable-total-plus-one": ["C10", "C02"], "C11e-cached-gt-key": ["C11"],
 "C12e-bgzf-16-byte-magic": ["C12", "C18"], "C13e-output-not-truncated": ["C13", "C07"], "C14e-normalize-once-any": ["C14", "C06"],
 "C15e-output-not-truncated-bufwriter": ["C15", "C07"], "C16e-qq-exit-zero": ["C16", "C10"], "C17e-descr-fromstr-split-at": ["C17"],
 "C18e-prefix-consume-available": ["C18"], "C19e-then-some-eager": ["C19"],
 # round 6
 "C01f-samples-file-comment-lines": ["C01", "C09"], "C02f-error-arm-any-population": ["C02", "C09"], "C03f-clamp-accumulation-at-zero": ["C03", "C13"],
 "C04f-sum-skips-non-normal": ["C04"], "C05f-nan-sentinel-for-folded": ["C05"], "C06f-precision-overflow-to-zero": ["C06"], "C07f-negative-zero-sign-dropped": ["C07"],
 "C08f-bcf-contig-by-listing-order": ["C08"], "C09f-labels-trimmed": ["C09"], "C10f-leading-missing-allele-any-ploidy": ["C10", "C08"],
 "C11f-projection-memo-wrong-key": ["C11", "C02"], "C12f-bcf-magic-five-bytes": ["C12"], "C13f-project-skips-nonpositive": ["C13", "C03"],
 "C14f-normalize-by-reciprocal": ["C14"], "C15f-shape-entries-u16": ["C15"], "C16f-unparsable-tokens-dropped": ["C16"], "C17f-project-group-multiple": ["C17"],
 "C18f-broken-pipe-is-ok": ["C18"], "C19f-indices-nth-absolute": ["C19"],
 # round 7
 "C01g-inline-rsplit-eq": ["C01", "C09"], "C02g-ln-binomial-k-ge-n": ["C02", "C03"], "C03g-lexicographic-shape-precheck": ["C03", "C13"],
 "C04g-skip-singleton-axes": ["C04"], "C05g-fold-output-created-first": ["C05"], "C06g-be-f8-read-as-le": ["C06", "C15"],
 "C07g-view-output-created-first": ["C07", "C13"], "C08g-no-alt-shortcut": ["C08"], "C09g-break-after-skip-no-projection": ["C09", "C10"],
 "C10g-bcf-eof-is-done": ["C10", "C18"], "C11g-sticky-multiallelic-flag": ["C11"], "C12g-detect-prefix-1k": ["C12"],
 "C13g-view-output-opened-first": ["C13"], "C14g-r1-denominator-by-subtraction": ["C14"], "C15g-reject-unaligned-header": ["C15"],
 "C16g-skip-padding-after-header": ["C16", "C15"], "C17g-shape-slice-last-numeric": ["C17"], "C18g-vcf-eof-is-done": ["C18", "C10"],
 "C19g-to-array-keeps-view-strides": ["C19"],
 # round 8
 "C01h-samples-file-must-be-regular": ["C01", "C09"], "C02h-joint-probability-epsilon": ["C02"], "C03h-view-individuals-no-delimiter": ["C03", "C13"],
 "C04h-unsorted-axes-reversed": ["C04"], "C05h-fold-output-file-default-precision": ["C05"], "C06h-text-reader-pops-last-char": ["C06"],
 "C07h-npy-extension-trusted": ["C07", "C13"], "C08h-zero-projection-skips-ploidy": ["C08", "C02"], "C09h-empty-label-is-unnamed": ["C09"],
 "C10h-unparsable-gt-is-missing": ["C10", "C08"], "C11h-skipped-list-shrink-to": ["C11"], "C12h-format-from-extension": ["C12", "C01"],
 "C13h-view-individuals-even-shape": ["C13", "C03"], "C14h-pixy-take-after-skip": ["C14"], "C15h-trim-ascii-end-before-detect": ["C15", "C07"],
 "C16h-array-new-prefix-product": ["C16"], "C17h-keep-list-longer-than-axes": ["C17"], "C18h-final-newline-write-not-all": ["C18"],
 "C19h-view-iter-clone-resets-coords": ["C19"],
 # round 9
 "C01i-detect-prefix-exhausted-le": ["C01", "C12"], "C02i-allocatable-guard-unprojected": ["C02"], "C03i-project-allocates-before-check": ["C03", "C17"],
 "C04i-keep-list-bit-mask": ["C04"], "C05i-fold-centre-by-flat-index": ["C05"], "C06i-tajima-pairs-clamped": ["C06"],
 "C07i-npy-header-no-pad-when-aligned": ["C07", "C15"], "C08i-vcf-contig-through-header": ["C08"], "C09i-population-map-by-printed-name": ["C09"],
 "C10i-rust-log-honoured": ["C10", "C01"], "C11i-bcf-delivered-reset-moved": ["C11", "C12"], "C12i-bcf-zero-records-error": ["C12", "C11"],
 "C13i-text-writer-blocks-unseparated": ["C13", "C07"], "C14i-fst-first-axis-clamped": ["C14"], "C15i-fortran-one-axis-accepted": ["C15"],
 "C16i-npy-cut-at-next-magic": ["C16"], "C17i-zero-axis-npy-shape": ["C17"], "C18i-prefix-skipped-when-compression-preset": ["C18"],
 "C19i-view-iter-last-override": ["C19"],
 # round 10
 "C01j-positional-lookup-when-all-selected": ["C01"], "C02j-multiallelic-early-insufficient": ["C02"], "C03j-project-rescaled-by-total": ["C03"],
 "C04j-bounds-check-last-axis-only": ["C04"], "C05j-diagonal-midpoint-form": ["C05"], "C06j-precision-zero-through-i64": ["C06"],
 "C07j-npy-values-single-write": ["C07"], "C08j-haploid-contig-names": ["C08"], "C09j-samples-file-second-field-only": ["C09"],
 "C10j-gt-less-records-dropped": ["C10"], "C11j-totals-carried-after-complete-site": ["C11"], "C12j-format-detect-read-not-exact": ["C12"],
 "C13j-text-writer-prerounds": ["C13"], "C14j-f3-third-frequency-by-second-size": ["C14"], "C15j-decode-from-one-fill-buf": ["C15"],
 "C16j-text-reader-deletes-cr": ["C16"], "C17j-genotype-table-by-position": ["C17"], "C18j-guard-records-interrupted": ["C18"],
 "C19j-axis-iter-fold-override": ["C19"],
 # round 11
 "C01k-samples-file-split-keeps-cr": ["C01"], "C02k-inline-sample-names-trimmed": ["C02"], "C03k-subnormal-coefficients-dropped": ["C03"],
 "C04k-pairwise-sum-drops-last-slice": ["C04"], "C05k-long-row-count-shortcut": ["C05"], "C06k-factorial-table-171": ["C06"],
 "C07k-debug-dump-on-stdout": ["C07"], "C08k-multiallelic-counts-toward-total": ["C08"], "C09k-empty-map-allowed-without-samples": ["C09"],
 "C10k-symbolic-contig-unknown": ["C10"], "C11k-counts-not-reset-without-calls": ["C11"], "C12k-lone-missing-allele-arm-removed": ["C12"],
 "C13k-normalize-by-absolute-total": ["C13"], "C14k-r0-denominator-plus-epsilon": ["C14"], "C15k-u64-halved-without-sticky-bit": ["C15"],
 "C16k-text-values-cut-at-hash": ["C16"], "C17k-r1-guard-by-element-count": ["C17"], "C18k-one-byte-fast-path-one-refill": ["C18"],
 "C19k-sum-skips-nonpositive": ["C19"],
}
OWN_ONLY = "--own" in sys.argv          # only the check of the seed's own property (the first one planned)
seeds = [a for a in sys.argv[1:] if a != "--own"] or sorted(PLAN)
for seed in seeds:
    d = os.path.join(ROOT, "seeded", seed)
    meta = json.load(open(os.path.join(d, "meta.json")))
    assert subprocess.run("git -C /repo status --porcelain", shell=True, capture_output=True, text=True).stdout.strip() == "", "/repo not clean"
    rc = subprocess.run("git -C /repo apply %s" % os.path.join(d, "patch.diff"), shell=True).returncode
    res = {}
    try:
        if rc == 0:
            for c in (PLAN[seed][:1] if OWN_ONLY else PLAN[seed]):
                t0 = time.time()
                p = subprocess.run([os.path.join(ROOT, "bin/check"), c, "--tier", "quick"], cwd=ROOT, capture_output=True, text=True, timeout=3600)
                cls = []
                for l in p.stdout.splitlines():
                    if l.startswith("VIOLATION"):
                        try:
                            r = json.load(open(l.split("replay=")[1].split()[0]))
                            cls.append(r.get("cls"))
                        except Exception:
                            pass
                res[c] = {"exit": p.returncode, "violation_classes": cls[:6], "wall_s": round(time.time() - t0, 1)}
    finally:
        subprocess.run("git -C /repo checkout -- .", shell=True)
    meta["checks_now"] = res
    meta["detected_by_now"] = [c for c, r in res.items() if r["exit"] != 0]
    json.dump(meta, open(os.path.join(d, "meta.json"), "w"), indent=1)
    print(seed, "->", meta["detected_by_now"], flush=True)
