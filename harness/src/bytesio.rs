//! Byte-level I/O: npy and text writers/readers, float formatting and parsing (C07, C15, C16).

use std::io::Write as _;

use sfs_core::array::Array;
use sfs_core::spectrum::io::{read, write, Format};
use sfs_core::{Input, Scs};

use crate::util::*;

pub fn hex(bs: &[u8]) -> String {
    if bs.is_empty() {
        "-".to_string()
    } else {
        bs.iter().map(|b| format!("{b:02x}")).collect()
    }
}

pub fn unhex(s: &str) -> Vec<u8> {
    if s == "-" {
        Vec::new()
    } else {
        (0..s.len() / 2).map(|i| u8::from_str_radix(&s[2 * i..2 * i + 2], 16).unwrap()).collect()
    }
}

fn parse_bits(tok: &str) -> f64 {
    f64::from_bits(u64::from_str_radix(&tok[1..], 16).unwrap())
}

fn parse_bits_list(s: &str) -> Vec<f64> {
    if s == "-" {
        Vec::new()
    } else {
        s.split(',').map(parse_bits).collect()
    }
}

fn fmt_bits(x: f64) -> String {
    format!("b{:016x}", x.to_bits())
}

fn fmt_bits_list(v: &[f64]) -> String {
    if v.is_empty() {
        "-".to_string()
    } else {
        v.iter().map(|x| fmt_bits(*x)).collect::<Vec<_>>().join(",")
    }
}

fn tmp_path() -> std::path::PathBuf {
    let dir = std::path::Path::new("/dev/shm");
    let base = if dir.is_dir() { dir.to_path_buf() } else { std::env::temp_dir() };
    base.join(format!("sfs-probe-{}-{:?}", std::process::id(), std::thread::current().id()))
}

/// the real read path: file -> read_to_end -> detect -> parse
pub fn read_via_builder(bytes: &[u8]) -> std::io::Result<Scs> {
    let path = tmp_path();
    {
        let mut f = std::fs::File::create(&path)?;
        f.write_all(bytes)?;
    }
    let res = read::Builder::default().set_input(Input::Path(path.clone())).read();
    let _ = std::fs::remove_file(&path);
    res
}

pub fn run(toks: &[&str], out: &mut String) {
    match toks[0] {
        "npyw" => {
            let a = Array::new(parse_bits_list(toks[2]), parse_list(toks[1])).expect("shape");
            let mut buf = Vec::new();
            match a.write_npy(&mut buf) {
                Ok(()) => out.push_str(&hex(&buf)),
                Err(_) => out.push_str(if buf.is_empty() { "ERR" } else { "ERR-after-partial-output" }),
            }
        }
        "npyr" => {
            let bytes = unhex(toks[1]);
            match Array::read_npy(&bytes[..]) {
                Ok(a) => out.push_str(&format!("OK {} {}", fmt_list(a.shape()), fmt_bits_list(a.as_slice()))),
                Err(_) => out.push_str("ERR"),
            }
        }
        "textw" => {
            let scs = Scs::new(parse_bits_list(toks[3]), parse_list(toks[1])).expect("shape");
            let p: usize = toks[2].parse().unwrap();
            let mut buf = Vec::new();
            write::Builder::default()
                .set_format(Format::Text)
                .set_precision(p)
                .write(&mut buf, &scs)
                .expect("write to Vec");
            out.push_str(&hex(&buf));
        }
        "read" => match read_via_builder(&unhex(toks[1])) {
            Ok(s) => out.push_str(&format!("OK {} {}", fmt_list(s.shape()), fmt_bits_list(s.inner().as_slice()))),
            Err(_) => out.push_str("ERR"),
        },
        "fmt" => {
            let x = parse_bits(toks[1]);
            let p: usize = toks[2].parse().unwrap();
            out.push_str(&format!("S{}", hex(format!("{x:.p$}").as_bytes())));
        }
        "parse" => {
            let bytes = unhex(toks[1]);
            match std::str::from_utf8(&bytes).ok().and_then(|s| s.parse::<f64>().ok()) {
                Some(x) => out.push_str(&fmt_bits(x)),
                None => out.push_str("ERR"),
            }
        }
        "detect" => {
            // through the public reader: only distinguishes readable formats; use `read` for behaviour
            out.push_str("unsupported");
        }
        _ => unreachable!(),
    }
}
