//! The create path below the VCF/BCF decoders: genotype classification, sample map, site reader
//! histories through an in-memory genotype::Reader (C01, C02, C08, C09, C11).

use std::str::FromStr;

use noodles_vcf::record::genotypes::sample::value::genotype::Genotype as VcfGenotype;

use sfs_core::array::Shape;
use sfs_core::input::genotype::{self, Reader as GenotypeReader};
use sfs_core::input::sample::Population;
use sfs_core::input::site::reader::builder::{Builder, Error as BuildError, Project, Samples};
use sfs_core::input::{ReadStatus, Sample, Site};

use crate::spectrum::fmt_perr;
use crate::util::*;

struct MemReader {
    samples: Vec<Sample>,
    records: Vec<Vec<String>>,
    next: usize,
}

impl GenotypeReader for MemReader {
    fn current_contig(&self) -> &str {
        "chr"
    }
    fn current_position(&self) -> usize {
        self.next
    }
    fn read_genotypes(&mut self) -> ReadStatus<Vec<genotype::Result>> {
        if self.next >= self.records.len() {
            return ReadStatus::Done;
        }
        let rec = &self.records[self.next];
        self.next += 1;
        ReadStatus::Read(rec.iter().map(|s| classify_str(s)).collect())
    }
    fn samples(&self) -> &[Sample] {
        &self.samples
    }
}

/// GT text -> decoded field (noodles' own GT parser) -> the classification under test
pub fn classify_str(s: &str) -> genotype::Result {
    let decoded: Option<VcfGenotype> = if s == "." { None } else { Some(VcfGenotype::from_str(s).expect("GT syntax")) };
    genotype::Result::from(decoded)
}

fn split_list(s: &str) -> Vec<&str> {
    if s == "-" {
        Vec::new()
    } else {
        s.split(',').collect()
    }
}

pub fn run(toks: &[&str], out: &mut String) {
    match toks[0] {
        // classify GT
        "classify" => {
            let r = classify_str(toks[1]);
            out.push_str(&match r {
                genotype::Result::Genotype(g) => format!("called {}", g as u8),
                genotype::Result::Skipped(genotype::Skipped::Missing) => "missing".to_string(),
                genotype::Result::Skipped(genotype::Skipped::Multiallelic) => "multiallelic".to_string(),
                genotype::Result::Error(_) => "ploidy".to_string(),
            });
        }
        // smapfile HEX : the samples-file parser + sample map construction
        "smapfile" => {
            let bytes = crate::bytesio::unhex(toks[1]);
            match sfs_core::input::sample::Map::from_reader(&bytes[..]) {
                Ok(map) => {
                    let items: Vec<String> = map
                        .samples()
                        .map(|s| {
                            let id = map.get_population_id(s).map(|p| p.0.to_string()).unwrap_or_else(|| "?".to_string());
                            format!("{}:{}", crate::bytesio::hex(s.as_ref().as_bytes()), id)
                        })
                        .collect();
                    out.push_str(&format!("OK {}", if items.is_empty() { "-".to_string() } else { items.join(",") }));
                }
                Err(_) => out.push_str("ERR"),
            }
        }
        // sites COLS SAMPLES PROJ RECS
        "sites" => {
            let cols: Vec<Sample> = split_list(toks[1]).into_iter().map(Sample::from).collect();
            let samples = match toks[2] {
                "ALL" => None,
                "EMPTY" => Some(Samples::List(Vec::new())),
                l => Some(Samples::List(
                    l.split(',')
                        .map(|e| {
                            let (n, p) = e.split_once(':').expect("name:pop");
                            (Sample::from(n), Population::from(if p == "-" { None } else { Some(p) }))
                        })
                        .collect(),
                )),
            };
            let project = match toks[3] {
                "-" => None,
                p => {
                    let (k, v) = p.split_once(':').unwrap();
                    let v = parse_list(v);
                    Some(if k == "i" { Project::Individuals(v) } else { Project::Shape(Shape(v)) })
                }
            };
            let records: Vec<Vec<String>> = if toks[4] == "-" {
                Vec::new()
            } else {
                toks[4].split(';').map(|r| r.split(',').map(|g| g.to_string()).collect()).collect()
            };
            let mem = MemReader { samples: cols, records, next: 0 };
            let built = Builder::default().set_samples(samples).set_project(project).build(Box::new(mem));
            let mut reader = match built {
                Ok(r) => r,
                Err(BuildError::EmptySamplesMap) => return out.push_str("ERR:empty"),
                Err(BuildError::UnknownSample { sample }) => return out.push_str(&format!("ERR:unknown:{sample}")),
                Err(BuildError::Projection(e)) => return out.push_str(&format!("ERR:proj:{}", fmt_perr(&e).replace(' ', "_"))),
                Err(BuildError::Io(_)) => return out.push_str("ERR:io"),
                Err(e) => return out.push_str(&format!("ERR:other:{e}")),
            };
            let zero = reader.create_zero_scs();
            out.push_str(&format!("SHAPE={}", fmt_list(zero.shape())));
            loop {
                match reader.read_site() {
                    ReadStatus::Read(Site::Standard(c)) => out.push_str(&format!(" S{}", fmt_list(&c.0))),
                    ReadStatus::Read(Site::Projected(p)) => {
                        let mut scs = zero.clone();
                        p.add_unchecked(&mut scs);
                        out.push_str(&format!(" P{}", fmt_f64s(scs.inner().as_slice())));
                    }
                    ReadStatus::Read(Site::InsufficientData) => out.push_str(" I"),
                    ReadStatus::Error(_) => {
                        out.push_str(" E");
                        break;
                    }
                    ReadStatus::Done => {
                        out.push_str(" D");
                        break;
                    }
                }
            }
        }
        _ => unreachable!(),
    }
}
