//! Spectrum-level operations: fold, marginalize, project, pmf (C03, C04, C05).

use sfs_core::array::Axis;
use sfs_core::spectrum::{MarginalizationError, ProjectionError};
use sfs_core::Scs;

use crate::util::*;

pub fn fmt_scs(s: &Scs) -> String {
    format!("{} {}", fmt_list(s.shape()), fmt_f64s(s.inner().as_slice()))
}

pub fn fmt_perr(e: &ProjectionError) -> String {
    match e {
        ProjectionError::Empty => "ERR empty".to_string(),
        ProjectionError::InvalidProjection { dimension, from, to } => format!("ERR invalid {dimension} {from} {to}"),
        ProjectionError::UnequalDimensions { from, to } => format!("ERR unequal {from} {to}"),
        ProjectionError::Zero => "ERR zero".to_string(),
    }
}

pub fn run(toks: &[&str], out: &mut String) {
    match toks[0] {
        // fold SHAPE DATA FILL
        "fold" => {
            let scs = Scs::new(parse_nums(toks[2]), parse_list(toks[1])).expect("shape");
            let fill = match toks[3] {
                "nan" => f64::NAN,
                "zero" => 0.0,
                "minus-one" => -1.0,
                "inf" => f64::INFINITY,
                _ => panic!("bad fill"),
            };
            let folded = scs.fold().into_spectrum(fill);
            out.push_str(&fmt_scs(&folded));
        }
        // marg SHAPE DATA AXES
        "marg" => {
            let scs = Scs::new(parse_nums(toks[2]), parse_list(toks[1])).expect("shape");
            let axes: Vec<Axis> = parse_list(toks[3]).into_iter().map(Axis).collect();
            match scs.marginalize(&axes) {
                Ok(y) => out.push_str(&format!("OK {}", fmt_scs(&y))),
                Err(MarginalizationError::DuplicateAxis { axis }) => out.push_str(&format!("ERR dup {axis}")),
                Err(MarginalizationError::AxisOutOfBounds { axis, dimensions }) => {
                    out.push_str(&format!("ERR oob {axis} {dimensions}"))
                }
                Err(MarginalizationError::TooManyAxes { axes, dimensions }) => {
                    out.push_str(&format!("ERR many {axes} {dimensions}"))
                }
            }
        }
        // project SHAPE DATA TOSHAPE
        "project" => {
            let scs = Scs::new(parse_nums(toks[2]), parse_list(toks[1])).expect("shape");
            match scs.project(parse_list(toks[3])) {
                Ok(y) => out.push_str(&format!("OK {}", fmt_scs(&y))),
                Err(e) => out.push_str(&fmt_perr(&e)),
            }
        }
        // pmf size successes draws observed
        "pmf" => {
            let v: Vec<u64> = toks[1..5].iter().map(|t| t.parse().unwrap()).collect();
            out.push_str(&fmt_f64(sfs_core::utils::hypergeometric_pmf(v[0], v[1], v[2], v[3])));
        }
        "binom" => {
            let n: u64 = toks[1].parse().unwrap();
            let k: u64 = toks[2].parse().unwrap();
            out.push_str(&fmt_f64(sfs_core::utils::binomial(n, k)));
        }
        _ => unreachable!(),
    }
}
