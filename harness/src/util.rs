//! Parsing helpers for case lines.

pub fn parse_list(s: &str) -> Vec<usize> {
    if s == "-" {
        Vec::new()
    } else {
        s.split(',').map(|t| t.parse::<usize>().expect("usize")).collect()
    }
}

/// `p/q` or integer, exactly representable by construction of the generators.
pub fn parse_num(s: &str) -> f64 {
    match s {
        "nan" => f64::NAN,
        "inf" => f64::INFINITY,
        "-inf" => f64::NEG_INFINITY,
        _ => {
            if let Some(hex) = s.strip_prefix("0x") {
                f64::from_bits(u64::from_str_radix(hex, 16).expect("hex bits"))
            } else if let Some((p, q)) = s.split_once('/') {
                p.parse::<f64>().expect("num") / q.parse::<f64>().expect("den")
            } else {
                s.parse::<f64>().expect("number")
            }
        }
    }
}

pub fn parse_nums(s: &str) -> Vec<f64> {
    if s == "-" {
        Vec::new()
    } else {
        s.split(',').map(parse_num).collect()
    }
}

pub fn fmt_list(v: &[usize]) -> String {
    if v.is_empty() {
        "-".to_string()
    } else {
        v.iter().map(|x| x.to_string()).collect::<Vec<_>>().join(",")
    }
}

/// f64 as its bit pattern; the comparator converts to an exact rational.
pub fn fmt_f64(x: f64) -> String {
    format!("0x{:016x}", x.to_bits())
}

pub fn fmt_f64s(v: &[f64]) -> String {
    if v.is_empty() {
        "-".to_string()
    } else {
        v.iter().map(|x| fmt_f64(*x)).collect::<Vec<_>>().join(",")
    }
}
