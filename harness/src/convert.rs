//! VCF text -> BCF (raw, i.e. uncompressed, or BGZF-compressed) using noodles' own writer, so that the BCF decoding
//! path of sfs can be driven with the same call sets as the VCF path. `vcf2bcf IN OUT raw|bgzf`

use std::fs::File;
use std::io::{BufReader, BufWriter, Write};

use noodles_bcf as bcf;
use noodles_vcf as vcf;

pub fn run(toks: &[&str], out: &mut String) {
    let input = toks[1];
    let output = toks[2];
    let mode = toks[3];
    let mut reader = vcf::Reader::new(BufReader::new(File::open(input).expect("open vcf")));
    let header = match reader.read_header() {
        Ok(h) => h,
        Err(e) => return out.push_str(&format!("ERR header {}", e.to_string().replace(' ', "_"))),
    };
    let mut n = 0;
    let result: std::io::Result<()> = (|| {
        if mode == "raw" {
            let mut w = bcf::Writer::from(BufWriter::new(File::create(output)?));
            w.write_header(&header)?;
            for rec in reader.records(&header) {
                w.write_record(&header, &rec?)?;
                n += 1;
            }
            w.into_inner().flush()?;
        } else {
            let mut w = bcf::Writer::new(BufWriter::new(File::create(output)?));
            w.write_header(&header)?;
            for rec in reader.records(&header) {
                w.write_record(&header, &rec?)?;
                n += 1;
            }
            w.try_finish()?;
        }
        Ok(())
    })();
    match result {
        Ok(()) => out.push_str(&format!("OK {n}")),
        Err(e) => out.push_str(&format!("ERR {}", e.to_string().replace(' ', "_"))),
    }
}
