//! sfs-probe: runs the implementation (sfs-core from /repo) on case lines read from stdin and
//! prints one canonical observation line per case. The same case lines are fed to the extracted
//! Coq model (ocaml/driver.ml); the two outputs are compared by py/.
//!
//! Every case is run under catch_unwind; a panic is reported as the observation `PANIC`.

use std::io::{self, BufRead, Write};
use std::panic::{catch_unwind, AssertUnwindSafe};

mod arrays;
mod bytesio;
mod chunked;
mod convert;
mod create;
mod spectrum;
mod util;

fn run_case(line: &str, out: &mut String) {
    let toks: Vec<&str> = line.split_whitespace().collect();
    if toks.is_empty() {
        return;
    }
    match toks[0] {
        "get" | "wnew" | "getmut" | "view" | "axisiter" | "indices" | "indiceshist" | "viewhist" | "sum" | "getaxis" | "toarray" | "axisfold" => arrays::run(&toks, out),
        "fold" | "marg" | "project" | "pmf" | "binom" => spectrum::run(&toks, out),
        "npyw" | "npyr" | "textw" | "read" | "fmt" | "parse" => bytesio::run(&toks, out),
        "classify" | "sites" | "smapfile" => create::run(&toks, out),
        "vcf2bcf" => convert::run(&toks, out),
        "cnpy" | "cgeno" | "cwrite" | "genos" => chunked::run(&toks, out),
        other => out.push_str(&format!("UNKNOWN-OP {other}")),
    }
}

fn main() {
    // silence the default panic message; panics are reported in-band
    std::panic::set_hook(Box::new(|_| {}));
    let stdin = io::stdin();
    let stdout = io::stdout();
    let mut out = io::BufWriter::new(stdout.lock());
    for line in stdin.lock().lines() {
        let line = line.expect("read case line");
        let line = line.trim();
        if line.is_empty() || line.starts_with('#') {
            continue;
        }
        // observations made before a panic are kept: "<prefix> PANIC"
        let mut buf = String::new();
        let res = catch_unwind(AssertUnwindSafe(|| run_case(line, &mut buf)));
        if res.is_err() {
            if !buf.is_empty() && !buf.ends_with(' ') {
                buf.push(' ');
            }
            buf.push_str("PANIC");
        }
        writeln!(out, "{}", buf.trim_end()).unwrap();
    }
}
