//! Chunk-scheduled readers and short writers (C18, C12): the same bytes delivered through a BufRead that returns
//! them in chunks of chosen sizes and can fail at a byte offset; a Write that accepts a few bytes per call.

use std::io::{self, BufRead, Read, Write};
use std::num::NonZeroUsize;

use sfs_core::array::Array;
use sfs_core::input::genotype::reader::Builder as GenotypeBuilder;
use sfs_core::input::genotype::{self, Reader as _};
use sfs_core::input::site::reader::builder::Builder as SiteBuilder;
use sfs_core::input::{ReadStatus, Site};
use sfs_core::spectrum::io::{write, Format};
use sfs_core::Scs;

use crate::bytesio::{hex, unhex};
use crate::util::*;

pub struct ChunkedReader {
    data: Vec<u8>,
    pos: usize,       // consumed
    end: usize,       // buffered up to (exclusive)
    sched: Vec<usize>,
    next: usize,
    budget: Option<usize>, // bytes the source can still deliver
    kind: io::ErrorKind,   // the kind of error the source fails with once the budget is spent
    interrupt: bool,       // every delivery is preceded by one transient ErrorKind::Interrupted (EINTR), also the end of the stream
    interrupted: bool,
}

impl ChunkedReader {
    pub fn new(data: Vec<u8>, sched: Vec<usize>, fail_at: Option<usize>) -> Self {
        Self { data, pos: 0, end: 0, sched, next: 0, budget: fail_at, kind: io::ErrorKind::Other, interrupt: false, interrupted: false }
    }
    pub fn with_interrupts(mut self, on: bool) -> Self {
        self.interrupt = on;
        self
    }
    pub fn with_kind(mut self, kind: io::ErrorKind) -> Self {
        self.kind = kind;
        self
    }
}

impl Read for ChunkedReader {
    fn read(&mut self, buf: &mut [u8]) -> io::Result<usize> {
        let avail = self.fill_buf()?;
        let n = avail.len().min(buf.len());
        buf[..n].copy_from_slice(&avail[..n]);
        self.consume(n);
        Ok(n)
    }
}

impl BufRead for ChunkedReader {
    fn fill_buf(&mut self) -> io::Result<&[u8]> {
        if self.end > self.pos {
            return Ok(&self.data[self.pos..self.end]);
        }
        if self.interrupt && !self.interrupted {
            // a signal arrived: nothing is lost, the caller is expected to try again
            self.interrupted = true;
            return Err(io::Error::new(io::ErrorKind::Interrupted, "interrupted"));
        }
        self.interrupted = false;
        let left = self.data.len() - self.pos;
        let want = if self.next < self.sched.len() { self.sched[self.next].max(1) } else { left };
        if self.next < self.sched.len() {
            self.next += 1;
        }
        let n = match self.budget {
            Some(0) => {
                if left == 0 {
                    return Ok(&[]);
                }
                return Err(io::Error::new(self.kind, "injected read failure"));
            }
            Some(b) => {
                let n = want.min(b).min(left);
                self.budget = Some(b - n);
                n
            }
            None => want.min(left),
        };
        self.end = self.pos + n;
        Ok(&self.data[self.pos..self.end])
    }
    fn consume(&mut self, amt: usize) {
        self.pos = (self.pos + amt).min(self.end);
    }
}

pub struct ShortWriter {
    pub accepted: Vec<u8>,
    sched: Vec<usize>,
    next: usize,
    budget: Option<usize>,
    // what happens once the budget is spent: Some(kind) = an error of that kind; None = the sink is full and accepts
    // zero bytes (as a fixed-size buffer does)
    kind: Option<io::ErrorKind>,
}

impl Write for ShortWriter {
    fn write(&mut self, buf: &[u8]) -> io::Result<usize> {
        let cap = if self.next < self.sched.len() { self.sched[self.next].max(1) } else { buf.len() };
        if self.next < self.sched.len() {
            self.next += 1;
        }
        let n = match self.budget {
            Some(0) => match self.kind {
                Some(kind) => return Err(io::Error::new(kind, "injected write failure")),
                None => return Ok(0),
            },
            Some(b) => {
                let n = cap.min(b).min(buf.len());
                self.budget = Some(b - n);
                n
            }
            None => cap.min(buf.len()),
        };
        self.accepted.extend_from_slice(&buf[..n]);
        Ok(n)
    }
    fn flush(&mut self) -> io::Result<()> {
        Ok(())
    }
}

// "N:kind" -> the error kind of an injected failure (default: Other)
fn parse_kind(s: &str) -> io::ErrorKind {
    match s.split_once(':').map(|(_, k)| k) {
        Some("eof") => io::ErrorKind::UnexpectedEof,
        Some("pipe") => io::ErrorKind::BrokenPipe,
        Some("timeout") => io::ErrorKind::TimedOut,
        Some("invalid") => io::ErrorKind::InvalidData,
        Some("reset") => io::ErrorKind::ConnectionReset,
        Some("wouldblock") => io::ErrorKind::WouldBlock,
        _ => io::ErrorKind::Other,
    }
}

fn parse_opt(s: &str) -> Option<usize> {
    let s = s.split(':').next().unwrap();
    if s == "-" {
        None
    } else {
        Some(s.parse().unwrap())
    }
}

pub fn run(toks: &[&str], out: &mut String) {
    match toks[0] {
        // cnpy HEX SCHED FAIL
        "cnpy" => {
            let r = ChunkedReader::new(unhex(toks[1]), parse_list(toks[2]), parse_opt(toks[3])).with_kind(parse_kind(toks[3]));
            match Array::read_npy(r) {
                Ok(a) => out.push_str(&format!(
                    "OK {} {}",
                    fmt_list(a.shape()),
                    a.as_slice().iter().map(|x| format!("b{:016x}", x.to_bits())).collect::<Vec<_>>().join(",")
                )),
                Err(_) => out.push_str("ERR"),
            }
        }
        // cgeno FILE SCHED FAIL THREADS : the genotype reader built from a chunked stream, all samples, no projection
        "cgeno" => {
            let data = std::fs::read(toks[1]).expect("input file");
            let r = ChunkedReader::new(data, parse_list(toks[2]), parse_opt(toks[3])).with_kind(parse_kind(toks[3])).with_interrupts(toks[3].ends_with(":intr"));
            let threads = NonZeroUsize::new(toks[4].parse().unwrap()).unwrap();
            // optional: what the caller says about the stream instead of leaving it to detection ("bgzf" / "plain": the
            // compression; "vcf" / "bcf": the format; "bgzf+vcf" etc.: both)
            let mut b = GenotypeBuilder::default().set_threads(threads);
            if let Some(preset) = toks.get(5) {
                for p in preset.split('+') {
                    b = match p {
                        "bgzf" => b.set_compression_method(Some(sfs_core::input::genotype::reader::builder::CompressionMethod::Bgzf)),
                        "plain" => b.set_compression_method(None),
                        "vcf" => b.set_format(sfs_core::input::genotype::reader::builder::Format::Vcf),
                        "bcf" => b.set_format(sfs_core::input::genotype::reader::builder::Format::Bcf),
                        _ => b,
                    };
                }
            }
            let g = match b.verif_build_from_reader(r) {
                Ok(g) => g,
                Err(_) => return out.push_str("ERR:build"),
            };
            let mut reader = match SiteBuilder::default().build(g) {
                Ok(r) => r,
                Err(_) => return out.push_str("ERR:site-builder"),
            };
            out.push_str(&format!("SAMPLES={}", reader.samples().iter().map(|s| s.as_ref().to_string()).collect::<Vec<_>>().join(",")));
            loop {
                match reader.read_site() {
                    ReadStatus::Read(Site::Standard(c)) => out.push_str(&format!(" S{}", fmt_list(&c.0))),
                    ReadStatus::Read(Site::Projected(_)) => out.push_str(" P"),
                    ReadStatus::Read(Site::InsufficientData) => out.push_str(" I"),
                    ReadStatus::Error(_) => {
                        out.push_str(" E");
                        break;
                    }
                    ReadStatus::Done => {
                        out.push_str(" D");
                        break;
                    }
                }
            }
        }
        // genos HEX : the genotype reader (VCF or BCF, detected) on in-memory bytes; every record's per-column classification
        "genos" => {
            let r = io::Cursor::new(unhex(toks[1]));
            let mut g = match GenotypeBuilder::default().verif_build_from_reader(r) {
                Ok(g) => g,
                Err(_) => return out.push_str("ERR:build"),
            };
            out.push_str("OK");
            loop {
                match g.read_genotypes() {
                    ReadStatus::Read(v) => {
                        let cls: Vec<String> = v
                            .iter()
                            .map(|r| match r {
                                genotype::Result::Genotype(g) => format!("called{}", *g as u8),
                                genotype::Result::Skipped(genotype::Skipped::Missing) => "missing".to_string(),
                                genotype::Result::Skipped(genotype::Skipped::Multiallelic) => "multiallelic".to_string(),
                                genotype::Result::Error(_) => "ploidy".to_string(),
                            })
                            .collect();
                        out.push_str(&format!(" {}", if cls.is_empty() { "-".to_string() } else { cls.join(",") }));
                    }
                    ReadStatus::Error(_) => {
                        out.push_str(" E");
                        break;
                    }
                    ReadStatus::Done => {
                        out.push_str(" D");
                        break;
                    }
                }
            }
        }
        // cwrite npy|text SHAPE PREC BITS WSCHED WFAIL
        "cwrite" => {
            let bits: Vec<f64> = if toks[4] == "-" {
                Vec::new()
            } else {
                toks[4].split(',').map(|t| f64::from_bits(u64::from_str_radix(&t[1..], 16).unwrap())).collect()
            };
            let scs = Scs::new(bits, parse_list(toks[2])).expect("shape");
            let kind = if toks[6].ends_with(":zero") { None } else { Some(parse_kind(toks[6])) };
            let mut w = ShortWriter { accepted: Vec::new(), sched: parse_list(toks[5]), next: 0, budget: parse_opt(toks[6]), kind };
            let res = write::Builder::default()
                .set_format(if toks[1] == "npy" { Format::Npy } else { Format::Text })
                .set_precision(toks[3].parse().unwrap())
                .write(&mut w, &scs);
            match res {
                Ok(()) => out.push_str(&format!("OK {}", hex(&w.accepted))),
                Err(_) => out.push_str("ERR"),
            }
        }
        _ => unreachable!(),
    }
}
