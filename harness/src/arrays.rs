//! Array / view / iterator API (property C19, C04).

use sfs_core::array::{Array, Axis};

use crate::util::*;

fn ramp(shape: &[usize]) -> Array<f64> {
    let n: usize = shape.iter().product();
    Array::new((0..n).map(|x| x as f64).collect::<Vec<_>>(), shape.to_vec()).expect("ramp shape")
}

fn int(x: f64) -> String {
    format!("{}", x as i64)
}

pub fn run(toks: &[&str], out: &mut String) {
    match toks[0] {
        // get SHAPE IDX
        "get" => {
            let a = ramp(&parse_list(toks[1]));
            let idx = parse_list(toks[2]);
            match a.get(&idx) {
                Some(v) => out.push_str(&format!("Some {}", int(*v))),
                None => out.push_str("None"),
            }
        }
        // getmut SHAPE IDX : the mutable path (get_mut / IndexMut): the element it addresses and, after writing through
        // it, the flat positions of the array that changed
        "getmut" => {
            let shape = parse_list(toks[1]);
            let mut a = ramp(&shape);
            let idx = parse_list(toks[2]);
            let got = match a.get_mut(&idx) {
                Some(v) => {
                    let old = *v;
                    *v = -1.0;
                    Some(old)
                }
                None => None,
            };
            let changed: Vec<String> = a
                .as_slice()
                .iter()
                .enumerate()
                .filter(|(i, x)| **x != *i as f64)
                .map(|(i, _)| i.to_string())
                .collect();
            match got {
                Some(v) => out.push_str(&format!("Some {} W{}", int(v), changed.join("+"))),
                None => out.push_str(&format!("None{}", if changed.is_empty() { String::new() } else { format!(" W{}", changed.join("+")) })),
            }
        }
        // wnew LEN SHAPE IDX;IDX;... : Array::new on LEN ramp values and a shape whose axis lengths may be anywhere in usize
        // (overflowing products, zero-length axes beside huge ones), then get at each index: the position it addresses
        "wnew" => {
            let len: usize = toks[1].parse().unwrap();
            let shape = parse_list(toks[2]);
            match Array::new((0..len).map(|x| x as f64).collect::<Vec<_>>(), shape) {
                Err(_) => out.push_str("Err"),
                Ok(a) => {
                    out.push_str("Ok");
                    if toks.len() > 3 {
                        for t in toks[3].split(';') {
                            match a.get(&parse_list(t)) {
                                Some(v) => out.push_str(&format!(" S{}", int(*v))),
                                None => out.push_str(" N"),
                            }
                        }
                    }
                }
            }
        }
        // getaxis SHAPE a i : only whether a view exists
        "getaxis" => {
            let a = ramp(&parse_list(toks[1]));
            let ax: usize = toks[2].parse().unwrap();
            let i: usize = toks[3].parse().unwrap();
            match a.get_axis(Axis(ax), i) {
                Some(v) => out.push_str(&format!("Some dims={}", v.dimensions())),
                None => out.push_str("None"),
            }
        }
        // view SHAPE a i k : k calls of next() on the view iterator, len() before each and after
        "view" => {
            let a = ramp(&parse_list(toks[1]));
            let ax: usize = toks[2].parse().unwrap();
            let i: usize = toks[3].parse().unwrap();
            let k: usize = toks[4].parse().unwrap();
            match a.get_axis(Axis(ax), i) {
                None => out.push_str("None"),
                Some(v) => {
                    let mut it = v.iter();
                    out.push_str(&format!("L{}", it.len()));
                    for _ in 0..k {
                        match it.next() {
                            Some(x) => out.push_str(&format!(" S{}", int(*x))),
                            None => out.push_str(" N"),
                        }
                        out.push_str(&format!(" L{}", it.len()));
                    }
                }
            }
        }
        // axisiter SHAPE a k : k calls of next() on iter_axis, len() interleaved; each view is
        // reported by the list of its items
        "axisiter" => {
            let a = ramp(&parse_list(toks[1]));
            let ax: usize = toks[2].parse().unwrap();
            let k: usize = toks[3].parse().unwrap();
            let mut it = a.iter_axis(Axis(ax));
            out.push_str(&format!("L{}", it.len()));
            for _ in 0..k {
                match it.next() {
                    Some(v) => {
                        let items: Vec<String> = v.iter().map(|x| int(*x)).collect();
                        out.push_str(&format!(" V{}", if items.is_empty() { "-".to_string() } else { items.join(";") }));
                    }
                    None => out.push_str(" N"),
                }
                out.push_str(&format!(" L{}", it.len()));
            }
        }
        // axisfold SHAPE a k WHAT : after k calls of next() on iter_axis, one of the provided methods of Iterator that run
        // the rest of the iterator through fold: count, last, for_each (the views are reported by their items)
        "axisfold" => {
            let a = ramp(&parse_list(toks[1]));
            let ax: usize = toks[2].parse().unwrap();
            let k: usize = toks[3].parse().unwrap();
            let mut it = a.iter_axis(Axis(ax));
            for _ in 0..k {
                let _ = it.next();
            }
            let items = |v: sfs_core::array::view::View<'_, f64>| -> String {
                let xs: Vec<String> = v.iter().map(|x| int(*x)).collect();
                if xs.is_empty() { "-".to_string() } else { xs.join(";") }
            };
            match toks[4] {
                "count" => out.push_str(&format!("C{}", it.count())),
                "last" => match it.last() {
                    Some(v) => out.push_str(&format!("V{}", items(v))),
                    None => out.push_str("N"),
                },
                _ => {
                    let mut all = Vec::new();
                    it.for_each(|v| all.push(items(v)));
                    out.push_str(&format!("F{}", if all.is_empty() { "none".to_string() } else { all.join("|") }));
                }
            }
        }
        // indices SHAPE k
        "indices" => {
            let a = ramp(&parse_list(toks[1]));
            let k: usize = toks[2].parse().unwrap();
            let mut it = a.iter_indices();
            out.push_str(&format!("L{}", it.len()));
            for _ in 0..k {
                match it.next() {
                    Some(idx) => out.push_str(&format!(" I{}", fmt_list(&idx))),
                    None => out.push_str(" N"),
                }
                out.push_str(&format!(" L{}", it.len()));
            }
        }
        // indiceshist SHAPE OPS : a call history on iter_indices mixing next() ("x") and nth(k) ("k"); every adaptor of the
        // standard library that skips (skip, step_by, nth) goes through nth
        "indiceshist" => {
            let a = ramp(&parse_list(toks[1]));
            let mut it = a.iter_indices();
            out.push_str(&format!("L{}", it.len()));
            for op in toks[2].split(',') {
                let r = if op == "x" { it.next() } else { it.nth(op.parse().unwrap()) };
                match r {
                    Some(idx) => out.push_str(&format!(" I{}", fmt_list(&idx))),
                    None => out.push_str(" N"),
                }
                out.push_str(&format!(" L{}", it.len()));
            }
        }
        // viewhist SHAPE a i OPS : the same for the view iterator
        "viewhist" => {
            let a = ramp(&parse_list(toks[1]));
            let ax: usize = toks[2].parse().unwrap();
            let i: usize = toks[3].parse().unwrap();
            match a.get_axis(Axis(ax), i) {
                None => out.push_str("None"),
                Some(v) => {
                    let mut it = v.iter();
                    out.push_str(&format!("L{}", it.len()));
                    for op in toks[4].split(',') {
                        if op == "c" {
                            // the history continues on a clone of the iterator taken here
                            it = it.clone();
                            continue;
                        }
                        if op == "l" || op == "n" {
                            // provided methods of Iterator, on a clone (they consume it): the last of the items still to
                            // come, and their number
                            if op == "l" {
                                match it.clone().last() {
                                    Some(x) => out.push_str(&format!(" T{}", int(*x))),
                                    None => out.push_str(" TN"),
                                }
                            } else {
                                out.push_str(&format!(" C{}", it.clone().count()));
                            }
                            continue;
                        }
                        let r = if op == "x" { it.next() } else { it.nth(op.parse().unwrap()) };
                        match r {
                            Some(x) => out.push_str(&format!(" S{}", int(*x))),
                            None => out.push_str(" N"),
                        }
                        out.push_str(&format!(" L{}", it.len()));
                    }
                }
            }
        }
        // toarray SHAPE a i : View::to_array of the view at position i of axis a - the copy's shape and data, `get` at
        // every index of that shape (enumerated here, not by the library), and the items of the copy's own views at the
        // last position of each of its axes
        "toarray" => {
            let a = ramp(&parse_list(toks[1]));
            let ax: usize = toks[2].parse().unwrap();
            let i: usize = toks[3].parse().unwrap();
            match a.get_axis(Axis(ax), i) {
                None => out.push_str("None"),
                Some(v) => {
                    let c = v.to_array();
                    let shape: Vec<usize> = c.shape().iter().copied().collect();
                    let data: Vec<String> = c.as_slice().iter().map(|x| int(*x)).collect();
                    out.push_str(&format!("S{} D{}", fmt_list(&shape), data.join(";")));
                    let n: usize = shape.iter().product();
                    let mut got = Vec::with_capacity(n);
                    for flat in 0..n {
                        let mut idx = vec![0usize; shape.len()];
                        let mut r = flat;
                        for k in (0..shape.len()).rev() {
                            idx[k] = r % shape[k];
                            r /= shape[k];
                        }
                        got.push(match c.get(&idx) {
                            Some(x) => int(*x),
                            None => "N".to_string(),
                        });
                    }
                    out.push_str(&format!(" G{}", got.join(";")));
                    for (b, len) in shape.iter().enumerate() {
                        if *len == 0 {
                            out.push_str(" A0");       // no position along this axis
                            continue;
                        }
                        match c.get_axis(Axis(b), len - 1) {
                            Some(w) => {
                                let items: Vec<String> = w.iter().map(|x| int(*x)).collect();
                                out.push_str(&format!(" A{}", if items.is_empty() { "-".to_string() } else { items.join(";") }));
                            }
                            None => out.push_str(" AN"),
                        }
                    }
                }
            }
        }
        // sum SHAPE a DATA
        "sum" => {
            let shape = parse_list(toks[1]);
            let ax: usize = toks[2].parse().unwrap();
            let data = parse_nums(toks[3]);
            let a = Array::new(data, shape).expect("sum shape");
            let s = a.sum(Axis(ax));
            out.push_str(&format!("{} {}", fmt_list(s.shape()), fmt_f64s(s.as_slice())));
        }
        _ => unreachable!(),
    }
}
