(* View::to_array (Model/ArrayM.v [view_to_array]): the owned copy of an axis view is a well-formed array over the
   remaining axes whose indexing agrees with the parent's (C19). *)
From Sfs Require Import Index ArrayM IndexP ArrayP.
From Coq Require Import Lia.

Section ToArray.
Variable A : Type.
Notation arr := (arr A).

Lemma nth_error_of_map_Some {B} (l : list A) (L : list B) (f : B -> option A) k d :
  map Some l = map f L -> k < length L -> nth_error l k = f (nth k L d).
Proof.
  revert L k; induction l as [|a l IH]; intros [|b L] k H Hk; cbn in *; try discriminate; try lia.
  inversion H; subst. destruct k as [|k]; cbn; [congruence|]. apply IH; [assumption|lia].
Qed.

Theorem to_array_spec (x : arr) a i v :
  wf x -> positive_shape (ashape x) -> get_axis x a i = Some v ->
  wf (view_to_array v) /\ ashape (view_to_array v) = remove_axis a (ashape x) /\
  forall idx', get (view_to_array v) idx' =
               if inb (remove_axis a (ashape x)) idx' then get x (insert_axis a i idx') else None.
Proof.
  intros Hwf Hp Hga. destruct (view_wf _ _ _ Hga) as [Hsh Hl].
  pose proof (view_items_get _ _ Hwf Hp Hga) as Hitems.
  pose proof (positive_remove_axis a _ Hp) as Hp'.
  assert (Hlen : length (view_items v) = elements (remove_axis a (ashape x))).
  { rewrite <- (map_length Some), Hitems, map_length. apply indices_length. }
  split; [|split].
  - unfold wf, view_to_array; cbn [adata ashape]. now rewrite Hsh.
  - exact Hsh.
  - intros idx'. rewrite get_spec. unfold view_to_array; cbn [adata ashape]. rewrite Hsh.
    destruct (inb (remove_axis a (ashape x)) idx') eqn:Hin; [|reflexivity].
    pose proof (flat_lt _ _ Hin) as Hlt.
    rewrite (@nth_error_of_map_Some _ _ _ _ _ [] Hitems) by (rewrite indices_length; exact Hlt).
    rewrite indices_unflat by assumption.
    rewrite (nth_indep _ [] (unflat (remove_axis a (ashape x)) 0)) by (rewrite map_length, seq_length; exact Hlt).
    rewrite map_nth, seq_nth by exact Hlt. cbn [plus]. now rewrite unflat_flat.
Qed.

(* ... so the copy's own axis views, sums and iterators are those of an ordinary array: everything proved for [arr]
   applies to it (it IS an [arr] with [wf]) *)
End ToArray.
