(* `sfs create` below the decoders never panics (C17): for every configuration the builder accepts, every stream of
   decoded records (any number of genotypes per record, any ploidies, any classes) and both modes, the panic skeleton
   (Model/PanicCreate.v) ends in Done or Fail. *)
From Sfs Require Import Index ArrayM Scalar Spectrum Project Create Panic PanicCreate IndexP ArrayP CreateL CreateP CreateSpecP PanicP.
From Coq Require Import Lia.

Close Scope Qc_scope. Close Scope Q_scope. Open Scope nat_scope.


(* the state shape the run maintains *)
Definition sstate_ok (cfg : reader_cfg) (st : sstate) : Prop :=
  length (s_counts st) = number_of_populations (r_map cfg) /\ length (s_totals st) = number_of_populations (r_map cfg).

(* ------------------------------------------------------------------ helper lemmas *)
Lemma pk_at_repeat s d i : i < d -> at_ s (repeat tt d) i = Done tt.
Proof.
  intros H. unfold at_. destruct (nth_error (repeat tt d) i) as [[]|] eqn:E; [reflexivity|].
  apply nth_error_None in E. rewrite repeat_length in E. lia.
Qed.

Lemma pk_index_of_lt {A} (eqb : A -> A -> bool) (x : A) l : forall i, index_of eqb x l = Some i -> i < length l.
Proof.
  induction l as [|y l IH]; intros i H; cbn [index_of] in H; [discriminate|].
  destruct (eqb x y).
  - inversion H; subst. cbn [length]. lia.
  - destruct (index_of eqb x l) as [j|]; cbn [option_map] in H; [|discriminate].
    inversion H; subst. specialize (IH j eq_refl). cbn [length]. lia.
Qed.

(* a selected sample is found by name *)
Lemma pk_get_index m k : forall pid, smap_get m k = Some pid -> exists i, smap_index_of m k = Some i.
Proof.
  unfold smap_index_of. induction m as [|[k' v] m IH]; intros pid H; cbn [smap_get] in H; [discriminate|].
  cbn [map fst index_of]. destruct (name_eqb k k').
  - eexists; reflexivity.
  - destruct (IH _ H) as [i Hi]. rewrite Hi. eexists; reflexivity.
Qed.

Lemma pk_idx_lt m c : m <> [] -> match smap_index_of m c with Some i => i | None => 0 end < length m.
Proof.
  intros Hne. destruct (smap_index_of m c) as [i|] eqn:E.
  - unfold smap_index_of in E. apply pk_index_of_lt in E. now rewrite map_length in E.
  - destruct m; [congruence|]. cbn [length]. lia.
Qed.

Lemma pk_cfg_nonempty cfg : cfg_wf cfg -> r_map cfg <> [].
Proof.
  intros (cols & samples & project & Hb & Hnd). revert Hb.
  unfold build_reader. cbv zeta.
  generalize (match samples with SamplesAll => map_from_all cols | SamplesList l => build_map l end).
  intros m. destruct m as [|e m0]; [intros Hb; discriminate|].
  destruct (map_shape (e :: m0)) as [from|] eqn:Hms; [|intros Hb; discriminate].
  destruct (find _ _); [intros Hb; discriminate|].
  destruct project as [p|].
  - set (to' := project_arg_shape p).
    destruct (negb (length from =? length to')) eqn:Hlen; [intros Hb; discriminate|].
    destruct (first_smaller 0 from to') as [[[d f] t]|] eqn:Hfs; [intros Hb; discriminate|].
    destruct (count_of_shape to') as [pto|] eqn:Hcs; [|intros Hb; discriminate].
    intros Hb. inversion Hb; subst cfg; clear Hb. cbn [r_map]. discriminate.
  - intros Hb. inversion Hb; subst cfg; clear Hb. cbn [r_map]. discriminate.
Qed.

Lemma pk_npop_pos m : m <> [] -> 1 <= number_of_populations m.
Proof.
  intros Hne. destruct m as [|[k v] m]; [congruence|]. unfold number_of_populations.
  assert (H : In v (distinct (map snd ((k, v) :: m)))) by (apply cp_in_distinct; left; reflexivity).
  destruct (distinct (map snd ((k, v) :: m))); [contradiction|]. cbn [length]. lia.
Qed.

(* lengths *)
Lemma pk_reset_len st : length (s_counts (reset st)) = length (s_counts st) /\
  length (s_totals (reset st)) = length (s_totals st).
Proof. unfold reset. cbn [s_counts s_totals]. rewrite !map_length. auto. Qed.

(* one pair of the zip: the skeleton is Done or Fail, and Fail exactly when the model stops *)
Lemma pk_step_cases m d st c g :
  (forall s pid, smap_get m s = Some pid -> pid < d) ->
  (site_step_skel m d c g = Fail /\ site_step m st c g = None) \/
  (site_step_skel m d c g = Done tt /\ exists st', site_step m st c g = Some st').
Proof.
  intros Hp. unfold site_step_skel, site_step.
  destruct (smap_get m c) as [pid|] eqn:E.
  - destruct (pk_get_index _ _ _ E) as [i Hi]. specialize (Hp _ _ E).
    destruct g; rewrite ?Hi, ?pk_at_repeat by assumption; cbn [bind];
      [right|right|right|left]; (split; [reflexivity|]); try (eexists; reflexivity); reflexivity.
  - right. split; [reflexivity|]. eexists; reflexivity.
Qed.

Lemma pk_steps_cases m d : (forall s pid, smap_get m s = Some pid -> pid < d) -> forall cols gs st,
  (site_steps_skel m d cols gs = Fail /\ site_steps m st cols gs = None) \/
  (site_steps_skel m d cols gs = Done tt /\ exists st1, site_steps m st cols gs = Some st1).
Proof.
  intros Hp. induction cols as [|c cols IH]; intros gs st.
  - right. cbn [site_steps_skel site_steps]. eauto.
  - destruct gs as [|g gs].
    + right. cbn [site_steps_skel site_steps]. eauto.
    + cbn [site_steps_skel site_steps].
      destruct (pk_step_cases m d st c g Hp) as [[H1 H2]|[H1 [st' H2]]]; rewrite H1, H2; cbn [bind].
      * left. auto.
      * apply IH.
Qed.

(* the skipped list only holds sample ids of the map *)
Lemma pk_step_skipped m st c g st' : m <> [] -> site_step m st c g = Some st' ->
  Forall (fun p => fst p < length m) (s_skipped st) -> Forall (fun p => fst p < length m) (s_skipped st').
Proof.
  intros Hne H HF. unfold site_step in H. pose proof (pk_idx_lt m c Hne) as Hi.
  destruct (smap_get m c) as [pid|]; [destruct g|]; inversion H; subst st'; cbn [s_skipped]; try assumption;
    (apply Forall_app; split; [assumption|]); constructor; [exact Hi|constructor|exact Hi|constructor].
Qed.

Lemma pk_steps_skipped m : m <> [] -> forall cols gs st st1, site_steps m st cols gs = Some st1 ->
  Forall (fun p => fst p < length m) (s_skipped st) -> Forall (fun p => fst p < length m) (s_skipped st1).
Proof.
  intros Hne. induction cols as [|c cols IH]; intros gs st st1 H HF.
  - cbn [site_steps] in H. inversion H; subst. assumption.
  - destruct gs as [|g gs]; cbn [site_steps] in H.
    + inversion H; subst. assumption.
    + destruct (site_step m st c g) as [st'|] eqn:E; [|discriminate].
      eapply IH; [exact H|]. eapply pk_step_skipped; eassumption.
Qed.

Lemma pk_for_each_skipped n (l : list (nat * skipkind)) : Forall (fun p => fst p < n) l ->
  for_each l (fun '(i, _) => _ <- at_ 5201 (repeat tt n) i ;; Done tt) = Done tt.
Proof.
  induction 1 as [|[i k] l Hi _ IH]; cbn [for_each]; [reflexivity|].
  cbn [fst] in Hi. rewrite pk_at_repeat by assumption. cbn [bind]. exact IH.
Qed.

Lemma pk_for_each_usub counts : forall totals, Forall2 le counts totals ->
  for_each (combine totals counts) (fun '(t, c) => _ <- usub 2201 t c ;; Done tt) = Done tt.
Proof.
  induction 1 as [|c t cs ts Hle _ IH]; cbn [combine for_each]; [reflexivity|].
  unfold usub at 1. apply Nat.leb_le in Hle. rewrite Hle. cbn [bind]. exact IH.
Qed.

Lemma pk_projected totals counts to : 1 <= length to -> Forall2 le counts totals ->
  projected_site_skel totals counts to = Done tt.
Proof.
  intros Hl HF. unfold projected_site_skel. unfold usub at 1.
  assert (E : (1 <=? length to) = true) by now apply Nat.leb_le. rewrite E. cbn [bind].
  rewrite pk_at_repeat by lia. cbn [bind]. now apply pk_for_each_usub.
Qed.

(* genotypes as the decoders classify them: a called genotype counts at most two ALT alleles *)
Definition called_le2 (g : gres) : Prop := match g with GCalled a => a <= 2 | _ => True end.

Lemma pk_called_le2_okg gs : Forall called_le2 gs -> Forall okg gs.
Proof.
  intros H. eapply Forall_impl; [|exact H]. intros g Hg a ->. exact Hg.
Qed.

(* one record: Done or Fail, and Fail exactly for a ploidy error of the model *)
Lemma pk_record_cases cfg st gs : cfg_wf cfg -> sstate_ok cfg st -> Forall okg gs ->
  (record_skel cfg st gs = Fail /\ snd (read_site (r_map cfg) (r_cols cfg) (r_pto cfg) st gs) = SErrPloidy) \/
  (record_skel cfg st gs = Done tt /\ snd (read_site (r_map cfg) (r_cols cfg) (r_pto cfg) st gs) <> SErrPloidy).
Proof.
  intros Hwf [Hc Ht] Hg.
  destruct (cfg_wf_facts cfg Hwf) as (Hpos & Hlen & Hnd & Hpid & Hpto).
  pose proof (pk_cfg_nonempty cfg Hwf) as Hne.
  pose proof (pk_npop_pos _ Hne) as Hd1.
  unfold record_skel. rewrite Hc.
  set (d := number_of_populations (r_map cfg)) in *.
  destruct (pk_steps_cases (r_map cfg) d Hpid (r_cols cfg) gs (reset st)) as [[S1 S2]|[S1 [st1 S2]]];
    rewrite S1; cbn [bind]; unfold read_site; cbv zeta; rewrite S2.
  - left. split; reflexivity.
  - right.
    pose proof (site_steps_dims _ _ _ _ _ S2) as (D1 & D2 & D3).
    destruct (pk_reset_len st) as [R1 R2].
    assert (Hrc : length (s_counts (reset st)) = d) by congruence.
    assert (Hrt : length (s_totals (reset st)) = d) by congruence.
    assert (Hz : forall j, nth j (s_counts (reset st)) 0 <= nth j (s_totals (reset st)) 0).
    { intros j. unfold reset. cbn [s_counts s_totals]. rewrite !cp_nth_zeros. lia. }
    assert (Hzt : forall j, nth j (s_totals (reset st)) 0 = 0).
    { intros j. unfold reset. cbn [s_totals]. apply cp_nth_zeros. }
    destruct (site_steps_bound _ d _ _ _ _ Hg Hrc Hrt S2 Hz) as [B1 B2].
    assert (Hsk : Forall (fun p => fst p < length (r_map cfg)) (s_skipped st1)).
    { eapply pk_steps_skipped; [exact Hne|exact S2|]. unfold reset. cbn [s_skipped]. constructor. }
    pose proof (pk_for_each_skipped _ _ Hsk) as Hfe.
    revert Hpto. destruct (r_pto cfg) as [to|]; intros Hpto.
    + destruct Hpto as (Hsh & from & Hfrom & HF2).
      assert (Hlto : length to = d) by (rewrite <- Hlen, Hsh, map_length; reflexivity).
      destruct (all2 Nat.eqb (s_totals st1) to) eqn:A1.
      * cbv beta iota. cbn [snd]. split; [|discriminate].
        apply cp_all2_eqb in A1; [|congruence].
        assert (Hin : inb (r_shape cfg) (s_counts st1) = true).
        { apply cp_inb_nth; [congruence|].
          intros j Hj. rewrite Hsh. rewrite cp_nth_map_S by lia. specialize (B1 j). rewrite A1 in B1. lia. }
        unfold index_skel. rewrite Hin. cbn [bind]. exact Hfe.
      * destruct (all2 (fun total t => t <=? total) (s_totals st1) to) eqn:A2.
        -- cbv beta iota. cbn [snd s_totals s_counts s_skipped]. split; [|discriminate].
           rewrite pk_projected; [cbn [bind]; exact Hfe|lia|].
           apply cp_nth_le_Forall2; [congruence|exact B1].
        -- cbv beta iota. cbn [snd bind]. split; [exact Hfe|discriminate].
    + destruct (s_skipped st1) as [|p l] eqn:Esk.
      * cbv beta iota. cbn [snd]. split; [|discriminate].
        assert (Hin : inb (r_shape cfg) (s_counts st1) = true).
        { apply cp_inb_nth; [congruence|].
          intros j Hj. rewrite (cp_map_shape_nth _ _ j Hpto) by (fold d; lia).
          specialize (B1 j). specialize (B2 j). rewrite Hzt in B2.
          pose proof (cp_cnt_le (r_map cfg) j (r_cols cfg) Hnd). lia. }
        unfold index_skel. rewrite Hin. cbn [bind]. rewrite Esk. reflexivity.
      * cbv beta iota. cbn [snd bind]. rewrite Esk. split; [exact Hfe|discriminate].
Qed.

Lemma record_skel_done_or_fail cfg st gs : cfg_wf cfg -> sstate_ok cfg st -> Forall called_le2 gs ->
  record_skel cfg st gs = Done tt \/ record_skel cfg st gs = Fail.
Proof.
  intros Hwf Hok Hg.
  destruct (pk_record_cases cfg st gs Hwf Hok (pk_called_le2_okg _ Hg)) as [[H _]|[H _]]; auto.
Qed.

Lemma record_skel_no_panic_called_le2 cfg st gs : cfg_wf cfg -> sstate_ok cfg st ->
  Forall (fun g => match g with GCalled a => a <= 2 | _ => True end) gs -> no_panic (record_skel cfg st gs).
Proof.
  intros Hwf Hok Hg s. destruct (record_skel_done_or_fail cfg st gs Hwf Hok Hg) as [H|H]; rewrite H; discriminate.
Qed.

(* ------------------------------------------------------------------ the statements *)
Theorem init_sstate_ok cfg : sstate_ok cfg (init_sstate cfg).
Proof. unfold sstate_ok, init_sstate. cbn [s_counts s_totals]. rewrite !repeat_length. auto. Qed.

Theorem read_site_keeps_ok cfg st gs : sstate_ok cfg st ->
  sstate_ok cfg (fst (read_site (r_map cfg) (r_cols cfg) (r_pto cfg) st gs)).
Proof.
  intros [Hc Ht]. destruct (pk_reset_len st) as [R1 R2]. unfold sstate_ok, read_site. cbv zeta.
  destruct (site_steps (r_map cfg) (reset st) (r_cols cfg) gs) as [st1|] eqn:E.
  - apply site_steps_dims in E as (E1 & E2 & _).
    destruct (r_pto cfg) as [to|].
    + destruct (all2 Nat.eqb (s_totals st1) to);
        [|destruct (all2 (fun total t => t <=? total) (s_totals st1) to)];
        cbn [fst s_counts s_totals]; split; congruence.
    + destruct (s_skipped st1); cbn [fst]; split; congruence.
  - cbn [fst]. split; congruence.
Qed.

(* the zip: population ids are in range, selected samples are found by name *)
Theorem site_steps_skel_no_panic cfg gs : cfg_wf cfg ->
  no_panic (site_steps_skel (r_map cfg) (number_of_populations (r_map cfg)) (r_cols cfg) gs).
Proof.
  intros Hwf s. destruct (cfg_wf_facts cfg Hwf) as (_ & _ & _ & Hpid & _).
  destruct (pk_steps_cases (r_map cfg) _ Hpid (r_cols cfg) gs (init_sstate cfg)) as [[H _]|[H _]];
    rewrite H; discriminate.
Qed.

(* ... and it fails exactly when the model's zip fails (a selected non-diploid genotype) *)
Theorem site_steps_skel_fail_iff cfg st gs : cfg_wf cfg -> sstate_ok cfg st ->
  (site_steps_skel (r_map cfg) (number_of_populations (r_map cfg)) (r_cols cfg) gs = Fail <->
   site_steps (r_map cfg) (reset st) (r_cols cfg) gs = None).
Proof.
  intros Hwf _. destruct (cfg_wf_facts cfg Hwf) as (_ & _ & _ & Hpid & _).
  destruct (pk_steps_cases (r_map cfg) _ Hpid (r_cols cfg) gs (reset st)) as [[H1 H2]|[H1 [st1 H2]]];
    rewrite H1, H2; split; intros H; try reflexivity; discriminate.
Qed.

(* one record. For ARBITRARY classes the statement would be false: a class [GCalled a] with a > 2, which [classify] never
   produces (classify_called_range), makes a count exceed its total and the axis length - kept as refutations; the
   theorem for genotypes as classified (a <= 2) is record_skel_no_panic_called_le2 above, and the run theorems rest on it *)
Lemma record_skel_arbitrary_classes_refuted :
  ~ (forall cfg st gs, cfg_wf cfg -> sstate_ok cfg st -> no_panic (record_skel cfg st gs)).
Proof.
  intros H.
  set (cfg := {| r_map := [([97], 0)]; r_cols := [[97]]; r_pto := None; r_shape := [3] |}).
  assert (Hwf : cfg_wf cfg).
  { exists [[97]], SamplesAll, None. split; [vm_compute; reflexivity|].
    constructor; [intros []|constructor]. }
  apply (H cfg (init_sstate cfg) [GCalled 3] Hwf (init_sstate_ok cfg) 7601%N).
  vm_compute. reflexivity.
Qed.

Lemma record_skel_arbitrary_classes_refuted_projected :
  exists cfg st gs s, cfg_wf cfg /\ sstate_ok cfg st /\ r_pto cfg <> None /\ record_skel cfg st gs = Panic s.
Proof.
  set (cfg := {| r_map := [([97], 0)]; r_cols := [[97]]; r_pto := Some [1]; r_shape := [2] |}).
  exists cfg, (init_sstate cfg), [GCalled 3], 2201%N. split; [|split; [|split]].
  - exists [[97]], SamplesAll, (Some (ProjShape [2])). split; [vm_compute; reflexivity|].
    constructor; [intros []|constructor].
  - apply init_sstate_ok.
  - discriminate.
  - vm_compute. reflexivity.
Qed.

(* one record of classified genotypes *)
Theorem record_skel_no_panic cfg st (gts : list vcf_gt) : cfg_wf cfg -> sstate_ok cfg st ->
  no_panic (record_skel cfg st (map classify gts)).
Proof.
  intros Hwf Hok. apply record_skel_no_panic_called_le2; try assumption.
  apply Forall_forall. intros g Hg. apply in_map_iff in Hg as (x & <- & _).
  destruct (classify x) eqn:E; try exact I. eapply classify_called_range; eassumption.
Qed.

(* the whole run: Done when the model's run produces a state, Fail when it ends in an error; never a panic *)
Lemma pk_create_cases cfg strict : cfg_wf cfg -> forall items st, sstate_ok cfg (rs st) ->
  (create_skel cfg strict st items = Done tt /\ exists st', run_items cfg strict st items = inl st') \/
  (create_skel cfg strict st items = Fail /\ exists e, run_items cfg strict st items = inr e).
Proof.
  intros Hwf. induction items as [|it items IH]; intros st Hok.
  - left. cbn [create_skel run_items]. eauto.
  - destruct it as [r|].
    + cbn [create_skel run_items].
      pose proof (run_step_cases cfg strict st (IRec r)) as Hc. cbv beta iota zeta in Hc.
      pose proof (read_site_keeps_ok cfg (rs st) (map classify (rec_gts r)) Hok) as Hk.
      destruct (pk_record_cases cfg (rs st) (map classify (rec_gts r)) Hwf Hok (okg_classify _)) as [[R1 R2]|[R1 R2]];
        rewrite R1; cbn [bind].
      * right. split; [reflexivity|]. rewrite R2 in Hc. rewrite Hc. eauto.
      * revert Hc R2.
        destruct (snd (read_site (r_map cfg) (r_cols cfg) (r_pto cfg) (rs st) (map classify (rec_gts r))))
          as [[c|v|]|]; intros Hc R2; [| | |congruence]; rewrite Hc.
        -- apply IH. cbn [rs]. exact Hk.
        -- apply IH. cbn [rs]. exact Hk.
        -- destruct strict.
           ++ right. eauto.
           ++ apply IH. cbn [rs]. exact Hk.
    + right. cbn [create_skel run_items run_step]. eauto.
Qed.

(* the whole run, strict or not, from the initial state *)
Theorem create_skel_no_panic cfg strict items : cfg_wf cfg ->
  no_panic (create_skel cfg strict (init_rstate cfg) items).
Proof.
  intros Hwf s.
  destruct (pk_create_cases cfg strict Hwf items (init_rstate cfg) (init_sstate_ok cfg)) as [[H _]|[H _]];
    rewrite H; discriminate.
Qed.

(* and it is Done exactly when the model's run produces a spectrum *)
Theorem create_skel_done_iff cfg strict items : cfg_wf cfg ->
  (create_skel cfg strict (init_rstate cfg) items = Done tt <-> exists st, run_items cfg strict (init_rstate cfg) items = inl st).
Proof.
  intros Hwf.
  destruct (pk_create_cases cfg strict Hwf items (init_rstate cfg) (init_sstate_ok cfg)) as [[H1 [st H2]]|[H1 [e H2]]];
    rewrite H1, H2; split.
  - intros _. eauto.
  - reflexivity.
  - discriminate.
  - intros [st H]. discriminate.
Qed.

(* non-vacuity: a two-population configuration with a projection, records of all classes *)
Example create_skel_example :
  exists cfg, build_reader [[97]; [98]; [99]] (SamplesList [([97], Some [65]); ([99], Some [66]); ([98], Some [65])]) (Some (ProjShape [3; 2])) = inl cfg /\
    create_skel cfg false (init_rstate cfg)
      [IRec {| rec_contig := [49]; rec_pos := 1; rec_gts := [Some [Some 0; Some 1]; Some [Some 1; Some 1]; Some [Some 0; Some 0]] |};
       IRec {| rec_contig := [49]; rec_pos := 2; rec_gts := [None; Some [Some 1; Some 2]; Some [Some 0; None]] |};
       IRec {| rec_contig := [49]; rec_pos := 3; rec_gts := [Some [Some 0; Some 1]; None; Some [Some 1; Some 1]] |}] = Done tt /\
    create_skel cfg false (init_rstate cfg)
      [IRec {| rec_contig := [49]; rec_pos := 1; rec_gts := [Some [Some 0]; Some [Some 1; Some 1]; Some [Some 0; Some 0]] |}] = Fail.
Proof. eexists; split; [vm_compute; reflexivity|split; vm_compute; reflexivity]. Qed.

