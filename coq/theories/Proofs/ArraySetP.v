(* The mutable path of the array API (get_mut / IndexMut, Model/ArrayM.v [set]) addresses exactly what the shared path
   ([get]) addresses (C19). *)
From Sfs Require Import Index ArrayM IndexP ArrayP.
From Coq Require Import Lia.

Section ArraySet.
Variable A : Type.
Notation arr := (arr A).

(* ---- helpers ---- *)
Lemma replace_nth_length (l : list A) n v : length (replace_nth l n v) = length l.
Proof. revert n; induction l as [|a t IH]; intros [|n]; cbn; auto. Qed.

Lemma replace_nth_same (l : list A) n v : n < length l -> nth_error (replace_nth l n v) n = Some v.
Proof.
  revert n; induction l as [|a t IH]; intros [|n] H; cbn in *; try lia; [reflexivity|].
  apply IH; lia.
Qed.

Lemma replace_nth_other (l : list A) n i v : i <> n -> nth_error (replace_nth l n v) i = nth_error l i.
Proof.
  revert n i; induction l as [|a t IH]; intros [|n] [|i] H; cbn; try reflexivity; try congruence.
  apply IH; congruence.
Qed.

Lemma set_spec (x : arr) idx v :
  set x idx v =
  if inb (ashape x) idx then
    if flat (ashape x) idx <? length (adata x)
    then Some {| adata := replace_nth (adata x) (flat (ashape x) idx) v; ashape := ashape x |}
    else None
  else None.
Proof.
  unfold set, dimensions, astrides. rewrite flat_index_spec.
  destruct (inb (ashape x) idx) eqn:Hin.
  - apply inb_length in Hin. rewrite Hin, Nat.eqb_refl. reflexivity.
  - now destruct (length idx =? length (ashape x)).
Qed.

Lemma set_some_inv (x y : arr) idx v :
  set x idx v = Some y ->
  inb (ashape x) idx = true /\ flat (ashape x) idx < length (adata x) /\
  y = {| adata := replace_nth (adata x) (flat (ashape x) idx) v; ashape := ashape x |}.
Proof.
  rewrite set_spec. destruct (inb (ashape x) idx); [|discriminate].
  destruct (flat (ashape x) idx <? length (adata x)) eqn:E; [|discriminate].
  apply Nat.ltb_lt in E. intros H; injection H as <-. auto.
Qed.

Lemma flat_inj sh a b : inb sh a = true -> inb sh b = true -> flat sh a = flat sh b -> a = b.
Proof.
  intros Ha Hb E. rewrite <- (unflat_flat _ _ Ha), <- (unflat_flat _ _ Hb). now rewrite E.
Qed.

(* get_mut returns a reference exactly when get returns one *)
Theorem set_some_iff_get_some (x : arr) idx v :
  (exists y, set x idx v = Some y) <-> (exists a, get x idx = Some a).
Proof.
  rewrite set_spec, get_spec. destruct (inb (ashape x) idx).
  - destruct (flat (ashape x) idx <? length (adata x)) eqn:E.
    + apply Nat.ltb_lt in E. split; intros _; [|eauto].
      destruct (nth_error (adata x) (flat (ashape x) idx)) eqn:N; [eauto|].
      apply nth_error_None in N. lia.
    + apply Nat.ltb_ge in E. apply nth_error_None in E. rewrite E.
      split; intros [? ?]; discriminate.
  - split; intros [? ?]; discriminate.
Qed.

(* out-of-range on any axis, or a wrong number of indices: None, whatever the strides add up to *)
Theorem set_out_of_range (x : arr) idx v : inb (ashape x) idx = false -> set x idx v = None.
Proof. intros H. rewrite set_spec, H. reflexivity. Qed.

(* shape and length are kept: a well-formed array stays well-formed *)
Theorem set_keeps_shape (x y : arr) idx v : set x idx v = Some y -> ashape y = ashape x /\ length (adata y) = length (adata x).
Proof.
  intros H. apply set_some_inv in H as (_ & _ & ->). cbn. split; [reflexivity|apply replace_nth_length].
Qed.
Theorem set_wf (x y : arr) idx v : wf x -> set x idx v = Some y -> wf y.
Proof.
  unfold wf. intros Hwf H. apply set_keeps_shape in H as [-> ->]. exact Hwf.
Qed.

(* what was written is read back at that index *)
Theorem get_set_same (x y : arr) idx v : set x idx v = Some y -> get y idx = Some v.
Proof.
  intros H. apply set_some_inv in H as (Hin & Hlt & ->).
  rewrite get_spec. cbn [ashape adata]. rewrite Hin. now apply replace_nth_same.
Qed.

(* ... and nothing else changed: every other index reads as before *)
Theorem get_set_other (x y : arr) idx idx' v : set x idx v = Some y -> idx' <> idx -> get y idx' = get x idx'.
Proof.
  intros H Hne. apply set_some_inv in H as (Hin & Hlt & ->).
  rewrite !get_spec. cbn [ashape adata].
  destruct (inb (ashape x) idx') eqn:Hin'; [|reflexivity].
  apply replace_nth_other. intros E. apply Hne. eapply flat_inj; eassumption.
Qed.

(* at the level of the data: exactly the row-major position of the index changed *)
Theorem set_changes_one_position (x y : arr) idx v :
  wf x -> set x idx v = Some y ->
  inb (ashape x) idx = true /\ nth_error (adata y) (flat (ashape x) idx) = Some v /\
  forall i, i <> flat (ashape x) idx -> nth_error (adata y) i = nth_error (adata x) i.
Proof.
  intros _ H. apply set_some_inv in H as (Hin & Hlt & ->). cbn [ashape adata].
  split; [assumption|]. split; [now apply replace_nth_same|].
  intros i Hi. now apply replace_nth_other.
Qed.

End ArraySet.

Example set_example :
  set {| adata := [0; 1; 2; 3; 4; 5]; ashape := [2; 3] |} [1; 0] 9 = Some {| adata := [0; 1; 2; 9; 4; 5]; ashape := [2; 3] |} /\
  set {| adata := [0; 1; 2; 3; 4; 5]; ashape := [2; 3] |} [0; 3] 9 = None /\
  set {| adata := [0; 1; 2; 3; 4; 5]; ashape := [2; 3] |} [1] 9 = None.
Proof. vm_compute; repeat split; reflexivity. Qed.

