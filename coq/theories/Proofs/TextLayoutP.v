(* The text reader does not care how the value tokens are laid out: any non-empty runs of ASCII whitespace (spaces, tabs,
   line breaks, CR LF, form feeds) between them, before the first and after the last give the result of the canonical
   one-line layout; and the number of tokens - wherever they stand - decides acceptance (C16, C07).
   *)
From Sfs Require Import Index Npy Text NpyP TextP.
From Coq Require Import Lia ZifyN ZifyBool ZifyNat.

Close Scope string_scope. Open Scope N_scope.

Definition ws_run (s : bytes) : Prop := s <> [] /\ Forall (fun c => is_ascii_ws c = true) s.
Definition all_ws (s : bytes) : Prop := Forall (fun c => is_ascii_ws c = true) s.
Definition word (s : bytes) : Prop := s <> [] /\ no_ws s.

(* tokens with the separator runs between them ([32] when the list of runs is exhausted) and a tail after the last *)
Fixpoint layout (toks : list bytes) (seps : list bytes) (tail : bytes) : bytes :=
  match toks with
  | [] => tail
  | [t] => t ++ tail
  | t :: rest => t ++ hd [32] seps ++ layout rest (tl seps) tail
  end.

(* ---- helper lemmas ---- *)
Lemma split_ws_aux_skip ws r : all_ws ws -> split_ws_aux (ws ++ r) [] = split_ws_aux r [].
Proof.
  unfold all_ws. induction 1 as [|c ws Hc Hs IH]; [reflexivity|].
  cbn [app split_ws_aux]. rewrite Hc. exact IH.
Qed.
Lemma split_ws_word_run s ws r : word s -> ws_run ws -> split_ws_aux (s ++ ws ++ r) [] = s :: split_ws_aux r [].
Proof.
  intros [Hne Hs] [Hw Hf]. destruct ws as [|c ws]; [congruence|].
  inversion Hf as [|? ? Hc Hws]; subst. cbn [app].
  rewrite split_ws_word_sep by assumption. rewrite split_ws_aux_skip by exact Hws. reflexivity.
Qed.
Lemma split_ws_word_end s tail : word s -> all_ws tail -> split_ws_aux (s ++ tail) [] = [s].
Proof.
  intros Hw Ht. destruct tail as [|c tail].
  - destruct Hw as [Hne Hs]. rewrite split_ws_aux_word by exact Hs. rewrite app_nil_r. cbn [split_ws_aux].
    pose proof (rev_nonempty s Hne) as Hr. destruct (rev s) as [|a r] eqn:E; [congruence|].
    rewrite <- E, rev_involutive. reflexivity.
  - rewrite <- (app_nil_r (c :: tail)). rewrite split_ws_word_run; [reflexivity|exact Hw|].
    split; [discriminate|exact Ht].
Qed.
Lemma ws_run_hd seps : Forall ws_run seps -> ws_run (hd [32] seps).
Proof.
  intros H. destruct H as [|a l Ha Hl]; cbn [hd]; [|exact Ha].
  split; [discriminate|]. constructor; [reflexivity|constructor].
Qed.
Lemma Forall_tl {A} (P : A -> Prop) l : Forall P l -> Forall P (tl l).
Proof. intros H. destruct H; cbn [tl]; [constructor|assumption]. Qed.
Lemma layout_cons2 t u rest seps tail :
  layout (t :: u :: rest) seps tail = t ++ hd [32] seps ++ layout (u :: rest) (tl seps) tail.
Proof. reflexivity. Qed.
Lemma split_ws_layout_aux toks : forall seps tail, Forall word toks -> Forall ws_run seps -> all_ws tail ->
  split_ws_aux (layout toks seps tail) [] = toks.
Proof.
  induction toks as [|t rest IH]; intros seps tail Ht Hs Htail.
  - cbn [layout]. rewrite <- (app_nil_r tail). rewrite split_ws_aux_skip by exact Htail. reflexivity.
  - inversion Ht as [|? ? Hw Hr]; subst. destruct rest as [|u rest'].
    + cbn [layout]. apply split_ws_word_end; assumption.
    + rewrite layout_cons2. rewrite split_ws_word_run; [|exact Hw|apply ws_run_hd; exact Hs].
      rewrite IH; [reflexivity|exact Hr|apply Forall_tl; exact Hs|exact Htail].
Qed.

Theorem split_ws_layout (toks seps : list bytes) (lead tail : bytes) :
  Forall word toks -> Forall ws_run seps -> all_ws lead -> all_ws tail ->
  split_ascii_whitespace (lead ++ layout toks seps tail) = toks.
Proof.
  intros Ht Hs Hl Htail. unfold split_ascii_whitespace.
  rewrite split_ws_aux_skip by exact Hl. apply split_ws_layout_aux; assumption.
Qed.

(* the canonical layout is one of them *)
Theorem layout_canonical (toks : list bytes) : toks <> [] -> layout toks [] [10] = join [32] toks ++ [10].
Proof.
  induction toks as [|t rest IH]; intros Hne; [congruence|].
  destruct rest as [|u rest']; [reflexivity|].
  rewrite layout_cons2. cbn [hd tl]. rewrite IH by discriminate.
  change (join [32] (t :: u :: rest')) with (t ++ [32] ++ join [32] (u :: rest')).
  rewrite <- !app_assoc. reflexivity.
Qed.

(* ---- helper lemmas for read_text ---- *)
Lemma ws_lt c : is_ascii_ws c = true -> c < 128.
Proof. unfold is_ascii_ws. lia. Qed.
Lemma all_ws_lt s : all_ws s -> Forall (fun c => c < 128) s.
Proof. intros H. eapply Forall_impl; [|exact H]. apply ws_lt. Qed.
Lemma Forall_layout (P : N -> Prop) toks : forall seps tail, P 32 -> Forall (Forall P) toks ->
  Forall (Forall P) seps -> Forall P tail -> Forall P (layout toks seps tail).
Proof.
  induction toks as [|t rest IH]; intros seps tail H32 Ht Hs Htail; [exact Htail|].
  inversion Ht as [|? ? Hw Hr]; subst. destruct rest as [|u rest'].
  - cbn [layout]. apply Forall_app. split; assumption.
  - rewrite layout_cons2. apply Forall_app. split; [exact Hw|]. apply Forall_app. split.
    + destruct Hs; cbn [hd]; [constructor; [exact H32|constructor]|assumption].
    + apply IH; [exact H32|exact Hr|apply Forall_tl; exact Hs|exact Htail].
Qed.
Definition text_body_result (line body : bytes) : (list N * list N) + terr :=
  match parse_text_header (line ++ [10]) with
  | None => inr TBadHeader
  | Some sh =>
    match all_some (map parse_f64 (split_ascii_whitespace body)) with
    | None => inr TBadValue
    | Some vals => if N.of_nat (length vals) =? nelements sh then inl (sh, vals) else inr TShapeMismatch
    end
  end.
Lemma read_text_body line body : Forall (fun c => (c =? 10) = false) line ->
  Forall (fun c => c < 128) line -> Forall (fun c => c < 128) body ->
  read_text (line ++ 10 :: body) = text_body_result line body.
Proof.
  intros Hnl Hl Hb. unfold read_text, text_body_result.
  assert (Hascii : forallb (fun c => c <? 128) (line ++ 10 :: body) = true).
  { apply forallb_forall. apply Forall_forall. apply Forall_app. split.
    - eapply Forall_impl; [|exact Hl]. cbv beta. intros c Hc. lia.
    - constructor; [reflexivity|]. eapply Forall_impl; [|exact Hb]. cbv beta. intros c Hc. lia. }
  rewrite Hascii. cbn [negb]. rewrite read_line_app by exact Hnl. reflexivity.
Qed.
Lemma read_text_body_inl line body sh vals : Forall (fun c => (c =? 10) = false) line ->
  read_text (line ++ 10 :: body) = inl (sh, vals) ->
  parse_text_header (line ++ [10]) = Some sh /\
  all_some (map parse_f64 (split_ascii_whitespace body)) = Some vals /\
  N.of_nat (length vals) = nelements sh.
Proof.
  intros Hnl. unfold read_text. destruct (negb _); [discriminate|].
  rewrite read_line_app by exact Hnl.
  destruct (parse_text_header (line ++ [10])) as [sh'|]; [|discriminate].
  destruct (all_some _) as [vals'|]; [|discriminate].
  destruct (N.eqb_spec (N.of_nat (length vals')) (nelements sh')) as [E|E]; [|discriminate].
  intros H. inversion H. subst. auto.
Qed.
Lemma all_some_length {A} (l : list (option A)) r : all_some l = Some r -> length r = length l.
Proof.
  revert r. induction l as [|a l IH]; intros r H.
  - cbn [all_some] in H. inversion H. reflexivity.
  - cbn [all_some] in H. destruct a as [a|]; [|discriminate].
    destruct (all_some l) as [r'|]; [|discriminate]. inversion H. subst.
    cbn [length]. rewrite (IH r' eq_refl). reflexivity.
Qed.
Lemma word_lt_run (seps : list bytes) : Forall ws_run seps -> Forall (Forall (fun c => c < 128)) seps.
Proof.
  intros H. eapply Forall_impl; [|exact H]. intros a [_ Ha]. apply all_ws_lt. exact Ha.
Qed.
Lemma split_join_extra toks extra : Forall word toks -> word extra ->
  split_ascii_whitespace (join [32] toks ++ [10] ++ extra ++ [10]) = toks ++ [extra].
Proof.
  unfold split_ascii_whitespace. intros H [Hne He].
  assert (Hx : split_ws_aux (extra ++ [10]) [] = [extra]).
  { rewrite split_ws_word_sep by (auto; reflexivity). reflexivity. }
  induction H as [|a l [Hna Ha] Hl IH].
  - cbn [join app]. cbn [split_ws_aux]. change (is_ascii_ws 10) with true. cbv iota. exact Hx.
  - destruct l as [|b l'].
    + cbn [join]. cbn [app] in *. rewrite split_ws_word_sep by (auto; reflexivity). rewrite Hx. reflexivity.
    + change (join [32] (a :: b :: l')) with (a ++ 32 :: join [32] (b :: l')).
      rewrite <- app_assoc. rewrite <- app_comm_cons.
      rewrite split_ws_word_sep by (auto; reflexivity). rewrite IH. reflexivity.
Qed.

Theorem read_text_layout_free (line : bytes) (toks seps : list bytes) (lead tail : bytes) :
  Forall (fun c => (c =? 10) = false) line -> Forall (fun c => c < 128) line ->
  Forall word toks -> Forall (Forall (fun c => c < 128)) toks -> Forall ws_run seps -> all_ws lead -> all_ws tail ->
  read_text (line ++ 10 :: lead ++ layout toks seps tail) = read_text (line ++ 10 :: join [32] toks ++ [10]).
Proof.
  intros Hnl Hl Hw Ht Hs Hlead Htail.
  rewrite !read_text_body; try assumption.
  - unfold text_body_result. rewrite split_ws_layout by assumption.
    rewrite split_ws_join by exact Hw. reflexivity.
  - apply Forall_app. split; [|repeat constructor].
    apply Forall_join; [repeat constructor|exact Ht].
  - apply Forall_app. split; [apply all_ws_lt; exact Hlead|].
    apply Forall_layout; [reflexivity|exact Ht|apply word_lt_run; exact Hs|apply all_ws_lt; exact Htail].
Qed.

(* acceptance is decided by the number of tokens in the whole remainder of the file *)
Theorem read_text_token_count (line : bytes) (toks seps : list bytes) (lead tail : bytes) sh vals :
  Forall (fun c => (c =? 10) = false) line ->
  Forall word toks -> Forall ws_run seps -> all_ws lead -> all_ws tail ->
  read_text (line ++ 10 :: lead ++ layout toks seps tail) = inl (sh, vals) ->
  N.of_nat (length toks) = nelements sh /\ length vals = length toks.
Proof.
  intros Hnl Hw Hs Hlead Htail H.
  apply read_text_body_inl in H; [|exact Hnl]. destruct H as [_ [Ha Hc]].
  rewrite split_ws_layout in Ha by assumption.
  apply all_some_length in Ha. rewrite map_length in Ha.
  split; [rewrite <- Ha; exact Hc|exact Ha].
Qed.

(* in particular surplus tokens on later lines are counted: a complete first line followed by one more token on its own
   line is rejected *)
Theorem read_text_surplus_line_rejected (line : bytes) (toks : list bytes) (extra : bytes) sh :
  Forall (fun c => (c =? 10) = false) line -> Forall (fun c => c < 128) line ->
  Forall word toks -> Forall (Forall (fun c => c < 128)) toks -> word extra -> Forall (fun c => c < 128) extra ->
  read_text (line ++ 10 :: join [32] toks ++ [10]) = inl (sh, map (fun t => match parse_f64 t with Some v => v | None => 0 end) toks) ->
  exists e, read_text (line ++ 10 :: join [32] toks ++ [10] ++ extra ++ [10]) = inr e.
Proof.
  intros Hnl Hl Hw Ht Hwe Hte H.
  apply read_text_body_inl in H; [|exact Hnl]. destruct H as [Hh [_ Hc]].
  rewrite map_length in Hc.
  rewrite read_text_body; try assumption.
  - unfold text_body_result. rewrite Hh. rewrite split_join_extra by assumption.
    destruct (all_some (map parse_f64 (toks ++ [extra]))) as [vals2|] eqn:E; [|eexists; reflexivity].
    apply all_some_length in E. rewrite map_length, app_length in E. cbn [length] in E.
    destruct (N.eqb_spec (N.of_nat (length vals2)) (nelements sh)) as [E2|E2]; [|eexists; reflexivity].
    exfalso. lia.
  - apply Forall_app. split; [apply Forall_join; [repeat constructor|exact Ht]|].
    apply Forall_app. split; [repeat constructor|].
    apply Forall_app. split; [exact Hte|repeat constructor].
Qed.

Example layout_example :
  read_text (str "#SHAPE=<2/2>" ++ 10 :: layout [str "1"; str "2.5"; str "3"; str "4"] [[10]; [9; 32]; [13; 10]] [10; 10]) =
  read_text (str "#SHAPE=<2/2>" ++ 10 :: str "1 2.5 3 4" ++ [10]) /\
  (exists r, read_text (str "#SHAPE=<2/2>" ++ 10 :: str "1 2.5 3 4" ++ [10]) = inl r) /\
  (exists e, read_text (str "#SHAPE=<3>" ++ 10 :: str "1 2 3" ++ [10] ++ str "4" ++ [10]) = inr e).
Proof.
  vm_compute. split; [reflexivity|]. split; eexists; reflexivity.
Qed.

