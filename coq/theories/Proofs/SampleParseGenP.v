(* The two sample-list syntaxes under their weakest natural conditions (C09): the inline entry is split at its FIRST '=',
   so a label may contain '=' (and anything but ','); the samples-file line is split at its FIRST tab, so a label may
   contain tabs, '=', ',' and spaces. *)
From Sfs Require Import Index Create SampleParse CreateP SampleParseP.
From Coq Require Import Lia.

Close Scope Qc_scope. Close Scope Q_scope. Open Scope nat_scope.

Definition avoids (c : nat) (s : name) : Prop := Forall (fun x => x <> c) s.

(* what can be written inline: no ',' anywhere; no '=' in the NAME of a labelled or unlabelled entry *)
Definition entry_inline_ok (e : name * pop) : Prop :=
  avoids 44 (fst e) /\ avoids 61 (fst e) /\ match snd e with Some p => avoids 44 p | None => True end.

(* what can be written as a line of the samples file: no line feed anywhere; no tab in the name; the rendered line does not
   end in a carriage return (lines() would strip it) *)
Definition entry_file_ok (e : name * pop) : Prop :=
  avoids 10 (fst e) /\ avoids 9 (fst e) /\ match snd e with Some p => avoids 10 p | None => True end /\
  (forall r, render_entry 9 e <> r ++ [13]).

Theorem entry_of_render_gen sep (e : name * pop) : avoids sep (fst e) -> entry_of sep (render_entry sep e) = e.
Proof. intro H. apply entry_of_render. exact H. Qed.

Lemma map_entry_of_render_gen sep l : Forall (fun e => avoids sep (fst e)) l ->
  map (entry_of sep) (map (render_entry sep) l) = l.
Proof.
  intro H. induction H as [|e l He Hl IH]; simpl; [reflexivity|].
  rewrite entry_of_render_gen, IH; auto.
Qed.
Lemma render_entry_avoids_gen sep x e : x <> sep -> avoids x (fst e) ->
  match snd e with Some p => avoids x p | None => True end -> avoids x (render_entry sep e).
Proof.
  intros Hx Hk Hp. destruct e as [k [p|]]; unfold render_entry, avoids in *; simpl in *.
  - apply Forall_app; split; [assumption|]. constructor; [congruence|assumption].
  - assumption.
Qed.
Lemma render_inline_avoids e : entry_inline_ok e -> Forall (fun c => c <> 44) (render_entry 61 e).
Proof. intros [H1 [_ H3]]. apply (render_entry_avoids_gen 61 44); auto; discriminate. Qed.
Theorem parse_render_inline_gen l : l <> [] -> Forall entry_inline_ok l -> parse_samples_inline (render_inline l) = l.
Proof.
  intros Hne H. unfold parse_samples_inline, render_inline.
  rewrite split_all_join.
  - apply map_entry_of_render_gen. eapply Forall_impl; [|exact H]. intros e He. apply He.
  - destruct l; [congruence|discriminate].
  - apply Forall_map. eapply Forall_impl; [|exact H]. intros e He. apply render_inline_avoids; exact He.
Qed.

Lemma strip_cr_id l : (forall r, l <> r ++ [13]) -> strip_cr l = l.
Proof.
  intro H. unfold strip_cr. destruct (rev l) as [|n r] eqn:E; [reflexivity|].
  destruct (Nat.eq_dec n 13) as [->|Hn].
  - exfalso. apply (H (rev r)).
    assert (Hl : l = rev (rev l)) by (symmetry; apply rev_involutive).
    rewrite Hl, E. reflexivity.
  - apply match13; exact Hn.
Qed.
Theorem parse_render_file_gen l : Forall entry_file_ok l -> parse_samples_file (render_file l) = l.
Proof.
  intro H. unfold parse_samples_file, render_file.
  rewrite lines_flat.
  - rewrite (map_map (render_entry 9) strip_cr).
    rewrite (map_ext_Forall (fun e => strip_cr (render_entry 9 e)) (render_entry 9)).
    + apply map_entry_of_render_gen. eapply Forall_impl; [|exact H]. intros e He. apply He.
    + eapply Forall_impl; [|exact H]. intros e He. apply strip_cr_id. apply He.
  - eapply Forall_impl; [|exact H]. intros e [H1 [_ [H3 _]]].
    apply (render_entry_avoids_gen 9 10); auto; discriminate.
Qed.

(* the same content given either way builds the same map, including labels that contain '=' or spaces *)
Theorem file_equiv_inline_gen l : l <> [] -> Forall entry_inline_ok l -> Forall entry_file_ok l ->
  build_map (parse_samples_file (render_file l)) = build_map (parse_samples_inline (render_inline l)).
Proof.
  intros Hne Hi Hf. rewrite parse_render_file_gen, parse_render_inline_gen by auto. reflexivity.
Qed.

(* the plain entries of SampleParseP are a special case *)
Theorem entry_plain_ok e : entry_plain e -> entry_inline_ok e /\ entry_file_ok e.
Proof.
  intro H. assert (H' := H). destruct H' as [Hk [_ Hp]]. split.
  - split; [|split].
    + apply (entry_plain_fst 44); auto.
    + apply (entry_plain_fst 61); auto.
    + destruct (snd e); [|exact I]. eapply plain_weaken; [|exact Hp]. intros c Hc; lia.
  - split; [|split; [|split]].
    + apply (entry_plain_fst 10); auto 10.
    + apply (entry_plain_fst 9); auto 10.
    + destruct (snd e); [|exact I]. eapply plain_weaken; [|exact Hp]. intros c Hc; lia.
    + intros r Hr.
      assert (H13 : Forall (fun c => c <> 13) (render_entry 9 e))
        by (apply render_entry_avoids; auto 10; discriminate).
      rewrite Hr in H13. apply Forall_app in H13. destruct H13 as [_ H13].
      inversion H13; congruence.
Qed.

(* splitting at the LAST '=' instead would differ exactly on labels that contain '=' *)
Example first_equals_sign :
  parse_samples_inline [115; 48; 61; 112; 61; 110] = [([115; 48], Some [112; 61; 110])] /\
  parse_samples_file [115; 48; 9; 112; 61; 110; 10] = [([115; 48], Some [112; 61; 110])] /\
  parse_samples_file [115; 9; 78; 32; 71; 10; 116; 9; 78; 32; 90; 10] = [([115], Some [78; 32; 71]); ([116], Some [78; 32; 90])].
Proof. vm_compute; repeat split; reflexivity. Qed.

