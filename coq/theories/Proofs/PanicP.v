(* Proofs for property C17 (no panic in the spectrum commands). Every statement is proved (Qed) as originally written,
   except [project_skel_no_panic], which is FALSE as written (see the FALSE comment below: sh = to = []); it is
   replaced by the machine-checked refutation [project_skel_no_panic_false] and the corrected
   [project_skel_no_panic_fixed] (extra hypothesis sh <> []). *)
From Sfs Require Import Index Panic IndexP.
From Coq Require Import Lia Sorted.

Definition no_panic {A} (o : outcome A) : Prop := forall s, o <> Panic s.

(* ---------------------------------------------------------------- helpers: primitive steps *)
Lemma done_no_panic {A} (a : A) : no_panic (Done a).
Proof. intros s; discriminate. Qed.
Lemma fail_no_panic {A} : no_panic (@Fail A).
Proof. intros s; discriminate. Qed.

Lemma usub_done site a b : b <= a -> usub site a b = Done (a - b).
Proof. intros H. unfold usub. apply Nat.leb_le in H. now rewrite H. Qed.
Lemma udiv_done site a b : b <> 0 -> udiv site a b = Done (a / b).
Proof. intros H. unfold udiv. apply Nat.eqb_neq in H. now rewrite H. Qed.
Lemma umod_done site a b : b <> 0 -> umod site a b = Done (a mod b).
Proof. intros H. unfold umod. apply Nat.eqb_neq in H. now rewrite H. Qed.
Lemma at_done {A} site (l : list A) i : i < length l -> exists x, at_ site l i = Done x.
Proof.
  intros H. unfold at_. destruct (nth_error l i) as [x|] eqn:E; [now exists x|].
  apply nth_error_None in E. lia.
Qed.
Lemma at_repeat site n i : i < n -> at_ site (repeat tt n) i = Done tt.
Proof.
  intros H. destruct (at_done site (repeat tt n) i) as [[] E]; [rewrite repeat_length; exact H | exact E].
Qed.

Lemma bind_no_panic {A B} (o : outcome A) (f : A -> outcome B) :
  no_panic o -> (forall a, o = Done a -> no_panic (f a)) -> no_panic (bind o f).
Proof.
  intros Ho Hf s. destruct o as [a| |s']; cbn [bind].
  - apply Hf; reflexivity.
  - discriminate.
  - exfalso. apply (Ho s'). reflexivity.
Qed.
Lemma for_each_no_panic {A} (l : list A) (f : A -> outcome unit) :
  (forall x, In x l -> no_panic (f x)) -> no_panic (for_each l f).
Proof.
  induction l as [|x t IH]; intros H; cbn [for_each]; [apply done_no_panic|].
  apply bind_no_panic; [apply H; left; reflexivity|]. intros _ _. apply IH. intros y Hy. apply H; right; exact Hy.
Qed.

Lemma in_skipn_in {A} (x : A) k l : In x (skipn k l) -> In x l.
Proof. intros H. rewrite <- (firstn_skipn k l). apply in_or_app; right; exact H. Qed.
Lemma in_firstn_in {A} (x : A) k l : In x (firstn k l) -> In x l.
Proof. intros H. rewrite <- (firstn_skipn k l). apply in_or_app; left; exact H. Qed.

(* the index-sum loop never divides by zero on a shape without zero-length axes *)
Theorem index_sum_skel_no_panic sh fl : positive_shape sh -> no_panic (index_sum_skel sh (elements sh) fl).
Proof.
  revert fl; induction sh as [|v t IH]; intros fl Hp; [apply done_no_panic|].
  apply positive_shape_cons in Hp as [Hv Ht]. pose proof (elements_pos t Ht) as He.
  cbn [index_sum_skel elements]. rewrite udiv_done by lia. cbn [bind].
  replace (v * elements t / v) with (elements t) by (rewrite Nat.mul_comm, Nat.div_mul; lia).
  rewrite udiv_done by lia. cbn [bind]. rewrite umod_done by lia. cbn [bind].
  apply bind_no_panic; [apply IH; exact Ht|]. intros; apply done_no_panic.
Qed.

Lemma lsum_ge_length sh : positive_shape sh -> length sh <= lsum sh.
Proof. induction 1 as [|n t Hn _ IH]; [cbn; lia|]. change (lsum (n :: t)) with (n + lsum t). cbn [length]. lia. Qed.

(* fold never panics on an accepted spectrum, of any shape (axes of length 1 or 2 included) *)
Theorem fold_no_panic sh ndata : read_ok sh ndata -> no_panic (fold_skel sh ndata).
Proof.
  intros (Hne & Hp & ->). unfold fold_skel.
  rewrite usub_done by (apply lsum_ge_length; exact Hp). cbn [bind].
  apply for_each_no_panic. intros i Hi. apply in_seq in Hi.
  rewrite usub_done by lia. cbn [bind].
  apply bind_no_panic; [apply index_sum_skel_no_panic; exact Hp|]. intros _ _.
  rewrite at_repeat by lia. cbn [bind]. rewrite at_repeat by lia. cbn [bind]. apply done_no_panic.
Qed.

(* ---------------------------------------------------------------- statistics *)
Lemma segsites_no_panic ndata : 1 <= ndata -> no_panic (segsites_skel ndata).
Proof. intros H. unfold segsites_skel. rewrite usub_done by lia. apply done_no_panic. Qed.

Lemma theta_no_panic ndata b : 1 <= ndata -> no_panic (theta_skel ndata b).
Proof.
  intros H. unfold theta_skel. rewrite usub_done by lia. cbn [bind].
  apply for_each_no_panic. intros i Hi. apply in_seq in Hi.
  destruct b; [|apply done_no_panic]. rewrite usub_done by lia. apply done_no_panic.
Qed.

Lemma freqs_no_panic sh : positive_shape sh -> no_panic (freqs_skel sh).
Proof.
  intros Hp. unfold freqs_skel. apply for_each_no_panic. intros n Hn.
  unfold positive_shape in Hp. rewrite Forall_forall in Hp. specialize (Hp n Hn).
  rewrite usub_done by lia. apply done_no_panic.
Qed.

Lemma shape_eqb_eq a b : shape_eqb a b = true -> a = b.
Proof.
  revert b; induction a as [|x a IH]; intros [|y b] H; cbn [shape_eqb] in H; try discriminate; [reflexivity|].
  apply andb_true_iff in H as [H1 H2]. apply Nat.eqb_eq in H1. f_equal; auto.
Qed.

(* no statistic panics on an accepted spectrum: wrong or degenerate shapes give a diagnosed error or an undefined
   (NaN) value, never an abort *)
Theorem stat_no_panic s sh ndata : read_ok sh ndata -> no_panic (stat_skel s sh ndata).
Proof.
  intros (Hne & Hp & Hn).
  assert (H1 : 1 <= ndata) by (subst ndata; apply elements_pos; exact Hp).
  assert (King : no_panic (if shape_eqb sh [3; 3] then
        for_each [(0, 1); (0, 2); (1, 0); (1, 1); (1, 2); (2, 0); (2, 1)] (fun '(i, j) =>
          _ <- at_ 20001 (repeat tt ndata) (i * 3 + j) ;; Done tt) else Fail)).
  { destruct (shape_eqb sh [3; 3]) eqn:E; [|apply fail_no_panic].
    apply shape_eqb_eq in E. subst sh ndata. intros s'. vm_compute. discriminate. }
  destruct s; cbn [stat_skel]; try exact King; try apply done_no_panic; try (apply segsites_no_panic; exact H1);
    match goal with |- no_panic (if ?c then _ else _) => destruct c eqn:Ed; [|apply fail_no_panic] end;
    try (apply freqs_no_panic; exact Hp); try (apply theta_no_panic; exact H1).
  - (* SDFuLi *)
    apply bind_no_panic; [apply theta_no_panic; exact H1|]. intros _ _.
    rewrite usub_done by lia. cbn [bind]. apply segsites_no_panic; exact H1.
  - (* SDTajima *)
    apply bind_no_panic; [apply theta_no_panic; exact H1|]. intros _ _.
    apply bind_no_panic; [apply theta_no_panic; exact H1|]. intros _ _.
    rewrite usub_done by lia. cbn [bind]. apply segsites_no_panic; exact H1.
  - (* SFst *)
    unfold dim_is in Ed. apply Nat.eqb_eq in Ed.
    apply bind_no_panic; [apply freqs_no_panic; exact Hp|]. intros _ _.
    rewrite usub_done by lia. cbn [bind].
    destruct (at_done 15601 sh 0) as [x ->]; [lia|]. cbn [bind].
    destruct (at_done 15701 sh 1) as [y ->]; [lia|]. cbn [bind]. apply done_no_panic.
  - (* SPiXY *)
    unfold dim_is in Ed. apply Nat.eqb_eq in Ed.
    destruct sh as [|a [|b [|c r]]]; cbn [length] in Ed; try discriminate Ed.
    apply positive_shape_cons in Hp as [Ha Hp]. apply positive_shape_cons in Hp as [Hb _].
    cbn [elements] in Hn. cbn [nth].
    rewrite usub_done by lia. cbn [bind]. rewrite usub_done by lia. cbn [bind].
    rewrite usub_done by lia. cbn [bind].
    replace (S (a - 1)) with a by lia. replace (S (b - 1)) with b by lia.
    apply for_each_no_panic. intros [m1 m2] Hin.
    apply in_skipn_in, in_firstn_in in Hin. apply in_prod_iff in Hin as [I1 I2].
    apply in_seq in I1. apply in_seq in I2.
    rewrite usub_done by lia. cbn [bind]. rewrite usub_done by lia. cbn [bind].
    rewrite at_repeat by nia. apply done_no_panic.
Qed.

(* ---------------------------------------------------------------- view *)
(* view: marginalization (validated axes, sorted, shifted), projection (validated target), mask, normalize *)
Theorem marg_skel_no_panic axes : forall sh removed,
  Sorted.StronglySorted lt axes -> Forall (fun a => removed <= a /\ a - removed < length sh) axes ->
  length axes < length sh ->
  no_panic (marg_skel sh axes removed) /\
  forall sh', marg_skel sh axes removed = Done sh' -> length sh' = length sh - length axes /\ (positive_shape sh -> positive_shape sh').
Proof.
  induction axes as [|a t IH]; intros sh removed Hs Hf Hl.
  - cbn [marg_skel]. split; [apply done_no_panic|]. intros sh' E; inversion E; subst. cbn [length]. split; [lia|auto].
  - inversion Hs as [|? ? Hs' Hlt]; subst. inversion Hf as [|? ? [Ha1 Ha2] Hf']; subst.
    cbn [length] in Hl.
    assert (E : marg_skel sh (a :: t) removed = marg_skel (remove_axis (a - removed) sh) t (S removed)).
    { cbn [marg_skel]. rewrite usub_done by lia. cbn [bind].
      destruct (at_done 9401 sh (a - removed) Ha2) as [y Ey].
      destruct sh as [|x sh0]; [cbn in Hl; lia|]. cbn [bind]. rewrite Ey. reflexivity. }
    rewrite E.
    assert (Hlen := remove_axis_length (a - removed) sh Ha2).
    destruct (IH (remove_axis (a - removed) sh) (S removed)) as [N D]; try assumption.
    + rewrite Forall_forall in *. intros b Hb. specialize (Hf' b Hb). specialize (Hlt b Hb). rewrite Hlen. lia.
    + lia.
    + split; [exact N|]. intros sh' Hd. destruct (D sh' Hd) as [L P]. split; [cbn [length]; lia|].
      intros Hp. apply P, positive_remove_axis, Hp.
Qed.

(* FALSE: Theorem project_skel_no_panic sh to : no_panic (project_skel sh to).
   counterexample: sh = [], to = []  (two zero-dimensional shapes): all three guards pass vacuously, then
   `usub 18401 (length []) 1` = `0 - 1` panics: project_skel [] [] = Panic 18401 (project.rs: self.dimensions() - 1).
   Machine-checked as [project_skel_no_panic_false] below. Corrected with the minimal hypothesis sh <> []
   (equivalently to <> [], the guards force equal lengths); view_skel only calls it on a non-empty shape. *)
Lemma project_skel_no_panic_false : ~ (forall sh to, no_panic (project_skel sh to)).
Proof. intros H. apply (H [] [] 18401%N). reflexivity. Qed.

Lemma project_skel_ok sh to :
  sh <> [] ->
  no_panic (project_skel sh to) /\ forall sh2, project_skel sh to = Done sh2 -> positive_shape sh2.
Proof.
  intros Hne. unfold project_skel.
  destruct (forallb (fun n => 0 <? n) sh && forallb (fun n => 0 <? n) to) eqn:E1; cbn [negb];
    [|split; [apply fail_no_panic | discriminate]].
  destruct (length sh =? length to) eqn:E2; cbn [negb]; [|split; [apply fail_no_panic | discriminate]].
  destruct (forallb (fun p => snd p <=? fst p) (combine sh to)) eqn:E3; cbn [negb];
    [|split; [apply fail_no_panic | discriminate]].
  apply andb_true_iff in E1 as [_ Pto]. apply Nat.eqb_eq in E2.
  assert (Hl : 1 <= length to) by (destruct sh; [congruence | cbn [length] in E2; lia]).
  rewrite usub_done by exact Hl. cbn [bind]. split.
  - apply bind_no_panic; [|intros; apply done_no_panic].
    apply for_each_no_panic. intros [n m] _. apply for_each_no_panic. intros [k k'] Hin.
    apply in_prod_iff in Hin as [I1 I2]. apply in_seq in I1. apply in_seq in I2.
    destruct (m - 1 <? k') eqn:E4; [apply done_no_panic|]. apply Nat.ltb_ge in E4.
    rewrite usub_done by lia. cbn [bind]. rewrite usub_done by lia. apply done_no_panic.
  - intros sh2 Hd.
    destruct (for_each (combine sh to) _) as [[]| |s]; cbn [bind] in Hd; try discriminate Hd.
    inversion Hd; subst sh2. apply positive_shapeb_iff. exact Pto.
Qed.

Theorem project_skel_no_panic_fixed sh to : sh <> [] -> no_panic (project_skel sh to).
Proof. intros H. apply project_skel_ok, H. Qed.

(* sorting *)
Lemma insert_sorted_in a l x : In x (insert_sorted a l) <-> x = a \/ In x l.
Proof.
  induction l as [|b t IH]; cbn [insert_sorted]; [cbn; intuition|].
  destruct (a <=? b); cbn [In]; [intuition|]. rewrite IH. intuition.
Qed.
Lemma insert_sorted_length a l : length (insert_sorted a l) = S (length l).
Proof.
  induction l as [|b t IH]; cbn [insert_sorted]; [reflexivity|].
  destruct (a <=? b); cbn [length]; [reflexivity|]. now rewrite IH.
Qed.
Lemma insert_sorted_sorted a l : StronglySorted lt l -> ~ In a l -> StronglySorted lt (insert_sorted a l).
Proof.
  induction l as [|b t IH]; intros Hs Hn; cbn [insert_sorted].
  - constructor; constructor.
  - inversion Hs as [|? ? Hs' Hlt]; subst.
    assert (a <> b) by (intros ->; apply Hn; left; reflexivity).
    destruct (a <=? b) eqn:E.
    + apply Nat.leb_le in E. constructor; [exact Hs|].
      constructor; [lia|]. rewrite Forall_forall in *. intros x Hx. specialize (Hlt x Hx). lia.
    + apply Nat.leb_gt in E. constructor.
      * apply IH; [exact Hs'|]. intros Hi; apply Hn; right; exact Hi.
      * rewrite Forall_forall in *. intros x Hx. apply insert_sorted_in in Hx as [->|Hx]; [lia|auto].
Qed.
Lemma sort_nat_cons a l : sort_nat (a :: l) = insert_sorted a (sort_nat l).
Proof. reflexivity. Qed.
Lemma sort_nat_in l x : In x (sort_nat l) <-> In x l.
Proof.
  induction l as [|a l IH]; [reflexivity|]. rewrite sort_nat_cons, insert_sorted_in, IH. cbn [In]. intuition.
Qed.
Lemma sort_nat_length l : length (sort_nat l) = length l.
Proof. induction l as [|a l IH]; [reflexivity|]. rewrite sort_nat_cons, insert_sorted_length, IH. reflexivity. Qed.
Lemma sort_nat_sorted l : NoDup l -> StronglySorted lt (sort_nat l).
Proof.
  induction 1 as [|a l Hn _ IH]; [constructor|]. rewrite sort_nat_cons.
  apply insert_sorted_sorted; [exact IH|]. rewrite sort_nat_in. exact Hn.
Qed.

Lemma nodupb_NoDup l :
  (fix nodup (l : list nat) : bool :=
     match l with [] => true | a :: t => negb (existsb (Nat.eqb a) t) && nodup t end) l = true -> NoDup l.
Proof.
  induction l as [|a t IH]; intros H; [constructor|].
  apply andb_true_iff in H as [H1 H2]. constructor; [|apply IH; exact H2].
  intros Hi. apply negb_true_iff in H1. assert (existsb (Nat.eqb a) t = true); [|congruence].
  apply existsb_exists. exists a. split; [exact Hi | apply Nat.eqb_refl].
Qed.

Lemma valid_axesb_spec d axes :
  valid_axesb d axes = true -> NoDup axes /\ (forall a, In a axes -> a < d) /\ length axes < d.
Proof.
  unfold valid_axesb. rewrite !andb_true_iff. intros [[H1 H2] H3].
  split; [apply nodupb_NoDup; exact H1|]. split; [|apply Nat.ltb_lt; exact H3].
  intros a Ha. rewrite forallb_forall in H2. apply Nat.ltb_lt, H2, Ha.
Qed.

Lemma marg_sorted_ok sh axes :
  positive_shape sh -> valid_axesb (length sh) axes = true ->
  no_panic (marg_skel sh (sort_nat axes) 0) /\
  forall sh1, marg_skel sh (sort_nat axes) 0 = Done sh1 -> sh1 <> [] /\ positive_shape sh1.
Proof.
  intros Hp Hv. apply valid_axesb_spec in Hv as (Hnd & Hlt & Hlen).
  destruct (marg_skel_no_panic (sort_nat axes) sh 0) as [N D].
  - apply sort_nat_sorted; exact Hnd.
  - rewrite Forall_forall. intros a Ha. apply (proj1 (sort_nat_in _ _)) in Ha. specialize (Hlt a Ha). lia.
  - rewrite sort_nat_length. exact Hlen.
  - split; [exact N|]. intros sh1 Hd. destruct (D sh1 Hd) as [L P]. rewrite sort_nat_length in L.
    split; [|apply P; exact Hp]. intros ->. cbn [length] in L. lia.
Qed.

Lemma view_marg_ok (mo : option marg_arg) sh :
  sh <> [] -> positive_shape sh ->
  let r := match mo with
           | None => Done sh
           | Some m =>
             let axes := match m with
                         | MRemove l => l
                         | MKeep l => filter (fun i => negb (existsb (Nat.eqb i) l)) (seq 0 (length sh))
                         end in
             if valid_axesb (length sh) axes then marg_skel sh (sort_nat axes) 0 else Fail
           end in
  no_panic r /\ forall sh1, r = Done sh1 -> sh1 <> [] /\ positive_shape sh1.
Proof.
  intros Hne Hp. destruct mo as [m|]; cbv zeta.
  - match goal with |- context [valid_axesb ?d ?ax] => destruct (valid_axesb d ax) eqn:Ev end.
    + apply marg_sorted_ok; assumption.
    + split; [apply fail_no_panic | discriminate].
  - split; [apply done_no_panic|]. intros sh1 E; inversion E; subst; auto.
Qed.

Lemma mask_no_panic ndata : 1 <= ndata -> no_panic (mask_skel ndata).
Proof.
  intros H. unfold mask_skel. rewrite at_repeat by lia. cbn [bind]. rewrite usub_done by lia. cbn [bind].
  rewrite at_repeat by lia. apply done_no_panic.
Qed.

Theorem view_no_panic o sh ndata : read_ok sh ndata -> no_panic (view_skel o sh ndata).
Proof.
  intros (Hne & Hp & Hn). unfold view_skel.
  destruct (view_marg_ok (v_marg o) sh Hne Hp) as [N1 D1]. cbv zeta in N1, D1.
  apply bind_no_panic; [exact N1|]. intros sh1 E1. destruct (D1 sh1 E1) as [Hne1 Hp1].
  assert (P2 : no_panic (match v_project o with None => Done sh1 | Some to => project_skel sh1 to end) /\
               forall sh2, match v_project o with None => Done sh1 | Some to => project_skel sh1 to end = Done sh2 ->
                           positive_shape sh2).
  { destruct (v_project o) as [to|].
    - apply project_skel_ok; exact Hne1.
    - split; [apply done_no_panic|]. intros sh2 E; inversion E; subst; exact Hp1. }
  destruct P2 as [N2 D2].
  apply bind_no_panic; [exact N2|]. intros sh2 E2. specialize (D2 sh2 E2).
  apply bind_no_panic; [|intros; apply done_no_panic].
  destruct (v_mask o); [|apply done_no_panic]. apply mask_no_panic. apply elements_pos; exact D2.
Qed.
