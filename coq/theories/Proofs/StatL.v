(* Helper lemmas for StatInvP (property C14): qnat arithmetic, list/sum reindexing, normal forms of the
   statistics as weighted sums over the flat positions, and the generic fold-invariance of such sums. *)
From Sfs Require Import Index ArrayM Scalar Spectrum Project Stat IndexP ArrayP MargP FoldP.
From Coq Require Import Lia.

Close Scope Qc_scope. Close Scope Q_scope. Open Scope nat_scope.

(* ------------------------------------------------------------------ qnat *)
Lemma qnat_0 : qnat 0 = 0%Qc.
Proof. apply Qc_is_canon. reflexivity. Qed.
Lemma qnat_1 : qnat 1 = 1%Qc.
Proof. apply Qc_is_canon. reflexivity. Qed.
Lemma qnat_2 : qnat 2 = (1 + 1)%Qc.
Proof. apply Qc_is_canon. reflexivity. Qed.
Lemma qnat_add a b : qnat (a + b) = (qnat a + qnat b)%Qc.
Proof.
  unfold qnat, Qcplus. apply Q2Qc_eq_iff. cbn [this Q2Qc]. rewrite !Qred_correct.
  rewrite Nat2Z.inj_add, inject_Z_plus. reflexivity.
Qed.
Lemma qnat_mul a b : qnat (a * b) = (qnat a * qnat b)%Qc.
Proof.
  unfold qnat, Qcmult. apply Q2Qc_eq_iff. cbn [this Q2Qc]. rewrite !Qred_correct.
  rewrite Nat2Z.inj_mul, inject_Z_mult. reflexivity.
Qed.
Lemma qnat_pos n : 0 < n -> (0 < qnat n)%Qc.
Proof.
  intros H. unfold Qclt, qnat. cbn [this Q2Qc]. rewrite !Qred_correct.
  unfold Qlt. cbn [Qnum Qden inject_Z]. lia.
Qed.
Lemma qnat_neq0 n : n <> 0 -> qnat n <> 0%Qc.
Proof.
  intros H E. assert (H' : 0 < n) by lia. apply qnat_pos in H'. rewrite E in H'.
  exact (Qclt_not_eq _ _ H' eq_refl).
Qed.
Lemma qnat_sub a b : b <= a -> qnat (a - b) = (qnat a - qnat b)%Qc.
Proof.
  intros H. replace a with ((a - b) + b) at 2 by lia. rewrite qnat_add. ring.
Qed.

(* 1 - i/(n-1) = (n-1-i)/(n-1) *)
Lemma freq_mirror n i : 2 <= n -> i < n ->
  (qnat (n - 1 - i) / qnat (n - 1) = 1 - qnat i / qnat (n - 1))%Qc.
Proof.
  intros Hn Hi. rewrite qnat_sub by lia.
  assert (H : qnat (n - 1) <> 0%Qc) by (apply qnat_neq0; lia).
  field. exact H.
Qed.

(* ------------------------------------------------------------------ lists *)
Lemma firstn_seq k s n : firstn k (seq s n) = seq s (Nat.min k n).
Proof.
  revert s n; induction k as [|k IH]; intros s [|n]; cbn [firstn seq Nat.min]; try reflexivity.
  now rewrite IH.
Qed.
Lemma skipn_seq k s n : skipn k (seq s n) = seq (s + k) (n - k).
Proof.
  revert s n; induction k as [|k IH]; intros s [|n]; cbn [skipn seq Nat.sub]; try reflexivity.
  - now rewrite Nat.add_0_r.
  - rewrite IH. f_equal. lia.
Qed.

Lemma polymorphic_map_seq {B} (g : nat -> B) n : polymorphic (map g (seq 0 n)) = map g (seq 1 (n - 2)).
Proof.
  unfold polymorphic. rewrite map_length, seq_length, firstn_map, skipn_map, firstn_seq, skipn_seq.
  f_equal. f_equal. lia.
Qed.

Lemma polymorphic_nth {B} (l : list B) d : polymorphic l = map (fun i => nth i l d) (seq 1 (length l - 2)).
Proof. rewrite <- (map_nth_seq l d) at 1. apply polymorphic_map_seq. Qed.

Lemma polymorphic_map {B C} (f : B -> C) l : polymorphic (map f l) = map f (polymorphic l).
Proof. unfold polymorphic. now rewrite map_length, firstn_map, skipn_map. Qed.

Lemma combine_map_seq {B C} (l : list B) (f : nat -> C) d :
  combine l (map f (seq 0 (length l))) = map (fun i => (nth i l d, f i)) (seq 0 (length l)).
Proof.
  apply (nth_ext _ _ (d, f 0) (d, f 0)).
  - rewrite combine_length, !map_length, seq_length. lia.
  - intros i Hi. rewrite combine_length, map_length, seq_length in Hi.
    assert (Hi' : i < length l) by lia.
    rewrite combine_nth by (now rewrite map_length, seq_length).
    rewrite (nth_map_seq f (length l) i (f 0) Hi').
    rewrite (nth_map_seq (fun i => (nth i l d, f i)) (length l) i _ Hi'). reflexivity.
Qed.

Lemma nth_map_seq_s {B} (f : nat -> B) s m i d : i < m -> nth i (map f (seq s m)) d = f (s + i).
Proof.
  intros Hi. rewrite (nth_indep _ d (f 0)) by (rewrite map_length, seq_length; assumption).
  rewrite map_nth. rewrite seq_nth by assumption. reflexivity.
Qed.

(* reversal of a symmetric range *)
Lemma map_rev_range {B} (h : nat -> B) s m E : m = 0 \/ 2 * s + m = E ->
  map (fun i => h (E - 1 - i)) (seq s m) = rev (map h (seq s m)).
Proof.
  intros [->|HE]; [reflexivity|].
  apply (nth_ext _ _ (h 0) (h 0)).
  - now rewrite rev_length, !map_length.
  - intros i Hi. rewrite map_length, seq_length in Hi.
    rewrite rev_nth by (rewrite map_length, seq_length; assumption).
    rewrite map_length, seq_length.
    rewrite (nth_map_seq_s (fun i => h (E - 1 - i))) by assumption.
    rewrite (nth_map_seq_s h) by lia. f_equal. lia.
Qed.

Lemma qsum_rev_range (h : nat -> Qc) s m E : m = 0 \/ 2 * s + m = E ->
  qsum (map (fun i => h (E - 1 - i)) (seq s m)) = qsum (map h (seq s m)).
Proof. intros H. rewrite (map_rev_range h s m E H). apply qsum_rev. Qed.

(* ------------------------------------------------------------------ data access *)
Definition dat (x : spectrum) (i : nat) : Qc := nth i (adata x) 0%Qc.

Lemma q_getd_unflat x i : wf x -> positive_shape (ashape x) -> i < elements (ashape x) ->
  q_getd x (unflat (ashape x) i) = dat x i.
Proof.
  intros Hwf Hp Hi. rewrite q_getd_nth by (try apply inb_unflat; assumption).
  now rewrite flat_unflat.
Qed.

Lemma entries_nf x : wf x -> positive_shape (ashape x) ->
  entries x = map (fun i => (dat x i, unflat (ashape x) i)) (seq 0 (elements (ashape x))).
Proof.
  intros Hwf Hp. unfold entries. unfold wf in Hwf. rewrite <- Hwf.
  rewrite (combine_map_seq (adata x) (index_from_flat (ashape x)) 0%Qc).
  apply map_ext. intros i. now rewrite index_from_flat_unflat.
Qed.

(* generic fold invariance of a weighted sum over a symmetric range of flat positions *)
Lemma fold_wsum x (w : nat -> Qc) s m : wf x -> positive_shape (ashape x) ->
  m = 0 \/ 2 * s + m = length (adata x) ->
  (forall i, s <= i < s + m -> w (length (adata x) - 1 - i) = w i) ->
  qsum (map (fun i => (dat (fold0 x) i * w i)%Qc) (seq s m)) = qsum (map (fun i => (dat x i * w i)%Qc) (seq s m)).
Proof.
  intros Hwf Hp HE Hw. set (E := length (adata x)) in *.
  apply Qc_double_inj.
  assert (Hrev : forall h : nat -> Qc,
             (qsum (map h (seq s m)) + qsum (map h (seq s m)) =
              qsum (map (fun i => h i + h (E - 1 - i)%nat) (seq s m)))%Qc).
  { intros h. rewrite (qsum_map_add h (fun i => h (E - 1 - i)%nat)).
    rewrite (qsum_rev_range h s m E HE). reflexivity. }
  rewrite (Hrev (fun i => (dat (fold0 x) i * w i)%Qc)), (Hrev (fun i => (dat x i * w i)%Qc)).
  f_equal. apply map_ext_in. intros i Hi. apply in_seq in Hi.
  assert (HiE : i < E) by (destruct HE; lia).
  rewrite (Hw i Hi). unfold dat.
  rewrite !fold0_nth by (fold E; lia).
  pose proof (fold0_pair x i Hwf Hp HiE) as P. fold E in P.
  transitivity ((unopt (fcell x i) + unopt (fcell x (E - 1 - i))) * w i)%Qc; [ring|].
  rewrite P. ring.
Qed.

(* ------------------------------------------------------------------ more sums *)
Lemma qsum_map_mul c l : qsum (map (fun v => (c * v)%Qc) l) = (c * qsum l)%Qc.
Proof.
  induction l as [|a l IH]; cbn [map]; [rewrite !qsum_nil; ring|]. rewrite !qsum_cons, IH. ring.
Qed.
Lemma qsum_map_div l s : qsum (map (fun v => (v / s)%Qc) l) = (qsum l / s)%Qc.
Proof.
  induction l as [|a l IH]; cbn [map]; [rewrite !qsum_nil; unfold Qcdiv; ring|].
  rewrite !qsum_cons, IH. unfold Qcdiv. ring.
Qed.
Lemma qsum_mul_r {B} (f : B -> Qc) c l : qsum (map (fun a => (f a * c)%Qc) l) = (qsum (map f l) * c)%Qc.
Proof.
  induction l as [|a l IH]; cbn [map]; [rewrite !qsum_nil; ring|]. rewrite !qsum_cons, IH. ring.
Qed.
Lemma qsum_map_sub {B} (f g : B -> Qc) l :
  qsum (map (fun a => (f a - g a)%Qc) l) = (qsum (map f l) - qsum (map g l))%Qc.
Proof.
  induction l as [|a l IH]; cbn [map]; [rewrite !qsum_nil; ring|]. rewrite !qsum_cons, IH. ring.
Qed.
Lemma qsum_map_scale_ext {B} c (f g : B -> Qc) l :
  (forall a, f a = (c * g a)%Qc) -> qsum (map f l) = (c * qsum (map g l))%Qc.
Proof.
  intros H. rewrite <- (MargP.qsum_scale c g l). f_equal. apply map_ext. exact H.
Qed.
Lemma qsum_map_div_ext {B} s (f g : B -> Qc) l :
  (forall a, f a = (g a / s)%Qc) -> qsum (map f l) = (qsum (map g l) / s)%Qc.
Proof.
  intros H. unfold Qcdiv. rewrite <- (qsum_mul_r g (/ s)%Qc l). f_equal. apply map_ext. exact H.
Qed.

Lemma qsum_seq_ends (h : nat -> Qc) L : 2 <= L ->
  qsum (map h (seq 0 L)) = (h O + qsum (map h (seq 1 (L - 2)%nat)) + h (L - 1)%nat)%Qc.
Proof.
  intros HL. replace L with (1 + ((L - 2) + 1)) at 1 by lia.
  rewrite seq_app, (seq_app (L - 2) 1). cbn [seq Nat.add]. rewrite !map_app. cbn [map app].
  rewrite qsum_cons, qsum_app, qsum_cons, qsum_nil.
  replace (S (L - 2)) with (L - 1) by lia. ring.
Qed.

Lemma Qc_div_scale c n d : c <> 0%Qc -> ((c * n) / (c * d) = n / d)%Qc.
Proof.
  intros Hc. unfold Qcdiv. rewrite Qcinv_mult_distr.
  transitivity ((c * / c) * (n * / d))%Qc; [ring|]. rewrite Qcmult_inv_r by exact Hc. ring.
Qed.
Lemma Qc_div_div s n d : s <> 0%Qc -> ((n / s) / (d / s) = n / d)%Qc.
Proof.
  intros Hs. unfold Qcdiv. rewrite Qcinv_mult_distr.
  assert (Hi : (/ / s = s)%Qc) by (field; split; [exact Hs|discriminate]). rewrite Hi.
  transitivity ((s * / s) * (n * / d))%Qc; [ring|]. rewrite Qcmult_inv_r by exact Hs. ring.
Qed.
Lemma qhalf_inv : qhalf = (/ (1 + 1))%Qc.
Proof. apply Qc_is_canon. reflexivity. Qed.

Lemma nth_scale c l i : nth i (map (fun v => (c * v)%Qc) l) 0%Qc = (c * nth i l 0)%Qc.
Proof.
  destruct (lt_dec i (length l)) as [Hi|Hi].
  - rewrite (nth_indep _ 0%Qc (c * 0)%Qc) by (now rewrite map_length).
    apply (map_nth (fun v => (c * v)%Qc)).
  - rewrite !nth_overflow by (rewrite ?map_length; lia). ring.
Qed.
Lemma nth_div s l i : nth i (map (fun v => (v / s)%Qc) l) 0%Qc = (nth i l 0 / s)%Qc.
Proof.
  destruct (lt_dec i (length l)) as [Hi|Hi].
  - rewrite (nth_indep _ 0%Qc (0 / s)%Qc) by (now rewrite map_length).
    apply (map_nth (fun v => (v / s)%Qc)).
  - rewrite !nth_overflow by (rewrite ?map_length; lia). unfold Qcdiv. ring.
Qed.

(* ------------------------------------------------------------------ flat sums vs index sums *)
Lemma flat_idx_sum x (G : list nat -> Qc) : wf x -> positive_shape (ashape x) ->
  qsum (map (fun i => (dat x i * G (unflat (ashape x) i))%Qc) (seq 0 (length (adata x)))) =
  qsum (map (fun idx => (q_getd x idx * G idx)%Qc) (indices (ashape x))).
Proof.
  intros Hwf Hp. rewrite indices_unflat, map_map by assumption. pose proof Hwf as Hl. unfold wf in Hl.
  rewrite Hl. apply qsum_map_ext_in. intros i Hi. apply in_seq in Hi.
  rewrite q_getd_unflat by (assumption || lia). reflexivity.
Qed.

Lemma sum2d (f : list nat -> Qc) a b :
  qsum (map f (indices [a; b])) = qsum (map (fun i => qsum (map (fun j => f [i; j]) (seq 0 b))) (seq 0 a)).
Proof.
  cbn [indices]. rewrite qsum_flat_map. apply qsum_map_ext_in. intros i _.
  rewrite map_map, qsum_flat_map. apply qsum_map_ext_in. intros j _.
  cbn [map]. rewrite qsum_cons, qsum_nil. ring.
Qed.

(* weighted sums commute with marginalisation *)
Lemma marg_wsum x a (g : list nat -> Qc) : wf x -> positive_shape (ashape x) -> a < dimensions x ->
  qsum (map (fun idx' => (q_getd (q_sum_axis x a) idx' * g idx')%Qc) (indices (remove_axis a (ashape x)))) =
  qsum (map (fun idx => (q_getd x idx * g (remove_axis a idx))%Qc) (indices (ashape x))).
Proof.
  intros Hwf Hp Ha. pose proof Ha as Ha'. unfold dimensions in Ha'.
  rewrite (sum_indices_insert (fun idx => (q_getd x idx * g (remove_axis a idx))%Qc) (ashape x) a Hp Ha').
  apply qsum_map_ext_in. intros idx' Hin. apply in_indices in Hin; [|now apply positive_remove_axis].
  assert (Hlen : length idx' = length (ashape x) - 1).
  { rewrite (inb_length _ _ Hin). now apply remove_axis_length. }
  rewrite (q_getd_of_get _ _ _ (q_sum_axis_get x a idx' Hwf Hp Ha Hin)).
  rewrite <- qsum_mul_r. apply qsum_map_ext_in. intros i _.
  rewrite remove_insert_axis by lia. reflexivity.
Qed.

(* ------------------------------------------------------------------ frequencies *)
Lemma freqs_length idx sh : length idx = length sh -> length (freqs idx sh) = length sh.
Proof.
  revert sh; induction idx as [|i r IH]; intros [|n t] H; cbn [length freqs] in *; try lia.
  now rewrite IH by lia.
Qed.

Lemma freqs_mirror sh idx : Forall (fun n => 2 <= n) sh -> inb sh idx = true ->
  freqs (mirror sh idx) sh = map (fun f => (1 - f)%Qc) (freqs idx sh).
Proof.
  intros Hsh. revert idx. induction Hsh as [|n t Hn Ht IH]; intros [|i r] H; cbn [inb] in H; try discriminate.
  - reflexivity.
  - apply andb_prop in H as [Hi H]. apply Nat.ltb_lt in Hi.
    cbn [mirror freqs map]. rewrite IH by assumption. f_equal. now apply freq_mirror.
Qed.

Lemma fr_mirror fs j : j < length fs -> fr (map (fun f => (1 - f)%Qc) fs) j = (1 - fr fs j)%Qc.
Proof.
  intros Hj. unfold fr. rewrite (nth_indep _ 0%Qc (1 - 0)%Qc) by (now rewrite map_length).
  apply (map_nth (fun f => (1 - f)%Qc)).
Qed.

Lemma ge2_positive sh : Forall (fun n => 2 <= n) sh -> positive_shape sh.
Proof. unfold positive_shape. apply Forall_impl. intros; lia. Qed.
Lemma ge3_ge2 sh : Forall (fun n => 3 <= n) sh -> Forall (fun n => 2 <= n) sh.
Proof. apply Forall_impl. intros; lia. Qed.

Lemma unflat_mirror sh i : positive_shape sh -> i < elements sh ->
  unflat sh (elements sh - 1 - i) = mirror sh (unflat sh i).
Proof.
  intros Hp Hi. pose proof (inb_unflat sh i Hp Hi) as Hin.
  pose proof (flat_mirror sh _ Hin) as Hf. rewrite flat_unflat in Hf by assumption.
  rewrite <- Hf. apply unflat_flat. now apply mirror_inb.
Qed.

(* the frequency vector at the mirrored flat position *)
Lemma freqs_rev_pos sh i : Forall (fun n => 2 <= n) sh -> i < elements sh ->
  freqs (unflat sh (elements sh - 1 - i)) sh = map (fun f => (1 - f)%Qc) (freqs (unflat sh i) sh).
Proof.
  intros Hsh Hi. pose proof (ge2_positive sh Hsh) as Hp.
  rewrite unflat_mirror by assumption. apply freqs_mirror; [assumption|]. now apply inb_unflat.
Qed.

Lemma freqs_unflat_length sh i : length (freqs (unflat sh i) sh) = length sh.
Proof. apply freqs_length. apply unflat_length. Qed.

(* ------------------------------------------------------------------ normal forms of the entry sums *)
Lemma entries_sum_flat x (F : Qc * list nat -> Qc) (G : list nat -> Qc) : wf x -> positive_shape (ashape x) ->
  (forall v idx, F (v, idx) = (v * G idx)%Qc) ->
  qsum (map F (entries x)) =
  qsum (map (fun i => (dat x i * G (unflat (ashape x) i))%Qc) (seq 0 (length (adata x)))).
Proof.
  intros Hwf Hp HF. rewrite entries_nf by assumption. rewrite map_map. unfold wf in Hwf. rewrite Hwf.
  apply qsum_map_ext_in. intros i _. apply HF.
Qed.

Lemma entries_poly_sum_flat x (F : Qc * list nat -> Qc) (G : list nat -> Qc) : wf x -> positive_shape (ashape x) ->
  (forall v idx, F (v, idx) = (v * G idx)%Qc) ->
  qsum (map F (polymorphic (entries x))) =
  qsum (map (fun i => (dat x i * G (unflat (ashape x) i))%Qc) (seq 1 (length (adata x) - 2))).
Proof.
  intros Hwf Hp HF. rewrite entries_nf by assumption. rewrite polymorphic_map_seq, map_map.
  unfold wf in Hwf. rewrite Hwf.
  apply qsum_map_ext_in. intros i _. apply HF.
Qed.

Definition w2 (fs : list Qc) : Qc := ((fr fs 0 - fr fs 1) * (fr fs 0 - fr fs 1))%Qc.
Definition w3 (fs : list Qc) : Qc := ((fr fs 0 - fr fs 1) * (fr fs 0 - fr fs 2))%Qc.
Definition w4 (fs : list Qc) : Qc := ((fr fs 0 - fr fs 1) * (fr fs 2 - fr fs 3))%Qc.
Definition wnum (sh : shape) (fs : list Qc) : Qc :=
  ((fr fs 0 - fr fs 1) * (fr fs 0 - fr fs 1) - fr fs 0 * (1 - fr fs 0) / qnat (nth 0 sh 0 - 2)%nat
   - fr fs 1 * (1 - fr fs 1) / qnat (nth 1 sh 0 - 2)%nat)%Qc.
Definition wden (fs : list Qc) : Qc := (fr fs 0 * (1 - fr fs 1) + fr fs 1 * (1 - fr fs 0))%Qc.

Lemma f2_flat x : wf x -> positive_shape (ashape x) ->
  f2_unchecked x = qsum (map (fun i => (dat x i * w2 (freqs (unflat (ashape x) i) (ashape x)))%Qc)
                             (seq 0 (length (adata x)))).
Proof.
  intros Hwf Hp. unfold f2_unchecked.
  apply (entries_sum_flat x _ (fun idx => w2 (freqs idx (ashape x))) Hwf Hp).
  intros v idx. reflexivity.
Qed.
Lemma f3_flat x : wf x -> positive_shape (ashape x) ->
  f3_unchecked x = qsum (map (fun i => (dat x i * w3 (freqs (unflat (ashape x) i) (ashape x)))%Qc)
                             (seq 0 (length (adata x)))).
Proof.
  intros Hwf Hp. unfold f3_unchecked.
  apply (entries_sum_flat x _ (fun idx => w3 (freqs idx (ashape x))) Hwf Hp).
  intros v idx. unfold w3. cbv zeta. ring.
Qed.
Lemma f4_flat x : wf x -> positive_shape (ashape x) ->
  f4_unchecked x = qsum (map (fun i => (dat x i * w4 (freqs (unflat (ashape x) i) (ashape x)))%Qc)
                             (seq 0 (length (adata x)))).
Proof.
  intros Hwf Hp. unfold f4_unchecked.
  apply (entries_sum_flat x _ (fun idx => w4 (freqs idx (ashape x))) Hwf Hp).
  intros v idx. unfold w4. cbv zeta. ring.
Qed.

Lemma f2_idx x : wf x -> positive_shape (ashape x) ->
  f2_unchecked x = qsum (map (fun idx => (q_getd x idx * w2 (freqs idx (ashape x)))%Qc) (indices (ashape x))).
Proof.
  intros Hwf Hp. rewrite f2_flat by assumption.
  exact (flat_idx_sum x (fun idx => w2 (freqs idx (ashape x))) Hwf Hp).
Qed.
Lemma f3_idx x : wf x -> positive_shape (ashape x) ->
  f3_unchecked x = qsum (map (fun idx => (q_getd x idx * w3 (freqs idx (ashape x)))%Qc) (indices (ashape x))).
Proof.
  intros Hwf Hp. rewrite f3_flat by assumption.
  exact (flat_idx_sum x (fun idx => w3 (freqs idx (ashape x))) Hwf Hp).
Qed.
Lemma f4_idx x : wf x -> positive_shape (ashape x) ->
  f4_unchecked x = qsum (map (fun idx => (q_getd x idx * w4 (freqs idx (ashape x)))%Qc) (indices (ashape x))).
Proof.
  intros Hwf Hp. rewrite f4_flat by assumption.
  exact (flat_idx_sum x (fun idx => w4 (freqs idx (ashape x))) Hwf Hp).
Qed.

Lemma fst_parts_flat x : wf x -> positive_shape (ashape x) ->
  fst_parts x =
  (qsum (map (fun i => (dat x i * wnum (ashape x) (freqs (unflat (ashape x) i) (ashape x)))%Qc)
             (seq 1 (length (adata x) - 2))),
   qsum (map (fun i => (dat x i * wden (freqs (unflat (ashape x) i) (ashape x)))%Qc)
             (seq 1 (length (adata x) - 2)))).
Proof.
  intros Hwf Hp. unfold fst_parts. cbv zeta. rewrite !map_map. f_equal.
  - apply (entries_poly_sum_flat x _ (fun idx => wnum (ashape x) (freqs idx (ashape x))) Hwf Hp).
    intros v idx. reflexivity.
  - apply (entries_poly_sum_flat x _ (fun idx => wden (freqs idx (ashape x))) Hwf Hp).
    intros v idx. reflexivity.
Qed.

(* f2 of a marginal as a sum over the full index space *)
Lemma wsum_marg_idx x a (G : list nat -> Qc) : wf x -> positive_shape (ashape x) -> a < dimensions x ->
  qsum (map (fun idx' => (q_getd (q_sum_axis x a) idx' * G idx')%Qc) (indices (ashape (q_sum_axis x a)))) =
  qsum (map (fun idx => (q_getd x idx * G (remove_axis a idx))%Qc) (indices (ashape x))).
Proof.
  intros Hwf Hp Ha. destruct (q_sum_axis_wf x a Hwf Hp Ha) as [_ Hsh]. rewrite Hsh.
  now apply marg_wsum.
Qed.

(* generic fold invariance for weights that are functions of the frequency vector *)
Lemma fold_fsum x (G : list Qc -> Qc) s m : wf x -> Forall (fun n => 2 <= n) (ashape x) ->
  m = 0 \/ 2 * s + m = length (adata x) ->
  (forall fs, length fs = dimensions x -> G (map (fun f => (1 - f)%Qc) fs) = G fs) ->
  qsum (map (fun i => (dat (fold0 x) i * G (freqs (unflat (ashape x) i) (ashape x)))%Qc) (seq s m)) =
  qsum (map (fun i => (dat x i * G (freqs (unflat (ashape x) i) (ashape x)))%Qc) (seq s m)).
Proof.
  intros Hwf Hsh HE HG. pose proof (ge2_positive _ Hsh) as Hp.
  apply (fold_wsum x (fun i => G (freqs (unflat (ashape x) i) (ashape x))) s m Hwf Hp HE).
  intros i Hi. pose proof Hwf as Hl. unfold wf in Hl. rewrite Hl.
  rewrite freqs_rev_pos by (assumption || (destruct HE; lia)).
  apply HG. apply freqs_unflat_length.
Qed.

Lemma f2_marg1 x a : wf x -> positive_shape (ashape x) -> a < dimensions x ->
  f2_unchecked (q_sum_axis x a) =
  qsum (map (fun idx => (q_getd x idx * w2 (freqs (remove_axis a idx) (remove_axis a (ashape x))))%Qc)
            (indices (ashape x))).
Proof.
  intros Hwf Hp Ha. destruct (q_sum_axis_wf x a Hwf Hp Ha) as [W1 S1].
  assert (P1 : positive_shape (ashape (q_sum_axis x a))) by (rewrite S1; now apply positive_remove_axis).
  rewrite (f2_idx _ W1 P1).
  rewrite (wsum_marg_idx x a (fun idx' => w2 (freqs idx' (ashape (q_sum_axis x a)))) Hwf Hp Ha).
  rewrite S1. reflexivity.
Qed.

Lemma f2_marg2 x a1 a2 : wf x -> positive_shape (ashape x) -> a1 < dimensions x -> a2 < dimensions x - 1 ->
  f2_unchecked (q_sum_axis (q_sum_axis x a1) a2) =
  qsum (map (fun idx => (q_getd x idx * w2 (freqs (remove_axis a2 (remove_axis a1 idx))
                                                  (remove_axis a2 (remove_axis a1 (ashape x)))))%Qc)
            (indices (ashape x))).
Proof.
  intros Hwf Hp Ha1 Ha2. destruct (q_sum_axis_wf x a1 Hwf Hp Ha1) as [W1 S1].
  assert (P1 : positive_shape (ashape (q_sum_axis x a1))) by (rewrite S1; now apply positive_remove_axis).
  assert (D1 : a2 < dimensions (q_sum_axis x a1)).
  { unfold dimensions in *. rewrite S1, remove_axis_length by assumption. assumption. }
  rewrite (f2_marg1 _ a2 W1 P1 D1).
  rewrite (wsum_marg_idx x a1
             (fun idx' => w2 (freqs (remove_axis a2 idx') (remove_axis a2 (ashape (q_sum_axis x a1))))) Hwf Hp Ha1).
  rewrite S1. reflexivity.
Qed.

(* ------------------------------------------------------------------ PiXY *)
Definition wpx (a b i : nat) : Qc := qnat ((i / b) * (b - 1 - i mod b) + (i mod b) * (a - 1 - i / b)).

Lemma cells_flat a b :
  flat_map (fun m1 => map (fun m2 => (m1, m2)) (seq 0 b)) (seq 0 a) = map (fun i => (i / b, i mod b)) (seq 0 (a * b)).
Proof.
  rewrite seq_mul, map_flat_map. apply flat_map_ext_in. intros i _. rewrite map_map.
  apply map_ext_in. intros j Hj. apply in_seq in Hj. f_equal.
  - rewrite Nat.div_add_l by lia. rewrite Nat.div_small by lia. lia.
  - rewrite Nat.add_comm, Nat.mod_add by lia. symmetry. apply Nat.mod_small. lia.
Qed.

Lemma wf_len2 (x : spectrum) a b : wf x -> ashape x = [a; b] -> length (adata x) = a * b.
Proof. intros Hwf Hsh. unfold wf in Hwf. rewrite Hsh in Hwf. cbn [elements] in Hwf. lia. Qed.

Lemma q_getd_2d x a b i j : wf x -> ashape x = [a; b] -> i < a -> j < b -> q_getd x [i; j] = dat x (i * b + j).
Proof.
  intros Hwf Hsh Hi Hj. rewrite q_getd_nth; [|assumption|].
  - rewrite Hsh. cbn [flat elements]. unfold dat. f_equal. lia.
  - rewrite Hsh. cbn [inb]. apply andb_true_intro. split; [apply Nat.ltb_lt; assumption|].
    apply andb_true_intro. split; [apply Nat.ltb_lt; assumption|reflexivity].
Qed.

Lemma divmod_lt a b i : 0 < b -> i < a * b -> i / b < a /\ i mod b < b /\ i = (i / b) * b + i mod b.
Proof.
  intros Hb Hi. split; [|split].
  - apply Nat.div_lt_upper_bound; lia.
  - apply Nat.mod_upper_bound. lia.
  - pose proof (Nat.div_mod i b). lia.
Qed.

Lemma pixy_flat x a b : wf x -> ashape x = [a; b] -> 0 < a -> 0 < b ->
  pixy_unchecked x =
  (qsum (map (fun i => (dat x i * wpx a b i)%Qc) (seq 1 (length (adata x) - 2))) / qnat ((a - 1) * (b - 1)))%Qc.
Proof.
  intros Hwf Hsh Ha Hb. pose proof (wf_len2 x a b Hwf Hsh) as Hl.
  unfold pixy_unchecked. rewrite Hsh. cbn [nth]. cbv zeta.
  replace (S (b - 1)) with b by lia. replace (S (a - 1)) with a by lia.
  rewrite cells_flat, Hl, firstn_map, skipn_map, firstn_seq, skipn_seq, map_map.
  replace (Nat.min (a * b - 1) (a * b) - 1) with (a * b - 2) by lia. cbn [Nat.add].
  f_equal. apply qsum_map_ext_in. intros i Hi. apply in_seq in Hi.
  assert (HiL : i < a * b) by lia.
  destruct (divmod_lt a b i Hb HiL) as (Hq & Hr & Hqr).
  rewrite (q_getd_2d x a b _ _ Hwf Hsh Hq Hr). rewrite <- Hqr. reflexivity.
Qed.

Lemma divmod_rev a b i : 0 < b -> i < a * b ->
  (a * b - 1 - i) / b = a - 1 - i / b /\ (a * b - 1 - i) mod b = b - 1 - i mod b.
Proof.
  intros Hb Hi. destruct (divmod_lt a b i Hb Hi) as (Hq & Hr & Hqr).
  set (q := i / b) in *. set (r := i mod b) in *.
  assert (E : a * b - 1 - i = b * (a - 1 - q) + (b - 1 - r)).
  { set (q' := a - 1 - q). set (r' := b - 1 - r).
    assert (Ea : a = q + q' + 1) by lia. assert (Eb : b = r + r' + 1) by lia.
    rewrite Hqr. rewrite Ea. nia. }
  split.
  - symmetry. apply (Nat.div_unique _ b _ (b - 1 - r)); [lia|exact E].
  - symmetry. apply (Nat.mod_unique _ b (a - 1 - q)); [lia|exact E].
Qed.

Lemma wpx_sym a b i : 0 < b -> i < a * b -> wpx a b (a * b - 1 - i) = wpx a b i.
Proof.
  intros Hb Hi. unfold wpx. destruct (divmod_rev a b i Hb Hi) as [-> ->].
  destruct (divmod_lt a b i Hb Hi) as (Hq & Hr & _).
  replace (b - 1 - (b - 1 - i mod b)) with (i mod b) by lia.
  replace (a - 1 - (a - 1 - i / b)) with (i / b) by lia.
  f_equal. lia.
Qed.

(* ------------------------------------------------------------------ 3x3 *)
Lemma g2_33 x i j : wf x -> ashape x = [3; 3] -> i < 3 -> j < 3 -> g2 x i j = dat x (i * 3 + j).
Proof. intros Hwf Hsh Hi Hj. unfold g2. now apply (q_getd_2d x 3 3). Qed.

(* ------------------------------------------------------------------ 1-D statistics, flat form *)
Lemma S_flat x : segregating_sites x = qsum (map (fun i => (dat x i * 1)%Qc) (seq 1 (length (adata x) - 2))).
Proof.
  unfold segregating_sites. rewrite (polymorphic_nth _ 0%Qc). f_equal. apply map_ext. intros i. unfold dat. ring.
Qed.
Lemma theta_generic_flat w x :
  theta_generic w x = qsum (map (fun i => (dat x i * w i (length (adata x) - 1)%nat)%Qc) (seq 1 (length (adata x) - 2))).
Proof.
  unfold theta_generic. cbv zeta. replace (length (adata x) - 1 - 1) with (length (adata x) - 2) by lia.
  f_equal. apply map_ext. intros i. unfold dat. ring.
Qed.

Lemma poly_range L : L - 2 = 0 \/ 2 * 1 + (L - 2) = L.
Proof. destruct (le_lt_dec 2 L); [right|left]; lia. Qed.

Lemma fold_S_gen x : wf x -> positive_shape (ashape x) -> segregating_sites (fold0 x) = segregating_sites x.
Proof.
  intros Hwf Hp. rewrite !S_flat, fold0_length.
  apply (fold_wsum x (fun _ => 1%Qc) 1 (length (adata x) - 2) Hwf Hp (poly_range _)). intros; reflexivity.
Qed.

Lemma fold_theta_generic w x : wf x -> positive_shape (ashape x) ->
  (forall i n, 1 <= i < n -> w (n - i) n = w i n) ->
  theta_generic w (fold0 x) = theta_generic w x.
Proof.
  intros Hwf Hp Hw. rewrite !theta_generic_flat, fold0_length.
  apply (fold_wsum x (fun i => w i (length (adata x) - 1)) 1 (length (adata x) - 2) Hwf Hp (poly_range _)).
  intros i Hi. apply Hw. lia.
Qed.

Lemma w_tajima_sym i n : 1 <= i < n -> w_tajima (n - i) n = w_tajima i n.
Proof.
  intros Hi. unfold w_tajima. f_equal. f_equal. replace (n - (n - i)) with i by lia. apply Nat.mul_comm.
Qed.

(* ------------------------------------------------------------------ 3x3 folded *)
Lemma fold0_33 x : wf x -> ashape x = [3; 3] ->
  dat (fold0 x) 1 = (dat x 1 + dat x 7)%Qc /\
  dat (fold0 x) 2 = (qhalf * dat x 2 + qhalf * dat x 6)%Qc /\
  dat (fold0 x) 3 = (dat x 3 + dat x 5)%Qc /\
  dat (fold0 x) 4 = (qhalf * dat x 4 + qhalf * dat x 4)%Qc /\
  dat (fold0 x) 5 = 0%Qc /\
  dat (fold0 x) 6 = (qhalf * dat x 6 + qhalf * dat x 2)%Qc /\
  dat (fold0 x) 7 = 0%Qc.
Proof.
  intros Hwf Hs. pose proof (wf_len2 x 3 3 Hwf Hs) as Hl. change (3 * 3) with 9 in Hl.
  unfold dat. rewrite !fold0_nth by lia. unfold fcell. rewrite Hs, Hl.
  repeat split; reflexivity.
Qed.
