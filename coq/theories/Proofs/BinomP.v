(* Binomial and hypergeometric identities for properties C02/C03/C10. Statements are FIXED and in
   plain standard-library terms. The nat-level binomial identities come from mathcomp's binomial.v
   through the auxiliary file BinomMC.v (bridge binomN n k = N.of_nat 'C(n,k)). *)
From Sfs Require Import Index ArrayM Scalar Spectrum Project.
From Sfs Require Import BinomMC.
From Coq Require Import Lia.

Close Scope Qc_scope. Close Scope Q_scope. Open Scope nat_scope.

Lemma binomN_0_r n : binomN n 0 = 1%N.
Proof. rewrite binomN_binom, binom_0_r. reflexivity. Qed.
Lemma binomN_small n k : n < k -> binomN n k = 0%N.
Proof. intros H. rewrite binomN_binom, binom_small by assumption. reflexivity. Qed.
Lemma binomN_pascal n k : binomN (S n) (S k) = (binomN n k + binomN n (S k))%N.
Proof. rewrite !binomN_binom, binom_pascal, Nat2N.inj_add. reflexivity. Qed.
Lemma binomN_diag n : binomN n n = 1%N.
Proof. rewrite binomN_binom, binom_diag. reflexivity. Qed.
Lemma binomN_pos n k : k <= n -> (0 < binomN n k)%N.
Proof. intros H. rewrite binomN_binom. pose proof (binom_pos H) as Hp. lia. Qed.
Lemma binomN_sym n k : k <= n -> binomN n (n - k) = binomN n k.
Proof. intros H. rewrite !binomN_binom, binom_sym by assumption. reflexivity. Qed.
Lemma binomN_absorb n k : (N.of_nat (S k) * binomN (S n) (S k) = N.of_nat (S n) * binomN n k)%N.
Proof. rewrite !binomN_binom, <- !Nat2N.inj_mul, binom_absorb. reflexivity. Qed.
Definition nsum (l : list N) : N := fold_right N.add 0%N l.

Lemma nsum_of_nat (f : nat -> nat) l :
  nsum (map (fun x => N.of_nat (f x)) l) = N.of_nat (natsum (map f l)).
Proof.
  unfold nsum, natsum. induction l as [|x l IH]; cbn [map fold_right]; [reflexivity|].
  rewrite IH, Nat2N.inj_add. reflexivity.
Qed.

Lemma binomN_vandermonde K M n :
  binomN (K + M) n = nsum (map (fun k => (binomN K k * binomN M (n - k))%N) (seq 0 (S n))).
Proof.
  rewrite binomN_binom, binom_vandermonde, <- nsum_of_nat. f_equal.
  apply map_ext. intros k. rewrite !binomN_binom, Nat2N.inj_mul. reflexivity.
Qed.

Lemma binomN_compose N K m l i : K <= N -> i <= l -> l <= m -> m <= N ->
  (nsum (map (fun j => binomN K j * binomN (N - K) (m - j) * (binomN j i * binomN (m - j) (l - i)))
             (seq 0 (S m))) * binomN N l
   = binomN K i * binomN (N - K) (l - i) * (binomN N m * binomN m l))%N.
Proof.
  intros HK Hil Hlm HmN.
  rewrite (map_ext _ (fun j => N.of_nat
     (Nat.mul (Nat.mul (binom K j) (binom (N - K) (m - j)))
              (Nat.mul (binom j i) (binom (m - j) (l - i)))))).
  2:{ intros j. rewrite !binomN_binom, <- !Nat2N.inj_mul. reflexivity. }
  rewrite nsum_of_nat, !binomN_binom, <- !Nat2N.inj_mul. f_equal.
  apply binom_compose; assumption.
Qed.

(* ---- qN : N -> Qc is a semiring morphism, positive on positives ---- *)
Lemma qN_0 : qN 0 = 0%Qc.
Proof. reflexivity. Qed.
Lemma qN_1 : qN 1 = 1%Qc.
Proof. reflexivity. Qed.
Lemma qN_add a b : qN (a + b) = (qN a + qN b)%Qc.
Proof.
  unfold qN, Qcplus. apply Q2Qc_eq_iff. cbn [this Q2Qc]. rewrite !Qred_correct.
  rewrite N2Z.inj_add, inject_Z_plus. reflexivity.
Qed.
Lemma qN_mul a b : qN (a * b) = (qN a * qN b)%Qc.
Proof.
  unfold qN, Qcmult. apply Q2Qc_eq_iff. cbn [this Q2Qc]. rewrite !Qred_correct.
  rewrite N2Z.inj_mul, inject_Z_mult. reflexivity.
Qed.
Lemma qN_nonneg n : (0 <= qN n)%Qc.
Proof.
  unfold Qcle, qN. cbn [this Q2Qc]. rewrite !Qred_correct.
  unfold Qle. cbn [Qnum Qden inject_Z]. lia.
Qed.
Lemma qN_pos n : (0 < n)%N -> (0 < qN n)%Qc.
Proof.
  intros H. unfold Qclt, qN. cbn [this Q2Qc]. rewrite !Qred_correct.
  unfold Qlt. cbn [Qnum Qden inject_Z]. lia.
Qed.
Lemma qN_neq0 n : (0 < n)%N -> qN n <> 0%Qc.
Proof.
  intros H E. apply qN_pos in H. rewrite E in H. exact (Qclt_not_eq _ _ H eq_refl).
Qed.

Lemma Qc_div_nonneg a b c : (0 <= a -> 0 <= b -> 0 <= c -> 0 <= a * b / c)%Qc.
Proof.
  unfold Qcle, Qcdiv, Qcmult, Qcinv. cbn [this Q2Qc]. rewrite !Qred_correct.
  intros Ha Hb Hc. apply Qmult_le_0_compat; [apply Qmult_le_0_compat; assumption|].
  apply Qinv_le_0_compat. assumption.
Qed.

(* ---- qsum ---- *)
Lemma qsum_cons x l : qsum (x :: l) = (x + qsum l)%Qc.
Proof.
  unfold qsum. cbn [fold_left].
  assert (G : forall l a, fold_left Qcplus l a = (a + fold_left Qcplus l 0)%Qc).
  { clear. induction l as [|y l IH]; intros a; cbn [fold_left]; [ring|].
    rewrite IH, (IH (0 + y)%Qc). ring. }
  rewrite G. ring.
Qed.
Lemma qsum_nil : qsum [] = 0%Qc.
Proof. reflexivity. Qed.
Lemma qsum_zero {A} (l : list A) : qsum (map (fun _ => 0%Qc) l) = 0%Qc.
Proof.
  induction l as [|x l IH]; cbn [map]; [reflexivity|]. rewrite qsum_cons, IH. ring.
Qed.
Lemma qsum_scaled {A} (f : A -> N) (d : Qc) l :
  qsum (map (fun k => (qN (f k) / d)%Qc) l) = (qN (nsum (map f l)) / d)%Qc.
Proof.
  induction l as [|x l IH]; cbn [map].
  - rewrite qsum_nil. unfold nsum; cbn [fold_right]. rewrite qN_0. unfold Qcdiv. ring.
  - rewrite qsum_cons, IH. unfold nsum; cbn [fold_right]. rewrite qN_add. unfold Qcdiv. ring.
Qed.

(* ---- hypergeometric pmf, exact ---- *)
Lemma hyp_nonneg N K n k : (0 <= hyp N K n k)%Qc.
Proof.
  unfold hyp. destruct (n <? k).
  - apply Qcle_refl.
  - apply Qc_div_nonneg; apply qN_nonneg.
Qed.
Lemma hyp_support N K n k : K <= N -> n <= N -> (K < k \/ N - K < n - k) -> hyp N K n k = 0%Qc.
Proof.
  intros HK Hn H. unfold hyp. destruct (n <? k); [reflexivity|].
  destruct H as [H|H]; rewrite (binomN_small _ _ H), qN_0; unfold Qcdiv; ring.
Qed.
(* a pmf: sums to one over 0..n *)
Lemma hyp_sum_one N K n : K <= N -> n <= N -> qsum (map (hyp N K n) (seq 0 (S n))) = 1%Qc.
Proof.
  intros HK Hn.
  rewrite (map_ext_in _
    (fun k => (qN (binomN K k * binomN (N - K) (n - k)) / qN (binomN N n))%Qc)).
  2:{ intros k Hk. apply in_seq in Hk. unfold hyp.
      destruct (Nat.ltb_spec n k); [lia|]. rewrite qN_mul. reflexivity. }
  rewrite qsum_scaled, <- binomN_vandermonde.
  replace (K + (N - K)) with N by lia.
  field. apply qN_neq0, binomN_pos. assumption.
Qed.
(* drawing everything returns the population *)
Lemma hyp_id n k k' : k <= n -> hyp n k n k' = if k =? k' then 1%Qc else 0%Qc.
Proof.
  intros Hk. unfold hyp.
  destruct (Nat.ltb_spec n k') as [Hn|Hn]; destruct (Nat.eqb_spec k k') as [E|E];
    try lia; try reflexivity.
  - subst k'. rewrite !binomN_diag, qN_1. field. discriminate.
  - assert (k < k' \/ n - k < n - k') as [H|H] by lia;
      rewrite (binomN_small _ _ H), qN_0; unfold Qcdiv; ring.
Qed.
(* a subsample of a subsample is a subsample *)
Lemma hyp_compose N K m l i : K <= N -> l <= m -> m <= N ->
  qsum (map (fun j => (hyp N K m j * hyp m j l i)%Qc) (seq 0 (S m))) = hyp N K l i.
Proof.
  intros HK Hlm HmN.
  destruct (Nat.ltb_spec l i) as [Hli|Hil].
  - rewrite (map_ext _ (fun _ => 0%Qc)).
    2:{ intros j. unfold hyp at 2. destruct (Nat.ltb_spec l i); [ring|lia]. }
    rewrite qsum_zero. unfold hyp. destruct (Nat.ltb_spec l i); [reflexivity|lia].
  - assert (HNm : qN (binomN N m) <> 0%Qc) by (apply qN_neq0, binomN_pos; lia).
    assert (Hml : qN (binomN m l) <> 0%Qc) by (apply qN_neq0, binomN_pos; lia).
    assert (HNl : qN (binomN N l) <> 0%Qc) by (apply qN_neq0, binomN_pos; lia).
    rewrite (map_ext_in _
      (fun j => (qN (binomN K j * binomN (N - K) (m - j) * (binomN j i * binomN (m - j) (l - i)))
                 / (qN (binomN N m) * qN (binomN m l)))%Qc)).
    2:{ intros j Hj. apply in_seq in Hj. unfold hyp.
        destruct (Nat.ltb_spec m j); [lia|]. destruct (Nat.ltb_spec l i); [lia|].
        rewrite !qN_mul. field. split; assumption. }
    rewrite qsum_scaled. unfold hyp. destruct (Nat.ltb_spec l i); [lia|].
    pose proof (binomN_compose _ _ _ _ _ HK Hil Hlm HmN) as E.
    apply (f_equal qN) in E.
    rewrite (qN_mul (nsum _)), (qN_mul (binomN K i * binomN (N - K) (l - i))),
      (qN_mul (binomN N m)) in E.
    set (x := qN (nsum _)) in *.
    set (y := qN (binomN K i * binomN (N - K) (l - i))) in *.
    set (d1 := qN (binomN N m)) in *. set (d2 := qN (binomN m l)) in *.
    set (d3 := qN (binomN N l)) in *.
    (* E : x * d3 = y * (d1 * d2) *)
    rewrite <- qN_mul. fold y.
    assert (Hx : x = (y * (d1 * d2) / d3)%Qc) by (rewrite <- E; field; assumption).
    rewrite Hx. field. repeat split; assumption.
Qed.

