(* The record framing of the repaired BCF reader (Model/Frames.v): a stream of records is read back as those records; cut
   anywhere else than between two records it is an error, never a shorter list of records (C18, C10).
   *)
From Sfs Require Import Npy Frames NpyP.
From Coq Require Import Lia.

Close Scope string_scope. Open Scope nat_scope.

(* the positions between records *)
Fixpoint boundaries (rs : list (bytes * bytes)) : list nat :=
  match rs with
  | [] => [0]
  | r :: t => 0 :: map (fun n => length (frame_bytes r) + n) (boundaries t)
  end.

(* ---- general list facts ---- *)
Lemma firstn_app_exact {A} (l r : list A) n : length l = n -> firstn n (l ++ r) = l.
Proof. intros <-. rewrite firstn_app, Nat.sub_diag, firstn_all. cbn [firstn]. apply app_nil_r. Qed.
Lemma skipn_app_exact {A} (l r : list A) n : length l = n -> skipn n (l ++ r) = r.
Proof. intros <-. rewrite skipn_app, Nat.sub_diag, skipn_all. reflexivity. Qed.
Lemma Forall_firstn' {A} (P : A -> Prop) l k : Forall P l -> Forall P (firstn k l).
Proof. intros H; revert k; induction H; intros [|k]; cbn [firstn]; constructor; auto. Qed.
Lemma frames_bytes_cons r t : frames_bytes (r :: t) = frame_bytes r ++ frames_bytes t.
Proof. reflexivity. Qed.
Lemma frames_bytes_app a b : frames_bytes (a ++ b) = frames_bytes a ++ frames_bytes b.
Proof. apply flat_map_app. Qed.
Lemma word_ok_4 w : (w < 2 ^ 32)%N -> word_ok 4 w.
Proof. intros H. unfold word_ok. replace (256 ^ N.of_nat 4)%N with (2 ^ 32)%N by (vm_compute; reflexivity). exact H. Qed.

(* ---- one read on an input that starts with two length words ---- *)
Lemma read_frame_hdr a b body : word_ok 4 a -> word_ok 4 b ->
  read_frame (le_bytes 4 a ++ le_bytes 4 b ++ body) =
  if length body <? N.to_nat a + N.to_nat b then FErr
  else FRec (firstn (N.to_nat a) body) (firstn (N.to_nat b) (skipn (N.to_nat a) body))
            (skipn (N.to_nat a + N.to_nat b) body).
Proof.
  intros Ha Hb. unfold read_frame.
  destruct (le_bytes 4 a ++ le_bytes 4 b ++ body) eqn:E.
  - apply (f_equal (@length _)) in E. rewrite app_length, le_bytes_length in E. cbn [length] in E. lia.
  - rewrite <- E. clear E.
    assert (L : length (le_bytes 4 a ++ le_bytes 4 b ++ body) = 8 + length body)
      by (rewrite !app_length, !le_bytes_length; lia).
    rewrite L. destruct (Nat.ltb_spec (8 + length body) 8) as [H|_]; [lia|].
    cbv zeta.
    rewrite (firstn_app_exact _ _ 4) by apply le_bytes_length.
    rewrite (skipn_app_exact _ _ 4) by apply le_bytes_length.
    rewrite (firstn_app_exact _ _ 4) by apply le_bytes_length.
    assert (S8 : skipn 8 (le_bytes 4 a ++ le_bytes 4 b ++ body) = body).
    { rewrite app_assoc. apply skipn_app_exact. rewrite app_length, !le_bytes_length. reflexivity. }
    rewrite S8, !le_word_le_bytes by assumption. reflexivity.
Qed.
Lemma read_frame_short inp : 0 < length inp < 8 -> read_frame inp = FErr.
Proof.
  intros H. unfold read_frame. destruct inp as [|x l]; [cbn [length] in H; lia|].
  destruct (Nat.ltb_spec (length (x :: l)) 8); [reflexivity|lia].
Qed.
Lemma read_frame_rec_shorter inp s i rest : read_frame inp = FRec s i rest -> length rest + 8 <= length inp.
Proof.
  unfold read_frame. destruct inp as [|x l]; [discriminate|]. remember (x :: l) as inp eqn:E. clear E.
  destruct (Nat.ltb_spec (length inp) 8) as [|H8]; [discriminate|]. cbv zeta.
  generalize (N.to_nat (le_word (firstn 4 inp))) (N.to_nat (le_word (firstn 4 (skipn 4 inp)))). intros ls li.
  assert (HB : length (skipn 8 inp) = length inp - 8) by apply skipn_length.
  revert HB. generalize (skipn 8 inp). intros body HB.
  destruct (Nat.ltb_spec (length body) (ls + li)) as [|Hb]; [discriminate|].
  intros H; injection H as _ _ <-. rewrite skipn_length. lia.
Qed.

(* ---- fuel ---- *)
Lemma read_frames_fuel_indep fuel1 : forall fuel2 inp, length inp < fuel1 -> length inp < fuel2 ->
  read_frames_fuel fuel1 inp = read_frames_fuel fuel2 inp.
Proof.
  induction fuel1 as [|f1 IH]; intros [|f2] inp H1 H2; try lia.
  cbn [read_frames_fuel]. destruct (read_frame inp) eqn:E; auto.
  apply read_frame_rec_shorter in E. rewrite (IH f2) by lia. reflexivity.
Qed.

Theorem frame_bytes_length r : length (frame_bytes r) = 8 + length (fst r) + length (snd r).
Proof. unfold frame_bytes. rewrite !app_length, !le_bytes_length. lia. Qed.

(* one record, followed by anything, is read back as that record and the rest *)
Theorem read_frame_frame_bytes r rest : frame_ok r -> read_frame (frame_bytes r ++ rest) = FRec (fst r) (snd r) rest.
Proof.
  destruct r as [s i]. intros [Hs Hi]. cbn [fst snd] in *. unfold frame_bytes. cbn [fst snd].
  rewrite <- !app_assoc. rewrite read_frame_hdr by (apply word_ok_4; assumption).
  rewrite !Nat2N.id.
  destruct (Nat.ltb_spec (length (s ++ i ++ rest)) (length s + length i)) as [H|_];
    [rewrite !app_length in H; lia|].
  rewrite (firstn_app_exact s) by reflexivity. rewrite (skipn_app_exact s) by reflexivity.
  rewrite (firstn_app_exact i) by reflexivity.
  rewrite app_assoc, (skipn_app_exact (s ++ i)) by apply app_length. reflexivity.
Qed.

(* ---- one step of the read loop ---- *)
Lemma read_frames_rec inp s i rest : read_frame inp = FRec s i rest ->
  read_frames inp = match read_frames rest with Some l => Some ((s, i) :: l) | None => None end.
Proof.
  intros E. unfold read_frames. cbn [read_frames_fuel]. rewrite E.
  apply read_frame_rec_shorter in E.
  rewrite (read_frames_fuel_indep (length inp) (S (length rest)) rest) by lia. reflexivity.
Qed.
Lemma read_frames_err inp : read_frame inp = FErr -> read_frames inp = None.
Proof. intros E. unfold read_frames. cbn [read_frames_fuel]. rewrite E. reflexivity. Qed.

(* a whole stream of records is read back *)
Theorem read_frames_frames_bytes rs : Forall frame_ok rs -> read_frames (frames_bytes rs) = Some rs.
Proof.
  induction 1 as [|r t Hr Ht IH].
  - reflexivity.
  - rewrite frames_bytes_cons, (read_frames_rec _ _ _ _ (read_frame_frame_bytes r _ Hr)), IH.
    destruct r; reflexivity.
Qed.

(* fuel does not matter once there is enough of it *)
Theorem read_frames_fuel_enough fuel inp : length inp < fuel -> read_frames_fuel fuel inp = read_frames inp.
Proof. intros H. unfold read_frames. apply read_frames_fuel_indep; lia. Qed.

(* the stream cut at a boundary: the records before it *)
Theorem read_frames_cut_at_boundary rs k :
  Forall frame_ok rs -> k <= length rs ->
  read_frames (firstn (length (frames_bytes (firstn k rs))) (frames_bytes rs)) = Some (firstn k rs).
Proof.
  intros H _.
  assert (E : frames_bytes rs = frames_bytes (firstn k rs) ++ frames_bytes (skipn k rs))
    by (rewrite <- frames_bytes_app, firstn_skipn; reflexivity).
  rewrite E. rewrite firstn_app_exact by reflexivity.
  apply read_frames_frames_bytes, Forall_firstn', H.
Qed.

(* the stream cut anywhere else: an error - never a clean end with fewer records *)
Theorem read_frames_cut_inside rs n :
  Forall frame_ok rs -> n <= length (frames_bytes rs) -> ~ In n (boundaries rs) ->
  read_frames (firstn n (frames_bytes rs)) = None.
Proof.
  intros H; revert n; induction H as [|r t Hr Ht IH]; intros n Hn Hnot.
  - exfalso. apply Hnot. cbn [frames_bytes flat_map length] in Hn. left. lia.
  - rewrite frames_bytes_cons in *. rewrite app_length in Hn.
    pose proof (frame_bytes_length r) as HL.
    destruct (Nat.eq_dec n 0) as [->|Hn0]; [exfalso; apply Hnot; left; reflexivity|].
    destruct (Nat.lt_ge_cases n (length (frame_bytes r))) as [Hlt|Hge].
    + apply read_frames_err.
      destruct (Nat.lt_ge_cases n 8) as [H8|H8].
      * apply read_frame_short. rewrite firstn_length, app_length. lia.
      * destruct r as [s i]. cbn [fst snd] in *. destruct Hr as [Hs Hi]. cbn [fst snd] in *.
        unfold frame_bytes. cbn [fst snd]. rewrite <- !app_assoc.
        rewrite firstn_app, le_bytes_length, (firstn_all2 (le_bytes 4 _)) by (rewrite le_bytes_length; lia).
        rewrite firstn_app, le_bytes_length, (firstn_all2 (le_bytes 4 _)) by (rewrite le_bytes_length; lia).
        rewrite read_frame_hdr by (apply word_ok_4; assumption).
        rewrite !Nat2N.id.
        match goal with |- context [?a <? ?b] => destruct (Nat.ltb_spec a b) as [|Hb] end; [reflexivity|].
        rewrite firstn_length in Hb. lia.
    + rewrite firstn_app, (firstn_all2 (frame_bytes r)) by lia.
      rewrite (read_frames_rec _ _ _ _ (read_frame_frame_bytes r _ Hr)).
      rewrite IH; [reflexivity|lia|].
      intros Hin. apply Hnot. cbn [boundaries]. right. apply in_map_iff.
      exists (n - length (frame_bytes r)). split; [lia|assumption].
Qed.

(* the boundaries are exactly the lengths of the streams of the first k records *)
Theorem boundaries_spec rs n :
  In n (boundaries rs) <-> exists k, k <= length rs /\ n = length (frames_bytes (firstn k rs)).
Proof.
  revert n; induction rs as [|r t IH]; intros n.
  - cbn [boundaries length]. split.
    + intros [<-|[]]. exists 0. split; [lia|reflexivity].
    + intros [k [_ ->]]. rewrite firstn_nil. left. reflexivity.
  - cbn [boundaries]. split.
    + intros [<-|Hin].
      * exists 0. split; [lia|reflexivity].
      * apply in_map_iff in Hin. destruct Hin as [m [<- Hm]]. apply IH in Hm. destruct Hm as [k [Hk ->]].
        exists (S k). split; [cbn [length]; lia|].
        cbn [firstn]. rewrite frames_bytes_cons, app_length. reflexivity.
    + intros [[|k] [Hk ->]].
      * left. reflexivity.
      * right. cbn [firstn]. rewrite frames_bytes_cons, app_length. apply in_map_iff.
        exists (length (frames_bytes (firstn k t))). split; [reflexivity|].
        apply IH. exists k. split; [cbn [length] in Hk; lia|reflexivity].
Qed.

Lemma count_frames_fuel_spec fuel : forall inp,
  match read_frames_fuel fuel inp with
  | Some l => count_frames_fuel fuel inp = (length l, true)
  | None => snd (count_frames_fuel fuel inp) = false
  end.
Proof.
  induction fuel as [|f IH]; intros inp; cbn [read_frames_fuel count_frames_fuel]; [reflexivity|].
  destruct (read_frame inp) as [| |s i rest]; try reflexivity.
  specialize (IH rest). destruct (read_frames_fuel f rest) as [l|]; destruct (count_frames_fuel f rest) as [m ok].
  - injection IH as -> ->. reflexivity.
  - cbn [snd] in *. assumption.
Qed.

(* the observation of the correspondence check agrees with read_frames *)
Theorem count_frames_spec inp :
  match read_frames inp with
  | Some l => count_frames inp = (length l, true)
  | None => snd (count_frames inp) = false
  end.
Proof. unfold read_frames, count_frames. apply count_frames_fuel_spec. Qed.

Example frames_example :
  let r1 := ([1; 2; 3]%N, [9]%N) in let r2 := ([]%N : bytes, [7; 7]%N) in
  frames_bytes [r1; r2] = [3; 0; 0; 0; 1; 0; 0; 0; 1; 2; 3; 9; 0; 0; 0; 0; 2; 0; 0; 0; 7; 7]%N /\
  boundaries [r1; r2] = [0; 12; 22] /\
  read_frames (frames_bytes [r1; r2]) = Some [r1; r2] /\
  read_frames (firstn 12 (frames_bytes [r1; r2])) = Some [r1] /\
  read_frames (firstn 13 (frames_bytes [r1; r2])) = None /\
  read_frames (firstn 21 (frames_bytes [r1; r2])) = None /\
  read_frames (firstn 3 (frames_bytes [r1; r2])) = None /\
  count_frames (firstn 21 (frames_bytes [r1; r2])) = (1, false).
Proof. vm_compute. repeat split. Qed.

