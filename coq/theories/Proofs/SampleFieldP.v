(* A sample's genotype is its GT value and nothing else (C01, C08): the other FORMAT values of the sample - present, missing
   or dropped - never influence it. *)
From Sfs Require Import Index Create Npy Text Container NpyP TextP CreateP ContainerP.
From Coq Require Import Lia ZifyBool ZifyN ZifyNat List.
Import ListNotations.

Close Scope string_scope. Close Scope Qc_scope. Close Scope Q_scope. Open Scope N_scope.

Definition no_colon (s : bytes) : Prop := Forall (fun c => (c =? 58) = false) s.
(* a value as it may stand in a sample: not empty, no ':' *)
Definition value_ok (v : bytes) : Prop := v <> [] /\ no_colon v.
(* FORMAT keys as noodles accepts them here: GT first, no key twice *)
Definition keys_ok (keys : list bytes) : Prop := exists ks, keys = gt_key :: ks /\ has_dup keys = false /\ existsb (bytes_eqb gt_key) ks = false.

(* the sample text: the values joined by ':' *)
Definition sample_text (vals : list bytes) : bytes := join [58] vals.


(* ---------------------------------------------------------------- helpers *)
Lemma sf_bytes_eqb_refl s : bytes_eqb s s = true.
Proof. induction s as [|c s IH]; cbn [bytes_eqb]; [reflexivity|]. rewrite N.eqb_refl, IH. reflexivity. Qed.

Lemma sf_bytes_eqb_sym a : forall b, bytes_eqb a b = bytes_eqb b a.
Proof.
  induction a as [|x a IH]; intros [|y b]; cbn [bytes_eqb]; try reflexivity.
  rewrite N.eqb_sym, IH. reflexivity.
Qed.

Lemma sf_no_empty vals : Forall value_ok vals ->
  existsb (fun v : bytes => match v with [] => true | _ :: _ => false end) vals = false.
Proof.
  induction 1 as [|v l [Hv _] _ IH]; [reflexivity|].
  cbn [existsb]. rewrite IH. destruct v; [congruence|reflexivity].
Qed.

Lemma sf_split vals : vals <> [] -> Forall value_ok vals -> split_on 58 (sample_text vals) = vals.
Proof.
  intros Hne H. unfold sample_text. apply split_on_join; [exact Hne|].
  eapply Forall_impl; [|exact H]. intros v [_ Hv]. exact Hv.
Qed.

Lemma sf_core keys vals :
  has_dup keys = false -> existsb (bytes_eqb gt_key) (tl keys) = false -> vals <> [] -> Forall value_ok vals ->
  (length vals <= length keys)%nat ->
  vcf_sample_gt keys (sample_text vals) =
  match keys, vals with
  | k0 :: _, v0 :: _ => if bytes_eqb k0 gt_key then vcf_field_gt v0 else Some None
  | _, _ => Some None
  end.
Proof.
  intros Hd Ht Hne Hv Hlen. unfold vcf_sample_gt. cbv zeta.
  rewrite (sf_split vals Hne Hv). rewrite Hd, Ht. cbn [orb].
  replace (length keys <? length vals)%nat with false by (symmetry; apply Nat.ltb_ge; exact Hlen).
  match goal with |- context [existsb ?f vals] => replace (existsb f vals) with false by (symmetry; exact (sf_no_empty vals Hv)) end.
  cbn [orb]. reflexivity.
Qed.

Lemma sf_digit_nocolon c : is_digit c = true -> (c =? 58) = false.
Proof. unfold is_digit. lia. Qed.

Lemma sf_render_allele_nocolon a : no_colon (render_allele a).
Proof.
  destruct a as [k|]; cbn [render_allele]; unfold no_colon.
  - destruct (dec_digits (N.of_nat k)) as [_ H]. eapply Forall_impl; [|exact H].
    intros c Hc. apply sf_digit_nocolon. exact Hc.
  - constructor; [reflexivity|constructor].
Qed.

Lemma sf_render_aux_nocolon g : forall first, no_colon (render_gt_aux first g).
Proof.
  induction g as [|[a ph] t IH]; intros first; cbn [render_gt_aux]; unfold no_colon in *; [constructor|].
  apply Forall_app. split; [|apply Forall_app; split; [apply sf_render_allele_nocolon|apply IH]].
  destruct first; [constructor|]. destruct ph; (constructor; [reflexivity|constructor]).
Qed.

Theorem sample_gt_is_first_value keys gt others :
  keys_ok keys -> value_ok gt -> Forall value_ok others -> (length others < length keys)%nat ->
  vcf_sample_gt keys (sample_text (gt :: others)) = vcf_field_gt gt.
Proof.
  intros (ks & -> & Hd & Hk) Hgt Ho Hlen.
  rewrite sf_core; [|exact Hd|exact Hk|discriminate|constructor; assumption|cbn [length] in *; lia].
  rewrite sf_bytes_eqb_refl. reflexivity.
Qed.

(* in particular the other values never matter: two samples with the same GT value have the same genotype *)
Theorem sample_gt_ignores_other_values keys gt others others' :
  keys_ok keys -> value_ok gt -> Forall value_ok others -> Forall value_ok others' ->
  (length others < length keys)%nat -> (length others' < length keys)%nat ->
  vcf_sample_gt keys (sample_text (gt :: others)) = vcf_sample_gt keys (sample_text (gt :: others')).
Proof.
  intros Hk Hgt Ho Ho' Hl Hl'.
  rewrite (sample_gt_is_first_value keys gt others), (sample_gt_is_first_value keys gt others'); auto.
Qed.

(* the whole sample missing *)
Theorem sample_missing keys : keys_ok keys -> vcf_sample_gt keys [46] = Some None.
Proof.
  intros Hk. change [46] with (sample_text ([46] :: [])).
  rewrite sample_gt_is_first_value; [reflexivity|exact Hk| |constructor|].
  - split; [discriminate|]. constructor; [reflexivity|constructor].
  - destruct Hk as (ks & -> & _). cbn [length]. lia.
Qed.

(* a record without a GT key has no genotypes *)
Theorem sample_without_gt_key keys vals :
  has_dup keys = false -> existsb (bytes_eqb gt_key) keys = false -> keys <> [] ->
  Forall value_ok vals -> vals <> [] -> (length vals <= length keys)%nat ->
  vcf_sample_gt keys (sample_text vals) = Some None.
Proof.
  intros Hd Hk Hne Hv Hvne Hlen.
  destruct keys as [|k0 ks]; [congruence|]. cbn [existsb] in Hk. apply orb_false_iff in Hk. destruct Hk as [Hk0 Hks].
  rewrite sf_core; [|exact Hd|exact Hks|exact Hvne|exact Hv|exact Hlen].
  destruct vals as [|v0 vs]; [congruence|]. rewrite sf_bytes_eqb_sym, Hk0. reflexivity.
Qed.

(* rendered genotypes carry no ':' *)
Theorem render_gt_value_ok (g : agt) : g <> [] -> value_ok (render_gt g).
Proof.
  intros Hne. split; [|apply sf_render_aux_nocolon].
  destruct g as [|[a ph] t]; [congruence|]. unfold render_gt. cbn [render_gt_aux app].
  destruct (render_allele_cons a) as (c & r & E & _). rewrite E. discriminate.
Qed.

(* end to end, for a genotype written into a sample with any other values: the classification of its alleles *)
Theorem sample_classification keys (g : agt) others :
  keys_ok keys -> g <> [] -> int8_ok g = true -> Forall value_ok others -> (length others < length keys)%nat ->
  classify_field (vcf_sample_gt keys (sample_text (render_gt g :: others))) = Some (classify (Some (map fst g))).
Proof.
  intros Hk Hne Hi Ho Hlen.
  rewrite sample_gt_is_first_value; [|exact Hk|apply render_gt_value_ok; exact Hne|exact Ho|exact Hlen].
  exact (proj1 (gt_container_independent g (length g) Hne Hi (le_n _))).
Qed.

Example sample_examples :
  let keys := [gt_key; [68; 80]; [71; 81]] in        (* GT:DP:GQ *)
  vcf_sample_gt keys (str "0/1:.:30") = Some (Some [Some 0; Some 1]%nat) /\
  vcf_sample_gt keys (str "0/1") = Some (Some [Some 0; Some 1]%nat) /\
  vcf_sample_gt keys (str ".:12:30") = Some None /\
  vcf_sample_gt keys (str ".") = Some None /\
  vcf_sample_gt keys (str "0/1:5:6:7") = None /\
  vcf_sample_gt keys (str "0/1::6") = None /\
  vcf_sample_gt [[68; 80]; gt_key] (str "5:0/1") = None /\
  vcf_sample_gt [[68; 80]] (str "5") = Some None.
Proof. vm_compute. repeat split; reflexivity. Qed.

