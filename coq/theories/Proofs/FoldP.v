(* Proofs for property C05 (folding). Statements are FIXED; replace every Admitted by a proof. *)
From Sfs Require Import Index ArrayM Scalar Spectrum IndexP ArrayP.
From Coq Require Import Lia Permutation.

Close Scope Qc_scope. Close Scope Q_scope. Open Scope nat_scope.

(* ------------------------------------------------------------------------------------------ *)
(* helpers: constants of Qc *)

Lemma qhalf_double : (qhalf + qhalf = 1)%Qc.
Proof. apply Qc_is_canon. reflexivity. Qed.

Lemma qinv2 : (/ Q2Qc 2 = qhalf)%Qc.
Proof. apply Qc_is_canon. reflexivity. Qed.

Lemma half_div a b : (qhalf * a + qhalf * b = (a + b) / Q2Qc 2)%Qc.
Proof. unfold Qcdiv. rewrite qinv2. ring. Qed.

Lemma half_half a : (qhalf * a + qhalf * a = a)%Qc.
Proof.
  transitivity ((qhalf + qhalf) * a)%Qc; [ring|]. rewrite qhalf_double. ring.
Qed.

Lemma Qc_double_inj a b : (a + a = b + b)%Qc -> a = b.
Proof.
  intros H. rewrite <- (half_half a), <- (half_half b).
  transitivity (qhalf * (a + a))%Qc; [ring|]. rewrite H. ring.
Qed.

(* ------------------------------------------------------------------------------------------ *)
(* helpers: lists and qsum *)

Lemma nth_map_seq {B} (f : nat -> B) n i d : i < n -> nth i (map f (seq 0 n)) d = f i.
Proof.
  intros Hi. rewrite (nth_indep _ d (f 0)) by (rewrite map_length, seq_length; assumption).
  rewrite map_nth. rewrite seq_nth by assumption. reflexivity.
Qed.

Lemma map_nth_seq {B} (l : list B) d : map (fun i => nth i l d) (seq 0 (length l)) = l.
Proof.
  apply (nth_ext _ _ d d).
  - now rewrite map_length, seq_length.
  - intros i Hi. rewrite map_length, seq_length in Hi.
    exact (nth_map_seq (fun j => nth j l d) (length l) i d Hi).
Qed.

Lemma map_rev_seq {B} (h : nat -> B) n :
  map (fun i => h (n - 1 - i)) (seq 0 n) = rev (map h (seq 0 n)).
Proof.
  destruct n as [|m]; [reflexivity|].
  apply (nth_ext _ _ (h 0) (h 0)).
  - now rewrite rev_length, !map_length.
  - intros i Hi. rewrite map_length, seq_length in Hi.
    rewrite nth_map_seq by assumption.
    rewrite rev_nth by (rewrite map_length, seq_length; assumption).
    rewrite map_length, seq_length. rewrite nth_map_seq by lia. f_equal. lia.
Qed.

Lemma qsum_acc l a : fold_left Qcplus l a = (a + qsum l)%Qc.
Proof.
  unfold qsum. revert a. induction l as [|y l IH]; intros a; cbn [fold_left].
  - ring.
  - rewrite IH. rewrite (IH (0 + y)%Qc). ring.
Qed.

Lemma qsum_nil : qsum [] = 0%Qc.
Proof. reflexivity. Qed.

Lemma qsum_cons a l : qsum (a :: l) = (a + qsum l)%Qc.
Proof. unfold qsum at 1. cbn [fold_left]. rewrite qsum_acc. ring. Qed.

Lemma qsum_app l1 l2 : qsum (l1 ++ l2) = (qsum l1 + qsum l2)%Qc.
Proof.
  induction l1 as [|a l1 IH]; cbn [app].
  - rewrite qsum_nil. ring.
  - rewrite !qsum_cons, IH. ring.
Qed.

Lemma qsum_rev l : qsum (rev l) = qsum l.
Proof.
  induction l as [|a l IH]; cbn [rev]; [reflexivity|].
  rewrite qsum_app, !qsum_cons, qsum_nil, IH. ring.
Qed.

Lemma qsum_map_add {B} (f g : B -> Qc) l :
  qsum (map (fun i => f i + g i)%Qc l) = (qsum (map f l) + qsum (map g l))%Qc.
Proof.
  induction l as [|a l IH]; cbn [map].
  - rewrite qsum_nil. ring.
  - rewrite !qsum_cons, IH. ring.
Qed.

Lemma arr_ext (a b : arr Qc) : adata a = adata b -> ashape a = ashape b -> a = b.
Proof. destruct a, b. simpl. intros -> ->. reflexivity. Qed.

(* ------------------------------------------------------------------------------------------ *)
(* the cell function of fold_cells, split into a pure case analysis and the geometry *)

Definition unopt (c : option Qc) : Qc := match c with Some q => q | None => 0%Qc end.

Definition cellv (T c : nat) (a b : Qc) : option Qc :=
  match Nat.compare c (T / 2) with
  | Lt => Some (a + b)%Qc
  | Eq => if T mod 2 =? 0 then Some (qhalf * a + qhalf * b)%Qc else Some (a + b)%Qc
  | Gt => None
  end.

Definition fcell (x : spectrum) (i : nat) : option Qc :=
  cellv (lsum (ashape x) - length (ashape x)) (index_sum_from_flat (ashape x) i)
        (nth i (adata x) 0%Qc) (nth (length (adata x) - 1 - i) (adata x) 0%Qc).

Lemma fold_cells_eq x : fold_cells x = map (fcell x) (seq 0 (length (adata x))).
Proof. reflexivity. Qed.

Lemma fold0_data x :
  adata (fold0 x) = map (fun i => unopt (fcell x i)) (seq 0 (length (adata x))).
Proof.
  change (adata (fold0 x)) with (map unopt (fold_cells x)).
  rewrite fold_cells_eq, map_map. reflexivity.
Qed.

Lemma fold0_shape x : ashape (fold0 x) = ashape x.
Proof. reflexivity. Qed.

Lemma fold0_length x : length (adata (fold0 x)) = length (adata x).
Proof. rewrite fold0_data, map_length, seq_length. reflexivity. Qed.

Lemma fold0_nth x i : i < length (adata x) -> nth i (adata (fold0 x)) 0%Qc = unopt (fcell x i).
Proof. intros Hi. rewrite fold0_data. exact (nth_map_seq (fun j => unopt (fcell x j)) _ i _ Hi). Qed.

Lemma cellv_cases T c a b :
  (2 * c < T /\ cellv T c a b = Some (a + b)%Qc) \/
  (2 * c = T /\ cellv T c a b = Some (qhalf * a + qhalf * b)%Qc) \/
  (T < 2 * c /\ cellv T c a b = None).
Proof.
  unfold cellv.
  assert (H2 : 2 <> 0) by lia.
  pose proof (Nat.div_mod T 2 H2) as Hd. pose proof (Nat.mod_upper_bound T 2 H2) as Hm.
  destruct (Nat.compare_spec c (T / 2)) as [E|L|G].
  - destruct (T mod 2 =? 0) eqn:Ev.
    + apply Nat.eqb_eq in Ev. right; left. split; [lia|reflexivity].
    + apply Nat.eqb_neq in Ev. left. split; [lia|reflexivity].
  - left. split; [lia|reflexivity].
  - right; right. split; [lia|reflexivity].
Qed.

Lemma cellv_pair T c c' a b :
  c + c' = T -> (unopt (cellv T c a b) + unopt (cellv T c' b a) = a + b)%Qc.
Proof.
  intros Hc.
  destruct (cellv_cases T c a b) as [[H1 E1]|[[H1 E1]|[H1 E1]]];
  destruct (cellv_cases T c' b a) as [[H2 E2]|[[H2 E2]|[H2 E2]]]; try lia;
  rewrite E1, E2; cbn [unopt]; try ring.
  transitivity ((qhalf + qhalf) * (a + b))%Qc; [ring|]. rewrite qhalf_double. ring.
Qed.

Lemma cellv_idem T c c' a b :
  c + c' = T ->
  cellv T c (unopt (cellv T c a b)) (unopt (cellv T c' b a)) = cellv T c a b.
Proof.
  intros Hc.
  destruct (cellv_cases T c (unopt (cellv T c a b)) (unopt (cellv T c' b a)))
    as [[H3 E3]|[[H3 E3]|[H3 E3]]]; rewrite E3; clear E3;
  destruct (cellv_cases T c a b) as [[H1 E1]|[[H1 E1]|[H1 E1]]];
  destruct (cellv_cases T c' b a) as [[H2 E2]|[[H2 E2]|[H2 E2]]]; try lia;
  rewrite E1, ?E2; cbn [unopt]; try reflexivity; f_equal; try ring.
  transitivity ((qhalf + qhalf) * (qhalf * a + qhalf * b))%Qc; [ring|]. rewrite qhalf_double. ring.
Qed.

(* geometry *)
Lemma count_pair sh i : positive_shape sh -> i < elements sh ->
  index_sum_from_flat sh i + index_sum_from_flat sh (elements sh - 1 - i) = lsum sh - length sh.
Proof.
  intros Hp Hi. rewrite !index_sum_from_flat_spec by assumption.
  pose proof (inb_unflat sh i Hp Hi) as Hin.
  pose proof (flat_mirror sh _ Hin) as Hf. rewrite flat_unflat in Hf by assumption.
  rewrite <- Hf. rewrite unflat_flat by (apply mirror_inb; assumption).
  pose proof (lsum_mirror sh _ Hin). lia.
Qed.

Lemma q_getd_nth x k : wf x -> inb (ashape x) k = true ->
  q_getd x k = nth (flat (ashape x) k) (adata x) 0%Qc.
Proof.
  intros Hwf Hin. unfold q_getd. rewrite get_spec, Hin.
  pose proof (flat_lt _ _ Hin) as Hlt. unfold wf in Hwf.
  rewrite (nth_error_nth' _ 0%Qc) by lia. reflexivity.
Qed.

Lemma fcell_flat x k : wf x -> positive_shape (ashape x) -> inb (ashape x) k = true ->
  fcell x (flat (ashape x) k) =
  cellv (lsum (ashape x) - length (ashape x)) (lsum k) (q_getd x k) (q_getd x (mirror (ashape x) k)).
Proof.
  intros Hwf Hp Hin. unfold fcell.
  rewrite index_sum_from_flat_spec by assumption. rewrite unflat_flat by assumption.
  rewrite (q_getd_nth x k) by assumption.
  rewrite (q_getd_nth x (mirror (ashape x) k)) by (try apply mirror_inb; assumption).
  rewrite flat_mirror by assumption. unfold wf in Hwf. rewrite Hwf. reflexivity.
Qed.

Lemma fcell_rev x i : wf x -> positive_shape (ashape x) -> i < length (adata x) ->
  fcell x (length (adata x) - 1 - i) =
  cellv (lsum (ashape x) - length (ashape x))
        (lsum (ashape x) - length (ashape x) - index_sum_from_flat (ashape x) i)
        (nth (length (adata x) - 1 - i) (adata x) 0%Qc) (nth i (adata x) 0%Qc).
Proof.
  intros Hwf Hp Hi. unfold fcell. unfold wf in Hwf.
  pose proof (count_pair (ashape x) i Hp) as Hc. rewrite <- Hwf in Hc. specialize (Hc Hi).
  replace (length (adata x) - 1 - (length (adata x) - 1 - i)) with i by lia.
  f_equal. lia.
Qed.

(* ------------------------------------------------------------------------------------------ *)

Lemma fold_cells_length x : length (fold_cells x) = length (adata x).
Proof. rewrite fold_cells_eq, map_length, seq_length. reflexivity. Qed.

(* the refinement to the property's wording: for every in-bounds index k *)
Theorem fold_spec x f k :
  wf x -> positive_shape (ashape x) -> inb (ashape x) k = true ->
  nth (flat (ashape x) k) (folded_cells x f) (Filled f) = fold_spec_cell x f k.
Proof.
  intros Hwf Hp Hin. unfold folded_cells. rewrite fold_cells_eq, map_map.
  pose proof (flat_lt _ _ Hin) as Hlt. pose proof Hwf as Hwf'. unfold wf in Hwf'.
  rewrite nth_map_seq by lia. rewrite fcell_flat by assumption.
  unfold fold_spec_cell.
  destruct (cellv_cases (lsum (ashape x) - length (ashape x)) (lsum k) (q_getd x k)
                        (q_getd x (mirror (ashape x) k))) as [[H1 E1]|[[H1 E1]|[H1 E1]]];
    rewrite E1.
  - destruct (Nat.ltb_spec (2 * lsum k) (lsum (ashape x) - length (ashape x))); [reflexivity|lia].
  - destruct (Nat.ltb_spec (2 * lsum k) (lsum (ashape x) - length (ashape x))); [lia|].
    destruct (Nat.eqb_spec (2 * lsum k) (lsum (ashape x) - length (ashape x))); [|lia].
    rewrite half_div. reflexivity.
  - destruct (Nat.ltb_spec (2 * lsum k) (lsum (ashape x) - length (ashape x))); [lia|].
    destruct (Nat.eqb_spec (2 * lsum k) (lsum (ashape x) - length (ashape x))); [lia|].
    reflexivity.
Qed.

Theorem fold_none_iff x k :
  wf x -> positive_shape (ashape x) -> inb (ashape x) k = true ->
  (nth (flat (ashape x) k) (fold_cells x) None = None <-> lsum (ashape x) - length (ashape x) < 2 * lsum k).
Proof.
  intros Hwf Hp Hin. rewrite fold_cells_eq.
  pose proof (flat_lt _ _ Hin) as Hlt. pose proof Hwf as Hwf'. unfold wf in Hwf'.
  rewrite nth_map_seq by lia. rewrite fcell_flat by assumption.
  destruct (cellv_cases (lsum (ashape x) - length (ashape x)) (lsum k) (q_getd x k)
                        (q_getd x (mirror (ashape x) k))) as [[H1 E1]|[[H1 E1]|[H1 E1]]];
    rewrite E1; split; intros H; try discriminate; try lia; reflexivity.
Qed.

Theorem fold0_wf x : wf x -> wf (fold0 x) /\ ashape (fold0 x) = ashape x.
Proof.
  intros Hwf. split; [|reflexivity]. unfold wf in *.
  rewrite fold0_length, fold0_shape. assumption.
Qed.

Lemma fold0_pair x i : wf x -> positive_shape (ashape x) -> i < length (adata x) ->
  (unopt (fcell x i) + unopt (fcell x (length (adata x) - 1 - i)) =
   nth i (adata x) 0 + nth (length (adata x) - 1 - i) (adata x) 0)%Qc.
Proof.
  intros Hwf Hp Hi. rewrite fcell_rev by assumption. unfold fcell at 1.
  apply cellv_pair.
  pose proof (count_pair (ashape x) i Hp) as Hc. unfold wf in Hwf. rewrite <- Hwf in Hc.
  specialize (Hc Hi). lia.
Qed.

(* with fill 0 the total mass is preserved *)
Theorem fold_mass x : wf x -> positive_shape (ashape x) -> spectrum_sum (fold0 x) = spectrum_sum x.
Proof.
  intros Hwf Hp. unfold spectrum_sum. rewrite fold0_data.
  set (n := length (adata x)).
  set (g := fun i => unopt (fcell x i)).
  set (v := fun i => nth i (adata x) 0%Qc).
  assert (Hx : qsum (adata x) = qsum (map v (seq 0 n))).
  { unfold v, n. rewrite map_nth_seq. reflexivity. }
  rewrite Hx. apply Qc_double_inj.
  assert (Hrev : forall h : nat -> Qc,
             (qsum (map h (seq 0 n)) + qsum (map h (seq 0 n)) =
              qsum (map (fun i => h i + h (n - 1 - i)%nat) (seq 0 n)))%Qc).
  { intros h. rewrite (qsum_map_add h (fun i => h (n - 1 - i)%nat)).
    rewrite map_rev_seq, qsum_rev. reflexivity. }
  rewrite (Hrev g), (Hrev v). f_equal. apply map_ext_in.
  intros i Hi. apply in_seq in Hi. unfold g, v, n. apply fold0_pair; try assumption. unfold n in Hi. lia.
Qed.

Lemma fcell_fold0 x i : wf x -> positive_shape (ashape x) -> i < length (adata x) ->
  fcell (fold0 x) i = fcell x i.
Proof.
  intros Hwf Hp Hi. unfold fcell at 1.
  rewrite fold0_shape, fold0_length, !fold0_nth by lia.
  rewrite (fcell_rev x i) by assumption. unfold fcell.
  apply cellv_idem.
  pose proof (count_pair (ashape x) i Hp) as Hc. unfold wf in Hwf. rewrite <- Hwf in Hc.
  specialize (Hc Hi). lia.
Qed.

(* folding twice equals folding once *)
Theorem fold_idem x : wf x -> positive_shape (ashape x) -> fold0 (fold0 x) = fold0 x.
Proof.
  intros Hwf Hp. apply arr_ext; [|reflexivity].
  rewrite (fold0_data (fold0 x)), fold0_length, (fold0_data x).
  apply map_ext_in. intros i Hi. apply in_seq in Hi.
  rewrite fcell_fold0 by (assumption || lia). reflexivity.
Qed.

(* mirrored input (reference/alternate swapped) folds to the identical result, for every fill *)
Theorem mirror_arr_get x k : wf x -> positive_shape (ashape x) -> inb (ashape x) k = true ->
  q_getd (mirror_arr x) k = q_getd x (mirror (ashape x) k).
Proof.
  intros Hwf Hp Hin.
  assert (Hwf' : wf (mirror_arr x)).
  { unfold wf in *. change (length (rev (adata x)) = elements (ashape x)). rewrite rev_length. assumption. }
  rewrite (q_getd_nth (mirror_arr x) k) by assumption.
  rewrite (q_getd_nth x (mirror (ashape x) k)) by (try apply mirror_inb; assumption).
  change (ashape (mirror_arr x)) with (ashape x).
  change (adata (mirror_arr x)) with (rev (adata x)).
  pose proof (flat_lt _ _ Hin) as Hlt. unfold wf in Hwf.
  rewrite rev_nth by lia. rewrite flat_mirror by assumption. f_equal. lia.
Qed.

Theorem fold_polarity x : wf x -> positive_shape (ashape x) -> fold_cells (mirror_arr x) = fold_cells x.
Proof.
  intros _ _. rewrite !fold_cells_eq.
  change (adata (mirror_arr x)) with (rev (adata x)). rewrite rev_length.
  apply map_ext_in. intros i Hi. apply in_seq in Hi.
  unfold fcell. change (ashape (mirror_arr x)) with (ashape x).
  change (adata (mirror_arr x)) with (rev (adata x)). rewrite rev_length.
  rewrite !rev_nth by lia.
  replace (length (adata x) - S i) with (length (adata x) - 1 - i) by lia.
  replace (length (adata x) - S (length (adata x) - 1 - i)) with i by lia.
  unfold cellv.
  destruct (Nat.compare _ _); [destruct (_ =? _)| |]; try reflexivity; f_equal; ring.
Qed.

