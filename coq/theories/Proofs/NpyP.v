(* Proofs for C07/C15/C16 (npy format). Statements are FIXED; every proof below is complete. If a statement is
   FALSE as written, do not change it silently: prove the others, put the false one in a comment
   `(* FALSE: ... counterexample ... *)` and prove a corrected `<name>_fixed` (minimal change). *)
From Sfs Require Import Index Npy.
From Coq Require Import Lia.

Close Scope string_scope. Open Scope N_scope.

Definition is_byte (b : N) : Prop := b < 256.
Definition word_ok (k : nat) (w : N) : Prop := w < 256 ^ N.of_nat k.
Definition shape_ok (sh : list N) : Prop := sh <> [] /\ Forall (fun n => n <= u64_max) sh.
Definition header_len_of (sh : list N) : N :=
  let d := N.of_nat (length (fmt_dict sh)) in d + (align - (10 + d) mod align).
Definition file_ok (sh vals : list N) : Prop :=
  shape_ok sh /\ header_len_of sh < 65536 /\ Forall (word_ok 8) vals /\ N.of_nat (length vals) = nelements sh.

(* the guard of the repaired writer is exactly the condition the round-trip theorems need *)
Lemma header_len_is sh : header_len sh = header_len_of sh.
Proof. reflexivity. Qed.
Lemma write_npy_checked_some sh vals b :
  write_npy_checked sh vals = Some b <-> (header_len_of sh < 65536 /\ b = write_npy sh vals).
Proof.
  unfold write_npy_checked. rewrite header_len_is. destruct (N.ltb_spec (header_len_of sh) 65536) as [H|H].
  - split; [intros E; inversion E; auto | intros [_ ->]; reflexivity].
  - split; [discriminate | intros [H' _]; exfalso; apply (N.lt_irrefl 65536); eapply N.le_lt_trans; eassumption].
Qed.
Lemma write_npy_checked_none sh vals : write_npy_checked sh vals = None <-> 65536 <= header_len_of sh.
Proof.
  unfold write_npy_checked. rewrite header_len_is. destruct (N.ltb_spec (header_len_of sh) 65536) as [H|H].
  - split; [discriminate | intros H'; exfalso; apply (N.lt_irrefl 65536); eapply N.le_lt_trans; eassumption].
  - split; auto.
Qed.

Arguments N.add : simpl never.
Arguments N.sub : simpl never.
Arguments N.mul : simpl never.
Arguments N.div : simpl never.
Arguments N.modulo : simpl never.
Arguments N.pow : simpl never.
Arguments N.eqb : simpl never.
Arguments N.ltb : simpl never.
Arguments N.leb : simpl never.

(* ---- words ---- *)
Lemma le_bytes_length k w : length (le_bytes k w) = k.
Proof. revert w; induction k; intro w; cbn [le_bytes length]; auto. Qed.
Lemma le_bytes_are_bytes k w : Forall is_byte (le_bytes k w).
Proof.
  revert w; induction k; intro w; cbn [le_bytes]; constructor.
  - apply N.mod_lt; lia.
  - apply IHk.
Qed.
Lemma le_word_le_bytes k w : word_ok k w -> le_word (le_bytes k w) = w.
Proof.
  unfold word_ok. revert w; induction k; intros w H.
  - cbn [le_bytes le_word]. change (256 ^ N.of_nat 0) with 1 in H. lia.
  - cbn [le_bytes le_word]. rewrite IHk.
    + rewrite (N.div_mod w 256) at 3 by lia. lia.
    + rewrite Nat2N.inj_succ, N.pow_succ_r' in H.
      apply N.div_lt_upper_bound; lia.
Qed.
Lemma le_bytes_le_word bs : Forall is_byte bs -> le_bytes (length bs) (le_word bs) = bs.
Proof.
  induction 1 as [|b bs Hb HF IH]; cbn [length le_bytes le_word]; auto.
  unfold is_byte in Hb.
  replace (b + 256 * le_word bs) with (b + le_word bs * 256) by lia.
  rewrite N.mod_add, N.div_add, N.mod_small, N.div_small by lia.
  rewrite N.add_0_l, IH. reflexivity.
Qed.

(* ---- decimal ---- *)
Definition dspec (ds : bytes) (n : N) : Prop :=
  ds <> [] /\ Forall (fun c => is_digit c = true) ds /\
  forall rest a seen, a * 10 ^ N.of_nat (length ds) + n <= u64_max ->
    parse_digits (ds ++ rest) a seen = parse_digits rest (a * 10 ^ N.of_nat (length ds) + n) true.

Lemma is_digit_48 d : d < 10 -> is_digit (48 + d) = true.
Proof.
  intro H. unfold is_digit. apply andb_true_intro; split; apply N.leb_le; lia.
Qed.

Lemma parse_digits_step d rest a seen : d < 10 -> a * 10 + d <= u64_max ->
  parse_digits ((48 + d) :: rest) a seen = parse_digits rest (a * 10 + d) true.
Proof.
  intros Hd Ha. cbn [parse_digits]. rewrite is_digit_48 by assumption.
  cbv zeta. replace (48 + d - 48) with d by lia.
  destruct (N.ltb_spec u64_max (a * 10 + d)); [lia|reflexivity].
Qed.

Lemma dspec_one d : d < 10 -> dspec [48 + d] d.
Proof.
  intro Hd. split; [discriminate|]. split.
  - constructor; [apply is_digit_48; assumption|constructor].
  - intros rest a seen H. cbn [length] in *. change (N.of_nat 1) with 1 in *. rewrite N.pow_1_r in *.
    cbn [app]. apply parse_digits_step; assumption.
Qed.

Lemma dspec_snoc ds q d : d < 10 -> dspec ds q -> dspec (ds ++ [48 + d]) (q * 10 + d).
Proof.
  intros Hd (Hne & Hdig & Hp). split; [|split].
  - destruct ds; [congruence|discriminate].
  - apply Forall_app; split; [assumption|]. constructor; [apply is_digit_48; assumption|constructor].
  - intros rest a seen H. rewrite app_length in *. cbn [length] in *.
    rewrite Nat.add_1_r, Nat2N.inj_succ, N.pow_succ_r' in *.
    rewrite <- app_assoc. rewrite Hp by lia. cbn [app].
    rewrite parse_digits_step by lia. f_equal. lia.
Qed.

Lemma ddf_spec fuel : forall n acc, fuel <> O -> n < 10 ^ N.of_nat fuel ->
  exists ds, dec_digits_fuel fuel n acc = ds ++ acc /\ dspec ds n.
Proof.
  induction fuel as [|f IH]; intros n acc Hf Hn; [congruence|].
  cbn [dec_digits_fuel]. cbv zeta.
  assert (Hm : n mod 10 < 10) by (apply N.mod_lt; lia).
  assert (Hdm : n = (n / 10) * 10 + n mod 10) by (rewrite (N.div_mod n 10) at 1 by lia; lia).
  destruct (N.eqb_spec (n / 10) 0) as [E|E].
  - exists [48 + n mod 10]. split; [reflexivity|].
    rewrite Hdm at 2. rewrite E. apply dspec_one; assumption.
  - assert (Hq : n / 10 < 10 ^ N.of_nat f).
    { rewrite Nat2N.inj_succ, N.pow_succ_r' in Hn. apply N.div_lt_upper_bound; lia. }
    assert (Hf' : f <> O).
    { intro; subst f. change (10 ^ N.of_nat 0) with 1 in Hq. lia. }
    destruct (IH (n / 10) ((48 + n mod 10) :: acc) Hf' Hq) as (ds & Hds & Hsp).
    exists (ds ++ [48 + n mod 10]). split.
    + rewrite Hds, <- app_assoc. reflexivity.
    + rewrite Hdm at 2. apply dspec_snoc; assumption.
Qed.

Lemma dec_spec n : dspec (dec n) n.
Proof.
  unfold dec.
  destruct (ddf_spec (S (N.to_nat (N.log2 n))) n []) as (ds & Hds & Hsp); [discriminate| |].
  - rewrite Nat2N.inj_succ, N2Nat.id.
    destruct (N.eq_dec n 0) as [->|Hn]; [reflexivity|].
    destruct (N.log2_spec n) as [_ H]; [lia|].
    eapply N.lt_le_trans; [exact H|]. apply N.pow_le_mono_l. lia.
  - rewrite Hds, app_nil_r. exact Hsp.
Qed.

Lemma dec_digits n : dec n <> [] /\ Forall (fun c => is_digit c = true) (dec n).
Proof. destruct (dec_spec n) as (H1 & H2 & _). split; assumption. Qed.

Lemma parse_u64_dec n rest : n <= u64_max -> (match rest with c :: _ => is_digit c = false | [] => True end) ->
  parse_u64 (dec n ++ rest) = Some (n, rest).
Proof.
  intros Hn Hr. destruct (dec_spec n) as (_ & _ & Hp). unfold parse_u64.
  rewrite Hp by lia. rewrite N.mul_0_l, N.add_0_l.
  destruct rest as [|c rest]; [reflexivity|]. cbn [parse_digits]. rewrite Hr. reflexivity.
Qed.

(* ---- ascii ---- *)
Lemma forallb_Forall_lt (l : bytes) k : forallb (fun c => c <? k) l = true <-> Forall (fun c => c < k) l.
Proof.
  induction l as [|c l IH]; cbn [forallb].
  - split; auto.
  - rewrite andb_true_iff, IH, N.ltb_lt. split.
    + intros [H1 H2]; constructor; assumption.
    + intro H; inversion H; subst; split; assumption.
Qed.

Lemma is_digit_lt128 c : is_digit c = true -> c < 128.
Proof.
  unfold is_digit. rewrite andb_true_iff, !N.leb_le. lia.
Qed.

Lemma dec_ascii n : Forall (fun c => c < 128) (dec n).
Proof.
  destruct (dec_digits n) as [_ H]. eapply Forall_impl; [|exact H].
  intros c Hc. apply is_digit_lt128; assumption.
Qed.

Lemma join_ascii sep l : Forall (fun c => c < 128) sep -> Forall (Forall (fun c => c < 128)) l ->
  Forall (fun c => c < 128) (join sep l).
Proof.
  intros Hs Hl. induction Hl as [|a l Ha Hl IH]; cbn [join]; [constructor|].
  destruct l as [|b l]; [assumption|].
  apply Forall_app; split; [assumption|]. apply Forall_app; split; assumption.
Qed.

Lemma fmt_dict_ascii sh : Forall (fun c => c < 128) (fmt_dict sh).
Proof.
  unfold fmt_dict. apply Forall_app; split; [|apply Forall_app; split].
  - apply forallb_Forall_lt. vm_compute. reflexivity.
  - apply join_ascii.
    + apply forallb_Forall_lt. vm_compute. reflexivity.
    + apply Forall_forall. intros x Hx. apply in_map_iff in Hx. destruct Hx as (n & <- & _). apply dec_ascii.
  - apply forallb_Forall_lt. vm_compute. reflexivity.
Qed.

(* ---- parsing the shape tuple ---- *)
Definition shape_tail (l : list N) (Y : bytes) : bytes :=
  flat_map (fun n => str ", " ++ dec n) l ++ str ",)" ++ Y.

Lemma join_dec_cons a l : join (str ", ") (map dec (a :: l)) = dec a ++ flat_map (fun n => str ", " ++ dec n) l.
Proof.
  revert a; induction l as [|b l IH]; intro a.
  - cbn [map join flat_map]. rewrite app_nil_r. reflexivity.
  - change (map dec (a :: b :: l)) with (dec a :: map dec (b :: l)).
    change (join (str ", ") (dec a :: map dec (b :: l))) with (dec a ++ str ", " ++ join (str ", ") (map dec (b :: l))).
    rewrite IH. cbn [flat_map]. rewrite <- app_assoc. reflexivity.
Qed.

Lemma shape_tail_head l Y : exists R, shape_tail l Y = 44 :: R.
Proof.
  unfold shape_tail. destruct l as [|b l]; cbn [flat_map].
  - eexists; reflexivity.
  - rewrite <- !app_assoc. eexists; reflexivity.
Qed.

Lemma space0_dec n Y : space0 (dec n ++ Y) = dec n ++ Y.
Proof.
  destruct (dec_digits n) as [Hne HF]. destruct (dec n) as [|c ds]; [congruence|].
  inversion HF as [|? ? Hc _]; subst. cbn [app space0].
  unfold is_digit in Hc. apply andb_true_iff in Hc. rewrite !N.leb_le in Hc.
  destruct (N.eqb_spec c 32); [lia|]. destruct (N.eqb_spec c 9); [lia|]. reflexivity.
Qed.

Lemma usize_list_rest_tail l : forall fuel Y, (length l <= fuel)%nat -> Forall (fun n => n <= u64_max) l ->
  usize_list_rest fuel (shape_tail l Y) = (l, str ",)" ++ Y).
Proof.
  induction l as [|b l IH]; intros fuel Y Hf HF.
  - unfold shape_tail. cbn [flat_map app]. destruct fuel; reflexivity.
  - destruct fuel as [|f]; [cbn [length] in Hf; lia|].
    inversion HF as [|? ? Hb HF']; subst.
    unfold shape_tail. cbn [flat_map]. rewrite <- !app_assoc. fold (shape_tail l Y). cbn [usize_list_rest].
    assert (Hws : ws_sep 44 (str ", " ++ dec b ++ shape_tail l Y) = Some (dec b ++ shape_tail l Y)).
    { unfold ws_sep. change (space0 (str ", " ++ dec b ++ shape_tail l Y)) with (str ", " ++ dec b ++ shape_tail l Y).
      change (tag [44] (str ", " ++ dec b ++ shape_tail l Y)) with (Some (32 :: dec b ++ shape_tail l Y)).
      cbv iota beta.
      change (space0 (32 :: dec b ++ shape_tail l Y)) with (space0 (dec b ++ shape_tail l Y)).
      rewrite space0_dec. reflexivity. }
    rewrite Hws. rewrite parse_u64_dec.
    + rewrite IH; [reflexivity| cbn [length] in Hf; lia | assumption].
    + assumption.
    + destruct (shape_tail_head l Y) as [R ->]. reflexivity.
Qed.

Lemma flat_map_length_ge l : (length l <= length (flat_map (fun n => str ", " ++ dec n) l))%nat.
Proof.
  induction l as [|b l IH]; cbn [flat_map length]; [lia|].
  rewrite app_length. change (length (str ", " ++ dec b)) with (S (S (length (dec b)))). lia.
Qed.

Lemma parse_usize_sequence_shape sh Y : sh <> [] -> Forall (fun n => n <= u64_max) sh ->
  parse_usize_sequence (join (str ", ") (map dec sh) ++ str ",)" ++ Y) = Some (sh, 41 :: Y).
Proof.
  intros Hne HF. destruct sh as [|a l]; [congruence|]. inversion HF as [|? ? Ha HF']; subst.
  rewrite join_dec_cons, <- app_assoc. fold (shape_tail l Y).
  unfold parse_usize_sequence. rewrite parse_u64_dec.
  - rewrite usize_list_rest_tail.
    + reflexivity.
    + unfold shape_tail. rewrite app_length. pose proof (flat_map_length_ge l). lia.
    + assumption.
  - assumption.
  - destruct (shape_tail_head l Y) as [R ->]. reflexivity.
Qed.

(* ---- entries ---- *)
Lemma parse_entry_descr Y : parse_entry (str "'descr': '<f8'" ++ Y) = Some (EDescr Little F8, Y).
Proof. vm_compute. reflexivity. Qed.
Lemma parse_entry_fortran Y : parse_entry (str "'fortran_order': False" ++ Y) = Some (EFortran false, Y).
Proof. vm_compute. reflexivity. Qed.
Lemma parse_entry_shape Y l R : parse_usize_sequence Y = Some (l, 41 :: R) ->
  parse_entry (str "'shape': (" ++ Y) = Some (EShape l, R).
Proof.
  intro H. lazy -[parse_usize_sequence]. rewrite H. lazy. reflexivity.
Qed.
Lemma parse_entry_close Y : parse_entry (125 :: Y) = None.
Proof. vm_compute. reflexivity. Qed.

Lemma ws_sep_comma_space c Y : (c =? 32) || (c =? 9) = false -> ws_sep 44 (str ", " ++ c :: Y) = Some (c :: Y).
Proof.
  intro H. unfold ws_sep. change (space0 (str ", " ++ c :: Y)) with (str ", " ++ c :: Y).
  change (tag [44] (str ", " ++ c :: Y)) with (Some (32 :: c :: Y)).
  cbv iota beta. change (space0 (32 :: c :: Y)) with (space0 (c :: Y)). cbn [space0]. rewrite H. reflexivity.
Qed.


Lemma fmt_dict_split sh pad :
  fmt_dict sh ++ pad =
  123 :: str "'descr': '<f8'" ++ str ", " ++ str "'fortran_order': False" ++ str ", " ++ str "'shape': (" ++
  (join (str ", ") (map dec sh) ++ str ",)" ++ str ", }" ++ pad).
Proof.
  unfold fmt_dict. rewrite <- !app_assoc. reflexivity.
Qed.

Lemma parse_dict_fmt_dict sh pad : shape_ok sh ->
  parse_dict (fmt_dict sh ++ pad) = Some [EDescr Little F8; EFortran false; EShape sh].
Proof.
  intros [Hne HF]. rewrite fmt_dict_split.
  set (S3 := join (str ", ") (map dec sh) ++ str ",)" ++ str ", }" ++ pad).
  assert (H3 : parse_entry (str "'shape': (" ++ S3) = Some (EShape sh, str ", }" ++ pad)).
  { apply parse_entry_shape. unfold S3. apply parse_usize_sequence_shape; assumption. }
  clearbody S3.
  set (T3 := str "'shape': (" ++ S3) in *.
  assert (Hh3 : exists R, T3 = 39 :: R) by (eexists; reflexivity).
  destruct Hh3 as [R3 E3]. clearbody T3.
  unfold parse_dict. cbn [tag]. rewrite N.eqb_refl.
  change (space0 (str "'descr': '<f8'" ++ ?Y)) with (str "'descr': '<f8'" ++ Y).
  rewrite parse_entry_descr.
  set (fuel := length _).
  assert (Hfuel : (2 <= fuel)%nat) by (unfold fuel; cbn [str list_ascii_of_string map app length]; lia).
  clearbody fuel. destruct fuel as [|[|f]]; try lia.
  cbn [entry_list_rest].
  change (str "'fortran_order': False" ++ ?Y) with (39 :: str "fortran_order': False" ++ Y).
  rewrite ws_sep_comma_space by reflexivity.
  change (39 :: str "fortran_order': False" ++ ?Y) with (str "'fortran_order': False" ++ Y).
  rewrite parse_entry_fortran.
  rewrite E3. rewrite ws_sep_comma_space by reflexivity. rewrite <- E3. rewrite H3.
  assert (Hend : entry_list_rest f (str ", }" ++ pad) = ([], str ", }" ++ pad)).
  { destruct f; [reflexivity|]. cbn [entry_list_rest].
    change (ws_sep 44 (str ", }" ++ pad)) with (Some (125 :: pad)). cbv iota beta. rewrite parse_entry_close. reflexivity. }
  rewrite Hend. reflexivity.
Qed.


Definition pad_len_of (sh : list N) : N := align - (10 + N.of_nat (length (fmt_dict sh))) mod align.

Lemma pad_len_range sh : 1 <= pad_len_of sh <= 64.
Proof.
  unfold pad_len_of, align.
  pose proof (N.mod_lt (10 + N.of_nat (length (fmt_dict sh))) 64 ltac:(lia)) as H.
  set (m := _ mod 64) in *. clearbody m. lia.
Qed.

Lemma write_header_eq sh :
  write_header sh = magic ++ [1; 0] ++ le_bytes 2 (header_len_of sh)
                    ++ fmt_dict sh ++ repeat 32 (N.to_nat (pad_len_of sh) - 1) ++ [10].
Proof.
  unfold write_header, header_len_of, pad_len_of. cbv zeta.
  replace (6 + 2 + 2 + N.of_nat (length (fmt_dict sh))) with (10 + N.of_nat (length (fmt_dict sh))) by lia.
  reflexivity.
Qed.

Lemma header_len_of_eq sh : header_len_of sh = N.of_nat (length (fmt_dict sh)) + pad_len_of sh.
Proof. reflexivity. Qed.

Lemma dict_buf_length sh :
  length (fmt_dict sh ++ repeat 32 (N.to_nat (pad_len_of sh) - 1) ++ [10]) = N.to_nat (header_len_of sh).
Proof.
  rewrite !app_length, repeat_length. cbn [length]. rewrite header_len_of_eq.
  pose proof (pad_len_range sh). lia.
Qed.

Lemma write_header_length sh : N.of_nat (length (write_header sh)) = 10 + header_len_of sh.
Proof.
  rewrite write_header_eq. rewrite app_length, app_length, app_length, le_bytes_length, dict_buf_length.
  cbn [magic length]. lia.
Qed.

Theorem write_header_structure sh :
  exists pad_len, 1 <= pad_len <= 64 /\
  write_header sh = magic ++ [1; 0] ++ le_bytes 2 (N.of_nat (length (fmt_dict sh)) + pad_len)
                    ++ fmt_dict sh ++ repeat 32 (N.to_nat pad_len - 1) ++ [10] /\
  (10 + N.of_nat (length (fmt_dict sh)) + pad_len) mod 64 = 0 /\
  N.of_nat (length (write_header sh)) mod 64 = 0.
Proof.
  exists (pad_len_of sh).
  assert (Hmod : (10 + N.of_nat (length (fmt_dict sh)) + pad_len_of sh) mod 64 = 0).
  { unfold pad_len_of, align. set (len := 10 + N.of_nat (length (fmt_dict sh))).
    pose proof (N.mod_lt len 64 ltac:(lia)) as Hlt.
    pose proof (N.div_mod len 64 ltac:(lia)) as Hdm.
    replace (len + (64 - len mod 64)) with ((1 + len / 64) * 64) by lia.
    apply N.mod_mul. lia. }
  split; [apply pad_len_range|]. split; [|split].
  - rewrite write_header_eq, header_len_of_eq. reflexivity.
  - exact Hmod.
  - rewrite write_header_length, header_len_of_eq, N.add_assoc. exact Hmod.
Qed.

Lemma flat_map_le_bytes_length vals : length (flat_map (le_bytes 8) vals) = (8 * length vals)%nat.
Proof.
  induction vals as [|v vals IH]; [reflexivity|].
  cbn [flat_map]. rewrite app_length, le_bytes_length, IH. cbn [length]. lia.
Qed.

Theorem write_npy_layout sh vals :
  write_npy sh vals = write_header sh ++ flat_map (le_bytes 8) vals /\
  length (write_npy sh vals) = (length (write_header sh) + 8 * length vals)%nat.
Proof.
  split; [reflexivity|]. unfold write_npy. rewrite app_length, flat_map_le_bytes_length. reflexivity.
Qed.

Theorem decode_f8_le w : word_ok 8 w -> decode_value Little F8 (le_bytes 8 w) = w.
Proof. intro H. unfold decode_value. apply le_word_le_bytes; assumption. Qed.

Lemma read_exact_app a b : read_exact (length a) (a ++ b) = Some (a, b).
Proof.
  unfold read_exact. rewrite app_length.
  destruct (Nat.leb_spec (length a) (length a + length b)); [|lia].
  rewrite firstn_app, Nat.sub_diag, firstn_all, firstn_O, app_nil_r.
  rewrite skipn_app, Nat.sub_diag, skipn_all. reflexivity.
Qed.

Lemma read_exact_app' k a b : length a = k -> read_exact k (a ++ b) = Some (a, b).
Proof. intros <-. apply read_exact_app. Qed.

Theorem read_values_f8 vals : Forall (word_ok 8) vals ->
  read_values (S (length (flat_map (le_bytes 8) vals))) Little F8 (flat_map (le_bytes 8) vals) = Some vals.
Proof.
  intro HF.
  assert (G : forall fuel, (length vals < fuel)%nat ->
              read_values fuel Little F8 (flat_map (le_bytes 8) vals) = Some vals).
  { induction HF as [|v vals Hv HF IH]; intros fuel Hfuel.
    - destruct fuel; reflexivity.
    - destruct fuel as [|f]; [lia|]. cbn [flat_map].
      assert (Hne : exists c R, le_bytes 8 v ++ flat_map (le_bytes 8) vals = c :: R) by (do 2 eexists; reflexivity).
      destruct Hne as (c & R & E).
      cbn [read_values]. rewrite E. rewrite <- E. change (type_size F8) with 8%nat.
      rewrite read_exact_app' by apply le_bytes_length.
      rewrite IH by (cbn [length] in Hfuel; lia).
      rewrite decode_f8_le by assumption. reflexivity. }
  apply G. rewrite flat_map_le_bytes_length. lia.
Qed.

Lemma read_values_len fuel : forall inp l, read_values fuel Little F8 inp = Some l -> length inp = (8 * length l)%nat.
Proof.
  induction fuel as [|f IH]; intros inp l H.
  - destruct inp; cbn [read_values] in H; [|discriminate]. injection H as <-. reflexivity.
  - destruct inp as [|c inp']; cbn [read_values] in H; [injection H as <-; reflexivity|].
    change (type_size F8) with 8%nat in H. unfold read_exact in H.
    destruct (Nat.leb_spec 8 (length (c :: inp'))) as [Hle|Hle]; [|discriminate].
    destruct (read_values f Little F8 (skipn 8 (c :: inp'))) as [l'|] eqn:E; [|discriminate].
    injection H as <-. apply IH in E. rewrite skipn_length in E. cbn [length] in *. lia.
Qed.

(* the part of read_npy after the header length field *)
Definition read_body (dict_buf r4 : bytes) : (list N * list N) + rerr :=
  if negb (forallb (fun c => c <? 128) dict_buf) then inr EBadUtf8 else
  match parse_dict dict_buf with
  | None => inr EBadDict
  | Some es =>
    match dict_of_entries es with
    | None => inr EBadDict
    | Some h =>
      if h_fortran h then inr EFortranOrder else
      match read_values (S (length r4)) (h_endian h) (h_type h) r4 with
      | None => inr EShortRead
      | Some vals =>
        if N.of_nat (length vals) =? nelements (h_shape h) then inl (h_shape h, vals)
        else inr EShapeMismatch
      end
    end
  end.

Lemma read_npy_v1 b0 b1 R :
  read_npy (magic ++ [1; 0] ++ [b0; b1] ++ R) =
  match read_exact (N.to_nat (le_word [b0; b1])) R with
  | None => inr EShortRead
  | Some (d, r4) => read_body d r4
  end.
Proof. reflexivity. Qed.

Lemma read_npy_header sh body : shape_ok sh -> header_len_of sh < 65536 ->
  read_npy (write_header sh ++ body) =
  match read_values (S (length body)) Little F8 body with
  | None => inr EShortRead
  | Some vals => if N.of_nat (length vals) =? nelements sh then inl (sh, vals) else inr EShapeMismatch
  end.
Proof.
  intros Hsh Hlen. rewrite write_header_eq.
  assert (Hw : le_word (le_bytes 2 (header_len_of sh)) = header_len_of sh).
  { apply le_word_le_bytes. unfold word_ok. change (256 ^ N.of_nat 2) with 65536. assumption. }
  pose proof (dict_buf_length sh) as HD.
  set (D := fmt_dict sh ++ repeat 32 (N.to_nat (pad_len_of sh) - 1) ++ [10]) in *.
  assert (Hascii : forallb (fun c => c <? 128) D = true).
  { apply forallb_Forall_lt. unfold D. apply Forall_app; split; [apply fmt_dict_ascii|].
    apply Forall_app; split.
    - apply Forall_forall. intros x Hx. apply repeat_spec in Hx. subst x. reflexivity.
    - constructor; [reflexivity|constructor]. }
  assert (Hpd : parse_dict D = Some [EDescr Little F8; EFortran false; EShape sh]).
  { unfold D. apply parse_dict_fmt_dict; assumption. }
  clearbody D.
  change (le_bytes 2 (header_len_of sh)) with [header_len_of sh mod 256; header_len_of sh / 256 mod 256] in *.
  rewrite <- !app_assoc. rewrite read_npy_v1. rewrite Hw.
  rewrite read_exact_app' by assumption.
  unfold read_body. rewrite Hascii, Hpd. reflexivity.
Qed.

Theorem npy_roundtrip sh vals : file_ok sh vals -> read_npy (write_npy sh vals) = inl (sh, vals).
Proof.
  intros (Hsh & Hlen & Hv & Hn). unfold write_npy.
  rewrite read_npy_header by assumption. rewrite read_values_f8 by assumption.
  rewrite Hn, N.eqb_refl. reflexivity.
Qed.

Theorem read_npy_count sh vals inp : read_npy inp = inl (sh, vals) -> N.of_nat (length vals) = nelements sh.
Proof.
  unfold read_npy.
  destruct (read_exact 6 inp) as [[m r1]|]; [|discriminate].
  destruct (negb (bytes_eqb m magic)); [discriminate|].
  destruct (read_exact 2 r1) as [[v r2]|]; [|discriminate].
  cbv zeta.
  destruct (negb _); [discriminate|].
  destruct (read_exact _ r2) as [[lb r3]|]; [|discriminate].
  destruct (read_exact _ r3) as [[d r4]|]; [|discriminate].
  destruct (negb _); [discriminate|].
  destruct (parse_dict d) as [es|]; [|discriminate].
  destruct (dict_of_entries es) as [h|]; [|discriminate].
  destruct (h_fortran h); [discriminate|].
  destruct (read_values _ _ _ r4) as [vs|]; [|discriminate].
  destruct (N.eqb_spec (N.of_nat (length vs)) (nelements (h_shape h))) as [E|E]; [|discriminate].
  intro H. injection H as <- <-. exact E.
Qed.

Lemma read_npy_header_bad sh vals body : file_ok sh vals -> length body <> (8 * length vals)%nat ->
  exists e, read_npy (write_header sh ++ body) = inr e.
Proof.
  intros (Hsh & Hlen & Hv & Hn) Hb. rewrite read_npy_header by assumption.
  destruct (read_values _ Little F8 body) as [l|] eqn:E; [|eexists; reflexivity].
  apply read_values_len in E.
  destruct (N.eqb_spec (N.of_nat (length l)) (nelements sh)) as [E2|E2]; [|eexists; reflexivity].
  exfalso. rewrite <- Hn in E2. apply Nat2N.inj in E2. lia.
Qed.

Theorem npy_prefix_rejected sh vals n : file_ok sh vals -> (n < length (write_npy sh vals))%nat ->
  exists e, read_npy (firstn n (write_npy sh vals)) = inr e.
Proof.
  intros Hok Hn. destruct (write_npy_layout sh vals) as [_ Hlen]. rewrite Hlen in Hn.
  unfold write_npy. rewrite firstn_app.
  destruct (Nat.le_gt_cases (length (write_header sh)) n) as [Hge|Hlt].
  - rewrite firstn_all2 by assumption.
    apply read_npy_header_bad with (vals := vals); [assumption|].
    rewrite firstn_length, flat_map_le_bytes_length. lia.
  - replace (n - length (write_header sh))%nat with O by lia. rewrite firstn_O, app_nil_r.
    destruct Hok as (Hsh & Hl & _).
    assert (Hw : le_word (le_bytes 2 (header_len_of sh)) = header_len_of sh).
    { apply le_word_le_bytes. unfold word_ok. change (256 ^ N.of_nat 2) with 65536. assumption. }
    pose proof (write_header_length sh) as HL.
    rewrite write_header_eq in *.
    pose proof (dict_buf_length sh) as HD.
    set (D := fmt_dict sh ++ repeat 32 (N.to_nat (pad_len_of sh) - 1) ++ [10]) in *. clearbody D.
    change (le_bytes 2 (header_len_of sh)) with [header_len_of sh mod 256; header_len_of sh / 256 mod 256] in *.
    set (b0 := header_len_of sh mod 256) in *. set (b1 := header_len_of sh / 256 mod 256) in *.
    clearbody b0 b1.
    do 10 (destruct n as [|n]; [exists EShortRead; reflexivity|]).
    change (firstn (S (S (S (S (S (S (S (S (S (S n)))))))))) (magic ++ [1; 0] ++ [b0; b1] ++ D))
      with (magic ++ [1; 0] ++ [b0; b1] ++ firstn n D).
    rewrite read_npy_v1. rewrite Hw. unfold read_exact. rewrite firstn_length.
    cbn [magic app length] in Hlt.
    destruct (Nat.leb_spec (N.to_nat (header_len_of sh)) (Nat.min n (length D))); [lia|].
    exists EShortRead; reflexivity.
Qed.

Theorem npy_extension_rejected sh vals ext : file_ok sh vals -> ext <> [] ->
  exists e, read_npy (write_npy sh vals ++ ext) = inr e.
Proof.
  intros Hok Hext. unfold write_npy. rewrite <- app_assoc.
  apply read_npy_header_bad with (vals := vals); [assumption|].
  rewrite app_length, flat_map_le_bytes_length.
  destruct ext; [congruence|]. cbn [length]. lia.
Qed.

(* ---- C16: fortran order ---- *)
(* FALSE: Theorem npy_fortran_rejected inp es h : parse_dict inp = Some es -> dict_of_entries es = Some h ->
     h_fortran h = true ->
     forall pre post, (exists l, read_npy (pre ++ inp ++ post) = inl l) -> False.
   ; counterexample: `pre` is unconstrained, so it can itself be a complete header and `inp ++ post` is then
     read as values: inp = str "{'descr':'<f8','fortran_order':True,'shape':(1,)}" (49 bytes),
     post = [0;0;0;0;0;0;0], pre = write_header [7]: read_npy (pre ++ inp ++ post) = inl ([7], <7 words>).
     Machine-checked below as npy_fortran_rejected_counterexample. The corrected statement
     npy_fortran_rejected_fixed requires `pre` to be magic, a version and a length field equal to length inp,
     i.e. `inp` really is the header dict of the file. *)
Lemma read_npy_any mj mn R :
  read_npy (magic ++ [mj; mn] ++ R) =
  if negb ((mj =? 1) || (mj =? 2) || (mj =? 3)) then inr EBadVersion else
  match read_exact (if mj =? 1 then 2%nat else 4%nat) R with
  | None => inr EShortRead
  | Some (lb, r3) =>
    match read_exact (N.to_nat (le_word lb)) r3 with
    | None => inr EShortRead
    | Some (d, r4) => read_body d r4
    end
  end.
Proof. reflexivity. Qed.

Lemma npy_fortran_rejected_counterexample :
  ~ (forall inp es h, parse_dict inp = Some es -> dict_of_entries es = Some h -> h_fortran h = true ->
     forall pre post, (exists l, read_npy (pre ++ inp ++ post) = inl l) -> False).
Proof.
  intro H.
  apply (H (str "{'descr':'<f8','fortran_order':True,'shape':(1,)}")
           [EDescr Little F8; EFortran true; EShape [1]]
           {| h_endian := Little; h_type := F8; h_fortran := true; h_shape := [1] |})
    with (pre := write_header [7]) (post := [0; 0; 0; 0; 0; 0; 0]).
  - vm_compute. reflexivity.
  - vm_compute. reflexivity.
  - reflexivity.
  - eexists. vm_compute. reflexivity.
Qed.

Theorem npy_fortran_rejected_fixed inp es h :
  parse_dict inp = Some es -> dict_of_entries es = Some h -> h_fortran h = true ->
  forall pre post,
    (exists mj mn lb, pre = magic ++ [mj; mn] ++ lb /\ length lb = (if mj =? 1 then 2%nat else 4%nat) /\
                      le_word lb = N.of_nat (length inp)) ->
    (exists l, read_npy (pre ++ inp ++ post) = inl l) -> False.
Proof.
  intros Hp Hd Hf pre post (mj & mn & lb & -> & Hlb & Hw) [l Hl].
  rewrite <- !app_assoc in Hl. rewrite read_npy_any in Hl.
  destruct (negb _); [discriminate|].
  rewrite read_exact_app' in Hl by assumption.
  rewrite Hw, Nat2N.id, read_exact_app in Hl. unfold read_body in Hl.
  destruct (negb _); [discriminate|].
  rewrite Hp, Hd, Hf in Hl. discriminate.
Qed.


(* ---- C15: integer dtypes are converted exactly below 2^53 ---- *)
Definition f64_value_pos (w : N) : option (N * Z) :=        (* mantissa, exponent : value = m * 2^e, finite w *)
  let e := N.land (N.shiftr w 52) 2047 in
  let m := N.land w 4503599627370495 in
  if e =? 2047 then None else if e =? 0 then Some (m, (-1074)%Z) else Some (m + 4503599627370496, (Z.of_N e - 1075)%Z).
Theorem f64_of_N_exact m : 0 < m -> m <= 2 ^ 53 ->
  exists mm e, f64_value_pos (f64_of_N_bits m) = Some (mm, e) /\ (0 <= e + 1074)%Z /\
  (match e with
   | Zneg k => mm = m * 2 ^ Npos k
   | _ => mm * 2 ^ Z.to_N e = m
   end).
Proof.
  intros Hpos Hle.
  destruct (N.eq_dec m (2 ^ 53)) as [->|Hne].
  { exists (2 ^ 52), 1%Z. split; [vm_compute; reflexivity|]. split; [lia|]. vm_compute; reflexivity. }
  assert (Hlt : m < 2 ^ 53) by lia.
  destruct (N.log2_spec m Hpos) as [Hlo Hhi].
  set (e := N.log2 m) in *.
  assert (He : e <= 52).
  { destruct (N.le_gt_cases e 52) as [|Hgt]; [assumption|]. exfalso.
    assert (2 ^ 53 <= 2 ^ e) by (apply N.pow_le_mono_r; lia). lia. }
  set (M := m * 2 ^ (52 - e)).
  assert (HM1 : 2 ^ 52 <= M).
  { replace (2 ^ 52) with (2 ^ e * 2 ^ (52 - e)) by (rewrite <- N.pow_add_r; f_equal; lia).
    unfold M. apply N.mul_le_mono_r. assumption. }
  assert (HM2 : M < 2 ^ 53).
  { replace (2 ^ 53) with (2 ^ N.succ e * 2 ^ (52 - e)) by (rewrite <- N.pow_add_r; f_equal; lia).
    unfold M. apply N.mul_lt_mono_pos_r; [|assumption]. apply N.neq_0_lt_0, N.pow_nonzero; lia. }
  assert (H53 : 2 ^ 53 = 2 * 2 ^ 52) by reflexivity.
  set (P := 2 ^ 52) in *. assert (HP : P <> 0) by (unfold P; apply N.pow_nonzero; lia).
  assert (Hbits : f64_of_N_bits m = (e + 1023) * P + (M - P)).
  { unfold f64_of_N_bits. fold e. destruct (N.eqb_spec m 0); [lia|].
    destruct (N.leb_spec e 52); [|lia]. rewrite !N.shiftl_mul_pow2. fold M. fold P. rewrite N.mul_1_l. reflexivity. }
  assert (Hsmall : M - P < P) by lia.
  assert (Hexp : N.land (N.shiftr (f64_of_N_bits m) 52) 2047 = e + 1023).
  { change 2047 with (N.ones 11). rewrite N.land_ones, N.shiftr_div_pow2, Hbits. fold P.
    rewrite N.div_add_l by assumption. rewrite (N.div_small (M - P) P) by assumption.
    rewrite N.add_0_r. apply N.mod_small. change (2 ^ 11) with 2048. lia. }
  assert (Hman : N.land (f64_of_N_bits m) 4503599627370495 = M - P).
  { change 4503599627370495 with (N.ones 52). rewrite N.land_ones, Hbits. fold P.
    rewrite N.add_comm, N.mod_add by assumption. apply N.mod_small; assumption. }
  exists M, (Z.of_N e - 52)%Z.
  split; [|split].
  - unfold f64_value_pos. cbv zeta. rewrite Hexp, Hman.
    destruct (N.eqb_spec (e + 1023) 2047); [lia|].
    destruct (N.eqb_spec (e + 1023) 0); [lia|].
    change 4503599627370496 with (2 ^ 52). fold P.
    f_equal. f_equal; lia.
  - lia.
  - destruct (Z.of_N e - 52)%Z eqn:Ez.
    + change (Z.to_N 0) with 0. rewrite N.pow_0_r, N.mul_1_r. unfold M.
      replace (52 - e) with 0 by lia. rewrite N.pow_0_r. lia.
    + lia.
    + unfold M. f_equal. f_equal. lia.
Qed.
