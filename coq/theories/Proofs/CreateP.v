(* Proofs for the create path: C08 (classification), C11 (state-freeness, additivity, order
   freedom), C10 (conservation, strict mode, no partial output). Statements are FIXED; replace every
   Admitted by a proof. If a statement is FALSE as written, do not change it silently: prove the
   others, and report the counterexample. *)
From Sfs Require Import Index ArrayM Scalar Spectrum Project Create IndexP ArrayP BinomP ProjectP CreateL.
From Coq Require Import Lia Permutation.

Close Scope Qc_scope. Close Scope Q_scope. Open Scope nat_scope.

(* ------------------------------------------------------------------ C08: classification *)
Theorem classify_called_iff g n :
  classify g = GCalled n <-> exists a b, g = Some [Some a; Some b] /\ a <= 1 /\ b <= 1 /\ n = a + b.
Proof.
  split.
  - intros H. destruct g as [l|]; [|discriminate].
    destruct l as [|a [|b [|c l]]]; try discriminate; try (destruct a; discriminate).
    destruct a as [a|], b as [b|]; try discriminate.
    cbn [classify] in H.
    destruct (a <=? 1) eqn:Ea; destruct (b <=? 1) eqn:Eb; cbn [andb] in H; try discriminate.
    inversion H; subst. exists a, b. apply Nat.leb_le in Ea, Eb. auto.
  - intros (a & b & -> & Ha & Hb & ->). cbn [classify]. apply Nat.leb_le in Ha, Hb.
    rewrite Ha, Hb. reflexivity.
Qed.

Theorem classify_multiallelic_iff g :
  classify g = GMultiallelic <-> exists a b, g = Some [Some a; Some b] /\ (2 <= a \/ 2 <= b).
Proof.
  split.
  - intros H. destruct g as [l|]; [|discriminate].
    destruct l as [|a [|b [|c l]]]; try discriminate; try (destruct a; discriminate).
    destruct a as [a|], b as [b|]; try discriminate.
    cbn [classify] in H. exists a, b. split; [reflexivity|].
    destruct (a <=? 1) eqn:Ea; destruct (b <=? 1) eqn:Eb; cbn [andb] in H; try discriminate.
    + apply Nat.leb_gt in Eb. right. lia.
    + apply Nat.leb_gt in Ea. left. lia.
    + apply Nat.leb_gt in Ea. left. lia.
  - intros (a & b & -> & Hab). cbn [classify].
    destruct (a <=? 1) eqn:Ea; destruct (b <=? 1) eqn:Eb; cbn [andb]; try reflexivity.
    apply Nat.leb_le in Ea, Eb. lia.
Qed.

Theorem classify_missing_iff g :
  classify g = GMissing <-> g = None \/ g = Some [None] \/ exists a b, g = Some [a; b] /\ (a = None \/ b = None).
Proof.
  split.
  - intros H. destruct g as [l|]; [|now left]. right.
    destruct l as [|a [|b [|c l]]]; try discriminate.
    + destruct a as [a|]; [discriminate|now left].
    + right. exists a, b. split; [reflexivity|].
      destruct a as [a|], b as [b|]; auto.
      cbn [classify] in H. destruct ((a <=? 1) && (b <=? 1)); discriminate.
    + destruct a as [a|]; discriminate.
  - intros [->|[->|(a & b & -> & [->| ->])]]; [reflexivity|reflexivity|reflexivity|].
    destruct a; reflexivity.
Qed.

Theorem classify_ploidy_iff g :
  classify g = GPloidyErr <-> exists l, g = Some l /\ length l <> 2 /\ l <> [None].
Proof.
  split.
  - intros H. destruct g as [l|]; [|discriminate]. exists l. split; [reflexivity|].
    destruct l as [|a [|b [|c l]]]; cbn [length].
    + split; [lia|discriminate].
    + split; [lia|]. destruct a as [a|]; [discriminate|discriminate].
    + exfalso. destruct a as [a|], b as [b|]; try discriminate.
      cbn [classify] in H. destruct ((a <=? 1) && (b <=? 1)); discriminate.
    + split; [lia|discriminate].
  - intros (l & -> & Hl & Hn). destruct l as [|a [|b [|c l]]]; try reflexivity.
    + destruct a as [a|]; [reflexivity|congruence].
    + cbn [length] in Hl. lia.
    + destruct a as [a|]; reflexivity.
Qed.

Theorem classify_called_range g n : classify g = GCalled n -> n <= 2.
Proof. intros H. apply classify_called_iff in H as (a & b & _ & Ha & Hb & ->). lia. Qed.


(* a non-diploid genotype stops the site exactly when its column is selected *)
Lemma site_step_none m st c g :
  site_step m st c g = None <-> smap_get m c <> None /\ g = GPloidyErr.
Proof.
  unfold site_step. destruct (smap_get m c) as [pid|]; [destruct g|]; intuition congruence.
Qed.

Lemma site_steps_none_iff m st cols gs :
  site_steps m st cols gs = None <->
  exists i, i < length cols /\ i < length gs /\ smap_get m (nth i cols []) <> None /\ nth i gs GMissing = GPloidyErr.
Proof.
  revert st gs. induction cols as [|c cols IH]; intros st gs.
  - cbn [site_steps length]. split; [discriminate|]. intros (i & Hi & _). lia.
  - destruct gs as [|g gs].
    + cbn [site_steps length]. split; [discriminate|]. intros (i & _ & Hi & _). lia.
    + cbn [site_steps]. destruct (site_step m st c g) as [st'|] eqn:E.
      * rewrite IH. split.
        -- intros (i & H1 & H2 & H3 & H4). exists (S i). cbn [length nth].
           split; [lia|]. split; [lia|]. split; assumption.
        -- intros (i & H1 & H2 & H3 & H4). destruct i as [|i].
           ++ cbn [nth] in H3, H4.
              assert (site_step m st c g = None) by (apply site_step_none; auto). congruence.
           ++ exists i. cbn [length nth] in *. split; [lia|]. split; [lia|]. split; assumption.
      * apply site_step_none in E as [E1 E2]. split; [|reflexivity]. intros _. exists 0.
        cbn [length nth]. split; [lia|]. split; [lia|]. split; assumption.
Qed.


(* ------------------------------------------------------------------ C11: no state leaks *)
Definition sstate_dims (d : nat) (st : sstate) : Prop := length (s_counts st) = d /\ length (s_totals st) = d.

(* states related when they agree on everything read_site looks at *)
Definition st_rel (pto : option (list nat)) (a b : sstate) : Prop :=
  s_counts a = s_counts b /\ s_totals a = s_totals b /\ (s_skipped a = [] <-> s_skipped b = []) /\
  (pto <> None -> length (s_tobuf a) = length (s_tobuf b)).
Definition ost_rel pto (a b : option sstate) : Prop :=
  match a, b with Some x, Some y => st_rel pto x y | None, None => True | _, _ => False end.

Lemma st_rel_refl pto a : st_rel pto a a.
Proof. unfold st_rel. intuition. Qed.

Lemma site_step_rel m m' pto a b c g g' :
  smap_get m c = smap_get m' c -> (smap_get m c <> None -> g = g') -> st_rel pto a b ->
  ost_rel pto (site_step m a c g) (site_step m' b c g').
Proof.
  intros Hm Hg (Hc & Ht & Hs & Hb). unfold site_step. rewrite <- Hm.
  destruct (smap_get m c) as [pid|].
  - rewrite <- (Hg ltac:(discriminate)).
    destruct g; cbn [ost_rel]; unfold st_rel; cbn [s_counts s_totals s_skipped s_tobuf];
      try exact I; (split; [|split; [|split]]); try congruence; try assumption;
      split; intros HH; apply app_eq_nil in HH as [_ HH]; discriminate.
  - cbn [ost_rel]. unfold st_rel. auto.
Qed.

Lemma site_steps_rel m m' pto cols : forall gs gs' a b,
  length gs = length gs' -> (forall s, smap_get m s = smap_get m' s) ->
  (forall i, smap_get m (nth i cols []) <> None -> nth i gs GMissing = nth i gs' GMissing) ->
  st_rel pto a b -> ost_rel pto (site_steps m a cols gs) (site_steps m' b cols gs').
Proof.
  induction cols as [|c cols IH]; intros gs gs' a b Hl Hm Hg Hr.
  - cbn [site_steps ost_rel]. exact Hr.
  - destruct gs as [|g gs], gs' as [|g' gs']; cbn [length] in Hl; try discriminate.
    + cbn [site_steps ost_rel]. exact Hr.
    + cbn [site_steps].
      pose proof (site_step_rel m m' pto a b c g g' (Hm c) (Hg 0) Hr) as Hstep.
      destruct (site_step m a c g) as [a'|], (site_step m' b c g') as [b'|];
        cbn [ost_rel] in Hstep; try contradiction; [|exact I].
      apply IH; [lia|assumption| |assumption]. intros i. apply (Hg (S i)).
Qed.

Lemma read_site_congr m m' cols cols' pto st st' gs gs' :
  ost_rel pto (site_steps m (reset st) cols gs) (site_steps m' (reset st') cols' gs') ->
  snd (read_site m cols pto st gs) = snd (read_site m' cols' pto st' gs').
Proof.
  unfold read_site. cbv zeta.
  destruct (site_steps m (reset st) cols gs) as [s1|], (site_steps m' (reset st') cols' gs') as [s2|];
    cbn [ost_rel]; intros H; try contradiction; [|reflexivity].
  destruct H as (Hc & Ht & Hs & Hb). destruct pto as [to|].
  - rewrite Hc, Ht. destruct (all2 Nat.eqb (s_totals s2) to); [reflexivity|].
    destruct (all2 (fun total t => t <=? total) (s_totals s2) to); [|reflexivity].
    cbn [snd]. rewrite !cp_map_const_repeat, Hb by discriminate. reflexivity.
  - destruct (s_skipped s1) as [|x l], (s_skipped s2) as [|y l']; cbn [snd]; try (rewrite Hc); try reflexivity.
    + destruct Hs as [Hs _]. specialize (Hs eq_refl). discriminate.
    + destruct Hs as [_ Hs]. specialize (Hs eq_refl). discriminate.
Qed.

Lemma reset_rel pto st st' d :
  length (s_counts st) = d /\ length (s_totals st) = d -> length (s_counts st') = d /\ length (s_totals st') = d ->
  (pto <> None -> length (s_tobuf st) = length (s_tobuf st')) -> st_rel pto (reset st) (reset st').
Proof.
  intros [H1 H2] [H3 H4] Hb. unfold reset, st_rel. cbn [s_counts s_totals s_skipped s_tobuf].
  rewrite !cp_map_const_repeat. split; [congruence|]. split; [congruence|]. split; [tauto|assumption].
Qed.

Lemma read_site_state_free_gen m cols pto st st' gs d :
  length (s_counts st) = d /\ length (s_totals st) = d -> length (s_counts st') = d /\ length (s_totals st') = d ->
  (pto <> None -> length (s_tobuf st) = length (s_tobuf st')) ->
  snd (read_site m cols pto st gs) = snd (read_site m cols pto st' gs).
Proof.
  intros Hd Hd' Hb. apply read_site_congr. apply site_steps_rel; auto.
  eapply reset_rel; eassumption.
Qed.

Theorem read_site_state_free m cols pto st st' gs d :
  sstate_dims d st -> sstate_dims d st' -> length (s_tobuf st) = length (s_tobuf st') ->
  snd (read_site m cols pto st gs) = snd (read_site m cols pto st' gs).
Proof.
  intros Hd Hd' Hb. eapply read_site_state_free_gen; eauto.
Qed.

Lemma site_step_dims m st c g st' : site_step m st c g = Some st' ->
  length (s_counts st') = length (s_counts st) /\ length (s_totals st') = length (s_totals st) /\
  s_tobuf st' = s_tobuf st.
Proof.
  unfold site_step. destruct (smap_get m c); [destruct g|]; intros H; inversion H; subst;
    cbn [s_counts s_totals s_tobuf]; rewrite ?cp_add_nth_length; auto.
Qed.

Lemma site_steps_dims m cols : forall gs st st', site_steps m st cols gs = Some st' ->
  length (s_counts st') = length (s_counts st) /\ length (s_totals st') = length (s_totals st) /\
  s_tobuf st' = s_tobuf st.
Proof.
  induction cols as [|c cols IH]; intros gs st st' H.
  - cbn [site_steps] in H. inversion H; subst. auto.
  - destruct gs as [|g gs]; cbn [site_steps] in H.
    + inversion H; subst. auto.
    + destruct (site_step m st c g) as [st1|] eqn:E; [|discriminate].
      apply site_step_dims in E as (E1 & E2 & E3). apply IH in H as (H1 & H2 & H3).
      split; [congruence|]. split; congruence.
Qed.

Theorem read_site_dims m cols pto st gs d :
  sstate_dims d st -> (forall to, pto = Some to -> length (s_tobuf st) = length to) ->
  sstate_dims d (fst (read_site m cols pto st gs)) /\
  (forall to, pto = Some to -> length (s_tobuf (fst (read_site m cols pto st gs))) = length to).
Proof.
  intros [Hc Ht] Hb. unfold read_site. cbv zeta.
  assert (Hrc : length (s_counts (reset st)) = d) by (unfold reset; cbn [s_counts]; now rewrite map_length).
  assert (Hrt : length (s_totals (reset st)) = d) by (unfold reset; cbn [s_totals]; now rewrite map_length).
  assert (Hrb : s_tobuf (reset st) = s_tobuf st) by reflexivity.
  destruct (site_steps m (reset st) cols gs) as [st1|] eqn:E.
  - apply site_steps_dims in E as (E1 & E2 & E3).
    destruct pto as [to|].
    + destruct (all2 Nat.eqb (s_totals st1) to);
        [|destruct (all2 (fun total t => t <=? total) (s_totals st1) to)];
        unfold sstate_dims; cbn [fst s_counts s_totals s_tobuf];
        (split; [split; congruence|]); intros to' Hto; inversion Hto; subst; try reflexivity;
        rewrite E3, Hrb; apply Hb; reflexivity.
    + destruct (s_skipped st1); unfold sstate_dims; cbn [fst]; (split; [split; congruence|]); intros to' Hto; discriminate.
  - unfold sstate_dims; cbn [fst]. split; [split; assumption|]. intros to' Hto. rewrite Hrb. auto.
Qed.


(* genotypes in unselected columns never matter (value and error status) *)
Theorem read_site_unselected_irrelevant m cols pto st gs gs' :
  length gs = length gs' ->
  (forall i, smap_get m (nth i cols []) <> None -> nth i gs GMissing = nth i gs' GMissing) ->
  snd (read_site m cols pto st gs) = snd (read_site m cols pto st gs').
Proof.
  intros Hl Hg. apply read_site_congr. apply site_steps_rel; auto. apply st_rel_refl.
Qed.


(* the sample map enters only through lookups by name *)
Theorem read_site_map_ext m m' cols pto st gs :
  (forall s, smap_get m s = smap_get m' s) ->
  snd (read_site m cols pto st gs) = snd (read_site m' cols pto st gs).
Proof.
  intros Hm. apply read_site_congr. apply site_steps_rel; auto. apply st_rel_refl.
Qed.


(* ------------------------------------------------------------------ run loop *)
(* configurations produced by the builder *)
Definition cfg_wf (cfg : reader_cfg) : Prop :=
  exists cols samples project, build_reader cols samples project = inl cfg /\ NoDup cols.

Definition qzip_add (a b : list Qc) : list Qc := map (fun p => (fst p + snd p)%Qc) (combine a b).

Lemma cfg_wf_facts cfg : cfg_wf cfg ->
  positive_shape (r_shape cfg) /\ length (r_shape cfg) = number_of_populations (r_map cfg) /\
  NoDup (r_cols cfg) /\
  (forall s pid, smap_get (r_map cfg) s = Some pid -> pid < number_of_populations (r_map cfg)) /\
  match r_pto cfg with
  | Some to => r_shape cfg = map S to /\ (exists from, map_shape (r_map cfg) = Some from /\ Forall2 le (map S to) from)
  | None => map_shape (r_map cfg) = Some (r_shape cfg)
  end.
Proof.
  intros (cols & samples & project & Hb & Hnd). revert Hb.
  unfold build_reader. cbv zeta.
  generalize (match samples with SamplesAll => map_from_all cols | SamplesList l => build_map l end).
  intros m. destruct m as [|e m0]; [intros Hb; discriminate|].
  destruct (map_shape (e :: m0)) as [from|] eqn:Hms; [|intros Hb; discriminate].
  destruct (find _ _); [intros Hb; discriminate|].
  destruct project as [p|].
  - set (to' := project_arg_shape p).
    destruct (negb (length from =? length to')) eqn:Hlen; [intros Hb; discriminate|].
    destruct (first_smaller 0 from to') as [[[d f] t]|] eqn:Hfs; [intros Hb; discriminate|].
    destruct (count_of_shape to') as [pto|] eqn:Hcs; [|intros Hb; discriminate].
    intros Hb. inversion Hb; subst cfg; clear Hb. cbn [r_map r_cols r_pto r_shape].
    apply Bool.negb_false_iff, Nat.eqb_eq in Hlen.
    pose proof (cp_count_of_shape_some _ _ Hcs) as Hto.
    split; [|split; [|split; [|split; [|split]]]].
    + rewrite Hto. apply Forall_forall. intros x Hx. apply in_map_iff in Hx as [y [<- _]]. lia.
    + rewrite <- Hlen. now apply cp_map_shape_length.
    + exact Hnd.
    + apply (proj2 (cp_map_shape_some _ _ Hms)).
    + exact Hto.
    + exists from. split; [exact Hms|]. rewrite <- Hto. eapply cp_first_smaller_none; eassumption.
  - intros Hb. inversion Hb; subst cfg; clear Hb. cbn [r_map r_cols r_pto r_shape].
    split; [|split; [|split; [|split]]].
    + eapply cp_map_shape_positive; eassumption.
    + now apply cp_map_shape_length.
    + exact Hnd.
    + apply (proj2 (cp_map_shape_some _ _ Hms)).
    + exact Hms.
Qed.

(* ------------------------------------------------------------------ run loop: helper lemmas *)
Lemma run_step_cases cfg strict st it :
  match it with
  | IIoErr => run_step cfg strict st it = inr RErrRead
  | IRec r =>
    let rsr := read_site (r_map cfg) (r_cols cfg) (r_pto cfg) (rs st) (map classify (rec_gts r)) in
    match snd rsr with
    | SErrPloidy => run_step cfg strict st it = inr (RErrGenotype (rec_contig r) (rec_pos r))
    | SRead (Standard counts) =>
        run_step cfg strict st it =
        inl {| scs := add1_at (scs st) (flat (r_shape cfg) counts); n_sites := S (n_sites st);
               n_skipped := n_skipped st; rs := fst rsr |}
    | SRead (Projected values) =>
        run_step cfg strict st it =
        inl {| scs := add_projected (scs st) values; n_sites := S (n_sites st);
               n_skipped := n_skipped st; rs := fst rsr |}
    | SRead Insufficient =>
        run_step cfg strict st it =
        if strict then inr (RErrStrict (rec_contig r) (rec_pos r))
        else inl {| scs := scs st; n_sites := S (n_sites st); n_skipped := S (n_skipped st); rs := fst rsr |}
    end
  end.
Proof.
  destruct it as [r|]; [|reflexivity]. cbv zeta. unfold run_step.
  destruct (read_site (r_map cfg) (r_cols cfg) (r_pto cfg) (rs st) (map classify (rec_gts r))) as [ss res].
  cbn [fst snd]. destruct res as [[c|v|]|]; reflexivity.
Qed.

Lemma run_items_app cfg strict i1 : forall st i2,
  run_items cfg strict st (i1 ++ i2) =
  match run_items cfg strict st i1 with inl st' => run_items cfg strict st' i2 | inr e => inr e end.
Proof.
  induction i1 as [|it i1 IH]; intros st i2; cbn [app run_items]; [reflexivity|].
  destruct (run_step cfg strict st it); auto.
Qed.

Definition good (cfg : reader_cfg) (st : rstate) : Prop :=
  length (scs st) = elements (r_shape cfg) /\
  sstate_dims (number_of_populations (r_map cfg)) (rs st) /\
  (forall to, r_pto cfg = Some to -> length (s_tobuf (rs st)) = length to).

Lemma good_init cfg : good cfg (init_rstate cfg).
Proof.
  unfold good, init_rstate, init_sstate, sstate_dims. cbn [scs rs s_counts s_totals s_tobuf].
  rewrite !repeat_length. split; [reflexivity|]. split; [split; reflexivity|].
  intros to H. rewrite H. apply repeat_length.
Qed.

Definition zeros (cfg : reader_cfg) : list Qc := repeat 0%Qc (elements (r_shape cfg)).
Definition rec_res (cfg : reader_cfg) (r : record) : site_result :=
  snd (read_site (r_map cfg) (r_cols cfg) (r_pto cfg) (init_sstate cfg) (map classify (rec_gts r))).
(* the contribution of one item, independent of the state *)
Definition item_delta (cfg : reader_cfg) (strict : bool) (it : item) : (list Qc * nat) + run_err :=
  match it with
  | IIoErr => inr RErrRead
  | IRec r =>
    match rec_res cfg r with
    | SErrPloidy => inr (RErrGenotype (rec_contig r) (rec_pos r))
    | SRead (Standard counts) => inl (add1_at (zeros cfg) (flat (r_shape cfg) counts), 0)
    | SRead (Projected values) => inl (add_projected (zeros cfg) values, 0)
    | SRead Insufficient => if strict then inr (RErrStrict (rec_contig r) (rec_pos r)) else inl (zeros cfg, 1)
    end
  end.

Lemma run_step_delta cfg strict st it : good cfg st ->
  match run_step cfg strict st it, item_delta cfg strict it with
  | inl st', inl (dv, dk) =>
      scs st' = cp_zadd (scs st) dv /\ n_sites st' = S (n_sites st) /\
      n_skipped st' = n_skipped st + dk /\ good cfg st'
  | inr e, inr e' => e = e'
  | _, _ => False
  end.
Proof.
  intros (Hl & Hd & Hb).
  pose proof (run_step_cases cfg strict st it) as Hc.
  destruct it as [r|]; [|rewrite Hc; reflexivity].
  cbv zeta in Hc. unfold item_delta, rec_res.
  assert (Hsf : snd (read_site (r_map cfg) (r_cols cfg) (r_pto cfg) (rs st) (map classify (rec_gts r))) =
                snd (read_site (r_map cfg) (r_cols cfg) (r_pto cfg) (init_sstate cfg) (map classify (rec_gts r)))).
  { eapply read_site_state_free_gen; [exact Hd| |].
    - unfold init_sstate. cbn [s_counts s_totals]. rewrite !repeat_length. split; reflexivity.
    - intros Hne. unfold init_sstate. cbn [s_tobuf].
      destruct (r_pto cfg) as [to|] eqn:E; [|congruence].
      rewrite repeat_length. apply Hb. first [exact E | reflexivity]. }
  pose proof (read_site_dims (r_map cfg) (r_cols cfg) (r_pto cfg) (rs st) (map classify (rec_gts r)) _ Hd Hb) as [Hd' Hb'].
  rewrite <- Hsf.
  destruct (snd (read_site (r_map cfg) (r_cols cfg) (r_pto cfg) (rs st) (map classify (rec_gts r))))
    as [[c|v|]|]; rewrite Hc; cbv beta iota.
  - cbn [scs n_sites n_skipped rs]. split; [|split; [|split]].
    + apply cp_add1_at_zadd. exact Hl.
    + reflexivity.
    + lia.
    + unfold good. cbn [scs rs]. rewrite cp_add1_at_length. auto.
  - cbn [scs n_sites n_skipped rs]. split; [|split; [|split]].
    + apply cp_zip_madd_zadd. exact Hl.
    + reflexivity.
    + lia.
    + unfold good. cbn [scs rs]. unfold add_projected. rewrite cp_zip_madd_length. auto.
  - destruct strict; [reflexivity|].
    cbn [scs n_sites n_skipped rs]. split; [|split; [|split]].
    + symmetry. apply cp_zadd_zeros_r. exact Hl.
    + reflexivity.
    + lia.
    + unfold good. cbn [scs rs]. auto.
  - reflexivity.
Qed.

Fixpoint items_delta (cfg : reader_cfg) (strict : bool) (items : list item) : (list Qc * nat * nat) + run_err :=
  match items with
  | [] => inl (zeros cfg, 0, 0)
  | it :: rest =>
    match item_delta cfg strict it with
    | inr e => inr e
    | inl (dv, dk) =>
      match items_delta cfg strict rest with
      | inr e => inr e
      | inl (v, k, n) => inl (cp_zadd dv v, dk + k, S n)
      end
    end
  end.

Lemma run_items_delta cfg strict items : forall st, good cfg st ->
  match run_items cfg strict st items, items_delta cfg strict items with
  | inl st', inl (v, k, n) =>
      scs st' = cp_zadd (scs st) v /\ n_sites st' = n_sites st + n /\
      n_skipped st' = n_skipped st + k /\ good cfg st'
  | inr e, inr e' => e = e'
  | _, _ => False
  end.
Proof.
  induction items as [|it items IH]; intros st Hg; cbn [run_items items_delta].
  - split; [|split; [|split]]; try lia; [|exact Hg]. symmetry. apply cp_zadd_zeros_r. apply Hg.
  - pose proof (run_step_delta cfg strict st it Hg) as Hs.
    destruct (run_step cfg strict st it) as [st1|e], (item_delta cfg strict it) as [[dv dk]|e'];
      try contradiction; [|exact Hs].
    destruct Hs as (H1 & H2 & H3 & H4). specialize (IH st1 H4).
    destruct (run_items cfg strict st1 items) as [st2|e], (items_delta cfg strict items) as [[[v k] n]|e'];
      try contradiction; [|exact IH].
    destruct IH as (I1 & I2 & I3 & I4). split; [|split; [|split]]; try lia; [|exact I4].
    rewrite I1, H1, cp_zadd_assoc. reflexivity.
Qed.

Lemma run_items_good cfg strict items st st' :
  good cfg st -> run_items cfg strict st items = inl st' -> good cfg st'.
Proof.
  intros Hg H. pose proof (run_items_delta cfg strict items st Hg) as Hd. rewrite H in Hd.
  destruct (items_delta cfg strict items) as [[[v k] n]|]; [|contradiction]. apply Hd.
Qed.

Lemma items_delta_perm cfg strict l l' : Permutation l l' ->
  forall x, items_delta cfg strict l = inl x -> items_delta cfg strict l' = inl x.
Proof.
  induction 1 as [|it l l' HP IH|a b l|l l' l'' _ IH1 _ IH2]; intros x Hx.
  - exact Hx.
  - cbn [items_delta] in *. destruct (item_delta cfg strict it) as [[dv dk]|]; [|discriminate].
    destruct (items_delta cfg strict l) as [[[v k] n]|] eqn:E; [|discriminate].
    rewrite (IH _ eq_refl). exact Hx.
  - cbn [items_delta] in *.
    destruct (item_delta cfg strict a) as [[da ka]|]; destruct (item_delta cfg strict b) as [[db kb]|];
      try discriminate; destruct (items_delta cfg strict l) as [[[v k] n]|]; try discriminate.
    rewrite <- Hx, (cp_zadd_swap da db v).
    replace (ka + (kb + k)) with (kb + (ka + k)) by lia. reflexivity.
  - apply IH2, IH1, Hx.
Qed.


(* running from any reachable state = running from the initial state, plus the spectrum so far *)
Theorem run_items_shift cfg strict st0 items :
  cfg_wf cfg -> length (scs st0) = elements (r_shape cfg) ->
  sstate_dims (number_of_populations (r_map cfg)) (rs st0) ->
  (forall to, r_pto cfg = Some to -> length (s_tobuf (rs st0)) = length to) ->
  match run_items cfg strict st0 items, run_items cfg strict (init_rstate cfg) items with
  | inl st, inl st' => scs st = qzip_add (scs st0) (scs st') /\ n_sites st = n_sites st0 + n_sites st' /\
                       n_skipped st = n_skipped st0 + n_skipped st'
  | inr e, inr e' => e = e'
  | _, _ => False
  end.
Proof.
  intros _ Hl Hd Hb.
  assert (Hg0 : good cfg st0) by (split; [|split]; assumption).
  pose proof (run_items_delta cfg strict items st0 Hg0) as H0.
  pose proof (run_items_delta cfg strict items _ (good_init cfg)) as H1.
  destruct (run_items cfg strict st0 items) as [s|e],
           (run_items cfg strict (init_rstate cfg) items) as [s'|e'],
           (items_delta cfg strict items) as [[[v k] n]|e'']; try contradiction.
  - destruct H0 as (A1 & A2 & A3 & _), H1 as (B1 & B2 & B3 & _).
    change (scs (init_rstate cfg)) with (repeat 0%Qc (elements (r_shape cfg))) in B1.
    change (n_sites (init_rstate cfg)) with 0 in B2. change (n_skipped (init_rstate cfg)) with 0 in B3.
    split; [|split; lia].
    change (qzip_add (scs st0) (scs s')) with (cp_zadd (scs st0) (scs s')).
    rewrite A1, B1, cp_zadd_assoc, (cp_zadd_zeros_r (scs st0)) by exact Hl. reflexivity.
  - congruence.
Qed.


(* C11: concatenation = element-wise sum *)
Theorem create_app cfg strict i1 i2 st1 st2 :
  cfg_wf cfg ->
  run_items cfg strict (init_rstate cfg) i1 = inl st1 ->
  run_items cfg strict (init_rstate cfg) i2 = inl st2 ->
  exists st, run_items cfg strict (init_rstate cfg) (i1 ++ i2) = inl st /\
             scs st = qzip_add (scs st1) (scs st2) /\
             n_sites st = n_sites st1 + n_sites st2 /\ n_skipped st = n_skipped st1 + n_skipped st2.
Proof.
  intros Hwf H1 H2. rewrite run_items_app, H1.
  pose proof (run_items_good cfg strict i1 _ _ (good_init cfg) H1) as (G1 & G2 & G3).
  pose proof (run_items_shift cfg strict st1 i2 Hwf G1 G2 G3) as Hs. rewrite H2 in Hs.
  destruct (run_items cfg strict st1 i2) as [s|e]; [|contradiction].
  exists s. split; [reflexivity|exact Hs].
Qed.

Theorem create_app_err cfg strict i1 i2 e :
  cfg_wf cfg ->
  (run_items cfg strict (init_rstate cfg) i1 = inr e \/
   (exists st1, run_items cfg strict (init_rstate cfg) i1 = inl st1) /\ run_items cfg strict (init_rstate cfg) i2 = inr e) ->
  run_items cfg strict (init_rstate cfg) (i1 ++ i2) = inr e.
Proof.
  intros Hwf [H|[[st1 H1] H2]]; rewrite run_items_app.
  - rewrite H. reflexivity.
  - rewrite H1.
    pose proof (run_items_good cfg strict i1 _ _ (good_init cfg) H1) as (G1 & G2 & G3).
    pose proof (run_items_shift cfg strict st1 i2 Hwf G1 G2 G3) as Hs. rewrite H2 in Hs.
    destruct (run_items cfg strict st1 i2) as [s|e']; [contradiction|congruence].
Qed.


(* C11: any permutation of the records gives the same spectrum (exact arithmetic) *)
Theorem create_perm cfg strict items items' st :
  cfg_wf cfg -> Permutation items items' ->
  run_items cfg strict (init_rstate cfg) items = inl st ->
  exists st', run_items cfg strict (init_rstate cfg) items' = inl st' /\
              scs st' = scs st /\ n_sites st' = n_sites st /\ n_skipped st' = n_skipped st.
Proof.
  intros Hwf HP H.
  pose proof (run_items_delta cfg strict items _ (good_init cfg)) as H0. rewrite H in H0.
  destruct (items_delta cfg strict items) as [[[v k] n]|] eqn:E; [|contradiction].
  pose proof (items_delta_perm cfg strict _ _ HP _ E) as E'.
  pose proof (run_items_delta cfg strict items' _ (good_init cfg)) as H1. rewrite E' in H1.
  destruct (run_items cfg strict (init_rstate cfg) items') as [st'|]; [|contradiction].
  exists st'. split; [reflexivity|].
  destruct H0 as (A1 & A2 & A3 & _), H1 as (B1 & B2 & B3 & _).
  split; [congruence|]. split; congruence.
Qed.


(* C10: total mass + skipped = records read; each counted record has weight exactly one *)
(* genotypes produced by classify *)
Definition okg (g : gres) : Prop := forall a, g = GCalled a -> a <= 2.
Lemma okg_classify gts : Forall okg (map classify gts).
Proof.
  apply Forall_forall. intros g Hg. apply in_map_iff in Hg as [x [<- _]].
  intros a Ha. eapply classify_called_range; eassumption.
Qed.

Lemma site_step_bound m d st c g st' :
  okg g -> length (s_counts st) = d -> length (s_totals st) = d ->
  site_step m st c g = Some st' ->
  (forall j, nth j (s_counts st) 0 <= nth j (s_totals st) 0) ->
  (forall j, nth j (s_counts st') 0 <= nth j (s_totals st') 0) /\
  (forall j, nth j (s_totals st') 0 <= nth j (s_totals st) 0 +
             2 * (match smap_get m c with Some p => if p =? j then 1 else 0 | None => 0 end)).
Proof.
  intros Hg Hc Ht H Hle. unfold site_step in H.
  destruct (smap_get m c) as [pid|].
  - destruct g as [a| | |]; inversion H; subst st'; cbn [s_counts s_totals].
    + specialize (Hg a eq_refl). split; intros j; rewrite !cp_nth_add_nth, ?Hc, ?Ht.
      * destruct ((j =? pid) && (pid <? d)) eqn:E; [|apply Hle].
        apply andb_prop in E as [E1 _]. apply Nat.eqb_eq in E1. subst. specialize (Hle pid). lia.
      * destruct (Nat.eq_dec j pid) as [->|Hne].
        -- rewrite Nat.eqb_refl. destruct (pid <? d); cbn [andb]; lia.
        -- assert (E1 : (j =? pid) = false) by now apply Nat.eqb_neq.
           assert (E2 : (pid =? j) = false) by (apply Nat.eqb_neq; lia).
           rewrite E1, E2. cbn [andb]. lia.
    + split; intros j; [apply Hle|lia].
    + split; intros j; [apply Hle|lia].
  - inversion H; subst. split; intros j; [apply Hle|lia].
Qed.

Lemma site_steps_bound m d : forall cols gs st st1,
  Forall okg gs -> length (s_counts st) = d -> length (s_totals st) = d ->
  site_steps m st cols gs = Some st1 ->
  (forall j, nth j (s_counts st) 0 <= nth j (s_totals st) 0) ->
  (forall j, nth j (s_counts st1) 0 <= nth j (s_totals st1) 0) /\
  (forall j, nth j (s_totals st1) 0 <= nth j (s_totals st) 0 + 2 * cp_cnt m j cols).
Proof.
  induction cols as [|c cols IH]; intros gs st st1 Hg Hc Ht H Hle.
  - cbn [site_steps] in H. inversion H; subst. split; intros j; [apply Hle|lia].
  - destruct gs as [|g gs]; cbn [site_steps] in H.
    + inversion H; subst. split; intros j; [apply Hle|lia].
    + apply Forall_cons_iff in Hg as [Hg1 Hg2].
      destruct (site_step m st c g) as [st'|] eqn:E; [|discriminate].
      pose proof (site_step_dims _ _ _ _ _ E) as (D1 & D2 & _).
      destruct (site_step_bound m d st c g st' Hg1 Hc Ht E Hle) as [B1 B2].
      destruct (IH gs st' st1 Hg2 ltac:(congruence) ltac:(congruence) H B1) as [C1 C2].
      split; [exact C1|]. intros j. specialize (B2 j). specialize (C2 j). cbn [cp_cnt]. lia.
Qed.

Lemma cp_nth_zeros {A} (l : list A) : forall j, nth j (map (fun _ => 0) l) 0 = 0.
Proof. induction l as [|x l IH]; intros [|j]; cbn [map nth]; auto. Qed.

Lemma cp_nth_map_S l j : j < length l -> nth j (map S l) 0 = S (nth j l 0).
Proof.
  intros Hj. rewrite (nth_indep _ 0 (S 0)) by (now rewrite map_length). apply map_nth.
Qed.

(* what a well-formed reader can return: in-bounds counts, or weights summing to one *)
Lemma read_site_wf cfg st gs :
  cfg_wf cfg -> sstate_dims (number_of_populations (r_map cfg)) st ->
  (forall to, r_pto cfg = Some to -> length (s_tobuf st) = length to) ->
  Forall okg gs ->
  match snd (read_site (r_map cfg) (r_cols cfg) (r_pto cfg) st gs) with
  | SRead (Standard counts) => flat (r_shape cfg) counts < elements (r_shape cfg)
  | SRead (Projected values) => length values = elements (r_shape cfg) /\ qsum values = 1%Qc
  | _ => True
  end.
Proof.
  intros Hwf [Hc Ht] Hb Hg.
  destruct (cfg_wf_facts cfg Hwf) as (Hpos & Hlen & Hnd & Hpid & Hpto).
  unfold read_site. cbv zeta.
  set (d := number_of_populations (r_map cfg)) in *.
  assert (Hrc : length (s_counts (reset st)) = d) by (unfold reset; cbn [s_counts]; now rewrite map_length).
  assert (Hrt : length (s_totals (reset st)) = d) by (unfold reset; cbn [s_totals]; now rewrite map_length).
  assert (Hz : forall j, nth j (s_counts (reset st)) 0 <= nth j (s_totals (reset st)) 0).
  { intros j. unfold reset. cbn [s_counts s_totals]. rewrite !cp_nth_zeros. lia. }
  assert (Hzt : forall j, nth j (s_totals (reset st)) 0 = 0).
  { intros j. unfold reset. cbn [s_totals]. apply cp_nth_zeros. }
  destruct (site_steps (r_map cfg) (reset st) (r_cols cfg) gs) as [st1|] eqn:E; [|exact I].
  pose proof (site_steps_dims _ _ _ _ _ E) as (D1 & D2 & D3).
  destruct (site_steps_bound _ d _ _ _ _ Hg Hrc Hrt E Hz) as [B1 B2].
  revert Hb Hpto. destruct (r_pto cfg) as [to|]; intros Hb Hpto.
  - destruct Hpto as (Hsh & from & Hfrom & HF2).
    assert (Hlto : length to = d) by (rewrite <- Hlen, Hsh, map_length; reflexivity).
    destruct (all2 Nat.eqb (s_totals st1) to) eqn:A1.
    + cbn [snd]. apply cp_all2_eqb in A1; [|congruence].
      apply flat_lt. apply cp_inb_nth; [congruence|].
      intros j Hj. rewrite Hsh. rewrite cp_nth_map_S by lia. specialize (B1 j). rewrite A1 in B1. lia.
    + destruct (all2 (fun total t => t <=? total) (s_totals st1) to) eqn:A2; cbn [snd]; [|exact I].
      apply cp_all2_le in A2; [|congruence].
      rewrite cp_map_const_repeat, cp_rev_repeat, D3.
      change (s_tobuf (reset st)) with (s_tobuf st). rewrite (Hb to eq_refl).
      rewrite proj_iter_spec. split.
      * rewrite map_length, indices_length, Hsh. reflexivity.
      * apply project_value_sum_one; try congruence; try exact A2.
        apply cp_nth_le_Forall2; [congruence|exact B1].
  - destruct (s_skipped st1); cbn [snd]; [|exact I].
    apply flat_lt. apply cp_inb_nth; [congruence|].
    intros j Hj. rewrite (cp_map_shape_nth _ _ j Hpto) by (fold d; lia).
    specialize (B1 j). specialize (B2 j). rewrite Hzt in B2.
    pose proof (cp_cnt_le (r_map cfg) j (r_cols cfg) Hnd). lia.
Qed.

Lemma run_step_mass cfg strict st it st' :
  cfg_wf cfg -> good cfg st -> run_step cfg strict st it = inl st' ->
  good cfg st' /\ n_sites st' = S (n_sites st) /\
  (qsum (scs st') + qnat (n_skipped st') = qsum (scs st) + qnat (n_skipped st) + 1)%Qc.
Proof.
  intros Hwf Hg H.
  pose proof (run_step_delta cfg strict st it Hg) as Hd. rewrite H in Hd.
  destruct (item_delta cfg strict it) as [[dv dk]|]; [|contradiction].
  destruct Hd as (_ & Hn & _ & Hg'). split; [exact Hg'|]. split; [exact Hn|].
  destruct Hg as (Hl & Hdim & Hb).
  pose proof (run_step_cases cfg strict st it) as Hc.
  destruct it as [r|]; [|congruence]. cbv zeta in Hc.
  pose proof (read_site_wf cfg (rs st) (map classify (rec_gts r)) Hwf Hdim Hb (okg_classify _)) as Hw.
  destruct (snd (read_site (r_map cfg) (r_cols cfg) (r_pto cfg) (rs st) (map classify (rec_gts r))))
    as [[c|v|]|]; rewrite Hc in H.
  - inversion H; subst st'. cbn [scs n_skipped].
    rewrite cp_qsum_add1_at by (rewrite Hl; exact Hw). ring.
  - inversion H; subst st'. cbn [scs n_skipped]. destruct Hw as [Hlv Hs].
    unfold add_projected. rewrite cp_qsum_zip_madd by (rewrite Hlv, Hl; lia). rewrite Hs. ring.
  - destruct strict; [discriminate|]. inversion H; subst st'. cbn [scs n_skipped].
    rewrite cp_qnat_S. ring.
  - discriminate.
Qed.

Lemma run_items_mass cfg strict items : cfg_wf cfg -> forall st st',
  good cfg st -> run_items cfg strict st items = inl st' ->
  good cfg st' /\ n_sites st' = n_sites st + length items /\
  (qsum (scs st') + qnat (n_skipped st') = qsum (scs st) + qnat (n_skipped st) + qnat (length items))%Qc.
Proof.
  intros Hwf. induction items as [|it items IH]; intros st st' Hg H; cbn [run_items length] in *.
  - inversion H; subst. split; [exact Hg|]. split; [lia|]. rewrite cp_qnat_0. ring.
  - destruct (run_step cfg strict st it) as [st1|e] eqn:E; [|discriminate].
    destruct (run_step_mass cfg strict st it st1 Hwf Hg E) as (G1 & N1 & M1).
    destruct (IH st1 st' G1 H) as (G2 & N2 & M2).
    split; [exact G2|]. split; [lia|]. rewrite M2, M1, cp_qnat_S. ring.
Qed.

Theorem run_conservation cfg strict items st :
  cfg_wf cfg -> run_items cfg strict (init_rstate cfg) items = inl st ->
  (qsum (scs st) + qnat (n_skipped st))%Qc = qnat (n_sites st) /\ n_sites st = length items /\
  length (scs st) = elements (r_shape cfg).
Proof.
  intros Hwf H.
  destruct (run_items_mass cfg strict items Hwf _ _ (good_init cfg) H) as (Hg & Hn & Hm).
  change (n_sites (init_rstate cfg)) with 0 in Hn.
  change (n_skipped (init_rstate cfg)) with 0 in Hm.
  change (scs (init_rstate cfg)) with (repeat 0%Qc (elements (r_shape cfg))) in Hm.
  rewrite cp_qsum_repeat0, cp_qnat_0 in Hm. cbn [Nat.add] in Hn.
  split; [|split; [exact Hn|apply Hg]].
  rewrite Hm, Hn. ring.
Qed.


(* C10: strict mode *)
Lemma run_step_strict_ok cfg st it st' :
  run_step cfg true st it = inl st' -> run_step cfg false st it = inl st' /\ n_skipped st' = n_skipped st.
Proof.
  intros H. pose proof (run_step_cases cfg true st it) as Ht.
  pose proof (run_step_cases cfg false st it) as Hf.
  destruct it as [r|]; [|congruence]. cbv zeta in Ht, Hf.
  destruct (snd (read_site (r_map cfg) (r_cols cfg) (r_pto cfg) (rs st) (map classify (rec_gts r))))
    as [[c|v|]|]; rewrite Ht in H; try discriminate; rewrite Hf; inversion H; subst; auto.
Qed.

Lemma run_items_strict_ok cfg items : forall st st',
  run_items cfg true st items = inl st' ->
  run_items cfg false st items = inl st' /\ n_skipped st' = n_skipped st.
Proof.
  induction items as [|it items IH]; intros st st' H; cbn [run_items] in *.
  - inversion H; subst. auto.
  - destruct (run_step cfg true st it) as [st1|e] eqn:E; [|discriminate].
    apply run_step_strict_ok in E as [E1 E2]. rewrite E1. apply IH in H as [H1 H2].
    split; [assumption|congruence].
Qed.

Lemma run_step_skipped_mono cfg strict st it st' :
  run_step cfg strict st it = inl st' -> n_skipped st <= n_skipped st'.
Proof.
  intros H. pose proof (run_step_cases cfg strict st it) as Hc.
  destruct it as [r|]; [|congruence]. cbv zeta in Hc.
  destruct (snd (read_site (r_map cfg) (r_cols cfg) (r_pto cfg) (rs st) (map classify (rec_gts r))))
    as [[c|v|]|]; rewrite Hc in H; try discriminate; try (inversion H; subst; cbn [n_skipped]; lia).
  destruct strict; [discriminate|]. inversion H; subst; cbn [n_skipped]; lia.
Qed.

Lemma run_items_skipped_mono cfg strict items : forall st st',
  run_items cfg strict st items = inl st' -> n_skipped st <= n_skipped st'.
Proof.
  induction items as [|it items IH]; intros st st' H; cbn [run_items] in *.
  - inversion H; subst. lia.
  - destruct (run_step cfg strict st it) as [st1|e] eqn:E; [|discriminate].
    apply run_step_skipped_mono in E. apply IH in H. lia.
Qed.

Lemma run_step_nonstrict_noskip cfg st it st' :
  run_step cfg false st it = inl st' -> n_skipped st' = n_skipped st -> run_step cfg true st it = inl st'.
Proof.
  intros H Hs. pose proof (run_step_cases cfg true st it) as Ht.
  pose proof (run_step_cases cfg false st it) as Hf.
  destruct it as [r|]; [|congruence]. cbv zeta in Ht, Hf.
  destruct (snd (read_site (r_map cfg) (r_cols cfg) (r_pto cfg) (rs st) (map classify (rec_gts r))))
    as [[c|v|]|]; rewrite Hf in H; try discriminate; rewrite Ht; try exact H.
  inversion H; subst. cbn [n_skipped] in Hs. lia.
Qed.

Lemma run_items_nonstrict_noskip cfg items : forall st st',
  run_items cfg false st items = inl st' -> n_skipped st' = n_skipped st ->
  run_items cfg true st items = inl st'.
Proof.
  induction items as [|it items IH]; intros st st' H Hs; cbn [run_items] in *; [exact H|].
  destruct (run_step cfg false st it) as [st1|e] eqn:E; [|discriminate].
  pose proof (run_step_skipped_mono _ _ _ _ _ E) as M1.
  pose proof (run_items_skipped_mono _ _ _ _ _ H) as M2.
  rewrite (run_step_nonstrict_noskip _ _ _ _ E) by lia. apply IH; [exact H|lia].
Qed.

Lemma strict_first_gen cfg items : forall st0 c p,
  run_items cfg true st0 items = inr (RErrStrict c p) ->
  exists pre r post st,
    items = pre ++ IRec r :: post /\ c = rec_contig r /\ p = rec_pos r /\
    run_items cfg true st0 pre = inl st /\ n_skipped st = n_skipped st0 /\
    snd (read_site (r_map cfg) (r_cols cfg) (r_pto cfg) (rs st) (map classify (rec_gts r))) = SRead Insufficient.
Proof.
  induction items as [|it items IH]; intros st0 c p H; cbn [run_items] in H; [discriminate|].
  destruct (run_step cfg true st0 it) as [st1|e] eqn:E.
  - destruct (IH st1 c p H) as (pre & r & post & st & H1 & H2 & H3 & H4 & H5 & H6).
    exists (it :: pre), r, post, st. cbn [app run_items]. rewrite E.
    apply run_step_strict_ok in E as [_ E].
    split; [congruence|]. split; [assumption|]. split; [assumption|]. split; [assumption|].
    split; [congruence|assumption].
  - inversion H; subst e. clear H.
    pose proof (run_step_cases cfg true st0 it) as Hc.
    destruct it as [r|]; [|congruence]. cbv zeta in Hc.
    exists [], r, items, st0. cbn [app run_items].
    destruct (snd (read_site (r_map cfg) (r_cols cfg) (r_pto cfg) (rs st0) (map classify (rec_gts r))))
      as [[c'|v|]|]; rewrite Hc in E; try discriminate.
    inversion E; subst. auto 10.
Qed.

Theorem strict_ok_same cfg items st :
  run_items cfg true (init_rstate cfg) items = inl st ->
  run_items cfg false (init_rstate cfg) items = inl st /\ n_skipped st = 0.
Proof.
  intros H. apply run_items_strict_ok in H as [H1 H2]. split; [exact H1|exact H2].
Qed.

Theorem nonstrict_noskip_same cfg items st :
  run_items cfg false (init_rstate cfg) items = inl st -> n_skipped st = 0 ->
  run_items cfg true (init_rstate cfg) items = inl st.
Proof. intros H Hs. apply run_items_nonstrict_noskip; [exact H|exact Hs]. Qed.

Theorem strict_first cfg items c p :
  run_items cfg true (init_rstate cfg) items = inr (RErrStrict c p) ->
  exists pre r post st,
    items = pre ++ IRec r :: post /\ c = rec_contig r /\ p = rec_pos r /\
    run_items cfg true (init_rstate cfg) pre = inl st /\ n_skipped st = 0 /\
    snd (read_site (r_map cfg) (r_cols cfg) (r_pto cfg) (rs st) (map classify (rec_gts r))) = SRead Insufficient.
Proof. intros H. apply strict_first_gen in H. exact H. Qed.


(* C10 / C08: any failing run has no spectrum; a selected non-diploid genotype fails the run at
   that record, naming its contig and position *)
Theorem no_partial_output cfg strict items :
  out_error (create_run cfg strict items) <> None <-> out_spectrum (create_run cfg strict items) = None.
Proof.
  unfold create_run. destruct (run_items cfg strict (init_rstate cfg) items); cbn [out_error out_spectrum];
    split; intros H; congruence.
Qed.

Theorem summary_iff_skipped cfg strict items st :
  run_items cfg strict (init_rstate cfg) items = inl st ->
  out_summary (create_run cfg strict items) = if n_skipped st =? 0 then None else Some (n_skipped st, n_sites st).
Proof. intros H. unfold create_run. rewrite H. reflexivity. Qed.

Theorem ploidy_aborts_run cfg strict pre r post st :
  run_items cfg strict (init_rstate cfg) pre = inl st ->
  (exists i, i < length (r_cols cfg) /\ i < length (rec_gts r) /\
             smap_get (r_map cfg) (nth i (r_cols cfg) []) <> None /\
             classify (nth i (rec_gts r) None) = GPloidyErr) ->
  create_run cfg strict (pre ++ IRec r :: post) =
    {| out_spectrum := None; out_summary := None; out_error := Some (RErrGenotype (rec_contig r) (rec_pos r)) |}.
Proof.
  intros H (i & Hi1 & Hi2 & Hi3 & Hi4). unfold create_run. rewrite run_items_app, H. cbn [run_items].
  pose proof (run_step_cases cfg strict st (IRec r)) as Hc. cbv beta iota zeta in Hc.
  assert (Hp : snd (read_site (r_map cfg) (r_cols cfg) (r_pto cfg) (rs st) (map classify (rec_gts r))) = SErrPloidy).
  { unfold read_site. cbv zeta.
    assert (Hn : site_steps (r_map cfg) (reset (rs st)) (r_cols cfg) (map classify (rec_gts r)) = None).
    { apply site_steps_none_iff. exists i. rewrite map_length.
      split; [assumption|]. split; [assumption|]. split; [assumption|].
      change GMissing with (classify None). rewrite map_nth. exact Hi4. }
    rewrite Hn. reflexivity. }
  rewrite Hp in Hc. rewrite Hc. reflexivity.
Qed.

Theorem ioerr_aborts_run cfg strict pre post st :
  run_items cfg strict (init_rstate cfg) pre = inl st ->
  create_run cfg strict (pre ++ IIoErr :: post) = {| out_spectrum := None; out_summary := None; out_error := Some RErrRead |}.
Proof.
  intros H. unfold create_run. rewrite run_items_app, H. reflexivity.
Qed.

