(* Bridge between the model's multiplicative binomial [binomN] and mathcomp's 'C(n, k), and the
   nat-level binomial identities (Pascal, Vandermonde, subset-of-a-subset composition) restated in
   plain standard-library terms (Nat.add, le, List.seq, List.map, fold_right) for use by BinomP.v. *)
From Sfs Require Import Project.
From Coq Require Import Lia List NArith.
From mathcomp Require Import all_ssreflect zify.

Set Implicit Arguments.
Unset Strict Implicit.
Unset Printing Implicit Defensive.

Definition binom (n k : nat) : nat := 'C(n, k).
Definition natsum (l : list nat) : nat := List.fold_right Nat.add 0 l.

(* ---- the model's fold computes 'C ---- *)
Lemma fold_binom d j :
  List.fold_left (fun c i => N.div (N.mul c (N.of_nat (Nat.add d i))) (N.of_nat i)) (List.seq 1 j) 1%num
  = N.of_nat 'C(d + j, j).
Proof.
elim: j => [|j IH]; first by rewrite /= bin0.
rewrite seq_S fold_left_app IH.
cbn [List.fold_left Nat.add].
have H := mul_bin_diag (d + j).+1 j; rewrite /= in H.
rewrite -Nat2N.inj_mul.
have -> : Nat.mul 'C(d + j, j) (Nat.add d (S j)) = Nat.mul 'C(d + j.+1, j.+1) (S j).
  rewrite addnS; move: H; rewrite /muln /muln_rec /addn /addn_rec; lia.
by rewrite Nat2N.inj_mul N.div_mul.
Qed.

Lemma binomN_binom n k : binomN n k = N.of_nat (binom n k).
Proof.
rewrite /binomN /binom; case: Nat.ltb_spec => Hnk.
- by rewrite bin_small //; lia.
- rewrite (fold_binom (Nat.sub n k) k); congr (N.of_nat 'C(_, _)); lia.
Qed.

(* ---- elementary facts, stdlib phrasing ---- *)
Lemma binom_0_r n : binom n 0 = 1.
Proof. exact: bin0. Qed.

Lemma binom_small n k : lt n k -> binom n k = 0.
Proof. by move=> H; apply: bin_small; lia. Qed.

Lemma binom_pascal n k : binom (S n) (S k) = Nat.add (binom n k) (binom n (S k)).
Proof. by rewrite /binom binS; lia. Qed.

Lemma binom_diag n : binom n n = 1.
Proof. exact: binn. Qed.

Lemma binom_pos n k : le k n -> lt 0 (binom n k).
Proof.
move=> H; have: 0 < 'C(n, k) by rewrite bin_gt0; lia.
by rewrite /binom; lia.
Qed.

Lemma binom_sym n k : le k n -> binom n (Nat.sub n k) = binom n k.
Proof. by move=> H; apply: bin_sub; lia. Qed.

Lemma binom_absorb n k : Nat.mul (S k) (binom (S n) (S k)) = Nat.mul (S n) (binom n k).
Proof. by have := mul_bin_diag n.+1 k; rewrite /binom /=; lia. Qed.

(* ---- bigop <-> list sums ---- *)
Lemma seq_iota m n : List.seq m n = iota m n.
Proof. by elim: n m => [|n IH] m //=; rewrite IH. Qed.

Lemma natsum_big (F : nat -> nat) n :
  natsum (List.map F (List.seq 0 n)) = \sum_(0 <= j < n) F j.
Proof.
rewrite /index_iota subn0 seq_iota /natsum.
elim: (iota 0 n) => [|x s IH]; first by rewrite big_nil.
by rewrite big_cons /= IH.
Qed.

Lemma binom_vandermonde K M n :
  binom (Nat.add K M) n
  = natsum (List.map (fun k => Nat.mul (binom K k) (binom M (Nat.sub n k))) (List.seq 0 (S n))).
Proof. rewrite natsum_big big_mkord; symmetry; exact: (Vandermonde K M n). Qed.

(* ---- subset of a subset ---- *)
Lemma bin_tri n m p : p <= m -> 'C(n, m) * 'C(m, p) = 'C(n, p) * 'C(n - p, m - p).
Proof.
move=> lepm; case: (leqP m n) => lemn; last first.
  rewrite bin_small // mul0n; case: (leqP p n) => lepn.
    by rewrite [X in _ * X]bin_small ?muln0 //; lia.
  by rewrite bin_small.
have lepn := leq_trans lepm lemn.
have lemp : m - p <= n - p by lia.
have H1 := bin_fact lemn; have H2 := bin_fact lepm; have H3 := bin_fact lepn.
have H4 := bin_fact lemp.
have E : n - p - (m - p) = n - m by lia.
rewrite E in H4.
apply/eqP; rewrite -(eqn_pmul2r (fact_gt0 p)) -(eqn_pmul2r (fact_gt0 (m - p))).
rewrite -(eqn_pmul2r (fact_gt0 (n - m))); apply/eqP.
transitivity (n`!).
  by rewrite -H1 -H2 -!mulnA.
rewrite -H3 -H4 -!mulnA; congr (_ * _).
by rewrite mulnCA; congr (_ * _); rewrite mulnCA.
Qed.

Lemma compose_big K M m l i : i <= l -> l <= m ->
  \sum_(0 <= j < m.+1) 'C(K, j) * 'C(M, m - j) * ('C(j, i) * 'C(m - j, l - i))
  = 'C(K, i) * 'C(M, l - i) * 'C((K - i) + (M - (l - i)), m - l).
Proof.
move=> leil lelm.
have [a Ea] : {a | a = l - i} by exists (l - i).
have [d Ed] : {d | d = m - l} by exists (m - l).
rewrite -Ea -Ed.
set F := BIG_F.
rewrite (@big_cat_nat _ _ _ i) //=; last by lia.
rewrite [X in X + _]big_nat [X in X + _]big1 ?add0n; last first.
  by move=> j /andP[_ ltji]; rewrite /F (bin_small ltji) !mul0n muln0.
rewrite (@big_cat_nat _ _ _ (i + d).+1) //=; [|by lia|by lia].
rewrite [X in _ + X]big_nat [X in _ + X]big1 ?addn0; last first.
  move=> j /andP[ltj ltjm]; rewrite /F [ 'C(m - j, a)]bin_small ?muln0 //; lia.
have -> : \sum_(i <= j < (i + d).+1) F j = \sum_(0 <= t < d.+1) F (t + i).
  by rewrite -{1}[i]add0n big_addn; congr (\sum_(0 <= t < _) _); lia.
have V : \sum_(0 <= j < d.+1) 'C(K - i, j) * 'C(M - a, d - j) = 'C(K - i + (M - a), d).
  by rewrite big_mkord Vandermonde.
rewrite -V big_distrr /=.
rewrite big_nat [RHS]big_nat; apply: eq_bigr => t /andP[_ ltt].
rewrite /F mulnACA (@bin_tri K (t + i) i) ?leq_addl // addnK.
rewrite (@bin_tri M (m - (t + i)) a); last by lia.
have -> : m - (t + i) - a = d - t by lia.
by rewrite mulnACA.
Qed.

Lemma binom_compose N K m l i : le K N -> le i l -> le l m -> le m N ->
  Nat.mul
    (natsum (List.map (fun j => Nat.mul (Nat.mul (binom K j) (binom (Nat.sub N K) (Nat.sub m j)))
                                        (Nat.mul (binom j i) (binom (Nat.sub m j) (Nat.sub l i))))
                      (List.seq 0 (S m))))
    (binom N l)
  = Nat.mul (Nat.mul (binom K i) (binom (Nat.sub N K) (Nat.sub l i)))
            (Nat.mul (binom N m) (binom m l)).
Proof.
move=> HKN Hil Hlm HmN.
rewrite natsum_big /binom.
have -> : \sum_(0 <= j < m.+1)
            Nat.mul (Nat.mul 'C(K, j) 'C(Nat.sub N K, Nat.sub m j))
                    (Nat.mul 'C(j, i) 'C(Nat.sub m j, Nat.sub l i))
          = 'C(K, i) * 'C(N - K, l - i) * 'C((K - i) + (N - K - (l - i)), m - l).
  by rewrite -compose_big //; lia.
change (('C(K, i) * 'C(N - K, l - i) * 'C((K - i) + (N - K - (l - i)), m - l)) * 'C(N, l)
        = 'C(K, i) * 'C(N - K, l - i) * ('C(N, m) * 'C(m, l))).
case: (leqP i K) => leiK; last by rewrite [ 'C(K, i)]bin_small // !mul0n.
case: (leqP (l - i) (N - K)) => lea; last by rewrite [ 'C(N - K, l - i)]bin_small // muln0 !mul0n.
have -> : K - i + (N - K - (l - i)) = N - l by lia.
rewrite (@bin_tri N m l); last by lia.
by rewrite -!mulnA; congr (_ * (_ * _)); rewrite mulnC.
Qed.
