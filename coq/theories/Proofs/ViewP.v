(* Proofs for property C13 (view pipeline). Statements are FIXED; replace every Admitted by a proof.
   If a statement is FALSE as written, do not change it silently: prove the others, report the counterexample
   and prove a corrected `<name>_fixed`. *)
From Sfs Require Import Index ArrayM Scalar Spectrum Project Stat IndexP ArrayP QsumP.
From Coq Require Import Lia.

Close Scope Qc_scope. Close Scope Q_scope. Open Scope nat_scope.

Definition no_opts : view_opts := {| v_marg := None; v_project := None; v_mask := false; v_normalize := false |}.
Definition only_marg m := {| v_marg := Some m; v_project := None; v_mask := false; v_normalize := false |}.
Definition only_project sh := {| v_marg := None; v_project := Some sh; v_mask := false; v_normalize := false |}.
Definition only_mask := {| v_marg := None; v_project := None; v_mask := true; v_normalize := false |}.
Definition only_normalize := {| v_marg := None; v_project := None; v_mask := false; v_normalize := true |}.

Definition bind {A B E} (r : A + E) (f : A -> B + E) : B + E := match r with inl a => f a | inr e => inr e end.
Definition opt_step {A} (o : option A) (f : A -> view_opts) (x : spectrum) : spectrum + view_err :=
  match o with None => inl x | Some a => view_run (f a) x end.
Definition flag_step (b : bool) (o : view_opts) (x : spectrum) : spectrum + view_err :=
  if b then view_run o x else inl x.

(* view without options reproduces its input *)
Theorem view_identity x : view_run no_opts x = inl x.
Proof. reflexivity. Qed.

(* any combination = chaining single-option invocations in the order marginalize > project > mask > normalize *)
Theorem view_compose o x :
  view_run o x =
  bind (opt_step (v_marg o) only_marg x) (fun y =>
  bind (opt_step (v_project o) only_project y) (fun z =>
  bind (flag_step (v_mask o) only_mask z) (fun w =>
  flag_step (v_normalize o) only_normalize w))).
Proof.
  destruct o as [m p k n]. unfold opt_step, flag_step, bind, only_marg, only_project, only_mask, only_normalize.
  unfold view_run. cbn [v_marg v_project v_mask v_normalize].
  destruct m as [[l|l]|].
  - destruct (marginalize x l) as [y|e]; [|reflexivity].
    destruct p as [sh|]; [destruct (project y sh) as [z|e]; [|reflexivity]|]; destruct k, n; reflexivity.
  - destruct (marginalize x (keep_to_remove (dimensions x) l)) as [y|e]; [|reflexivity].
    destruct p as [sh|]; [destruct (project y sh) as [z|e]; [|reflexivity]|]; destruct k, n; reflexivity.
  - destruct p as [sh|]; [destruct (project x sh) as [z|e]; [|reflexivity]|]; destruct k, n; reflexivity.
Qed.

(* ---- helpers for the mask step ---- *)
Lemma set_nth_length {A} (l : list A) n v : length (set_nth l n v) = length l.
Proof. revert n; induction l as [|h t IH]; intros [|n]; cbn [set_nth length]; auto. Qed.

Lemma nth_error_set_nth {A} (l : list A) n v m : n < length l ->
  nth_error (set_nth l n v) m = if m =? n then Some v else nth_error l m.
Proof.
  revert n m; induction l as [|h t IH]; intros n m Hn; cbn [length] in Hn; [lia|].
  destruct n as [|n], m as [|m]; cbn [set_nth nth_error Nat.eqb]; auto.
  apply IH; lia.
Qed.

Lemma flat_zero_iff sh idx : positive_shape sh -> inb sh idx = true ->
  (flat sh idx = 0 <-> forallb (Nat.eqb 0) idx = true).
Proof.
  revert idx; induction sh as [|n t IH]; intros [|i r] Hp Hin; cbn [inb] in Hin; try discriminate.
  - cbn [flat forallb]. split; reflexivity.
  - apply positive_shape_cons in Hp. destruct Hp as [Hn Hp].
    apply andb_true_iff in Hin. destruct Hin as [Hi Hin]. apply Nat.ltb_lt in Hi.
    pose proof (elements_pos _ Hp) as He. specialize (IH r Hp Hin).
    cbn [flat forallb]. rewrite andb_true_iff, Nat.eqb_eq, <- IH. split.
    + intros H. destruct i as [|i]; [lia|]. exfalso. cbn [Nat.mul] in H. lia.
    + intros [<- ->]. lia.
Qed.

Lemma flat_max_iff sh idx : positive_shape sh -> inb sh idx = true ->
  (flat sh idx = elements sh - 1 <-> list_eqb idx (map pred sh) = true).
Proof.
  revert idx; induction sh as [|n t IH]; intros [|i r] Hp Hin; cbn [inb] in Hin; try discriminate.
  - cbn. split; reflexivity.
  - apply positive_shape_cons in Hp. destruct Hp as [Hn Hp].
    apply andb_true_iff in Hin. destruct Hin as [Hi Hin]. apply Nat.ltb_lt in Hi.
    pose proof (elements_pos _ Hp) as He. pose proof (flat_lt _ _ Hin) as Hf. specialize (IH r Hp Hin).
    cbn [flat elements map list_eqb]. rewrite andb_true_iff, Nat.eqb_eq, <- IH.
    set (E := elements t) in *. set (f := flat t r) in *. clearbody E f. split.
    + intros H. assert (i = n - 1) as Hi' by nia. split; [lia|]. subst i. nia.
    + intros [-> ->]. nia.
Qed.

(* --mask-monomorphic zeroes exactly the all-zero and the all-maximum entries *)
Theorem mask_shape x : ashape (mask_monomorphic x) = ashape x /\ length (adata (mask_monomorphic x)) = length (adata x).
Proof.
  split; [reflexivity|]. unfold mask_monomorphic. simpl. rewrite !set_nth_length. reflexivity.
Qed.
Theorem mask_exact x idx :
  wf x -> positive_shape (ashape x) -> inb (ashape x) idx = true ->
  q_getd (mask_monomorphic x) idx =
    if forallb (Nat.eqb 0) idx || list_eqb idx (map pred (ashape x)) then 0%Qc else q_getd x idx.
Proof.
  intros Hwf Hp Hin. unfold q_getd. rewrite !get_spec.
  change (ashape (mask_monomorphic x)) with (ashape x). rewrite Hin.
  pose proof (flat_lt _ _ Hin) as Hlt.
  pose proof (flat_zero_iff _ _ Hp Hin) as Hz. pose proof (flat_max_iff _ _ Hp Hin) as Hm.
  unfold wf in Hwf. unfold mask_monomorphic. simpl adata.
  rewrite nth_error_set_nth by (rewrite !set_nth_length; lia).
  rewrite set_nth_length.
  rewrite nth_error_set_nth by lia.
  rewrite Hwf.
  destruct (forallb (Nat.eqb 0) idx) eqn:Hf.
  - cbn [orb]. rewrite (proj2 Hz eq_refl). destruct (0 =? elements (ashape x) - 1); reflexivity.
  - cbn [orb]. destruct (list_eqb idx (map pred (ashape x))) eqn:Hl.
    + rewrite (proj2 Hm eq_refl), Nat.eqb_refl. reflexivity.
    + destruct (flat (ashape x) idx =? elements (ashape x) - 1) eqn:E1.
      { apply Nat.eqb_eq in E1. apply Hm in E1. discriminate. }
      destruct (flat (ashape x) idx =? 0) eqn:E0.
      { apply Nat.eqb_eq in E0. apply Hz in E0. discriminate. }
      reflexivity.
Qed.

(* ---- helper for the normalize step ---- *)
Lemma qsum_map_div l s : qsum (map (fun v => (v / s)%Qc) l) = (qsum l / s)%Qc.
Proof.
  induction l as [|a l IH]; cbn [map].
  - rewrite qsum_nil. unfold Qcdiv. ring.
  - rewrite !qsum_cons, IH. unfold Qcdiv. ring.
Qed.

(* --normalize: entries sum to one, ratios preserved *)
Theorem normalize_shape x : ashape (normalize x) = ashape x /\ length (adata (normalize x)) = length (adata x).
Proof.
  split; [reflexivity|]. unfold normalize. simpl. apply map_length.
Qed.
Theorem normalize_sum_one x : spectrum_sum x <> 0%Qc -> spectrum_sum (normalize x) = 1%Qc.
Proof.
  intros Hs. unfold spectrum_sum at 1. unfold normalize. simpl adata.
  rewrite qsum_map_div. fold (spectrum_sum x). unfold Qcdiv. apply Qcmult_inv_r. exact Hs.
Qed.
Theorem normalize_entry x i : nth i (adata (normalize x)) 0%Qc = (nth i (adata x) 0 / spectrum_sum x)%Qc.
Proof.
  unfold normalize. simpl adata. set (s := spectrum_sum x). clearbody s.
  revert i; induction (adata x) as [|a l IH]; intros [|i]; cbn [map nth]; auto; unfold Qcdiv; ring.
Qed.
Theorem normalize_ratios x i j :
  (nth i (adata (normalize x)) 0 * nth j (adata x) 0 = nth j (adata (normalize x)) 0 * nth i (adata x) 0)%Qc.
Proof.
  rewrite !normalize_entry. unfold Qcdiv. ring.
Qed.

(* errors of a step are the errors of the combined run (nothing later is evaluated) *)
Theorem view_marg_error o x l e : v_marg o = Some (MRemove l) -> marginalize x l = inr e -> view_run o x = inr (VMarg e).
Proof.
  intros Hm He. unfold view_run. rewrite Hm, He. reflexivity.
Qed.
Theorem view_keep_is_remove o x l :
  v_marg o = Some (MKeep l) ->
  view_run o x = view_run {| v_marg := Some (MRemove (keep_to_remove (dimensions x) l)); v_project := v_project o;
                             v_mask := v_mask o; v_normalize := v_normalize o |} x.
Proof.
  intros Hm. unfold view_run. rewrite Hm. reflexivity.
Qed.
