(* Proofs about the two container spellings of a genotype (Model/Container.v): the GT parser reads back what was
   rendered, noodles-bcf's text of an htslib vector is the VCF spelling, and hence the classification of a genotype
   does not depend on the container it arrives in (C08, C12). *)
From Sfs Require Import Index Create Npy Text Container NpyP TextP CreateP.
From Coq Require Import Lia ZifyBool ZifyN ZifyNat List.
Import ListNotations.

Close Scope string_scope. Close Scope Qc_scope. Close Scope Q_scope. Open Scope N_scope.

Ltac Zify.zify_post_hook ::= Z.div_mod_to_equations.

(* ---------------------------------------------------------------- helpers *)
Definition nosep (l : bytes) : Prop := Forall (fun c => is_gt_sep c = false) l.
Definition sepc (ph : bool) : N := if ph then 124 else 47.
Definition allele_ok (a : option nat) : bool := match a with None => true | Some k => (k <=? 62)%nat end.

Lemma bytes_eqb_true a : forall b, bytes_eqb a b = true -> a = b.
Proof.
  induction a as [|x a IH]; intros [|y b] H; cbn [bytes_eqb] in H; try discriminate; [reflexivity|].
  apply andb_true_iff in H. destruct H as [H1 H2]. apply N.eqb_eq in H1. apply IH in H2. congruence.
Qed.

Lemma digit_nosep c : is_digit c = true -> is_gt_sep c = false.
Proof. unfold is_digit, is_gt_sep. lia. Qed.

Lemma sepc_sep ph : is_gt_sep (sepc ph) = true.
Proof. destruct ph; reflexivity. Qed.

Lemma render_allele_nosep a : nosep (render_allele a).
Proof.
  destruct a as [k|]; cbn [render_allele].
  - destruct (dec_digits (N.of_nat k)) as [_ H]. unfold nosep. eapply Forall_impl; [|exact H].
    intros c Hc. apply digit_nosep. exact Hc.
  - repeat constructor.
Qed.

Lemma render_allele_cons a : exists c r, render_allele a = c :: r /\ is_gt_sep c = false /\ (a = None \/ is_digit c = true).
Proof.
  pose proof (render_allele_nosep a) as H. destruct a as [k|]; cbn [render_allele] in *.
  - destruct (dec_digits (N.of_nat k)) as [Hne Hd]. destruct (dec (N.of_nat k)) as [|c r]; [congruence|].
    exists c, r. inversion H; subst. inversion Hd; subst. auto.
  - exists 46, []. auto.
Qed.

Lemma gt_tokens_aux_nosep a : forall s cur, nosep a -> gt_tokens_aux (a ++ s) cur = gt_tokens_aux s (rev a ++ cur).
Proof.
  induction a as [|c a IH]; intros s cur H; [reflexivity|].
  inversion H as [|? ? Hc Ha]; subst. cbn [app gt_tokens_aux rev]. rewrite Hc. rewrite IH by exact Ha.
  rewrite <- app_assoc. reflexivity.
Qed.

Definition tok_of (p : option nat * bool) : bytes := sepc (snd p) :: render_allele (fst p).

Lemma gt_tokens_aux_render t : forall cur, gt_tokens_aux (render_gt_aux false t) cur = rev cur :: map tok_of t.
Proof.
  induction t as [|[a ph] t IH]; intros cur; [reflexivity|].
  cbn [render_gt_aux app gt_tokens_aux]. fold (sepc ph). rewrite sepc_sep.
  rewrite gt_tokens_aux_nosep by apply render_allele_nosep. rewrite IH.
  cbn [map]. f_equal. f_equal. rewrite rev_app_distr, rev_involutive. reflexivity.
Qed.

Lemma gt_tokens_render a ph t : gt_tokens (render_gt ((a, ph) :: t)) = render_allele a :: map tok_of t.
Proof.
  unfold render_gt. cbn [render_gt_aux app].
  destruct (render_allele_cons a) as (c & r & E & Hc & _).
  pose proof (render_allele_nosep a) as Hn. rewrite E in *. inversion Hn; subst.
  cbn [app gt_tokens]. rewrite gt_tokens_aux_nosep by assumption. rewrite gt_tokens_aux_render.
  f_equal. rewrite rev_app_distr, rev_involutive. reflexivity.
Qed.

Lemma u64_62 k : (k <= 62)%nat -> N.of_nat k <= u64_max.
Proof. unfold u64_max. lia. Qed.

Lemma parse_position_render a : allele_ok a = true -> parse_position (render_allele a) = Some a.
Proof.
  intros H. destruct a as [k|]; [|reflexivity].
  cbn [allele_ok] in H. apply Nat.leb_le in H.
  destruct (render_allele_cons (Some k)) as (c & r & E & _ & [Hx|Hd]); [discriminate|].
  unfold parse_position. cbn [render_allele] in *.
  replace (bytes_eqb (dec (N.of_nat k)) [46]) with false.
  - rewrite parse_usize_dec by (apply u64_62; exact H). rewrite Nat2N.id. reflexivity.
  - rewrite E. cbn [bytes_eqb]. replace (c =? 46) with false; [reflexivity|].
    unfold is_digit in Hd. lia.
Qed.

Lemma parse_first_render a : allele_ok a = true -> parse_first_allele (render_allele a) = Some a.
Proof.
  intros H. destruct (render_allele_cons a) as (c & r & E & Hc & _).
  unfold parse_first_allele. rewrite E, Hc, <- E. apply parse_position_render. exact H.
Qed.

Lemma parse_next_tok p : allele_ok (fst p) = true -> parse_next_allele (tok_of p) = Some (fst p).
Proof.
  intros H. unfold tok_of, parse_next_allele. rewrite sepc_sep. apply parse_position_render. exact H.
Qed.

Lemma int8_ok_cons p t : int8_ok (p :: t) = allele_ok (fst p) && int8_ok t.
Proof. reflexivity. Qed.

Lemma int8_ok_map g : int8_ok g = forallb allele_ok (map fst g).
Proof. induction g as [|p t IH]; [reflexivity|]. rewrite int8_ok_cons, IH. reflexivity. Qed.

Lemma all_some_next t : int8_ok t = true -> all_some (map parse_next_allele (map tok_of t)) = Some (map fst t).
Proof.
  induction t as [|p t IH]; intros H; [reflexivity|].
  rewrite int8_ok_cons in H. apply andb_true_iff in H. destruct H as [H1 H2].
  cbn [map all_some]. rewrite parse_next_tok by exact H1. rewrite IH by exact H2. reflexivity.
Qed.

Lemma hts_value_facts a ph : allele_ok a = true ->
  (hts_value (a, ph) =? eov) = false /\ N.odd (hts_value (a, ph)) = ph /\ (128 <=? hts_value (a, ph)) = false /\
  (if hts_value (a, ph) <? 2 then [46] else dec (hts_value (a, ph) / 2 - 1)) = render_allele a.
Proof.
  intros H. unfold hts_value, eov. cbn [fst snd].
  destruct a as [k|]; cbn [allele_ok render_allele] in *.
  - apply Nat.leb_le in H.
    assert (Ho : N.odd (2 * (N.of_nat k + 1) + (if ph then 1 else 0)) = ph).
    { rewrite N.add_comm, N.odd_add_mul_2. destruct ph; reflexivity. }
    assert (Hd : (2 * (N.of_nat k + 1) + (if ph then 1 else 0)) / 2 - 1 = N.of_nat k) by (destruct ph; lia).
    rewrite Hd. replace (2 * (N.of_nat k + 1) + (if ph then 1 else 0) <? 2) with false by (destruct ph; lia).
    repeat split; try assumption; destruct ph; lia.
  - destruct ph; repeat split; reflexivity.
Qed.

Lemma bcf_gt_string_aux_hts g : forall first n, int8_ok g = true ->
  bcf_gt_string_aux first (map hts_value g ++ repeat eov n) = render_gt_aux first g.
Proof.
  induction g as [|[a ph] t IH]; intros first n H.
  - cbn [map app render_gt_aux]. destruct n; reflexivity.
  - rewrite int8_ok_cons in H. apply andb_true_iff in H. destruct H as [H1 H2]. cbn [fst] in H1.
    destruct (hts_value_facts a ph H1) as (F1 & F2 & F3 & F4).
    cbn [map app bcf_gt_string_aux render_gt_aux].
    rewrite F1, F2, F3, F4, IH by exact H2. reflexivity.
Qed.

Lemma render_aux_false_nonnil p t : render_gt_aux false (p :: t) <> [].
Proof. destruct p as [a ph]. cbn [render_gt_aux app]. discriminate. Qed.

Lemma gt_tokens_aux_head s : forall cur, exists x ts, gt_tokens_aux s cur = (rev cur ++ x) :: ts.
Proof.
  induction s as [|c s IH]; intros cur; cbn [gt_tokens_aux].
  - exists [], []. rewrite app_nil_r. reflexivity.
  - destruct (is_gt_sep c).
    + exists [], (gt_tokens_aux s [c]). rewrite app_nil_r. reflexivity.
    + destruct (IH (c :: cur)) as (x & ts & E). exists (c :: x), ts. rewrite E. cbn [rev].
      rewrite <- app_assoc. reflexivity.
Qed.

Lemma max_ploidy_ge (gs : list agt) (g : agt) : In g gs -> (length g <= fold_right Nat.max 1%nat (map (@length _) gs))%nat.
Proof.
  induction gs as [|h gs IH]; intros H; [destruct H|].
  cbn [map fold_right]. destruct H as [->|H]; [lia|]. apply IH in H. lia.
Qed.

(* the GT parser reads back what was rendered *)
Theorem parse_gt_render (g : agt) :
  g <> [] -> int8_ok g = true -> parse_gt (render_gt g) = Some (map fst g).
Proof.
  intros Hne Hok. destruct g as [|[a ph] t]; [congruence|].
  rewrite int8_ok_cons in Hok. apply andb_true_iff in Hok. destruct Hok as [H1 H2]. cbn [fst] in H1.
  unfold parse_gt. rewrite gt_tokens_render, parse_first_render by exact H1.
  rewrite all_some_next by exact H2. reflexivity.
Qed.

(* noodles-bcf's text for an htslib vector is the VCF spelling *)
Theorem bcf_gt_string_hts (g : agt) (w : nat) :
  g <> [] -> int8_ok g = true -> (length g <= w)%nat -> bcf_gt_string (hts_encode g w) = render_gt g.
Proof.
  intros _ Hok _. unfold bcf_gt_string, hts_encode, render_gt. apply bcf_gt_string_aux_hts. exact Hok.
Qed.

Theorem render_gt_is_dot (g : agt) : g <> [] -> (render_gt g = [46] <-> map fst g = [None]).
Proof.
  intros Hne. destruct g as [|[a ph] t]; [congruence|]. unfold render_gt. cbn [render_gt_aux app map fst]. split.
  - intros H. destruct (render_allele_cons a) as (c & r & E & _ & Hd).
    rewrite E in H. cbn [app] in H. injection H as Hc Hr.
    apply app_eq_nil in Hr. destruct Hr as [-> Hr].
    destruct t as [|p t]; [|exfalso; exact (render_aux_false_nonnil p t Hr)].
    destruct Hd as [->|Hd]; [reflexivity|]. subst c. vm_compute in Hd. discriminate.
  - intros H. injection H as -> Ht. apply map_eq_nil in Ht. subst t. reflexivity.
Qed.

Theorem vcf_field_render_missing (g : agt) : map fst g = [None] -> vcf_field_gt (render_gt g) = Some None.
Proof.
  intros H. assert (Hne : g <> []) by (intros ->; discriminate).
  apply (render_gt_is_dot g Hne) in H. rewrite H. reflexivity.
Qed.

Theorem vcf_field_render (g : agt) :
  g <> [] -> int8_ok g = true -> map fst g <> [None] -> vcf_field_gt (render_gt g) = Some (Some (map fst g)).
Proof.
  intros Hne Hok Hd. unfold vcf_field_gt.
  destruct (bytes_eqb (render_gt g) [46]) eqn:E.
  - apply bytes_eqb_true in E. apply (render_gt_is_dot g Hne) in E. contradiction.
  - rewrite parse_gt_render by assumption. reflexivity.
Qed.

Theorem bcf_field_hts (g : agt) (w : nat) :
  g <> [] -> int8_ok g = true -> (length g <= w)%nat -> bcf_field_gt (hts_encode g w) = Some (Some (map fst g)).
Proof.
  intros Hne Hok Hw. unfold bcf_field_gt. rewrite bcf_gt_string_hts, parse_gt_render by assumption. reflexivity.
Qed.

(* C12 / C08: the classification of a genotype does not depend on the container it arrives in *)
Theorem gt_container_independent (g : agt) (w : nat) :
  g <> [] -> int8_ok g = true -> (length g <= w)%nat ->
  classify_field (vcf_field_gt (render_gt g)) = Some (classify (Some (map fst g))) /\
  classify_field (bcf_field_gt (hts_encode g w)) = Some (classify (Some (map fst g))).
Proof.
  intros Hne Hok Hw. split.
  - destruct (list_eq_dec (fun (x y : option nat) => ltac:(decide equality; apply Nat.eq_dec) : {x = y} + {x <> y})
                (map fst g) [None]) as [E|E].
    + rewrite vcf_field_render_missing by exact E. rewrite E. reflexivity.
    + rewrite vcf_field_render by assumption. reflexivity.
  - rewrite bcf_field_hts by assumption. reflexivity.
Qed.

(* a whole record: every sample padded to the widest genotype of the record *)
Definition max_ploidy (gs : list agt) : nat := fold_right Nat.max 1%nat (map (@length _) gs).

Theorem record_container_independent (gs : list agt) :
  Forall (fun g => g <> [] /\ int8_ok g = true) gs ->
  map (fun g => classify_field (vcf_field_gt (render_gt g))) gs =
  map (fun g => classify_field (bcf_field_gt (hts_encode g (max_ploidy gs)))) gs.
Proof.
  intros H. apply map_ext_in. intros g Hg. rewrite Forall_forall in H. destruct (H g Hg) as [Hne Hok].
  destruct (gt_container_independent g (max_ploidy gs) Hne Hok (max_ploidy_ge gs g Hg)) as [-> ->]. reflexivity.
Qed.

(* phasing never matters *)
Theorem gt_phasing_irrelevant (g g' : agt) (w w' : nat) :
  g <> [] -> int8_ok g = true -> map fst g = map fst g' -> (length g <= w)%nat -> (length g' <= w')%nat ->
  classify_field (vcf_field_gt (render_gt g)) = classify_field (vcf_field_gt (render_gt g')) /\
  classify_field (bcf_field_gt (hts_encode g w)) = classify_field (bcf_field_gt (hts_encode g' w')).
Proof.
  intros Hne Hok Hm Hw Hw'.
  assert (Hne' : g' <> []).
  { intros ->. destruct g; [congruence|discriminate]. }
  assert (Hok' : int8_ok g' = true) by (rewrite int8_ok_map, <- Hm, <- int8_ok_map; exact Hok).
  destruct (gt_container_independent g w Hne Hok Hw) as [-> ->].
  destruct (gt_container_independent g' w' Hne' Hok' Hw') as [-> ->].
  rewrite Hm. split; reflexivity.
Qed.

(* before the repair F16 the two containers disagreed on the missing field *)
Theorem gt_container_v0_refuted :
  exists (g : agt) (w : nat), g <> [] /\ int8_ok g = true /\ (length g <= w)%nat /\
    option_map classify_v0 (vcf_field_gt (render_gt g)) <> option_map classify_v0 (bcf_field_gt (hts_encode g w)).
Proof.
  exists [(None, false)], 2%nat. repeat split; try discriminate; try (vm_compute; lia).
Qed.

(* a vector with nothing before the end-of-vector value, and negative values, are record errors *)
Theorem bcf_field_empty (w : nat) : bcf_field_gt (repeat eov w) = None.
Proof. destruct w; reflexivity. Qed.
Theorem bcf_field_negative (v : N) (t : bytes) : 128 <= v -> v <> eov -> bcf_field_gt (v :: t) = None.
Proof.
  intros Hv Hne. unfold bcf_field_gt, bcf_gt_string. cbn [bcf_gt_string_aux].
  replace (v =? eov) with false by (unfold eov in *; lia).
  replace (128 <=? v) with true by lia. cbn [app].
  unfold parse_gt. cbn [gt_tokens].
  destruct (gt_tokens_aux_head (bcf_gt_string_aux false t) [45]) as (x & ts & E). rewrite E.
  reflexivity.
Qed.

Example container_examples :
  classify_field (vcf_field_gt (render_gt [(Some 0, false); (Some 1, true)]%nat)) = Some (GCalled 1) /\
  classify_field (bcf_field_gt (hts_encode [(Some 0, false); (Some 1, true)]%nat 3)) = Some (GCalled 1) /\
  classify_field (vcf_field_gt [46]) = Some GMissing /\
  classify_field (bcf_field_gt [0; 129]) = Some GMissing /\
  classify_field (bcf_field_gt [0; 0]) = Some GMissing /\
  classify_field (bcf_field_gt [2; 129]) = Some GPloidyErr /\
  classify_field (bcf_field_gt [2; 6]) = Some GMultiallelic /\
  classify_field (vcf_field_gt [48; 47; 49; 47; 49]) = Some GPloidyErr /\
  classify_field (vcf_field_gt [48; 58; 49]) = None.
Proof. vm_compute. repeat split; reflexivity. Qed.

