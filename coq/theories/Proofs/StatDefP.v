(* Proofs for property C06 (statistics = their definitions on genotypes; published estimator formulas).
   Statements are FIXED; replace every Admitted by a proof. If a statement is FALSE as written, do not change it
   silently: prove the others, put the false one in a comment `(* FALSE: ... counterexample ... *)` and prove a
   corrected `<name>_fixed`. *)
From Sfs Require Import Index ArrayM Scalar Spectrum Project Stat IndexP ArrayP.
From Sfs Require Import BinomP MargP QsumP StatAux.
From Coq Require Import Lia.

Close Scope Qc_scope. Close Scope Q_scope. Open Scope nat_scope.

(* ---------------------------------------------------------------- the histogram of sites *)
(* a site is represented by its key: the per-population ALT allele counts (what `create` indexes by) *)
Definition count_key (keys : list (list nat)) (k : list nat) : nat := length (filter (list_eqb k) keys).
Definition hist (sh : shape) (keys : list (list nat)) : spectrum :=
  {| adata := map (fun k => qnat (count_key keys k)) (indices sh); ashape := sh |}.
Definition keys_ok (sh : shape) (keys : list (list nat)) : Prop := Forall (fun k => inb sh k = true) keys.

Theorem hist_wf sh keys : wf (hist sh keys).
Proof. unfold wf, hist. simpl. rewrite map_length. apply indices_length. Qed.
Theorem hist_get sh keys k : positive_shape sh -> inb sh k = true -> q_getd (hist sh keys) k = qnat (count_key keys k).
Proof.
  intros Hp Hin. unfold q_getd. rewrite get_spec.
  change (ashape (hist sh keys)) with sh.
  change (adata (hist sh keys)) with (map (fun k => qnat (count_key keys k)) (indices sh)).
  rewrite Hin, nth_error_map.
  pose proof (flat_lt _ _ Hin) as Hlt.
  rewrite (nth_error_nth' (indices sh) []) by (rewrite indices_length; assumption).
  rewrite nth_indices, unflat_flat by assumption. reflexivity.
Qed.

Lemma count_key_cons k0 ks k :
  count_key (k0 :: ks) k = (if list_eqb k k0 then 1 else 0) + count_key ks k.
Proof. unfold count_key. cbn [filter]. destruct (list_eqb k k0); reflexivity. Qed.

Lemma hist_sum' sh keys (g : list nat -> Qc) : positive_shape sh -> keys_ok sh keys ->
  qsum (map (fun k => (qnat (count_key keys k) * g k)%Qc) (indices sh)) = qsum (map g keys).
Proof.
  intros Hp Hk. induction Hk as [|k0 ks Hk0 Hks IH].
  - cbn [map]. rewrite qsum_nil. apply qsum_map_zero. intros k _.
    unfold count_key. cbn [filter length]. rewrite qnat_0. ring.
  - cbn [map]. rewrite qsum_cons, <- IH.
    rewrite <- (qsum_delta list_eqb g (indices sh) k0).
    + rewrite <- qsum_map_add. apply qsum_map_ext. intros k _.
      rewrite count_key_cons, qnat_add. destruct (list_eqb k k0); [rewrite qnat_1|rewrite qnat_0]; ring.
    + intros x _. apply list_eqb_eq.
    + now apply NoDup_indices.
    + now apply in_indices.
Qed.
(* the histogram lemma: a weighted sum over cells is a sum over sites *)
Theorem hist_sum sh keys (g : list nat -> Qc) : positive_shape sh -> keys_ok sh keys ->
  qsum (map (fun k => (q_getd (hist sh keys) k * g k)%Qc) (indices sh)) = qsum (map g keys).
Proof.
  intros Hp Hk. rewrite <- (hist_sum' sh keys g Hp Hk). apply qsum_map_ext. intros k Hin.
  rewrite hist_get; [reflexivity|assumption|]. now apply in_indices.
Qed.

(* ---------------------------------------------------------------- chromosome-level definitions *)
(* unordered pairs of positions of a list that carry different alleles *)
Fixpoint pairs_differing (l : list bool) : nat :=
  match l with [] => 0 | a :: t => length (filter (fun b => xorb a b) t) + pairs_differing t end.
Definition count_true (l : list bool) : nat := length (filter (fun b => b) l).
Lemma count_true_le l : count_true l <= length l.
Proof.
  unfold count_true. induction l as [|b l IH]; [apply le_n|].
  cbn [filter length]. destruct b; cbn [length]; lia.
Qed.
Lemma count_xorb a t :
  length (filter (fun b => xorb a b) t) = if a then length t - count_true t else count_true t.
Proof.
  unfold count_true. induction t as [|b t IH]; [destruct a; reflexivity|].
  cbn [filter length]. destruct a, b; cbn [xorb length] in *; try lia.
  pose proof (count_true_le t) as Hle. unfold count_true in Hle. lia.
Qed.
Theorem pairs_differing_count l : pairs_differing l = count_true l * (length l - count_true l).
Proof.
  induction l as [|a t IH]; [reflexivity|].
  cbn [pairs_differing]. rewrite count_xorb, IH. pose proof (count_true_le t) as Hle.
  unfold count_true in *. cbn [filter length]. destruct a; cbn [length]; nia.
Qed.
(* pairs (one chromosome from each population) that differ *)
Definition cross_differing (a b : list bool) : nat :=
  length (filter (fun p => xorb (fst p) (snd p)) (list_prod a b)).
Theorem cross_differing_count a b :
  cross_differing a b = count_true a * (length b - count_true b) + (length a - count_true a) * count_true b.
Proof.
  unfold cross_differing. induction a as [|x a IH]; [reflexivity|].
  cbn [list_prod]. rewrite filter_app, app_length, IH.
  assert (E : length (filter (fun p : bool * bool => xorb (fst p) (snd p)) (map (fun y => (x, y)) b))
              = length (filter (fun y => xorb x y) b)).
  { clear. induction b as [|y b IHb]; [reflexivity|]. cbn [map filter fst snd].
    destruct (xorb x y); cbn [length]; now rewrite IHb. }
  rewrite E, count_xorb. pose proof (count_true_le a) as Ha. pose proof (count_true_le b) as Hb.
  unfold count_true in *. cbn [filter length]. destruct x; cbn [length]; nia.
Qed.
Theorem pairs_total n : (N.of_nat (n * (n - 1) / 2) = binomN n 2)%N.
Proof.
  pose proof (binomN_2_twice n) as H.
  assert (E : n * (n - 1) = 2 * N.to_nat (binomN n 2)) by lia.
  rewrite E, Nat.mul_comm, Nat.div_mul by lia. apply N2Nat.id.
Qed.

(* ---------------------------------------------------------------- statistics on the histogram *)
Definition is_poly (sh : shape) (k : list nat) : bool :=
  negb (forallb (Nat.eqb 0) k) && negb (list_eqb k (map pred sh)).

(* sum = number of sites; S = number of polymorphic sites *)
Theorem sum_eq sh keys : positive_shape sh -> keys_ok sh keys -> spectrum_sum (hist sh keys) = qnat (length keys).
Proof.
  intros Hp Hk. unfold spectrum_sum.
  change (adata (hist sh keys)) with (map (fun k => qnat (count_key keys k)) (indices sh)).
  rewrite <- qsum_const_one, <- (hist_sum' sh keys (fun _ => 1%Qc) Hp Hk).
  apply qsum_map_ext. intros k _. ring.
Qed.

(* polymorphic cells of the index space = cells whose key is polymorphic *)
Lemma is_poly_unflat sh i : positive_shape sh -> i < elements sh ->
  is_poly sh (unflat sh i) = negb (i =? 0) && negb (i =? elements sh - 1).
Proof. intros Hp Hi. unfold is_poly. now rewrite all0_unflat, max_unflat. Qed.

Lemma poly_sum sh (h : list nat -> Qc) : positive_shape sh -> 2 <= elements sh ->
  qsum (map h (polymorphic (indices sh))) =
  qsum (map (fun k => (ind (is_poly sh k) * h k)%Qc) (indices sh)).
Proof.
  intros Hp HE. rewrite poly_indices by assumption.
  rewrite (indices_unflat sh Hp), (seq_split_ends _ HE).
  rewrite !map_map. cbn [map]. rewrite map_app. cbn [map].
  rewrite qsum_cons, qsum_app, qsum_cons, qsum_nil.
  rewrite !is_poly_unflat by (assumption || lia).
  rewrite !Nat.eqb_refl. cbn [negb andb ind]. rewrite andb_false_r. cbn [ind].
  rewrite (qsum_map_ext (fun x => (ind (is_poly sh (unflat sh x)) * h (unflat sh x))%Qc)
                        (fun x => h (unflat sh x))).
  - ring.
  - intros i Hi. apply in_seq in Hi. rewrite is_poly_unflat by (assumption || lia).
    replace (i =? 0) with false by (symmetry; apply Nat.eqb_neq; lia).
    replace (i =? elements sh - 1) with false by (symmetry; apply Nat.eqb_neq; lia).
    cbn [negb andb ind]. ring.
Qed.

Lemma poly_sum_full sh (h : list nat -> Qc) : positive_shape sh -> 2 <= elements sh ->
  (forall k, inb sh k = true -> is_poly sh k = false -> h k = 0%Qc) ->
  qsum (map h (polymorphic (indices sh))) = qsum (map h (indices sh)).
Proof.
  intros Hp HE H0. rewrite poly_sum by assumption. apply qsum_map_ext. intros k Hk.
  apply in_indices in Hk; [|assumption].
  destruct (is_poly sh k) eqn:E; cbn [ind]; [ring|]. rewrite (H0 k Hk E). ring.
Qed.

Lemma hist_data sh keys : adata (hist sh keys) = map (fun k => qnat (count_key keys k)) (indices sh).
Proof. reflexivity. Qed.
Theorem S_eq sh keys : positive_shape sh -> keys_ok sh keys -> 2 <= elements sh ->
  segregating_sites (hist sh keys) = qnat (length (filter (is_poly sh) keys)).
Proof.
  intros Hp Hk HE. unfold segregating_sites. rewrite hist_data, polymorphic_map, poly_sum by assumption.
  rewrite <- qsum_ind_filter, <- (hist_sum' sh keys (fun k => ind (is_poly sh k)) Hp Hk).
  apply qsum_map_ext. intros k _. ring.
Qed.

(* positions 1..E-2 of the data of a histogram, weighted by a function of the cell's key that
   vanishes on the two monomorphic cells: a sum over sites *)
Lemma hist_nth sh keys i : positive_shape sh -> i < elements sh ->
  nth i (adata (hist sh keys)) 0%Qc = qnat (count_key keys (unflat sh i)).
Proof.
  intros Hp Hi. rewrite hist_data. set (F := fun k => qnat (count_key keys k)).
  rewrite (nth_indep _ 0%Qc (F [])) by (rewrite map_length, indices_length; assumption).
  rewrite map_nth, nth_indices by assumption. reflexivity.
Qed.

Lemma hist_poly_sum sh keys (g : list nat -> Qc) : positive_shape sh -> keys_ok sh keys ->
  2 <= elements sh ->
  (forall k, inb sh k = true -> is_poly sh k = false -> g k = 0%Qc) ->
  qsum (map (fun i => (g (unflat sh i) * nth i (adata (hist sh keys)) 0)%Qc) (seq 1 (elements sh - 2)))
  = qsum (map g keys).
Proof.
  intros Hp Hk HE H0. rewrite <- (hist_sum' sh keys g Hp Hk).
  rewrite <- (poly_sum_full sh (fun k => (qnat (count_key keys k) * g k)%Qc) Hp HE).
  - rewrite poly_indices, map_map by assumption. apply qsum_map_ext. intros i Hi.
    apply in_seq in Hi. rewrite hist_nth by (assumption || lia). ring.
  - intros k Hin E. rewrite (H0 k Hin E). ring.
Qed.

(* pi = sum over sites of (differing pairs) / (number of pairs), n chromosomes *)
Theorem pi_eq n keys : 2 <= n -> keys_ok [S n] keys ->
  pi_unchecked (hist [S n] keys) =
  qsum (map (fun k => (qnat (nth 0 k 0 * (n - nth 0 k 0))%nat / qN (binomN n 2))%Qc) keys).
Proof.
  intros Hn Hk.
  assert (Hp : positive_shape [S n]) by (repeat constructor; lia).
  assert (HE : elements [S n] = S n) by (cbn [elements]; lia).
  pose proof (hist_wf [S n] keys) as Hl. unfold wf in Hl.
  change (ashape (hist [S n] keys)) with [S n] in Hl. rewrite HE in Hl.
  unfold pi_unchecked, theta_generic. cbv zeta. rewrite Hl. replace (S n - 1) with n by lia.
  change (qsum (map (fun i => (w_tajima i n * nth i (adata (hist [S n] keys)) 0)%Qc) (seq 1 (n - 1)))
          = qsum (map (fun k => w_tajima (nth 0 k 0) n) keys)).
  rewrite <- (hist_poly_sum [S n] keys (fun k => w_tajima (nth 0 k 0) n) Hp Hk).
  - rewrite HE. replace (S n - 2) with (n - 1) by lia. apply qsum_map_ext. intros i _.
    cbn [unflat elements nth]. rewrite Nat.div_1_r. reflexivity.
  - lia.
  - intros k Hin E. destruct k as [|i [|j r]]; cbn [inb] in Hin; rewrite ?andb_false_r in Hin;
      try discriminate.
    unfold is_poly in E. cbn [forallb map list_eqb pred] in E. rewrite !andb_true_r in E.
    cbn [nth]. unfold w_tajima.
    destruct (Nat.eqb_spec 0 i) as [<-|N0].
    + rewrite Nat.mul_0_l. apply Qcdiv_0_l.
    + destruct (Nat.eqb_spec i n) as [->|Nn]; [|discriminate].
      rewrite Nat.sub_diag, Nat.mul_0_r. apply Qcdiv_0_l.
Qed.

Lemma cells_indices a b :
  flat_map (fun m1 => map (fun m2 => (m1, m2)) (seq 0 b)) (seq 0 a)
  = map (fun k => (nth 0 k 0, nth 1 k 0)) (indices [a; b]).
Proof.
  cbn [indices map]. rewrite map_flat_map. apply flat_map_ext. intros i.
  rewrite flat_map_single, !map_map. apply map_ext. intros j. reflexivity.
Qed.
(* pi_xy = sum over sites of (differing between-population pairs) / (n1 n2) *)
Theorem pixy_eq n1 n2 keys : 1 <= n1 -> 1 <= n2 -> keys_ok [S n1; S n2] keys ->
  pixy_unchecked (hist [S n1; S n2] keys) =
  (qsum (map (fun k => let k1 := nth 0 k 0%nat in let k2 := nth 1 k 0%nat in
                       qnat (k1 * (n2 - k2) + k2 * (n1 - k1))%nat) keys) / qnat (n1 * n2))%Qc.
Proof.
  intros H1 H2 Hk.
  assert (Hp : positive_shape [S n1; S n2]) by (repeat constructor; lia).
  assert (HE : 2 <= elements [S n1; S n2]) by (cbn [elements]; nia).
  unfold pixy_unchecked. cbv zeta. change (ashape (hist [S n1; S n2] keys)) with [S n1; S n2].
  cbn [nth]. rewrite !Nat.sub_succ, !Nat.sub_0_r. unfold Qcdiv. f_equal.
  rewrite cells_indices, hist_data, map_length, firstn_map, skipn_map, map_map.
  change (skipn 1 (firstn (length (indices [S n1; S n2]) - 1) (indices [S n1; S n2])))
    with (polymorphic (indices [S n1; S n2])).
  rewrite poly_sum_full; [|assumption|assumption|].
  - rewrite <- (hist_sum' [S n1; S n2] keys
        (fun k => qnat (nth 0 k 0 * (n2 - nth 1 k 0) + nth 1 k 0 * (n1 - nth 0 k 0))) Hp Hk).
    apply qsum_map_ext. intros k Hin. apply in_indices in Hin; [|assumption].
    destruct k as [|m1 [|m2 [|? ?]]]; cbn [inb] in Hin; rewrite ?andb_false_r in Hin; try discriminate.
    cbn [nth]. rewrite hist_get; [reflexivity|assumption|exact Hin].
  - intros k Hin E.
    destruct k as [|m1 [|m2 [|? ?]]]; cbn [inb] in Hin; rewrite ?andb_false_r in Hin; try discriminate.
    unfold is_poly in E. cbn [forallb map list_eqb pred] in E. rewrite !andb_true_r in E.
    cbn [nth].
    destruct (Nat.eqb_spec 0 m1), (Nat.eqb_spec 0 m2), (Nat.eqb_spec m1 n1), (Nat.eqb_spec m2 n2);
      cbn [negb andb] in E; try discriminate; subst;
      match goal with |- (_ * qnat ?e = _)%Qc => replace e with 0 by nia end; rewrite qnat_0; ring.
Qed.

(* the entries of a normalised histogram, and sums over them *)
Lemma entries_norm_hist sh keys : positive_shape sh ->
  entries (normalize (hist sh keys))
  = map (fun k => ((qnat (count_key keys k) / spectrum_sum (hist sh keys))%Qc, k)) (indices sh).
Proof.
  intros Hp. unfold entries. change (ashape (normalize (hist sh keys))) with sh.
  rewrite index_from_flat_indices by assumption.
  change (adata (normalize (hist sh keys)))
    with (map (fun v => (v / spectrum_sum (hist sh keys))%Qc)
              (map (fun k => qnat (count_key keys k)) (indices sh))).
  rewrite map_map. apply combine_map_l.
Qed.

Lemma norm_sum sh keys (w : list nat -> Qc) : positive_shape sh -> keys_ok sh keys ->
  qsum (map (fun k => (qnat (count_key keys k) / spectrum_sum (hist sh keys) * w k)%Qc) (indices sh))
  = (qsum (map w keys) / qnat (length keys))%Qc.
Proof.
  intros Hp Hk. rewrite sum_eq by assumption. rewrite <- (hist_sum' sh keys w Hp Hk).
  set (s := qnat (length keys)).
  transitivity (qsum (map (fun k => (/ s * (qnat (count_key keys k) * w k))%Qc) (indices sh))).
  - apply qsum_map_ext. intros k _. unfold Qcdiv. ring.
  - rewrite qsum_scal_l. unfold Qcdiv. ring.
Qed.

Lemma norm_poly_sum sh keys (w : list nat -> Qc) : positive_shape sh -> keys_ok sh keys ->
  2 <= elements sh ->
  (forall k, inb sh k = true -> is_poly sh k = false -> w k = 0%Qc) ->
  qsum (map (fun k => (qnat (count_key keys k) / spectrum_sum (hist sh keys) * w k)%Qc)
            (polymorphic (indices sh)))
  = (qsum (map w keys) / qnat (length keys))%Qc.
Proof.
  intros Hp Hk HE H0. rewrite poly_sum_full; [now apply norm_sum|assumption|assumption|].
  intros k Hin E. rewrite (H0 k Hin E). ring.
Qed.

Lemma positive_of_ge m sh : 1 <= m -> Forall (fun n => m <= n) sh -> positive_shape sh.
Proof. intros Hm H. eapply Forall_impl; [|exact H]. cbv beta. intros; lia. Qed.

(* f2/f3/f4 as printed by `stat` (which normalises) = site averages of products of sample
   allele-frequency differences *)
Definition freq (k : list nat) (sh : shape) (j : nat) : Qc := (qnat (nth j k 0)%nat / qnat (nth j sh 0 - 1)%nat)%Qc.
Theorem f2_eq sh keys : length sh = 2 -> Forall (fun n => 2 <= n) sh -> keys_ok sh keys -> keys <> [] ->
  calculate SF2 (hist sh keys) =
  inl (SVal (qsum (map (fun k => ((freq k sh 0 - freq k sh 1) * (freq k sh 0 - freq k sh 1))%Qc) keys) / qnat (length keys))%Qc).
Proof.
  intros Hl Hf Hk _. assert (Hp : positive_shape sh) by (apply (positive_of_ge 2); [lia|assumption]).
  unfold calculate, dimk, dimensions. change (ashape (hist sh keys)) with sh. rewrite Hl.
  cbn [Nat.eqb lift]. do 2 f_equal. unfold f2_unchecked. rewrite entries_norm_hist by assumption.
  change (ashape (normalize (hist sh keys))) with sh. rewrite map_map.
  rewrite <- (norm_sum sh keys) by assumption. apply qsum_map_ext. intros k _. cbv beta iota zeta.
  unfold freq. rewrite !fr_freqs. ring.
Qed.
Theorem f3_eq sh keys : length sh = 3 -> Forall (fun n => 2 <= n) sh -> keys_ok sh keys -> keys <> [] ->
  calculate SF3 (hist sh keys) =
  inl (SVal (qsum (map (fun k => ((freq k sh 0 - freq k sh 1) * (freq k sh 0 - freq k sh 2))%Qc) keys) / qnat (length keys))%Qc).
Proof.
  intros Hl Hf Hk _. assert (Hp : positive_shape sh) by (apply (positive_of_ge 2); [lia|assumption]).
  unfold calculate, dimk, dimensions. change (ashape (hist sh keys)) with sh. rewrite Hl.
  cbn [Nat.eqb lift]. do 2 f_equal. unfold f3_unchecked. rewrite entries_norm_hist by assumption.
  change (ashape (normalize (hist sh keys))) with sh. rewrite map_map.
  rewrite <- (norm_sum sh keys) by assumption. apply qsum_map_ext. intros k _. cbv beta iota zeta.
  unfold freq. rewrite !fr_freqs. ring.
Qed.
Theorem f4_eq sh keys : length sh = 4 -> Forall (fun n => 2 <= n) sh -> keys_ok sh keys -> keys <> [] ->
  calculate SF4 (hist sh keys) =
  inl (SVal (qsum (map (fun k => ((freq k sh 0 - freq k sh 1) * (freq k sh 2 - freq k sh 3))%Qc) keys) / qnat (length keys))%Qc).
Proof.
  intros Hl Hf Hk _. assert (Hp : positive_shape sh) by (apply (positive_of_ge 2); [lia|assumption]).
  unfold calculate, dimk, dimensions. change (ashape (hist sh keys)) with sh. rewrite Hl.
  cbn [Nat.eqb lift]. do 2 f_equal. unfold f4_unchecked. rewrite entries_norm_hist by assumption.
  change (ashape (normalize (hist sh keys))) with sh. rewrite map_map.
  rewrite <- (norm_sum sh keys) by assumption. apply qsum_map_ext. intros k _. cbv beta iota zeta.
  unfold freq. rewrite !fr_freqs. ring.
Qed.

(* Hudson's Fst = ratio of summed per-site numerators and denominators (monomorphic sites add 0 to both) *)
Definition fst_num (sh : shape) (k : list nat) : Qc :=
  let p := freq k sh 0 in let q := freq k sh 1 in
  ((p - q) * (p - q) - p * (1 - p) / qnat (nth 0 sh 0 - 2)%nat - q * (1 - q) / qnat (nth 1 sh 0 - 2)%nat)%Qc.
Definition fst_den (sh : shape) (k : list nat) : Qc :=
  let p := freq k sh 0 in let q := freq k sh 1 in (p * (1 - q) + q * (1 - p))%Qc.
Theorem fst_eq sh keys : length sh = 2 -> Forall (fun n => 3 <= n) sh -> keys_ok sh keys -> keys <> [] ->
  calculate SFst (hist sh keys) =
  inl (SVal (qsum (map (fst_num sh) keys) / qsum (map (fst_den sh) keys))%Qc).
Proof.
  intros Hl Hf Hk Hne. assert (Hp : positive_shape sh) by (apply (positive_of_ge 3); [lia|assumption]).
  destruct sh as [|a [|b [|? ?]]]; try discriminate.
  inversion Hf as [|? ? Ha Hf']; subst. inversion Hf' as [|? ? Hb _]; subst.
  assert (HE : 2 <= elements [a; b]) by (cbn [elements]; nia).
  assert (Hmono : forall k, inb [a; b] k = true -> is_poly [a; b] k = false ->
            (freq k [a; b] 0 = 0%Qc /\ freq k [a; b] 1 = 0%Qc) \/
            (freq k [a; b] 0 = 1%Qc /\ freq k [a; b] 1 = 1%Qc)).
  { intros k Hin E.
    destruct k as [|m1 [|m2 [|? ?]]]; cbn [inb] in Hin; rewrite ?andb_false_r in Hin; try discriminate.
    unfold is_poly in E. cbn [forallb map list_eqb] in E. rewrite !andb_true_r in E.
    unfold freq. cbn [nth].
    destruct (Nat.eqb_spec 0 m1), (Nat.eqb_spec 0 m2), (Nat.eqb_spec m1 (pred a)), (Nat.eqb_spec m2 (pred b));
      cbn [negb andb] in E; try discriminate; subst; try (exfalso; lia).
    all: try (left; split; apply Qcdiv_0_l).
    all: right; replace (pred a) with (a - 1) by lia; replace (pred b) with (b - 1) by lia;
      split; field; apply qnat_neq0; lia. }
  assert (HN : forall k, inb [a; b] k = true -> is_poly [a; b] k = false -> fst_num [a; b] k = 0%Qc).
  { intros k Hin E. unfold fst_num. cbv zeta.
    destruct (Hmono k Hin E) as [[-> ->]|[-> ->]]; unfold Qcdiv; ring. }
  assert (HD : forall k, inb [a; b] k = true -> is_poly [a; b] k = false -> fst_den [a; b] k = 0%Qc).
  { intros k Hin E. unfold fst_den. cbv zeta.
    destruct (Hmono k Hin E) as [[-> ->]|[-> ->]]; ring. }
  unfold calculate, dimk, dimensions. change (ashape (hist [a; b] keys)) with [a; b].
  cbn [length Nat.eqb lift]. do 2 f_equal.
  unfold fst_unchecked, fst_parts. cbv zeta. cbn [fst snd].
  rewrite entries_norm_hist, polymorphic_map, !map_map by assumption.
  change (ashape (normalize (hist [a; b] keys))) with [a; b].
  pose proof (norm_poly_sum [a; b] keys (fst_num [a; b]) Hp Hk HE HN) as EN.
  pose proof (norm_poly_sum [a; b] keys (fst_den [a; b]) Hp Hk HE HD) as ED.
  match goal with |- (qsum (map ?f ?l) / qsum (map ?g ?l))%Qc = _ =>
    rewrite (qsum_map_ext f (fun k => (qnat (count_key keys k) / spectrum_sum (hist [a; b] keys)
                                        * fst_num [a; b] k)%Qc) l),
            (qsum_map_ext g (fun k => (qnat (count_key keys k) / spectrum_sum (hist [a; b] keys)
                                        * fst_den [a; b] k)%Qc) l)
  end.
  - rewrite EN, ED. set (L := qnat (length keys)).
    assert (HL : L <> 0%Qc) by (apply qnat_neq0; destruct keys; [contradiction|cbn [length]; lia]).
    destruct (Qc_eq_dec (qsum (map (fst_den [a; b]) keys)) 0) as [Z|NZ].
    + rewrite Z, Qcdiv_0_l, !Qcdiv_0_r. reflexivity.
    + field. split; assumption.
  - intros k _. cbv beta iota zeta. cbn [fst snd]. unfold fst_den, freq. rewrite !fr_freqs. reflexivity.
  - intros k _. cbv beta iota zeta. cbn [fst snd]. unfold fst_num, freq. rewrite !fr_freqs. reflexivity.
Qed.

(* two individuals: the 3x3 spectrum counts sites by genotype pair; R0, R1, KING are ratios of those counts *)
Definition npair (keys : list (list nat)) (a b : nat) : Qc := qnat (count_key keys [a; b]).
Theorem king_r0_r1_eq keys : keys_ok [3; 3] keys ->
  calculate SR0 (hist [3; 3] keys) = inl (SVal ((npair keys 0 2 + npair keys 2 0) / npair keys 1 1)%Qc) /\
  calculate SR1 (hist [3; 3] keys) =
    inl (SVal (npair keys 1 1 / (npair keys 0 1 + npair keys 0 2 + npair keys 1 0 + npair keys 1 2 + npair keys 2 0 + npair keys 2 1))%Qc) /\
  calculate SKing (hist [3; 3] keys) =
    inl (SVal ((npair keys 1 1 - qnat 2 * (npair keys 0 2 + npair keys 2 0)) /
               (npair keys 0 1 + npair keys 1 0 + qnat 2 * npair keys 1 1 + npair keys 1 2 + npair keys 2 1))%Qc).
Proof.
  intros _.
  assert (Hp : positive_shape [3; 3]) by (repeat constructor).
  assert (Hg : forall i j, i < 3 -> j < 3 -> g2 (hist [3; 3] keys) i j = npair keys i j).
  { intros i j Hi Hj. unfold g2, npair. apply hist_get; [assumption|].
    cbn [inb]. rewrite andb_true_r. apply andb_true_iff. split; apply Nat.ltb_lt; assumption. }
  unfold calculate, shape33. change (ashape (hist [3; 3] keys)) with [3; 3].
  cbn [list_eqb Nat.eqb andb lift].
  unfold r0_unchecked, r1_unchecked, king_unchecked. rewrite !Hg by lia.
  repeat split. do 2 f_equal. unfold qsum. cbn [fold_left]. f_equal. ring.
Qed.

(* ---------------------------------------------------------------- published estimators (1-D, n chromosomes) *)
Definition xi (x : spectrum) (i : nat) : Qc := nth i (adata x) 0%Qc.
Definition a_n (n : nat) : Qc := qsum (map (fun i => (1 / qnat i)%Qc) (seq 1 (n - 1))).
Definition b_n (n : nat) : Qc := qsum (map (fun i => (1 / qnat (i * i))%Qc) (seq 1 (n - 1))).
Definition S_of (x : spectrum) (n : nat) : Qc := qsum (map (xi x) (seq 1 (n - 1))).

Theorem harmonic_is_a_n n : harmonic n = a_n n /\ p_harmonic n 2 = b_n n.
Proof.
  unfold harmonic, p_harmonic, a_n, b_n. split; f_equal; apply map_ext; intros i.
  - now rewrite Nat.pow_1_r.
  - now rewrite Nat.pow_2_r.
Qed.

Lemma a_n_neq0 n : 2 <= n -> a_n n <> 0%Qc.
Proof.
  intros Hn. unfold a_n. replace (n - 1) with (S (n - 2)) by lia. cbn [seq map].
  rewrite qsum_cons, qnat_1.
  assert (Hr : (0 <= qsum (map (fun i => 1 / qnat i) (seq 2 (n - 2))))%Qc).
  { apply qsum_nonneg. apply Forall_forall. intros v Hv. apply in_map_iff in Hv.
    destruct Hv as [i [<- _]]. replace (1 / qnat i)%Qc with (1 * 1 / qnat i)%Qc by (unfold Qcdiv; ring).
    apply Qc_div_nonneg; try discriminate. apply qnat_nonneg. }
  intros E. pose proof (Qcplus_le_compat _ _ _ _ (Qcle_refl (1 / 1)%Qc) Hr) as H.
  rewrite E in H. apply H. reflexivity.
Qed.
Theorem S_formula x n : length (adata x) = S n -> 1 <= n -> segregating_sites x = S_of x n.
Proof.
  intros Hl Hn. unfold segregating_sites, S_of. rewrite (polymorphic_nth (adata x) 0%Qc) by lia.
  rewrite Hl. replace (S n - 2) with (n - 1) by lia. reflexivity.
Qed.
(* Watterson (1975): theta_W = S / a_n *)
Theorem theta_w_formula x n : length (adata x) = S n -> 2 <= n -> theta_w_unchecked x = (S_of x n / a_n n)%Qc.
Proof.
  intros Hl Hn. unfold theta_w_unchecked, theta_generic, w_watterson. cbv zeta. rewrite Hl.
  replace (S n - 1) with n by lia. rewrite qsum_scal_l.
  destruct (harmonic_is_a_n n) as [-> _]. unfold S_of, Qcdiv.
  change (map (fun i => nth i (adata x) 0%Qc)) with (map (xi x)). ring.
Qed.
(* Tajima (1983): pi = sum_i i (n - i) xi_i / C(n,2) *)
Theorem pi_formula x n : length (adata x) = S n -> 2 <= n ->
  pi_unchecked x = (qsum (map (fun i => (qnat (i * (n - i)) * xi x i)%Qc) (seq 1 (n - 1))) / (qnat (n * (n - 1)) / qnat 2))%Qc.
Proof.
  intros Hl Hn. unfold pi_unchecked, theta_generic, w_tajima. cbv zeta. rewrite Hl.
  replace (S n - 1) with n by lia. rewrite qN_binomN_2.
  set (D := (qnat (n * (n - 1)) / qnat 2)%Qc).
  transitivity (qsum (map (fun i => (/ D * (qnat (i * (n - i)) * xi x i))%Qc) (seq 1 (n - 1)))).
  - apply qsum_map_ext. intros i _. unfold xi, Qcdiv. ring.
  - rewrite qsum_scal_l. unfold Qcdiv. ring.
Qed.
(* Tajima (1989): D = (pi - S/a1) / sqrt(e1 S + e2 S (S-1)) *)
Theorem tajima_d_formula x n : length (adata x) = S n -> 2 <= n ->
  let s := S_of x n in let a1 := a_n n in let a2 := b_n n in
  let b1 := (qnat (n + 1) / qnat (3 * (n - 1)))%Qc in
  let b2 := (qnat (2 * (n * n + n + 3)) / qnat (9 * n * (n - 1)))%Qc in
  let c1 := (b1 - 1 / a1)%Qc in
  let c2 := (b2 - qnat (n + 2) / (a1 * qnat n) + a2 / (a1 * a1))%Qc in
  let e1 := (c1 / a1)%Qc in let e2 := (c2 / (a1 * a1 + a2))%Qc in
  d_tajima_parts x = ((pi_unchecked x - s / a1)%Qc, (e1 * s + e2 * s * (s - 1))%Qc).
Proof.
  intros Hl Hn. cbv zeta. unfold d_tajima_parts. cbv zeta. rewrite Hl.
  replace (S n - 1) with n by lia.
  rewrite (theta_w_formula x n Hl Hn), (S_formula x n Hl) by lia.
  destruct (harmonic_is_a_n n) as [-> ->]. rewrite Nat.pow_2_r. reflexivity.
Qed.
(* Fu and Li (1993): D = (S - a_n xi_1) / sqrt(u_D S + v_D S^2) *)
Theorem fu_li_d_formula x n : length (adata x) = S n -> 3 <= n ->
  let s := S_of x n in let a := a_n n in let b := b_n n in
  let c := (qnat 2 * (qnat n * a - qnat (2 * (n - 1))) / qnat ((n - 1) * (n - 2)))%Qc in
  let v := (1 + (a * a) / (b + a * a) * (c - qnat (n + 1) / qnat (n - 1)))%Qc in
  let u := (a - 1 - v)%Qc in
  d_fuli_parts x = ((s - a * xi x 1)%Qc, (u * s + v * (s * s))%Qc).
Proof.
  intros Hl Hn. cbv zeta. unfold d_fuli_parts. cbv zeta. rewrite Hl.
  replace (S n - 1) with n by lia.
  rewrite (theta_w_formula x n Hl), (S_formula x n Hl) by lia.
  destruct (harmonic_is_a_n n) as [-> ->]. unfold theta_fuli_unchecked. fold (xi x 1).
  assert (Ec : ((qnat 2 * qnat n * a_n n - qnat (4 * (n - 1))) / qnat ((n - 1) * (n - 2)))%Qc
               = (qnat 2 * (qnat n * a_n n - qnat (2 * (n - 1))) / qnat ((n - 1) * (n - 2)))%Qc).
  { replace (4 * (n - 1)) with (2 * (2 * (n - 1))) by lia. rewrite (qnat_mul 2 (2 * (n - 1))).
    unfold Qcdiv. ring. }
  rewrite Ec. f_equal. field. apply a_n_neq0. lia.
Qed.
