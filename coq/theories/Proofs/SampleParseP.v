(* Proofs for property C09: `--samples` and `--samples-file` with the same content are equivalent. Statements are FIXED;
   replace every Admitted by a proof. If a statement is FALSE as written, do not change it silently: prove the others,
   put the false one in a comment `(* FALSE: ... counterexample ... *)` and prove a corrected `<name>_fixed`. *)
From Sfs Require Import Index Create SampleParse.
From Coq Require Import Lia.

(* a name or label that can be written in both syntaxes: none of ',', '=', tab, newline, carriage return *)
Definition plain (s : name) : Prop := Forall (fun c => c <> 44 /\ c <> 61 /\ c <> 9 /\ c <> 10 /\ c <> 13) s.
Definition entry_plain (e : name * pop) : Prop :=
  plain (fst e) /\ fst e <> [] /\ match snd e with Some p => plain p | None => True end.

Lemma split_once_none sep s : Forall (fun c => c <> sep) s -> split_once sep s = None.
Proof.
  induction s as [|c t IH]; simpl; intro H; [reflexivity|].
  inversion H as [|? ? Hc Ht]; subst.
  destruct (c =? sep) eqn:E; [apply Nat.eqb_eq in E; contradiction|].
  rewrite IH; auto.
Qed.
Lemma split_once_app sep a b : Forall (fun c => c <> sep) a -> split_once sep (a ++ sep :: b) = Some (a, b).
Proof.
  induction a as [|c t IH]; simpl; intro H.
  - rewrite Nat.eqb_refl. reflexivity.
  - inversion H as [|? ? Hc Ht]; subst.
    destruct (c =? sep) eqn:E; [apply Nat.eqb_eq in E; contradiction|].
    rewrite IH; auto.
Qed.
Lemma entry_of_render sep e : Forall (fun c => c <> sep) (fst e) -> entry_of sep (render_entry sep e) = e.
Proof.
  destruct e as [k [p|]]; unfold entry_of, render_entry; simpl; intro H.
  - rewrite split_once_app; auto.
  - rewrite split_once_none; auto.
Qed.

Lemma split_all_nosep sep a : Forall (fun c => c <> sep) a -> split_all sep a = [a].
Proof.
  induction a as [|c t IH]; simpl; intro H; [reflexivity|].
  inversion H as [|? ? Hc Ht]; subst.
  destruct (c =? sep) eqn:E; [apply Nat.eqb_eq in E; contradiction|].
  rewrite IH; auto.
Qed.
Lemma split_all_app sep a b : Forall (fun c => c <> sep) a -> split_all sep (a ++ sep :: b) = a :: split_all sep b.
Proof.
  induction a as [|c t IH]; simpl; intro H.
  - rewrite Nat.eqb_refl. reflexivity.
  - inversion H as [|? ? Hc Ht]; subst.
    destruct (c =? sep) eqn:E; [apply Nat.eqb_eq in E; contradiction|].
    rewrite IH; auto.
Qed.

Lemma split_all_join sep (l : list name) : l <> [] -> Forall (fun s => Forall (fun c => c <> sep) s) l ->
  split_all sep (join_names sep l) = l.
Proof.
  induction l as [|a l IH]; intros Hne H; [congruence|].
  inversion H as [|? ? Ha Hl]; subst.
  destruct l as [|b t].
  - simpl. apply split_all_nosep; auto.
  - change (join_names sep (a :: b :: t)) with (a ++ sep :: join_names sep (b :: t)).
    rewrite split_all_app by auto. rewrite IH; auto. discriminate.
Qed.

Lemma plain_weaken (P : nat -> Prop) s :
  (forall c, (c <> 44 /\ c <> 61 /\ c <> 9 /\ c <> 10 /\ c <> 13) -> P c) -> plain s -> Forall P s.
Proof. intros HP H. unfold plain in H. eapply Forall_impl; [|exact H]. exact HP. Qed.

(* a rendered plain entry avoids every byte that is neither of the entry's own separator *)
Lemma render_entry_avoids sep x e : x <> sep -> (x = 44 \/ x = 61 \/ x = 9 \/ x = 10 \/ x = 13) ->
  entry_plain e -> Forall (fun c => c <> x) (render_entry sep e).
Proof.
  intros Hx Hin [Hk [_ Hp]]. destruct e as [k [p|]]; unfold render_entry; simpl in *.
  - apply Forall_app; split; [|constructor; [congruence|]];
      (eapply plain_weaken; [|eassumption]); intros c Hc; lia.
  - eapply plain_weaken; [|eassumption]. intros c Hc; lia.
Qed.
Lemma entry_plain_fst sep e : (sep = 44 \/ sep = 61 \/ sep = 9 \/ sep = 10 \/ sep = 13) ->
  entry_plain e -> Forall (fun c => c <> sep) (fst e).
Proof. intros Hs [Hk _]. eapply plain_weaken; [|eassumption]. intros c Hc; lia. Qed.

Lemma map_entry_of_render sep l : (sep = 44 \/ sep = 61 \/ sep = 9 \/ sep = 10 \/ sep = 13) ->
  Forall entry_plain l -> map (entry_of sep) (map (render_entry sep) l) = l.
Proof.
  intros Hs H. induction H as [|e l He Hl IH]; simpl; [reflexivity|].
  rewrite entry_of_render, IH; auto. apply entry_plain_fst; auto.
Qed.

(* the inline syntax round-trips *)
Theorem parse_render_inline l : l <> [] -> Forall entry_plain l -> parse_samples_inline (render_inline l) = l.
Proof.
  intros Hne H. unfold parse_samples_inline, render_inline.
  rewrite split_all_join.
  - apply map_entry_of_render; auto.
  - destruct l; [congruence|discriminate].
  - apply Forall_map. eapply Forall_impl; [|exact H].
    intros e He. apply render_entry_avoids; auto; discriminate.
Qed.

Lemma lines_aux_app a rest cur : Forall (fun c => c <> 10) a ->
  lines_aux (a ++ 10 :: rest) cur = strip_cr (rev cur ++ a) :: lines_aux rest [].
Proof.
  intro H. revert cur. induction H as [|c t Hc Ht IH]; intro cur.
  - cbn [app lines_aux]. rewrite Nat.eqb_refl, app_nil_r. reflexivity.
  - cbn [app lines_aux]. destruct (c =? 10) eqn:E; [apply Nat.eqb_eq in E; contradiction|].
    rewrite IH. cbn [rev]. rewrite <- app_assoc. reflexivity.
Qed.
Lemma lines_flat (g : name * pop -> name) l : Forall (fun e => Forall (fun c => c <> 10) (g e)) l ->
  lines (flat_map (fun e => g e ++ [10]) l) = map strip_cr (map g l).
Proof.
  intro H. unfold lines. induction H as [|e l He Hl IH]; [reflexivity|].
  cbn [flat_map map]. rewrite <- app_assoc. cbn [app].
  rewrite lines_aux_app by auto. cbn [rev app]. rewrite IH. reflexivity.
Qed.
Lemma strip_cr_snoc s : strip_cr (s ++ [13]) = s.
Proof. unfold strip_cr. rewrite rev_app_distr. cbn [rev app]. apply rev_involutive. Qed.
Lemma match13 (n : nat) (r l : name) : n <> 13 -> match n :: r with 13 :: r => rev r | _ => l end = l.
Proof. intro H. do 14 (destruct n as [|n]; [try reflexivity; congruence|]). reflexivity. Qed.
Lemma strip_cr_no13 s : Forall (fun c => c <> 13) s -> strip_cr s = s.
Proof.
  intro H. unfold strip_cr. apply Forall_rev in H. destruct (rev s) as [|n r]; [reflexivity|].
  inversion H; subst. apply match13; auto.
Qed.
(* the file syntax round-trips *)
Theorem parse_render_file l : Forall entry_plain l -> parse_samples_file (render_file l) = l.
Proof.
  intro H. unfold parse_samples_file, render_file.
  rewrite lines_flat.
  - rewrite (map_map (render_entry 9) strip_cr). rewrite (map_ext_Forall (fun e => strip_cr (render_entry 9 e)) (render_entry 9)).
    + apply map_entry_of_render; auto.
    + eapply Forall_impl; [|exact H]. intros e He. apply strip_cr_no13.
      apply render_entry_avoids; auto; discriminate.
  - eapply Forall_impl; [|exact H]. intros e He. apply render_entry_avoids; auto; discriminate.
Qed.
(* hence the same content given either way builds the same sample map, shape and population ids *)
Theorem file_equiv_inline l : l <> [] -> Forall entry_plain l ->
  build_map (parse_samples_file (render_file l)) = build_map (parse_samples_inline (render_inline l)) /\
  parse_samples_file (render_file l) = l.
Proof.
  intros Hne H. rewrite parse_render_file, parse_render_inline by auto. split; reflexivity.
Qed.
(* Windows line ends are tolerated by the file syntax *)
Theorem parse_file_crlf l : Forall entry_plain l ->
  parse_samples_file (flat_map (fun e => render_entry 9 e ++ [13; 10]) l) = l.
Proof.
  intro H. unfold parse_samples_file.
  rewrite (flat_map_ext _ (fun e => (render_entry 9 e ++ [13]) ++ [10])).
  2:{ intro e. rewrite <- app_assoc. reflexivity. }
  rewrite (lines_flat (fun e => render_entry 9 e ++ [13])).
  - rewrite (map_map (fun e => render_entry 9 e ++ [13]) strip_cr). rewrite (map_ext _ (render_entry 9)).
    + apply map_entry_of_render; auto.
    + intro e. apply strip_cr_snoc.
  - eapply Forall_impl; [|exact H]. intros e He. apply Forall_app; split.
    + apply render_entry_avoids; auto; discriminate.
    + constructor; [discriminate|constructor].
Qed.
(* a blank line is an entry with an empty sample name (which the builder then rejects as unknown) *)
Example blank_line_is_an_empty_name : parse_samples_file [97; 10; 10; 98; 10] = [([97], None); ([], None); ([98], None)].
Proof. reflexivity. Qed.
