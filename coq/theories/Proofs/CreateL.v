(* Helper lemmas for CreateP: lists, qsum, set_nth, element-wise addition, population map
   facts, counting of selected columns. No statement of CreateP lives here. *)
From Sfs Require Import Index ArrayM Scalar Spectrum Project Create IndexP ArrayP BinomP ProjectP.
From Coq Require Import Lia Permutation.

Close Scope Qc_scope. Close Scope Q_scope. Open Scope nat_scope.

(* ------------------------------------------------------------------ lists *)
Lemma cp_list_eqb_eq a : forall b, list_eqb a b = true <-> a = b.
Proof.
  induction a as [|x a IH]; intros [|y b]; cbn [list_eqb]; split; intros H;
    try discriminate; try reflexivity.
  - apply andb_prop in H as [H1 H2]. apply Nat.eqb_eq in H1. apply IH in H2. congruence.
  - inversion H; subst. rewrite Nat.eqb_refl. cbn [andb]. now apply IH.
Qed.

Lemma cp_set_nth_length {A} (l : list A) : forall i v, length (set_nth l i v) = length l.
Proof. induction l as [|h t IH]; intros [|i] v; cbn [set_nth length]; auto. Qed.

Lemma cp_nth_set_nth {A} (l : list A) : forall i j v d,
  nth j (set_nth l i v) d = if (j =? i) && (i <? length l) then v else nth j l d.
Proof.
  induction l as [|h t IH]; intros i j v d.
  - cbn. rewrite Bool.andb_false_r. destruct i; reflexivity.
  - destruct i, j; cbn; try rewrite IH; reflexivity.
Qed.

Lemma cp_map_const_repeat {A B} (b : B) (l : list A) : map (fun _ => b) l = repeat b (length l).
Proof. induction l; cbn; congruence. Qed.

Lemma cp_repeat_snoc {A} (x : A) n : repeat x n ++ [x] = x :: repeat x n.
Proof. induction n; cbn; congruence. Qed.

Lemma cp_rev_repeat {A} (x : A) n : rev (repeat x n) = repeat x n.
Proof. induction n; cbn [repeat rev]; [reflexivity|]. rewrite IHn. apply cp_repeat_snoc. Qed.

Lemma cp_nth_le_Forall2 a : forall b, length a = length b ->
  (forall j, nth j a 0 <= nth j b 0) -> Forall2 le a b.
Proof.
  induction a as [|x a IH]; intros [|y b] Hl H; cbn [length] in Hl; try discriminate; constructor.
  - apply (H 0).
  - apply IH; [lia|]. intros j. apply (H (S j)).
Qed.

Lemma cp_all2_eqb a : forall b, length a = length b -> all2 Nat.eqb a b = true -> a = b.
Proof.
  induction a as [|x a IH]; intros [|y b] Hl H; cbn [length all2] in *; try discriminate; [reflexivity|].
  apply andb_prop in H as [H1 H2]. apply Nat.eqb_eq in H1. f_equal; [assumption|]. apply IH; [lia|assumption].
Qed.

Lemma cp_all2_le a : forall b, length a = length b ->
  all2 (fun total t => t <=? total) a b = true -> Forall2 le b a.
Proof.
  induction a as [|x a IH]; intros [|y b] Hl H; cbn [length all2] in *; try discriminate; constructor.
  - apply andb_prop in H as [H1 _]. now apply Nat.leb_le in H1.
  - apply andb_prop in H as [_ H2]. apply IH; [lia|assumption].
Qed.

Lemma cp_inb_nth sh : forall idx, length idx = length sh ->
  (forall j, j < length sh -> nth j idx 0 < nth j sh 0) -> inb sh idx = true.
Proof.
  induction sh as [|n t IH]; intros [|i r] Hl H; cbn [length] in *; try discriminate; [reflexivity|].
  cbn [inb]. apply andb_true_intro; split.
  - apply Nat.ltb_lt. apply (H 0). lia.
  - apply IH; [lia|]. intros j Hj. apply (H (S j)). lia.
Qed.

Lemma cp_nth_map_seq (f : nat -> nat) n j : j < n -> nth j (map f (seq 0 n)) 0 = f j.
Proof.
  intros Hj. rewrite (nth_indep _ 0 (f 0)) by (rewrite map_length, seq_length; assumption).
  rewrite map_nth. now rewrite seq_nth.
Qed.

(* ------------------------------------------------------------------ qsum *)
Lemma cp_fold_qplus l : forall a, fold_left Qcplus l a = (a + fold_left Qcplus l 0)%Qc.
Proof.
  induction l as [|x l IH]; intros a; cbn [fold_left].
  - ring.
  - rewrite IH, (IH (0 + x)%Qc). ring.
Qed.
Lemma cp_qsum_nil : qsum [] = 0%Qc.
Proof. reflexivity. Qed.
Lemma cp_qsum_cons x l : qsum (x :: l) = (x + qsum l)%Qc.
Proof. unfold qsum. cbn [fold_left]. rewrite cp_fold_qplus. ring. Qed.
Lemma cp_qsum_repeat0 n : qsum (repeat 0%Qc n) = 0%Qc.
Proof. induction n; cbn [repeat]; [reflexivity|]. rewrite cp_qsum_cons, IHn. ring. Qed.

Lemma cp_qsum_add1_at l : forall i, i < length l -> qsum (add1_at l i) = (qsum l + 1)%Qc.
Proof.
  unfold add1_at. induction l as [|x l IH]; intros [|i] Hi; cbn [length] in Hi; try lia;
    cbn [set_nth nth]; rewrite !cp_qsum_cons.
  - ring.
  - rewrite IH by lia. ring.
Qed.
Lemma cp_add1_at_length l i : length (add1_at l i) = length l.
Proof. apply cp_set_nth_length. Qed.

Lemma cp_zip_madd_length acc : forall vs w, length (zip_madd acc vs w) = length acc.
Proof. induction acc as [|a acc IH]; intros [|v vs] w; cbn [zip_madd length]; auto. Qed.

Lemma cp_qsum_zip_madd acc : forall vs w, length vs <= length acc ->
  qsum (zip_madd acc vs w) = (qsum acc + qsum vs * w)%Qc.
Proof.
  induction acc as [|a acc IH]; intros [|v vs] w Hl; cbn [zip_madd length] in *; try lia;
    rewrite ?cp_qsum_cons, ?cp_qsum_nil; try ring.
  rewrite IH by lia. ring.
Qed.

Lemma cp_qnat_S n : qnat (S n) = (qnat n + 1)%Qc.
Proof.
  unfold qnat. unfold Qcplus. apply Q2Qc_eq_iff.
  rewrite Nat2Z.inj_succ. unfold Z.succ. rewrite inject_Z_plus.
  change (this 1%Qc) with 1%Q. change (inject_Z 1) with 1%Q.
  apply Qplus_comp; [|reflexivity]. symmetry. apply Qred_correct.
Qed.
Lemma cp_qnat_0 : qnat 0 = 0%Qc.
Proof. apply Qc_is_canon. reflexivity. Qed.

(* ------------------------------------------------------------------ element-wise addition *)
Definition cp_zadd (a b : list Qc) : list Qc := map (fun p => (fst p + snd p)%Qc) (combine a b).

Lemma cp_zadd_nil_l b : cp_zadd [] b = [].
Proof. reflexivity. Qed.
Lemma cp_zadd_nil_r a : cp_zadd a [] = [].
Proof. destruct a; reflexivity. Qed.
Lemma cp_zadd_cons x a y b : cp_zadd (x :: a) (y :: b) = (x + y)%Qc :: cp_zadd a b.
Proof. reflexivity. Qed.

Lemma cp_zadd_comm a : forall b, cp_zadd a b = cp_zadd b a.
Proof.
  induction a as [|x a IH]; intros [|y b]; try reflexivity.
  rewrite !cp_zadd_cons, IH. f_equal; try ring.
Qed.
Lemma cp_zadd_assoc a : forall b c, cp_zadd a (cp_zadd b c) = cp_zadd (cp_zadd a b) c.
Proof.
  induction a as [|x a IH]; intros [|y b] [|z c]; try reflexivity.
  rewrite !cp_zadd_cons, IH. f_equal; try ring.
Qed.
Lemma cp_zadd_swap a b c : cp_zadd a (cp_zadd b c) = cp_zadd b (cp_zadd a c).
Proof. rewrite cp_zadd_assoc, (cp_zadd_comm a b), <- cp_zadd_assoc. reflexivity. Qed.

Lemma cp_zadd_zeros_r a : forall n, length a = n -> cp_zadd a (repeat 0%Qc n) = a.
Proof.
  induction a as [|x a IH]; intros [|n] Hl; cbn [length] in Hl; try discriminate; [reflexivity|].
  cbn [repeat]. rewrite cp_zadd_cons, IH by lia. f_equal; try ring.
Qed.
Lemma cp_zadd_zeros_l a n : length a = n -> cp_zadd (repeat 0%Qc n) a = a.
Proof. intros H. rewrite cp_zadd_comm. now apply cp_zadd_zeros_r. Qed.
Lemma cp_zadd_length a : forall b, length a = length b -> length (cp_zadd a b) = length a.
Proof.
  induction a as [|x a IH]; intros [|y b] Hl; cbn [length] in Hl; try discriminate; [reflexivity|].
  rewrite cp_zadd_cons. cbn [length]. rewrite IH by lia. reflexivity.
Qed.

Lemma cp_add1_at_zadd l : forall n i, length l = n ->
  add1_at l i = cp_zadd l (add1_at (repeat 0%Qc n) i).
Proof.
  unfold add1_at. induction l as [|x l IH]; intros [|n] i Hl; cbn [length] in Hl; try discriminate;
    [reflexivity|].
  destruct i as [|i]; cbn [repeat set_nth nth]; rewrite cp_zadd_cons.
  - rewrite cp_zadd_zeros_r by lia. f_equal; try ring.
  - rewrite <- IH by lia. f_equal; try ring.
Qed.

Lemma cp_zip_madd_zadd acc : forall n vs w, length acc = n ->
  zip_madd acc vs w = cp_zadd acc (zip_madd (repeat 0%Qc n) vs w).
Proof.
  induction acc as [|a acc IH]; intros [|n] vs w Hl; cbn [length] in Hl; try discriminate;
    [reflexivity|].
  destruct vs as [|v vs]; cbn [repeat zip_madd].
  - change (0%Qc :: repeat 0%Qc n) with (repeat 0%Qc (S n)). rewrite cp_zadd_zeros_r; [reflexivity|].
    cbn [length]. lia.
  - rewrite cp_zadd_cons, <- IH by lia. f_equal; try ring.
Qed.

(* ------------------------------------------------------------------ population map *)
Lemma cp_smap_get_in m : forall s pid, smap_get m s = Some pid -> In pid (map snd m).
Proof.
  induction m as [|[k v] m IH]; intros s pid H; cbn [smap_get] in H; [discriminate|].
  cbn [map snd]. destruct (name_eqb s k).
  - left. congruence.
  - right. eapply IH; eassumption.
Qed.

Lemma cp_in_distinct vals : forall x, In x vals -> In x (distinct vals).
Proof.
  induction vals as [|v t IH]; intros x Hx; [contradiction|].
  cbn [distinct]. destruct (existsb (Nat.eqb v) t) eqn:E.
  - destruct Hx as [<-|Hx]; [|now apply IH].
    apply existsb_exists in E as [y [Hy E]]. apply Nat.eqb_eq in E. subst. now apply IH.
  - destruct Hx as [<-|Hx]; [now left|]. right. now apply IH.
Qed.

Lemma cp_count_id_in id vals : count_id id vals <> 0 -> In id vals.
Proof.
  induction vals as [|v t IH]; cbn [count_id]; intros H; [lia|].
  destruct (v =? id) eqn:E.
  - left. now apply Nat.eqb_eq.
  - right. apply IH. lia.
Qed.

Definition cp_shape_step (vals : list nat) :=
  fun (id : nat) (acc : option shape) =>
    match acc with
    | None => None
    | Some sh => if count_id id vals =? 0 then None else Some (1 + 2 * count_id id vals :: sh)
    end.

Lemma cp_map_shape_aux vals l : forall sh,
  fold_right (cp_shape_step vals) (Some []) l = Some sh ->
  sh = map (fun id => 1 + 2 * count_id id vals) l /\ Forall (fun id => count_id id vals <> 0) l.
Proof.
  induction l as [|id l IH]; intros sh H; cbn [fold_right] in H.
  - inversion H. split; [reflexivity|constructor].
  - unfold cp_shape_step at 1 in H.
    destruct (fold_right (cp_shape_step vals) (Some []) l) as [sh'|]; [|discriminate].
    destruct (count_id id vals =? 0) eqn:E; [discriminate|]. inversion H; subst.
    destruct (IH sh' eq_refl) as [-> HF]. split; [reflexivity|].
    constructor; [|assumption]. now apply Nat.eqb_neq.
Qed.

Lemma cp_map_shape_some m sh : map_shape m = Some sh ->
  sh = map (fun id => 1 + 2 * count_id id (map snd m)) (seq 0 (number_of_populations m)) /\
  (forall s pid, smap_get m s = Some pid -> pid < number_of_populations m).
Proof.
  intros H. unfold map_shape in H. cbv zeta in H.
  change (fold_right (cp_shape_step (map snd m)) (Some []) (seq 0 (number_of_populations m)) = Some sh) in H.
  apply cp_map_shape_aux in H as [Hsh HF]. split; [assumption|].
  intros s pid Hg.
  assert (Hin : In pid (distinct (map snd m))) by (apply cp_in_distinct; eapply cp_smap_get_in; eassumption).
  assert (Hincl : incl (distinct (map snd m)) (seq 0 (number_of_populations m))).
  { apply NoDup_length_incl.
    - apply seq_NoDup.
    - rewrite seq_length. unfold number_of_populations. lia.
    - intros id Hid. rewrite Forall_forall in HF. apply cp_in_distinct, cp_count_id_in, HF, Hid. }
  apply Hincl in Hin. apply in_seq in Hin. lia.
Qed.

Lemma cp_map_shape_positive m sh : map_shape m = Some sh -> positive_shape sh.
Proof.
  intros H. apply cp_map_shape_some in H as [-> _]. unfold positive_shape.
  apply Forall_forall. intros x Hx. apply in_map_iff in Hx as [id [<- _]]. lia.
Qed.

Lemma cp_map_shape_length m sh : map_shape m = Some sh -> length sh = number_of_populations m.
Proof. intros H. apply cp_map_shape_some in H as [-> _]. now rewrite map_length, seq_length. Qed.

Lemma cp_map_shape_nth m sh j : map_shape m = Some sh -> j < number_of_populations m ->
  nth j sh 0 = 1 + 2 * count_id j (map snd m).
Proof.
  intros H Hj. apply cp_map_shape_some in H as [-> _].
  now rewrite (cp_nth_map_seq (fun id => 1 + 2 * count_id id (map snd m))).
Qed.

Lemma cp_count_of_shape_some sh : forall c, count_of_shape sh = Some c -> sh = map S c.
Proof.
  induction sh as [|n t IH]; intros c H; cbn [count_of_shape] in H.
  - inversion H. reflexivity.
  - destruct n as [|n]; [discriminate|]. destruct (count_of_shape t) as [r|]; [|discriminate].
    inversion H; subst. cbn [map]. f_equal. now apply IH.
Qed.

Lemma cp_first_smaller_none from : forall i to, length from = length to ->
  first_smaller i from to = None -> Forall2 le to from.
Proof.
  induction from as [|f from IH]; intros i [|t to] Hl H; cbn [length] in Hl; try discriminate; constructor.
  - cbn [first_smaller] in H. destruct (f <? t) eqn:E; [discriminate|]. apply Nat.ltb_ge in E. exact E.
  - cbn [first_smaller] in H. destruct (f <? t); [discriminate|]. eapply IH; [|eassumption]. lia.
Qed.

(* ------------------------------------------------------------------ counting selected columns *)
Fixpoint cp_cnt (m : smap) (j : nat) (cols : list name) : nat :=
  match cols with
  | [] => 0
  | c :: t => (match smap_get m c with Some p => if p =? j then 1 else 0 | None => 0 end) + cp_cnt m j t
  end.
Fixpoint cp_occ (k : name) (cols : list name) : nat :=
  match cols with [] => 0 | c :: t => (if name_eqb c k then 1 else 0) + cp_occ k t end.

Lemma cp_occ_notin k cols : ~ In k cols -> cp_occ k cols = 0.
Proof.
  induction cols as [|c t IH]; intros H; cbn [cp_occ]; [reflexivity|].
  destruct (name_eqb c k) eqn:E.
  - apply cp_list_eqb_eq in E. subst. exfalso. apply H. now left.
  - rewrite IH; [reflexivity|]. intros Hin. apply H. now right.
Qed.
Lemma cp_occ_nodup k cols : NoDup cols -> cp_occ k cols <= 1.
Proof.
  induction 1 as [|c t Hnin Hnd IH]; cbn [cp_occ]; [lia|].
  destruct (name_eqb c k) eqn:E; [|lia].
  apply cp_list_eqb_eq in E. subst. rewrite cp_occ_notin by assumption. lia.
Qed.
Lemma cp_cnt_cons k v m j cols :
  cp_cnt ((k, v) :: m) j cols <= (if v =? j then cp_occ k cols else 0) + cp_cnt m j cols.
Proof.
  induction cols as [|c t IH]; cbn [cp_cnt cp_occ smap_get]; [lia|].
  destruct (name_eqb c k); destruct (v =? j); destruct (smap_get m c) as [p|];
    try destruct (p =? j); lia.
Qed.
Lemma cp_cnt_nil j cols : cp_cnt [] j cols = 0.
Proof. induction cols; cbn [cp_cnt smap_get]; lia. Qed.
Lemma cp_cnt_le m j cols : NoDup cols -> cp_cnt m j cols <= count_id j (map snd m).
Proof.
  intros Hnd. induction m as [|[k v] m IH].
  - rewrite cp_cnt_nil. lia.
  - pose proof (cp_cnt_cons k v m j cols) as H1. pose proof (cp_occ_nodup k cols Hnd) as H2.
    cbn [map snd count_id]. destruct (v =? j); lia.
Qed.

(* ------------------------------------------------------------------ add_nth *)
Lemma cp_add_nth_length l i v : length (add_nth l i v) = length l.
Proof. apply cp_set_nth_length. Qed.
Lemma cp_nth_add_nth l i v j :
  nth j (add_nth l i v) 0 = if (j =? i) && (i <? length l) then nth i l 0 + v else nth j l 0.
Proof. unfold add_nth. apply cp_nth_set_nth. Qed.
