(* Proofs for properties C03/C02 (projection). Statements are FIXED; replace every Admitted by a proof.
   The hypergeometric facts you need are in BinomP (in your working copy they are still Admitted
   there: that is expected, another worker proves them; do NOT prove them here, just use them). *)
From Sfs Require Import Index ArrayM Scalar Spectrum Project IndexP ArrayP BinomP.
From Sfs Require Export QsumP.
From Coq Require Import Lia Permutation.

Close Scope Qc_scope. Close Scope Q_scope. Open Scope nat_scope.

Lemma count_of_shape_spec sh :
  count_of_shape sh = if positive_shapeb sh then Some (dec sh) else None.
Proof.
  induction sh as [|n t IH]; [reflexivity|].
  cbn [count_of_shape]. rewrite IH. unfold positive_shapeb, dec. cbn [forallb map].
  destruct n as [|m]; [reflexivity|]. change (0 <? S m) with true. cbn [andb pred].
  destruct (forallb _ t); reflexivity.
Qed.

(* ---- helpers: dec, first_smaller, Projection::new ---- *)
Lemma nth_dec d sh : nth d (dec sh) 0 = nth d sh 0 - 1.
Proof.
  revert d; induction sh as [|n t IH]; intros [|d]; cbn [dec map nth]; try reflexivity; [lia|apply IH].
Qed.

Lemma dec_length sh : length (dec sh) = length sh.
Proof. apply map_length. Qed.

Lemma map_S_dec sh : positive_shape sh -> map S (dec sh) = sh.
Proof.
  induction sh as [|n t IH]; intros Hp; [reflexivity|].
  apply positive_shape_cons in Hp as [Hn Ht]. cbn [dec map]. fold (dec t). rewrite IH by assumption.
  f_equal. lia.
Qed.

Lemma positive_map_S l : positive_shape (map S l).
Proof. induction l as [|a l IH]; cbn [map]; [constructor|]. apply positive_shape_cons. split; [lia|exact IH]. Qed.

Lemma positive_nth sh j : positive_shape sh -> j < length sh -> 0 < nth j sh 0.
Proof.
  intros Hp Hj. unfold positive_shape in Hp. rewrite Forall_forall in Hp. apply Hp. now apply nth_In.
Qed.

Lemma first_smaller_spec i f t : length f = length t ->
  match first_smaller i f t with
  | None => Forall2 le t f
  | Some (d, a, b) => i <= d /\ a = nth (d - i) f 0 /\ b = nth (d - i) t 0 /\ a < b /\
                      (forall j, j < d - i -> nth j t 0 <= nth j f 0) /\ ~ Forall2 le t f
  end.
Proof.
  revert i t; induction f as [|a f IH]; intros i [|b t] Hl; cbn [length] in Hl; try discriminate.
  - cbn. constructor.
  - cbn [first_smaller]. destruct (a <? b) eqn:E.
    + apply Nat.ltb_lt in E. rewrite Nat.sub_diag. cbn [nth].
      split; [lia|]. split; [reflexivity|]. split; [reflexivity|]. split; [assumption|].
      split; [intros j Hj; lia|]. intros H; inversion H; subst; lia.
    + apply Nat.ltb_ge in E. specialize (IH (S i) t ltac:(lia)).
      destruct (first_smaller (S i) f t) as [[[d a'] b']|].
      * destruct IH as (H1 & H2 & H3 & H4 & H5 & H6).
        replace (d - i) with (S (d - S i)) by lia. cbn [nth].
        split; [lia|]. split; [assumption|]. split; [assumption|]. split; [assumption|].
        split.
        -- intros [|j] Hj; cbn [nth]; [lia|]. apply H5. lia.
        -- intros H; inversion H; subst; auto.
      * constructor; assumption.
Qed.

Lemma Forall2_len {A B} {R : A -> B -> Prop} {l l'} : Forall2 R l l' -> length l = length l'.
Proof. induction 1; cbn [length]; auto. Qed.

Lemma Forall2_le_dec to sh : Forall2 le to sh -> Forall2 le (dec to) (dec sh).
Proof. induction 1; cbn [dec map]; constructor; [lia|assumption]. Qed.

Lemma Forall2_le_undec to sh :
  positive_shape to -> positive_shape sh -> Forall2 le (dec to) (dec sh) -> Forall2 le to sh.
Proof.
  revert sh; induction to as [|m to IH]; intros [|n sh] Hpt Hps H; cbn [dec map] in H;
    inversion H; subst; constructor.
  - apply positive_shape_cons in Hpt as [? ?]. apply positive_shape_cons in Hps as [? ?]. lia.
  - apply positive_shape_cons in Hpt as [? ?]. apply positive_shape_cons in Hps as [? ?]. now apply IH.
Qed.

Lemma Forall2_le_trans a b c : Forall2 le a b -> Forall2 le b c -> Forall2 le a c.
Proof.
  intros H; revert c; induction H; intros c Hc; inversion Hc; subst; constructor; [lia|auto].
Qed.

Lemma Forall2_le_refl a : Forall2 le a a.
Proof. induction a; constructor; auto. Qed.

Lemma projection_from_shapes_spec sh to :
  projection_from_shapes sh to =
  if positive_shapeb sh && positive_shapeb to then projection_new (dec sh) (dec to) else inr PZero.
Proof.
  unfold projection_from_shapes. rewrite !count_of_shape_spec.
  destruct (positive_shapeb sh), (positive_shapeb to); reflexivity.
Qed.

Lemma projection_new_ok f t : Forall2 le t f -> projection_new f t = inl (f, t).
Proof.
  intros H. unfold projection_new. pose proof (Forall2_len H) as Hl.
  rewrite Hl, Nat.eqb_refl. pose proof (first_smaller_spec 0 f t (eq_sym Hl)) as Hs.
  destruct (first_smaller 0 f t) as [[[d a] b]|]; [|reflexivity].
  destruct Hs as (_ & _ & _ & _ & _ & Hn). contradiction.
Qed.

Lemma projection_new_inl f t p : projection_new f t = inl p -> p = (f, t) /\ Forall2 le t f.
Proof.
  unfold projection_new. destruct (length f =? length t) eqn:E.
  - apply Nat.eqb_eq in E. pose proof (first_smaller_spec 0 f t E) as Hs.
    destruct (first_smaller 0 f t) as [[[d a] b]|]; [discriminate|].
    intros H; inversion H; auto.
  - destruct (length f =? 0); discriminate.
Qed.

Definition project_data (x : spectrum) (to : shape) : list Qc :=
  fold_left (fun acc '(w, from) => project_add (dec (ashape x)) (dec to) acc w from)
    (combine (adata x) (map (index_from_flat (ashape x)) (seq 0 (elements (ashape x)))))
    (repeat 0%Qc (elements to)).

Lemma project_ok x to : positive_shape (ashape x) -> positive_shape to -> Forall2 le to (ashape x) ->
  project x to = inl {| adata := project_data x to; ashape := to |}.
Proof.
  intros Hps Hpt Hle. unfold project. rewrite projection_from_shapes_spec.
  apply positive_shapeb_iff in Hps, Hpt. rewrite Hps, Hpt. cbn [andb].
  rewrite projection_new_ok by now apply Forall2_le_dec. reflexivity.
Qed.

Lemma project_inv x to y : project x to = inl y ->
  positive_shape (ashape x) /\ positive_shape to /\ Forall2 le to (ashape x).
Proof.
  unfold project. rewrite projection_from_shapes_spec.
  destruct (positive_shapeb (ashape x)) eqn:E1; cbn [andb]; [|discriminate].
  destruct (positive_shapeb to) eqn:E2; [|discriminate].
  apply positive_shapeb_iff in E1, E2.
  destruct (projection_new _ _) as [p|e] eqn:E; [|discriminate].
  apply projection_new_inl in E as [-> HF]. intros _. repeat split; auto. now apply Forall2_le_undec.
Qed.

(* ---- error characterisation: larger target, zero, different dimensionality ---- *)
Theorem project_ok_iff x to :
  (exists y, project x to = inl y) <->
  (positive_shape (ashape x) /\ positive_shape to /\ length (ashape x) = length to /\ Forall2 le to (ashape x)).
Proof.
  split.
  - intros [y H]. apply project_inv in H as (H1 & H2 & H3). repeat split; auto.
    symmetry. exact (Forall2_len H3).
  - intros (H1 & H2 & _ & H3). eexists. now apply project_ok.
Qed.
Theorem project_err_zero x to : (~ positive_shape (ashape x) \/ ~ positive_shape to) -> project x to = inr PZero.
Proof.
  intros H. unfold project. rewrite projection_from_shapes_spec.
  destruct (positive_shapeb (ashape x)) eqn:E1; cbn [andb]; [|reflexivity].
  destruct (positive_shapeb to) eqn:E2; [|reflexivity].
  apply positive_shapeb_iff in E1, E2. exfalso. destruct H as [H|H]; apply H; assumption.
Qed.
Theorem project_err_dims x to : positive_shape (ashape x) -> positive_shape to -> ashape x <> [] ->
  length (ashape x) <> length to -> project x to = inr (PUnequalDimensions (length (ashape x)) (length to)).
Proof.
  intros Hps Hpt Hne Hl. unfold project. rewrite projection_from_shapes_spec.
  apply positive_shapeb_iff in Hps, Hpt. rewrite Hps, Hpt. cbn [andb].
  unfold projection_new. rewrite !dec_length.
  destruct (length (ashape x) =? length to) eqn:E; [apply Nat.eqb_eq in E; contradiction|].
  destruct (length (ashape x) =? 0) eqn:E0; [|reflexivity].
  apply Nat.eqb_eq in E0. apply length_zero_iff_nil in E0. contradiction.
Qed.
Theorem project_err_larger x to : positive_shape (ashape x) -> positive_shape to ->
  length (ashape x) = length to -> ~ Forall2 le to (ashape x) ->
  exists d, project x to = inr (PInvalidProjection d (nth d (ashape x) 0 - 1) (nth d to 0 - 1)) /\
            nth d (ashape x) 0 < nth d to 0 /\ forall j, j < d -> nth j to 0 <= nth j (ashape x) 0.
Proof.
  intros Hps Hpt Hl Hn. unfold project. rewrite projection_from_shapes_spec.
  pose proof Hps as Hps'. pose proof Hpt as Hpt'.
  apply positive_shapeb_iff in Hps', Hpt'. rewrite Hps', Hpt'. cbn [andb].
  unfold projection_new. rewrite !dec_length, Hl, Nat.eqb_refl.
  assert (Hl' : length (dec (ashape x)) = length (dec to)) by (rewrite !dec_length; exact Hl).
  pose proof (first_smaller_spec 0 _ _ Hl') as Hs.
  destruct (first_smaller 0 (dec (ashape x)) (dec to)) as [[[d a] b]|].
  - destruct Hs as (_ & -> & -> & H4 & H5 & _). rewrite Nat.sub_0_r in *. rewrite !nth_dec in *.
    exists d. split; [reflexivity|]. split; [lia|]. intros j Hj. specialize (H5 j Hj).
    rewrite !nth_dec in H5.
    destruct (Nat.lt_ge_cases j (length (ashape x))) as [Hlt|Hge].
    + pose proof (positive_nth _ _ Hps Hlt). lia.
    + rewrite (nth_overflow to) by lia. lia.
  - exfalso. apply Hn. now apply Forall2_le_undec.
Qed.

(* ---- project_value ---- *)
Lemma pv_nil : project_value [] [] [] [] = 1%Qc.
Proof. reflexivity. Qed.

Lemma pv_cons N pf K k n pt i r :
  project_value (N :: pf) (K :: k) (n :: pt) (i :: r) = (hyp N K n i * project_value pf k pt r)%Qc.
Proof. unfold project_value. cbn [zip4 map]. now rewrite qprod_cons. Qed.

Lemma pv_nonneg pf k pt r : (0 <= project_value pf k pt r)%Qc.
Proof.
  unfold project_value. apply qprod_nonneg. rewrite Forall_forall. intros v Hv.
  apply in_map_iff in Hv as [[[[a b] c] d] [<- _]]. apply hyp_nonneg.
Qed.

Lemma project_value_sum_one pfrom from pto :
  length pfrom = length from -> length from = length pto ->
  Forall2 le from pfrom -> Forall2 le pto pfrom ->
  qsum (map (project_value pfrom from pto) (indices (map S pto))) = 1%Qc.
Proof.
  intros _ _. revert pfrom from. induction pto as [|n pt IH]; intros pf k Hk Hp.
  - inversion Hp; subst. inversion Hk; subst. cbn [map indices]. rewrite qsum_cons, qsum_nil, pv_nil. ring.
  - inversion Hp as [|? N ? pf' HnN Hp']; subst. inversion Hk as [|K ? k' ? HKN Hk']; subst.
    cbn [map]. rewrite qsum_indices_cons.
    rewrite (qsum_map_ext _ (fun i => (hyp N K n i * 1)%Qc)).
    + rewrite qsum_map_scale_r, hyp_sum_one by assumption. ring.
    + intros i _.
      rewrite (qsum_map_ext _ (fun r => (hyp N K n i * project_value pf' k' pt r)%Qc))
        by (intros r _; apply pv_cons).
      rewrite qsum_map_scale. now rewrite IH.
Qed.

Lemma inb_le_dec sh k : inb sh k = true -> Forall2 le k (dec sh).
Proof.
  revert k; induction sh as [|n t IH]; intros [|i r] H; cbn [inb] in H; try discriminate; [constructor|].
  apply andb_prop in H as [Hi H]. apply Nat.ltb_lt in Hi. cbn [dec map]. constructor; [lia|now apply IH].
Qed.

(* ---- the ProjectIter odometer enumerates the target index space in row-major order ---- *)
Lemma dot_zeros_l d l : dot (repeat 0 d) l = 0.
Proof. revert l; induction d as [|d IH]; intros [|a l]; cbn [repeat dot]; auto. rewrite IH. lia. Qed.

Lemma rev_repeat {A} (a : A) d : rev (repeat a d) = repeat a d.
Proof.
  induction d as [|d IH]; [reflexivity|]. cbn [repeat rev]. rewrite IH.
  clear. induction d; cbn; [reflexivity|]. now f_equal.
Qed.

Lemma proj_iter_from pfrom from pto fuel j :
  1 <= j -> j + fuel <= elements (map S pto) ->
  proj_iter fuel pfrom from pto (rdigits (rev (map S pto)) (j - 1)) j =
  map (fun m => project_value pfrom from pto (unflat (map S pto) m)) (seq j fuel).
Proof.
  pose proof (positive_map_S pto) as Hp.
  revert j; induction fuel as [|f IH]; intros j H1 Hj; [reflexivity|].
  cbn [proj_iter seq map].
  destruct (j =? 0) eqn:E0; [apply Nat.eqb_eq in E0; lia|].
  assert (Hodo : odo (rev (map S pto)) (repeat 0 (length pto)) (rdigits (rev (map S pto)) (j - 1)) 0 =
                 (rdigits (rev (map S pto)) j, 0, true)).
  { pose proof (@odo_step (rev (map S pto)) (repeat 0 (length pto)) (j - 1)) as H.
    rewrite !dot_zeros_l in H. replace (S (j - 1)) with j in H by lia. apply H.
    - now apply positive_rev.
    - now rewrite repeat_length, rev_length, map_length.
    - rewrite elements_rev. lia. }
  rewrite Hodo. rewrite rdigits_unflat by (assumption || lia). f_equal.
  replace j with (S j - 1) at 1 by lia. apply IH; lia.
Qed.

Lemma proj_iter_spec pfrom from pto :
  proj_iter (elements (map S pto)) pfrom from pto (repeat 0 (length pto)) 0 =
  map (project_value pfrom from pto) (indices (map S pto)).
Proof.
  pose proof (positive_map_S pto) as Hp. pose proof (elements_pos _ Hp) as He.
  rewrite indices_unflat, map_map by assumption.
  destruct (elements (map S pto)) as [|E] eqn:HE; [lia|].
  cbn [proj_iter Nat.eqb seq map]. f_equal.
  - f_equal. rewrite <- (rdigits_unflat (sh:=map S pto) (k:=0)) by (assumption || lia).
    rewrite rdigits_0 by now apply positive_rev. now rewrite rev_length, map_length.
  - assert (Hz : repeat 0 (length pto) = rdigits (rev (map S pto)) (1 - 1)).
    { cbn [Nat.sub]. rewrite rdigits_0 by now apply positive_rev. now rewrite rev_length, map_length. }
    rewrite Hz. apply proj_iter_from; lia.
Qed.

(* ---- data of the projection ---- *)
Lemma zip_madd_map {A} (g h : A -> Qc) l w :
  zip_madd (map g l) (map h l) w = map (fun i => (g i + h i * w)%Qc) l.
Proof. induction l as [|a l IH]; cbn [map zip_madd]; [reflexivity|]. now rewrite IH. Qed.

Lemma project_add_map pfrom pto g w from :
  project_add pfrom pto (map g (indices (map S pto))) w from =
  map (fun k' => (g k' + project_value pfrom from pto k' * w)%Qc) (indices (map S pto)).
Proof.
  unfold project_add. rewrite map_length, indices_length, proj_iter_spec. apply zip_madd_map.
Qed.

Lemma fold_project_add pfrom pto L g :
  fold_left (fun acc '(w, from) => project_add pfrom pto acc w from) L (map g (indices (map S pto))) =
  map (fun k' => (g k' + qsum (map (fun '(w, from) => (project_value pfrom from pto k' * w)%Qc) L))%Qc)
      (indices (map S pto)).
Proof.
  revert g; induction L as [|[w from] L IH]; intros g; cbn [fold_left map].
  - apply map_ext. intros k'. rewrite qsum_nil. ring.
  - rewrite project_add_map, IH. apply map_ext. intros k'. rewrite qsum_cons. ring.
Qed.

Lemma repeat_map_const {A B} (c : B) (l : list A) : repeat c (length l) = map (fun _ => c) l.
Proof. induction l as [|a l IH]; cbn [length repeat map]; [reflexivity|]. now rewrite IH. Qed.

Lemma list_as_map_seq {A} (l : list A) d : l = map (fun i => nth i l d) (seq 0 (length l)).
Proof.
  induction l as [|a l IH]; [reflexivity|]. cbn [length seq map nth]. f_equal.
  rewrite <- seq_shift, map_map. exact IH.
Qed.

Lemma combine_map {A B C} (f : A -> B) (g : A -> C) l :
  combine (map f l) (map g l) = map (fun x => (f x, g x)) l.
Proof. induction l as [|a l IH]; cbn [map combine]; [reflexivity|]. now rewrite IH. Qed.

Lemma q_getd_unflat (x : spectrum) i :
  positive_shape (ashape x) -> i < length (adata x) -> i < elements (ashape x) ->
  q_getd x (unflat (ashape x) i) = nth i (adata x) 0%Qc.
Proof.
  intros Hp Hi Hi'. unfold q_getd. rewrite get_unflat by assumption.
  now rewrite (nth_error_nth' _ 0%Qc Hi).
Qed.

Lemma adata_getd (x : spectrum) :
  wf x -> positive_shape (ashape x) -> adata x = map (q_getd x) (indices (ashape x)).
Proof.
  intros Hwf Hp. rewrite indices_unflat, map_map by assumption.
  rewrite (list_as_map_seq (adata x) 0%Qc) at 1. rewrite Hwf. apply map_ext_in.
  intros i Hi. apply in_seq in Hi. symmetry. apply q_getd_unflat; [assumption| |lia].
  unfold wf in Hwf. lia.
Qed.

Lemma project_data_spec x to :
  wf x -> positive_shape (ashape x) -> positive_shape to ->
  project_data x to = map (project_spec x to) (indices to).
Proof.
  intros Hwf Hps Hpt. unfold project_data.
  rewrite <- (indices_length to), repeat_map_const.
  pose proof (fold_project_add (dec (ashape x)) (dec to)) as Hfold.
  rewrite (map_S_dec to Hpt) in Hfold. rewrite Hfold. clear Hfold.
  apply map_ext. intros k'. unfold project_spec.
  rewrite (indices_unflat _ Hps), map_map.
  rewrite (list_as_map_seq (adata x) 0%Qc) at 1. rewrite Hwf, combine_map, map_map.
  rewrite Qcplus_0_l. apply qsum_map_ext. intros i Hi. apply in_seq in Hi.
  rewrite index_from_flat_unflat by assumption.
  rewrite q_getd_unflat; [ring|assumption| |lia]. unfold wf in Hwf. lia.
Qed.

Definition mk_proj (x : spectrum) (to : shape) : spectrum :=
  {| adata := map (project_spec x to) (indices to); ashape := to |}.

Lemma project_eq x to :
  wf x -> positive_shape (ashape x) -> positive_shape to -> Forall2 le to (ashape x) ->
  project x to = inl (mk_proj x to).
Proof.
  intros Hwf Hps Hpt Hle. rewrite project_ok by assumption. unfold mk_proj.
  now rewrite project_data_spec.
Qed.

Lemma project_inv_eq x to y :
  wf x -> project x to = inl y ->
  positive_shape (ashape x) /\ positive_shape to /\ Forall2 le to (ashape x) /\ y = mk_proj x to.
Proof.
  intros Hwf H. destruct (project_inv _ _ _ H) as (H1 & H2 & H3).
  rewrite project_eq in H by assumption. inversion H. auto.
Qed.

Lemma nth_error_indices s k :
  positive_shape s -> inb s k = true -> nth_error (indices s) (flat s k) = Some k.
Proof.
  intros Hp Hin. pose proof (flat_lt _ _ Hin) as Hlt.
  assert (Hl : flat s k < length (indices s)) by now rewrite indices_length.
  rewrite (nth_error_nth' _ [] Hl), nth_indices, unflat_flat by assumption. reflexivity.
Qed.

Lemma get_mk (g : list nat -> Qc) s k :
  positive_shape s -> inb s k = true ->
  get {| adata := map g (indices s); ashape := s |} k = Some (g k).
Proof.
  intros Hp Hin. rewrite get_spec. cbn [ashape adata]. rewrite Hin.
  rewrite nth_error_map, nth_error_indices by assumption. reflexivity.
Qed.

Lemma q_getd_mk (g : list nat -> Qc) s k :
  positive_shape s -> inb s k = true ->
  q_getd {| adata := map g (indices s); ashape := s |} k = g k.
Proof. intros Hp Hin. unfold q_getd. now rewrite get_mk. Qed.

Lemma wf_mk (g : list nat -> Qc) s : wf {| adata := map g (indices s); ashape := s |}.
Proof. unfold wf. cbn [adata ashape]. now rewrite map_length, indices_length. Qed.

(* ---- refinement: every entry is sum_k x[k] * prod_j Hypergeom(k'_j; n_j, k_j, m_j) ---- *)
Theorem project_refines_spec x to y :
  wf x -> project x to = inl y ->
  wf y /\ ashape y = to /\ forall k', inb to k' = true -> get y k' = Some (project_spec x to k').
Proof.
  intros Hwf H. apply project_inv_eq in H as (Hps & Hpt & Hle & ->); [|assumption].
  unfold mk_proj. split; [apply wf_mk|]. split; [reflexivity|].
  intros k' Hin. now apply get_mk.
Qed.

(* ---- laws ---- *)
Theorem project_mass x to y : wf x -> project x to = inl y -> spectrum_sum y = spectrum_sum x.
Proof.
  intros Hwf H. apply project_inv_eq in H as (Hps & Hpt & Hle & ->); [|assumption].
  unfold spectrum_sum, mk_proj. cbn [adata].
  rewrite (adata_getd x Hwf Hps). unfold project_spec.
  rewrite qsum_exchange.
  apply qsum_map_ext. intros k Hk. apply in_indices in Hk; [|assumption].
  rewrite qsum_map_scale.
  pose proof (project_value_sum_one (dec (ashape x)) k (dec to)) as H1.
  rewrite (map_S_dec to Hpt) in H1. rewrite H1; [ring| | | |].
  - rewrite dec_length. symmetry. now apply inb_length.
  - rewrite dec_length, (inb_length _ _ Hk). exact (eq_sym (Forall2_len Hle)).
  - now apply inb_le_dec.
  - now apply Forall2_le_dec.
Qed.

Lemma Qcmult_nonneg a b : (0 <= a)%Qc -> (0 <= b)%Qc -> (0 <= a * b)%Qc.
Proof. intros Ha Hb. replace 0%Qc with (0 * b)%Qc by ring. now apply Qcmult_le_compat_r. Qed.

Lemma q_getd_nonneg (x : spectrum) k :
  Forall (fun v => (0 <= v)%Qc) (adata x) -> (0 <= q_getd x k)%Qc.
Proof.
  intros H. unfold q_getd. rewrite get_spec. destruct (inb (ashape x) k); [|apply Qcle_refl].
  destruct (nth_error (adata x) (flat (ashape x) k)) eqn:E; [|apply Qcle_refl].
  apply nth_error_In in E. rewrite Forall_forall in H. now apply H.
Qed.

Theorem project_nonneg x to y : wf x -> project x to = inl y ->
  Forall (fun v => (0 <= v)%Qc) (adata x) -> Forall (fun v => (0 <= v)%Qc) (adata y).
Proof.
  intros Hwf H Hnn. apply project_inv_eq in H as (Hps & Hpt & Hle & ->); [|assumption].
  unfold mk_proj. cbn [adata]. rewrite Forall_forall. intros v Hv.
  apply in_map_iff in Hv as [k' [<- _]]. unfold project_spec. apply qsum_nonneg.
  rewrite Forall_forall. intros v Hv. apply in_map_iff in Hv as [k [<- _]].
  apply Qcmult_nonneg; [now apply q_getd_nonneg|apply pv_nonneg].
Qed.

Lemma list_eqb_eq a b : list_eqb a b = true <-> a = b.
Proof.
  revert b; induction a as [|x a IH]; intros [|y b]; cbn [list_eqb]; split; intros H;
    try discriminate; try reflexivity.
  - apply andb_prop in H as [H1 H2]. apply Nat.eqb_eq in H1. apply IH in H2. now subst.
  - inversion H; subst. rewrite Nat.eqb_refl. cbn [andb]. now apply IH.
Qed.

Lemma pv_id pf k k' : Forall2 le k pf -> length k' = length pf ->
  project_value pf k pf k' = if list_eqb k k' then 1%Qc else 0%Qc.
Proof.
  intros H; revert k'; induction H as [|K N k pf HKN H IH]; intros [|i' r'] Hl; cbn [length] in Hl;
    try discriminate.
  - reflexivity.
  - rewrite pv_cons, hyp_id, IH by (assumption || lia). cbn [list_eqb].
    destruct (K =? i'), (list_eqb k r'); cbn [andb]; ring.
Qed.

Lemma project_spec_id x k' :
  positive_shape (ashape x) -> In k' (indices (ashape x)) ->
  project_spec x (ashape x) k' = q_getd x k'.
Proof.
  intros Hp Hin. unfold project_spec.
  rewrite (qsum_map_ext _ (fun k => if list_eqb k k' then q_getd x k else 0%Qc)).
  - apply qsum_delta; [|now apply NoDup_indices|assumption]. intros k _. apply list_eqb_eq.
  - intros k Hk. apply in_indices in Hk, Hin; try assumption.
    rewrite pv_id; [destruct (list_eqb k k'); ring|now apply inb_le_dec|].
    now rewrite dec_length, (inb_length _ _ Hin).
Qed.

Theorem project_id x : wf x -> positive_shape (ashape x) -> project x (ashape x) = inl x.
Proof.
  intros Hwf Hp. rewrite project_eq; auto using Forall2_le_refl. f_equal.
  assert (Hd : map (project_spec x (ashape x)) (indices (ashape x)) = adata x).
  { transitivity (map (q_getd x) (indices (ashape x))); [|symmetry; now apply adata_getd].
    apply map_ext_in. intros k' Hk'. now apply project_spec_id. }
  unfold mk_proj. rewrite Hd. destruct x; reflexivity.
Qed.

Lemma pv_compose pf k p1 p2 k'' :
  Forall2 le k pf -> Forall2 le p1 pf -> Forall2 le p2 p1 -> length k'' = length p2 ->
  qsum (map (fun k' => (project_value pf k p1 k' * project_value p1 k' p2 k'')%Qc) (indices (map S p1))) =
  project_value pf k p2 k''.
Proof.
  revert pf k p2 k''; induction p1 as [|m p1 IH];
    intros [|N pf] [|K k] [|l p2] [|i'' r''] Hk H1 H2 Hl;
    try (now inversion H1); try (now inversion Hk); try (now inversion H2); try discriminate.
  inversion H1 as [|? ? ? ? HmN H1']; subst. inversion Hk as [|? ? ? ? HKN Hk']; subst.
    inversion H2 as [|? ? ? ? Hlm H2']; subst. cbn [length] in Hl.
  cbn [map]. rewrite qsum_indices_cons.
  rewrite (qsum_map_ext _ (fun i => ((hyp N K m i * hyp m i l i'') * project_value pf k p2 r'')%Qc)).
  - rewrite qsum_map_scale_r, hyp_compose by assumption. now rewrite pv_cons.
  - intros i _.
      rewrite (qsum_map_ext _ (fun r => ((hyp N K m i * hyp m i l i'') *
                 (project_value pf k p1 r * project_value p1 r p2 r''))%Qc))
        by (intros r _; rewrite !pv_cons; ring).
      rewrite qsum_map_scale. rewrite IH by (assumption || lia). reflexivity.
Qed.

Theorem project_compose x s1 s2 y1 y2 :
  wf x -> project x s1 = inl y1 -> project y1 s2 = inl y2 -> project x s2 = inl y2.
Proof.
  intros Hwf H1 H2. apply project_inv_eq in H1 as (Hps & Hp1 & Hle1 & ->); [|assumption].
  apply project_inv_eq in H2 as (_ & Hp2 & Hle2 & ->); [|apply wf_mk].
  cbn [mk_proj ashape] in Hle2.
  rewrite project_eq; [|assumption|assumption|assumption|eapply Forall2_le_trans; eassumption].
  f_equal. unfold mk_proj. f_equal. apply map_ext_in. intros k'' Hk''.
  apply in_indices in Hk''; [|assumption].
  symmetry. unfold project_spec at 1. cbn [ashape].
  rewrite (qsum_map_ext _ (fun k' => qsum (map (fun k =>
             (q_getd x k * (project_value (dec (ashape x)) k (dec s1) k' *
                            project_value (dec s1) k' (dec s2) k''))%Qc) (indices (ashape x))))).
  - rewrite qsum_exchange. unfold project_spec. apply qsum_map_ext. intros k Hk.
    apply in_indices in Hk; [|assumption].
    rewrite qsum_map_scale. f_equal.
    pose proof (pv_compose (dec (ashape x)) k (dec s1) (dec s2) k'') as Hc.
    rewrite (map_S_dec s1 Hp1) in Hc. apply Hc.
    + now apply inb_le_dec.
    + now apply Forall2_le_dec.
    + now apply Forall2_le_dec.
    + now rewrite dec_length, (inb_length _ _ Hk'').
  - intros k' Hk'. apply in_indices in Hk'; [|assumption].
    rewrite q_getd_mk by assumption. unfold project_spec. rewrite <- qsum_map_scale_r.
    apply qsum_map_ext. intros k _. ring.
Qed.

(* ---- projection commutes with marginalization ---- *)
Lemma arr_eta {A} (u : arr A) : u = {| adata := adata u; ashape := ashape u |}.
Proof. destruct u; reflexivity. Qed.

Lemma fold_zipadd_length {A} (add : A -> A -> A) (vs : list (view A)) acc :
  length (fold_left (fun acc v => zipadd add acc (view_items v)) vs acc) = length acc.
Proof.
  revert acc; induction vs as [|v vs IH]; intros acc; cbn [fold_left]; [reflexivity|].
  now rewrite IH, zipadd_length.
Qed.

Lemma wf_sum_axis (u : spectrum) a : wf (q_sum_axis u a).
Proof.
  unfold wf, q_sum_axis, sum_axis. cbn [adata ashape]. now rewrite fold_zipadd_length, repeat_length.
Qed.

Lemma q_getd_sum_axis (u : spectrum) a k :
  wf u -> positive_shape (ashape u) -> a < dimensions u -> inb (remove_axis a (ashape u)) k = true ->
  q_getd (q_sum_axis u a) k =
  qsum (map (fun i => q_getd u (insert_axis a i k)) (seq 0 (nth a (ashape u) 0))).
Proof.
  intros Hwf Hp Ha Hin. unfold q_getd at 1. unfold q_sum_axis.
  rewrite sum_axis_spec by assumption. reflexivity.
Qed.

Lemma sum_axis_data (u : spectrum) a :
  wf u -> positive_shape (ashape u) -> a < dimensions u ->
  q_sum_axis u a =
  {| adata := map (fun idx' => qsum (map (fun i => q_getd u (insert_axis a i idx')) (seq 0 (nth a (ashape u) 0))))
                  (indices (remove_axis a (ashape u)));
     ashape := remove_axis a (ashape u) |}.
Proof.
  intros Hwf Hp Ha. rewrite (arr_eta (q_sum_axis u a)).
  assert (Hsh : ashape (q_sum_axis u a) = remove_axis a (ashape u)) by reflexivity.
  pose proof (positive_remove_axis a _ Hp) as Hp'.
  rewrite (adata_getd (q_sum_axis u a)); [|apply wf_sum_axis|rewrite Hsh; exact Hp'].
  rewrite Hsh. f_equal. apply map_ext_in. intros k Hk. apply in_indices in Hk; [|assumption].
  now apply q_getd_sum_axis.
Qed.

Lemma Forall2_remove_axis {A B} (R : A -> B -> Prop) a l l' :
  Forall2 R l l' -> Forall2 R (remove_axis a l) (remove_axis a l').
Proof.
  intros H; revert a; induction H as [|x y l l' Hxy H IH]; intros a.
  - unfold remove_axis. rewrite !firstn_nil, !skipn_nil. constructor.
  - destruct a as [|a]; [rewrite !remove_axis_0; exact H|].
    rewrite !remove_axis_cons. constructor; auto.
Qed.

Lemma dec_remove_axis a sh : dec (remove_axis a sh) = remove_axis a (dec sh).
Proof.
  revert a; induction sh as [|n t IH]; intros a.
  - unfold remove_axis, dec. now rewrite !firstn_nil, !skipn_nil.
  - destruct a as [|a]; [reflexivity|]. cbn [dec map]. fold (dec t). rewrite !remove_axis_cons.
    cbn [dec map]. fold (dec (remove_axis a t)). now rewrite IH.
Qed.

Lemma pv_sum_axis a pf K pt idx' :
  a < length pt -> Forall2 le K pf -> Forall2 le pt pf -> length idx' = length pt - 1 ->
  qsum (map (fun i => project_value pf K pt (insert_axis a i idx')) (seq 0 (S (nth a pt 0)))) =
  project_value (remove_axis a pf) (remove_axis a K) (remove_axis a pt) idx'.
Proof.
  revert pf K pt idx'; induction a as [|a IH]; intros [|N pf] [|K0 K] [|n pt] idx' Ha HK Hp Hl;
    cbn [length] in *; try lia; try (now inversion HK); try (now inversion Hp).
  - inversion HK as [|? ? ? ? HKN HK']; subst. inversion Hp as [|? ? ? ? HnN Hp']; subst.
    rewrite !remove_axis_0. cbn [nth].
    rewrite (qsum_map_ext _ (fun i => (hyp N K0 n i * project_value pf K pt idx')%Qc))
      by (intros i _; rewrite insert_axis_0; apply pv_cons).
    rewrite qsum_map_scale_r, hyp_sum_one by assumption. ring.
  - inversion HK as [|? ? ? ? HKN HK']; subst. inversion Hp as [|? ? ? ? HnN Hp']; subst.
    destruct idx' as [|j r]; cbn [length] in Hl; [lia|].
    rewrite !remove_axis_cons. cbn [nth].
    rewrite (qsum_map_ext _ (fun i => (hyp N K0 n j * project_value pf K pt (insert_axis a i r))%Qc))
      by (intros i _; rewrite insert_axis_cons; apply pv_cons).
    rewrite qsum_map_scale, IH by (assumption || lia). now rewrite pv_cons.
Qed.

(* projection commutes with marginalization (one axis; the general case follows by iteration) *)
Theorem project_marginalize_commute x a to y :
  wf x -> 1 < dimensions x -> a < dimensions x -> project x to = inl y ->
  project (q_sum_axis x a) (remove_axis a to) = inl (q_sum_axis y a).
Proof.
  intros Hwf Hd Ha H. apply project_inv_eq in H as (Hps & Hpt & Hle & ->); [|assumption].
  unfold dimensions in *. pose proof (Forall2_len Hle) as Hlen.
  pose proof (positive_remove_axis a _ Hps) as Hps'. pose proof (positive_remove_axis a _ Hpt) as Hpt'.
  assert (Hshs : ashape (q_sum_axis x a) = remove_axis a (ashape x)) by reflexivity.
  rewrite project_eq;
    [|apply wf_sum_axis|rewrite Hshs; exact Hps'|exact Hpt'|rewrite Hshs; now apply Forall2_remove_axis].
  f_equal.
  rewrite (sum_axis_data (mk_proj x to) a); [|apply wf_mk|exact Hpt|unfold dimensions, mk_proj; cbn [ashape]; lia].
  unfold mk_proj. cbn [ashape]. f_equal. apply map_ext_in. intros idx' Hin.
  apply in_indices in Hin; [|assumption].
  transitivity (qsum (map (fun K => (q_getd x K *
      project_value (remove_axis a (dec (ashape x))) (remove_axis a K) (remove_axis a (dec to)) idx')%Qc)
      (indices (ashape x)))).
  - rewrite (qsum_indices_axis _ a (ashape x) Ha). unfold project_spec. rewrite Hshs.
    apply qsum_map_ext. intros k Hk. apply in_indices in Hk; [|assumption].
    rewrite q_getd_sum_axis by assumption. rewrite <- qsum_map_scale_r.
    apply qsum_map_ext. intros i _.
    rewrite remove_insert_axis, !dec_remove_axis; [reflexivity|].
    rewrite (inb_length _ _ Hk), remove_axis_length by assumption. lia.
  - rewrite (qsum_map_ext (fun i => q_getd _ _) (fun i' => project_spec x to (insert_axis a i' idx'))).
    + unfold project_spec. rewrite qsum_exchange. apply qsum_map_ext. intros K HK.
      apply in_indices in HK; [|assumption]. rewrite qsum_map_scale. f_equal.
      assert (Hn : nth a to 0 = S (nth a (dec to) 0)).
      { rewrite nth_dec. pose proof (positive_nth to a Hpt ltac:(lia)). lia. }
      rewrite Hn. symmetry. apply pv_sum_axis.
      * rewrite dec_length. lia.
      * now apply inb_le_dec.
      * now apply Forall2_le_dec.
      * rewrite dec_length, (inb_length _ _ Hin), remove_axis_length by lia. reflexivity.
    + intros i' Hi'. apply in_seq in Hi'. apply q_getd_mk; [assumption|].
      rewrite inb_insert_axis by lia. rewrite Hin.
      assert (E : i' <? nth a to 0 = true) by (apply Nat.ltb_lt; lia). now rewrite E.
Qed.
