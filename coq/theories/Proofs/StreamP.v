(* Proofs for property C18 (chunk-schedule independence; I/O errors surface). Statements are FIXED; replace every
   Admitted by a proof. If a statement is FALSE as written, do not change it silently: prove the others, put the false
   one in a comment `(* FALSE: ... counterexample ... *)` and prove a corrected `<name>_fixed` (minimal change). *)
From Sfs Require Import Index Npy Text Stream NpyP.
From Coq Require Import Lia.

Close Scope string_scope. Open Scope N_scope.

(* a reader state is consistent when the buffered part does not exceed what is left, nor what the source may
   still deliver *)
Definition reader_ok (r : reader) : Prop := (avail r <= length (rest r))%nat.
Definition no_fail (r : reader) : Prop := failin r = None.

Lemma mk_reader_ok data sch f : reader_ok (mk_reader data sch f).
Proof. unfold reader_ok, mk_reader. cbn [avail rest]. lia. Qed.

(* ---- list helpers ---- *)
Lemma firstn_firstn_skipn {A} (a b : nat) (l : list A) : firstn a l ++ firstn b (skipn a l) = firstn (a + b) l.
Proof.
  revert l; induction a as [|a IH]; intro l; [reflexivity|].
  destruct l as [|x l]; [cbn [skipn firstn Nat.add]; rewrite firstn_nil; reflexivity|].
  cbn [skipn firstn Nat.add app]. rewrite IH. reflexivity.
Qed.

Lemma skipn_add {A} (a b : nat) (l : list A) : skipn b (skipn a l) = skipn (a + b) l.
Proof.
  revert l; induction a as [|a IH]; intro l; [reflexivity|].
  destruct l as [|x l]; [cbn [skipn Nat.add]; apply skipn_nil|]. cbn [skipn Nat.add]. apply IH.
Qed.

Lemma firstn_nonnil {A} n (l : list A) : (1 <= n)%nat -> l <> [] -> firstn n l <> [].
Proof. destruct n; [lia|]. destruct l; [congruence|]. intros _ _. cbn [firstn]. discriminate. Qed.

Lemma length_zero_nil {A} (l : list A) : length l = O -> l = [].
Proof. destruct l; [reflexivity|discriminate]. Qed.

Lemma nonnil_length {A} (l : list A) : l <> [] -> (1 <= length l)%nat.
Proof. destruct l; [congruence|]. cbn [length]. lia. Qed.

(* ---- the no-failure reader ---- *)
Lemma fill_buf_nf r : reader_ok r -> no_fail r ->
  exists n r', fill_buf r = inl (firstn n (rest r), r') /\ rest r' = rest r /\ avail r' = n /\
               no_fail r' /\ (n <= length (rest r))%nat /\ (rest r <> [] -> (1 <= n)%nat).
Proof.
  unfold reader_ok, no_fail. intros Hok Hnf. unfold fill_buf.
  destruct (Nat.ltb_spec 0 (avail r)) as [Hlt|Hge].
  - exists (avail r), r. repeat split; auto; intros; lia.
  - rewrite Hnf. eexists. eexists. split; [reflexivity|]. cbn [rest avail failin].
    repeat split; [lia|]. intro Hne. apply nonnil_length in Hne.
    destruct (sched r); lia.
Qed.

Lemma read_some_nf want r : reader_ok r -> no_fail r ->
  exists n r', read_some want r = inl (firstn n (rest r), r') /\ rest r' = skipn n (rest r) /\
               reader_ok r' /\ no_fail r' /\ (n <= want)%nat /\ (n <= length (rest r))%nat /\
               (rest r <> [] -> (1 <= want)%nat -> (1 <= n)%nat).
Proof.
  intros Hok Hnf. destruct (fill_buf_nf r Hok Hnf) as (n & r' & E & Hr & Ha & Hnf' & Hn & Hpos).
  unfold read_some. rewrite E. rewrite firstn_length, (Nat.min_l n) by assumption.
  rewrite firstn_firstn, <- Nat.min_assoc, Nat.min_id.
  exists (Nat.min want n), (consume (Nat.min want n) r').
  split; [reflexivity|]. unfold reader_ok, no_fail, consume in *. cbn [rest avail failin].
  rewrite Hr, Ha, skipn_length. repeat split; try lia; auto.
  intros Hne Hw. specialize (Hpos Hne). lia.
Qed.

Lemma read_exact_s_zero fuel r : read_exact_s fuel 0 r = inl ([], r).
Proof. destruct fuel; reflexivity. Qed.

Lemma read_exact_s_step fuel k r got r' : read_some (S k) r = inl (got, r') -> got <> [] ->
  read_exact_s (S fuel) (S k) r =
    match read_exact_s fuel (S k - length got) r' with
    | inl (more, r'') => inl (got ++ more, r'')
    | inr e => inr e
    end.
Proof. intros H Hne. cbn [read_exact_s]. rewrite H. destruct got; [congruence|reflexivity]. Qed.

Lemma read_exact_s_eof fuel k r r' : read_some (S k) r = inl ([], r') -> read_exact_s (S fuel) (S k) r = inr IoEof.
Proof. intros H. cbn [read_exact_s]. rewrite H. reflexivity. Qed.

Lemma read_exact_s_err fuel k r e : read_some (S k) r = inr e -> read_exact_s (S fuel) (S k) r = inr e.
Proof. intros H. cbn [read_exact_s]. rewrite H. reflexivity. Qed.

Lemma read_exact_s_nf fuel : forall k r, (k <= fuel)%nat ->
  reader_ok r -> no_fail r -> (k <= length (rest r))%nat ->
  exists r', read_exact_s fuel k r = inl (firstn k (rest r), r') /\
             rest r' = skipn k (rest r) /\ reader_ok r' /\ no_fail r'.
Proof.
  induction fuel as [|fuel IH]; intros k r Hk Hok Hnf Hlen.
  - assert (k = O) by lia. subst k. exists r. rewrite read_exact_s_zero. auto.
  - destruct k as [|k]; [exists r; rewrite read_exact_s_zero; auto|].
    destruct (read_some_nf (S k) r Hok Hnf) as (n & r1 & E & Hr & Hok1 & Hnf1 & Hn & Hnl & Hpos).
    assert (Hne : rest r <> []) by (intro H0; rewrite H0 in Hlen; cbn [length] in Hlen; lia).
    specialize (Hpos Hne ltac:(lia)).
    rewrite (read_exact_s_step _ _ _ _ _ E) by (apply firstn_nonnil; assumption).
    rewrite firstn_length, (Nat.min_l n) by assumption.
    destruct (IH (S k - n)%nat r1) as (r2 & E2 & Hr2 & Hok2 & Hnf2); try assumption; try lia.
    { rewrite Hr, skipn_length. lia. }
    rewrite E2. exists r2. rewrite Hr, firstn_firstn_skipn. replace (n + (S k - n))%nat with (S k) by lia.
    split; [reflexivity|]. rewrite Hr2, Hr, skipn_add.
    replace (n + (S k - n))%nat with (S k) by lia. auto.
Qed.

(* ---- read_exact is independent of the schedule ---- *)
Theorem read_exact_sched_free r k :
  reader_ok r -> no_fail r -> (k <= length (rest r))%nat ->
  exists r', read_exact_s (S k) k r = inl (firstn k (rest r), r') /\
             rest r' = skipn k (rest r) /\ reader_ok r' /\ no_fail r'.
Proof. intros. apply read_exact_s_nf; auto. Qed.

Lemma read_exact_s_short fuel : forall k r, (length (rest r) < fuel)%nat ->
  reader_ok r -> no_fail r -> (length (rest r) < k)%nat -> read_exact_s fuel k r = inr IoEof.
Proof.
  induction fuel as [|fuel IH]; intros k r Hf Hok Hnf Hlen; [lia|].
  destruct k as [|k]; [lia|].
  destruct (read_some_nf (S k) r Hok Hnf) as (n & r1 & E & Hr & Hok1 & Hnf1 & Hn & Hnl & Hpos).
  destruct (rest r) as [|c l] eqn:Erest.
  - cbn [length] in Hnl. assert (n = O) by lia. subst n. cbn [firstn] in E.
    apply read_exact_s_eof with (r' := r1). exact E.
  - specialize (Hpos ltac:(discriminate) ltac:(lia)).
    rewrite (read_exact_s_step _ _ _ _ _ E) by (apply firstn_nonnil; [assumption|discriminate]).
    rewrite firstn_length, (Nat.min_l n) by assumption.
    rewrite IH; [reflexivity| | assumption | assumption | ]; rewrite Hr, skipn_length; lia.
Qed.

Theorem read_exact_short r k :
  reader_ok r -> no_fail r -> (length (rest r) < k)%nat -> read_exact_s (S k) k r = inr IoEof.
Proof. intros. apply read_exact_s_short; auto; lia. Qed.

Lemma read_to_end_s_nf fuel : forall r, (length (rest r) < fuel)%nat ->
  reader_ok r -> no_fail r -> read_to_end_s fuel r = inl (rest r).
Proof.
  induction fuel as [|fuel IH]; intros r Hf Hok Hnf; [lia|].
  destruct (fill_buf_nf r Hok Hnf) as (n & r1 & E & Hr & Ha & Hnf1 & Hn & Hpos).
  cbn [read_to_end_s]. rewrite E.
  destruct (rest r) as [|c l] eqn:Erest.
  - rewrite firstn_nil. reflexivity.
  - specialize (Hpos ltac:(discriminate)).
    destruct (firstn n (c :: l)) as [|c' l'] eqn:Efn.
    { exfalso. revert Efn. apply firstn_nonnil; [assumption|discriminate]. }
    rewrite <- Efn.
    rewrite firstn_length, (Nat.min_l n) by assumption.
    rewrite IH.
    + unfold consume. cbn [rest]. rewrite Hr, firstn_skipn. reflexivity.
    + unfold consume. cbn [rest]. rewrite Hr, skipn_length. lia.
    + unfold reader_ok, consume. cbn [rest avail]. lia.
    + exact Hnf1.
Qed.

Theorem read_to_end_sched_free r :
  reader_ok r -> no_fail r -> read_to_end_s (S (length (rest r))) r = inl (rest r).
Proof. intros. apply read_to_end_s_nf; auto. Qed.

(* ---- the npy reader over a stream = the npy reader over the whole buffer, for every schedule ---- *)
Lemma type_size_pos t : (1 <= type_size t)%nat.
Proof. destruct t; cbn [type_size]; lia. Qed.

(* read_exact over the stream against read_exact over the buffer *)
Lemma rx_spec fuel k r : (k <= fuel)%nat -> (length (rest r) < fuel)%nat -> reader_ok r -> no_fail r ->
  match read_exact k (rest r) with
  | Some (a, b) => exists r', read_exact_s fuel k r = inl (a, r') /\ rest r' = b /\ reader_ok r' /\ no_fail r'
  | None => read_exact_s fuel k r = inr IoEof
  end.
Proof.
  intros Hk Hf Hok Hnf. unfold read_exact. destruct (Nat.leb_spec k (length (rest r))) as [Hle|Hgt].
  - apply read_exact_s_nf; assumption.
  - apply read_exact_s_short; assumption.
Qed.

Lemma rx_spec' k r : reader_ok r -> no_fail r ->
  match read_exact k (rest r) with
  | Some (a, b) => exists r', rx k r = inl (a, r') /\ rest r' = b /\ reader_ok r' /\ no_fail r'
  | None => rx k r = inr IoEof
  end.
Proof.
  intros Hok Hnf. unfold rx, read_exact. destruct (Nat.leb_spec k (length (rest r))) as [Hle|Hgt].
  - apply read_exact_sched_free; assumption.
  - apply read_exact_short; assumption.
Qed.

Lemma read_values_s_nf en t fuel : forall r, (length (rest r) < fuel)%nat -> reader_ok r -> no_fail r ->
  read_values_s fuel en t r =
    match read_values fuel en t (rest r) with
    | Some l => inl l
    | None => inr (SIo IoEof)
    end.
Proof.
  induction fuel as [|fuel IH]; intros r Hf Hok Hnf; [lia|].
  destruct (fill_buf_nf r Hok Hnf) as (n & r1 & E & Hr & Ha & Hnf1 & Hn & Hpos).
  cbn [read_values_s]. rewrite E.
  destruct (rest r) as [|c l] eqn:Erest.
  - rewrite firstn_nil. reflexivity.
  - specialize (Hpos ltac:(discriminate)).
    destruct (firstn n (c :: l)) as [|c' l'] eqn:Efn.
    { exfalso. revert Efn. apply firstn_nonnil; [assumption|discriminate]. }
    assert (Hok1 : reader_ok r1) by (unfold reader_ok; rewrite Hr, Ha; assumption).
    pose proof (rx_spec' (type_size t) r1 Hok1 Hnf1) as Hrx. unfold rx in Hrx. rewrite Hr in Hrx.
    cbn [read_values].
    destruct (read_exact (type_size t) (c :: l)) as [[bs rs]|] eqn:Ere.
    + destruct Hrx as (r2 & E2 & Hr2 & Hok2 & Hnf2). rewrite E2.
      unfold read_exact in Ere. destruct (type_size t <=? length (c :: l))%nat; [|discriminate].
      injection Ere as Ebs Ers.
      rewrite IH; [rewrite Hr2; destruct (read_values fuel en t rs); reflexivity| |assumption|assumption].
      rewrite Hr2, <- Ers, skipn_length. pose proof (type_size_pos t). cbn [length] in *. lia.
    + rewrite Hrx. reflexivity.
Qed.

Theorem read_values_sched_free en t r :
  reader_ok r -> no_fail r ->
  read_values_s (S (length (rest r))) en t r =
    match read_values (S (length (rest r))) en t (rest r) with
    | Some l => inl l
    | None => inr (SIo IoEof)
    end.
Proof. intros. apply read_values_s_nf; auto. Qed.

Lemma read_npy_s_spec r : reader_ok r -> no_fail r ->
  match read_npy_s r, read_npy (rest r) with
  | inl a, inl b => a = b
  | inr (SData e), inr e' => e = e'
  | inr (SIo IoEof), inr EShortRead => True
  | _, _ => False
  end.
Proof.
  intros Hok Hnf. unfold read_npy_s, read_npy.
  pose proof (rx_spec' 6 r Hok Hnf) as H1.
  destruct (read_exact 6 (rest r)) as [[m b1]|]; [|rewrite H1; exact I].
  destruct H1 as (r1 & -> & <- & Hok1 & Hnf1).
  destruct (negb (bytes_eqb m magic)); [reflexivity|].
  pose proof (rx_spec' 2 r1 Hok1 Hnf1) as H2.
  destruct (read_exact 2 (rest r1)) as [[v b2]|]; [|rewrite H2; exact I].
  destruct H2 as (r2 & -> & <- & Hok2 & Hnf2).
  cbv zeta.
  destruct (negb ((nth 0 v 0 =? 1) || (nth 0 v 0 =? 2) || (nth 0 v 0 =? 3))); [reflexivity|].
  set (lenbytes := if nth 0 v 0 =? 1 then 2%nat else 4%nat). clearbody lenbytes.
  pose proof (rx_spec' lenbytes r2 Hok2 Hnf2) as H3.
  destruct (read_exact lenbytes (rest r2)) as [[lb b3]|]; [|rewrite H3; exact I].
  destruct H3 as (r3 & -> & <- & Hok3 & Hnf3).
  pose proof (rx_spec' (N.to_nat (le_word lb)) r3 Hok3 Hnf3) as H4.
  destruct (read_exact (N.to_nat (le_word lb)) (rest r3)) as [[d b4]|]; [|rewrite H4; exact I].
  destruct H4 as (r4 & -> & <- & Hok4 & Hnf4).
  destruct (negb (forallb (fun c => c <? 128) d)); [reflexivity|].
  destruct (parse_dict d) as [es|]; [|reflexivity].
  destruct (dict_of_entries es) as [h|]; [|reflexivity].
  destruct (h_fortran h); [reflexivity|].
  rewrite (read_values_sched_free _ _ r4 Hok4 Hnf4).
  destruct (read_values (S (length (rest r4))) (h_endian h) (h_type h) (rest r4)) as [vals|]; [|exact I].
  destruct (N.of_nat (length vals) =? nelements (h_shape h)); reflexivity.
Qed.

Theorem read_npy_sched_free data sch :
  match read_npy_s (mk_reader data sch None), read_npy data with
  | inl a, inl b => a = b
  | inr (SData e), inr e' => e = e'
  | inr (SIo IoEof), inr EShortRead => True
  | _, _ => False
  end.
Proof. apply (read_npy_s_spec (mk_reader data sch None)); [apply mk_reader_ok|reflexivity]. Qed.

(* ---- a failing source never yields a result built from partial data ---- *)
Lemma fill_buf_exhausted r : avail r = O -> failin r = Some O -> rest r <> [] -> fill_buf r = inr IoFail.
Proof.
  intros Ha Hf Hne. unfold fill_buf. rewrite Ha, Hf. cbn [Nat.ltb Nat.leb].
  destruct (rest r); [congruence|reflexivity].
Qed.

Lemma fill_buf_budget r f : avail r = O -> failin r = Some (S f) -> rest r <> [] ->
  exists n r', fill_buf r = inl (firstn n (rest r), r') /\ rest r' = rest r /\ avail r' = n /\
               failin r' = Some (S f - n)%nat /\ (1 <= n)%nat /\ (n <= S f)%nat /\ (n <= length (rest r))%nat.
Proof.
  intros Ha Hf Hne. apply nonnil_length in Hne. unfold fill_buf. rewrite Ha, Hf. cbn [Nat.ltb Nat.leb].
  eexists. eexists. split; [reflexivity|]. cbn [rest avail failin].
  repeat split; try lia. destruct (sched r); lia.
Qed.

Lemma read_to_end_fault_gen fuel : forall r f, avail r = O -> failin r = Some f ->
  (f < length (rest r))%nat -> (f < fuel)%nat -> read_to_end_s fuel r = inr IoFail.
Proof.
  induction fuel as [|fuel IH]; intros r f Ha Hf Hlen Hfuel; [lia|].
  assert (Hne : rest r <> []) by (intro H0; rewrite H0 in Hlen; cbn [length] in Hlen; lia).
  cbn [read_to_end_s]. destruct f as [|f].
  - rewrite fill_buf_exhausted by assumption. reflexivity.
  - destruct (fill_buf_budget r f Ha Hf Hne) as (n & r1 & E & Hr & Ha1 & Hf1 & Hn1 & Hn2 & Hn3).
    rewrite E.
    destruct (firstn n (rest r)) as [|c' l'] eqn:Efn.
    { exfalso. revert Efn. apply firstn_nonnil; assumption. }
    rewrite <- Efn. rewrite firstn_length, (Nat.min_l n) by assumption.
    rewrite (IH (consume n r1) (S f - n)%nat); [reflexivity| | | | ]; unfold consume; cbn [rest avail failin].
    + lia.
    + assumption.
    + rewrite Hr, skipn_length. lia.
    + lia.
Qed.

(* the source fails after delivering f bytes, and the whole input has more than f bytes: reading it to the end fails *)
Theorem read_to_end_fault data sch f : (f < length data)%nat ->
  read_to_end_s (S (length data)) (mk_reader data sch (Some f)) = inr IoFail.
Proof. intro H. apply read_to_end_fault_gen with (f := f); auto; cbn [mk_reader rest]; lia. Qed.

Lemma read_exact_fault_gen fuel : forall k r f, avail r = O -> failin r = Some f ->
  (f < k)%nat -> (k <= length (rest r))%nat -> (f < fuel)%nat -> read_exact_s fuel k r = inr IoFail.
Proof.
  induction fuel as [|fuel IH]; intros k r f Ha Hf Hk Hlen Hfuel; [lia|].
  destruct k as [|k]; [lia|].
  assert (Hne : rest r <> []) by (intro H0; rewrite H0 in Hlen; cbn [length] in Hlen; lia).
  destruct f as [|f].
  - apply read_exact_s_err. unfold read_some. rewrite fill_buf_exhausted by assumption. reflexivity.
  - destruct (fill_buf_budget r f Ha Hf Hne) as (n & r1 & E & Hr & Ha1 & Hf1 & Hn1 & Hn2 & Hn3).
    assert (Ers : read_some (S k) r = inl (firstn n (rest r), consume n r1)).
    { unfold read_some. rewrite E. rewrite firstn_length, (Nat.min_l n) by assumption.
      rewrite (Nat.min_r (S k) n) by lia. rewrite firstn_firstn, Nat.min_id. reflexivity. }
    rewrite (read_exact_s_step _ _ _ _ _ Ers) by (apply firstn_nonnil; assumption).
    rewrite firstn_length, (Nat.min_l n) by assumption.
    rewrite (IH (S k - n)%nat (consume n r1) (S f - n)%nat); [reflexivity| | | | | ];
      unfold consume; cbn [rest avail failin].
    + lia.
    + assumption.
    + lia.
    + rewrite Hr, skipn_length. lia.
    + lia.
Qed.

Theorem read_exact_fault data sch f k : (f < k)%nat -> (k <= length data)%nat ->
  read_exact_s (S k) k (mk_reader data sch (Some f)) = inr IoFail.
Proof. intros H1 H2. apply read_exact_fault_gen with (f := f); auto; cbn [mk_reader rest]; lia. Qed.

(* invariant of a reader whose source will fail before the end of the data: what is buffered plus what the
   source can still deliver is less than what is left *)
Definition starved (r : reader) : Prop :=
  exists b, failin r = Some b /\ (avail r + b < length (rest r))%nat.

Lemma fill_buf_starved r : starved r ->
  fill_buf r = inr IoFail \/
  exists buf r', fill_buf r = inl (buf, r') /\ buf <> [] /\ (length buf <= avail r')%nat /\ starved r'.
Proof.
  intros (b & Hb & Hlt). unfold fill_buf.
  destruct (Nat.ltb_spec 0 (avail r)) as [Hpos|Hz].
  - right. exists (firstn (avail r) (rest r)), r. split; [reflexivity|]. split; [|split].
    + apply firstn_nonnil; [lia|]. intro H0. rewrite H0 in Hlt. cbn [length] in Hlt. lia.
    + rewrite firstn_length. lia.
    + exists b. auto.
  - assert (Hne : rest r <> []) by (intro H0; rewrite H0 in Hlt; cbn [length] in Hlt; lia).
    pose proof (nonnil_length _ Hne) as Hl.
    rewrite Hb. destruct b as [|f].
    + left. destruct (rest r); [congruence|reflexivity].
    + right. eexists. eexists. split; [reflexivity|].
      set (want := match sched r with c :: _ => Nat.max 1 c | [] => length (rest r) end).
      assert (Hw : (1 <= want)%nat) by (unfold want; destruct (sched r); lia).
      split; [|split].
      * apply firstn_nonnil; [lia|assumption].
      * rewrite firstn_length. cbn [avail]. lia.
      * eexists. cbn [failin avail rest]. split; [reflexivity|]. lia.
Qed.

Lemma read_some_starved want r : starved r ->
  read_some want r = inr IoFail \/ exists got r', read_some want r = inl (got, r') /\ starved r'.
Proof.
  intro Hs. unfold read_some.
  destruct (fill_buf_starved r Hs) as [E|(buf & r1 & E & Hne & Hlen & (b & Hb & Hlt))]; rewrite E; [left; reflexivity|].
  right. eexists. eexists. split; [reflexivity|].
  exists b. unfold consume. cbn [failin avail rest]. split; [assumption|]. rewrite skipn_length. lia.
Qed.

Lemma read_exact_s_starved fuel : forall k r, starved r ->
  (exists e, read_exact_s fuel k r = inr e) \/ exists got r', read_exact_s fuel k r = inl (got, r') /\ starved r'.
Proof.
  induction fuel as [|fuel IH]; intros k r Hs.
  - destruct k; [right; eexists; eexists; split; [reflexivity|assumption]|left; eexists; reflexivity].
  - destruct k as [|k]; [right; eexists; eexists; split; [reflexivity|assumption]|].
    cbn [read_exact_s].
    destruct (read_some_starved (S k) r Hs) as [E|(got & r1 & E & Hs1)]; rewrite E; [left; eexists; reflexivity|].
    destruct got as [|c l]; [left; eexists; reflexivity|].
    destruct (IH (S k - length (c :: l))%nat r1 Hs1) as [(e & E2)|(more & r2 & E2 & Hs2)]; rewrite E2.
    + left. eexists. reflexivity.
    + right. eexists. eexists. split; [reflexivity|assumption].
Qed.

Lemma read_values_s_starved en t fuel : forall r, starved r -> exists e, read_values_s fuel en t r = inr e.
Proof.
  induction fuel as [|fuel IH]; intros r Hs; [eexists; reflexivity|].
  cbn [read_values_s].
  destruct (fill_buf_starved r Hs) as [E|(buf & r1 & E & Hne & Hlen & Hs1)]; rewrite E; [eexists; reflexivity|].
  destruct buf as [|c l]; [congruence|].
  destruct (read_exact_s_starved (S (type_size t)) (type_size t) r1 Hs1) as [(e & E2)|(bs & r2 & E2 & Hs2)];
    rewrite E2; [eexists; reflexivity|].
  destruct (IH r2 Hs2) as (e & E3). rewrite E3. eexists. reflexivity.
Qed.

Lemma read_npy_s_starved r : starved r -> exists e, read_npy_s r = inr e.
Proof.
  intro Hs. unfold read_npy_s, rx.
  destruct (read_exact_s_starved 7 6 r Hs) as [(e & E)|(m & r1 & E & Hs1)]; rewrite E; [eexists; reflexivity|].
  destruct (negb (bytes_eqb m magic)); [eexists; reflexivity|].
  destruct (read_exact_s_starved 3 2 r1 Hs1) as [(e & E1)|(v & r2 & E1 & Hs2)]; rewrite E1; [eexists; reflexivity|].
  cbv zeta.
  destruct (negb ((nth 0 v 0 =? 1) || (nth 0 v 0 =? 2) || (nth 0 v 0 =? 3))); [eexists; reflexivity|].
  set (lenbytes := if nth 0 v 0 =? 1 then 2%nat else 4%nat). clearbody lenbytes.
  destruct (read_exact_s_starved (S lenbytes) lenbytes r2 Hs2) as [(e & E2)|(lb & r3 & E2 & Hs3)]; rewrite E2;
    [eexists; reflexivity|].
  destruct (read_exact_s_starved (S (N.to_nat (le_word lb))) (N.to_nat (le_word lb)) r3 Hs3)
    as [(e & E3)|(d & r4 & E3 & Hs4)]; rewrite E3; [eexists; reflexivity|].
  destruct (negb (forallb (fun c => c <? 128) d)); [eexists; reflexivity|].
  destruct (parse_dict d) as [es|]; [|eexists; reflexivity].
  destruct (dict_of_entries es) as [h|]; [|eexists; reflexivity].
  destruct (h_fortran h); [eexists; reflexivity|].
  destruct (read_values_s_starved (h_endian h) (h_type h) (S (length (rest r4))) r4 Hs4) as (e & E4).
  rewrite E4. eexists. reflexivity.
Qed.

(* a valid npy file whose source fails before its end is an error *)
Theorem read_npy_fault sh vals sch f : file_ok sh vals -> (f < length (write_npy sh vals))%nat ->
  exists e, read_npy_s (mk_reader (write_npy sh vals) sch (Some f)) = inr e.
Proof.
  intros _ Hf. apply read_npy_s_starved. exists f. cbn [mk_reader failin avail rest]. split; [reflexivity|lia].
Qed.

(* ---- writers: short writes are completed, failures surface ---- *)
Lemma write_all_nil fuel w : write_all fuel [] w = inl w.
Proof. destruct fuel; reflexivity. Qed.

Lemma write_all_step fuel buf w n w' : write_some buf w = inl (S n, w') -> buf <> [] ->
  write_all (S fuel) buf w = write_all fuel (skipn (S n) buf) w'.
Proof. intros H Hne. destruct buf; [congruence|]. cbn [write_all]. rewrite H. reflexivity. Qed.

Lemma write_all_err fuel buf w e : write_some buf w = inr e -> buf <> [] ->
  write_all (S fuel) buf w = inr e.
Proof. intros H Hne. destruct buf; [congruence|]. cbn [write_all]. rewrite H. reflexivity. Qed.

Lemma write_some_nf buf w : wfail w = None -> buf <> [] ->
  exists n w', write_some buf w = inl (S n, w') /\ (S n <= length buf)%nat /\
               accepted w' = accepted w ++ firstn (S n) buf /\ wfail w' = None.
Proof.
  intros Hnf Hne. apply nonnil_length in Hne. unfold write_some. rewrite Hnf.
  set (cap := match wsched w with c :: _ => Nat.max 1 c | [] => length buf end).
  assert (Hcap : (1 <= cap)%nat) by (unfold cap; destruct (wsched w); lia).
  destruct (Nat.min cap (length buf)) as [|n] eqn:En; [lia|].
  eexists. eexists. split; [reflexivity|]. cbn [accepted wfail]. repeat split. lia.
Qed.

Lemma write_some_budget buf w f : wfail w = Some (S f) -> buf <> [] ->
  exists n w', write_some buf w = inl (S n, w') /\ (S n <= length buf)%nat /\ (n <= f)%nat /\
               accepted w' = accepted w ++ firstn (S n) buf /\ wfail w' = Some (f - n)%nat.
Proof.
  intros Hnf Hne. apply nonnil_length in Hne. unfold write_some. rewrite Hnf.
  set (cap := match wsched w with c :: _ => Nat.max 1 c | [] => length buf end).
  assert (Hcap : (1 <= cap)%nat) by (unfold cap; destruct (wsched w); lia).
  destruct (Nat.min (Nat.min cap (S f)) (length buf)) as [|n] eqn:En; [lia|].
  eexists. eexists. split; [reflexivity|]. cbn [accepted wfail]. repeat split; try lia.
Qed.

Lemma write_some_fail buf w : wfail w = Some O -> write_some buf w = inr WFail.
Proof. intros H. unfold write_some. rewrite H. reflexivity. Qed.

Lemma write_all_nf fuel : forall buf w, (length buf <= fuel)%nat -> wfail w = None ->
  exists w', write_all fuel buf w = inl w' /\ accepted w' = accepted w ++ buf /\ wfail w' = None.
Proof.
  induction fuel as [|fuel IH]; intros buf w Hf Hnf.
  - apply Nat.le_0_r, length_zero_nil in Hf. subst buf. exists w. rewrite app_nil_r. auto.
  - destruct buf as [|c l] eqn:Eb; [exists w; rewrite app_nil_r; auto|]. rewrite <- Eb in *.
    assert (Hne : buf <> []) by (rewrite Eb; discriminate).
    destruct (write_some_nf buf w Hnf Hne) as (n & w1 & E & Hn & Hacc & Hnf1).
    rewrite (write_all_step _ _ _ _ _ E Hne).
    destruct (IH (skipn (S n) buf) w1) as (w2 & E2 & Hacc2 & Hnf2); [rewrite skipn_length; lia|assumption|].
    exists w2. split; [assumption|]. split; [|assumption].
    rewrite Hacc2, Hacc, <- app_assoc, firstn_skipn. reflexivity.
Qed.

Theorem write_all_sched_free buf w : wfail w = None ->
  exists w', write_all (S (length buf)) buf w = inl w' /\ accepted w' = accepted w ++ buf /\ wfail w' = None.
Proof. intros. apply write_all_nf; auto. Qed.

Lemma write_all_fault_gen fuel : forall buf w f, wfail w = Some f -> (f < length buf)%nat -> (f < fuel)%nat ->
  write_all fuel buf w = inr WFail.
Proof.
  induction fuel as [|fuel IH]; intros buf w f Hw Hlen Hf; [lia|].
  assert (Hne : buf <> []) by (intro H0; rewrite H0 in Hlen; cbn [length] in Hlen; lia).
  destruct f as [|f].
  - apply write_all_err; [apply write_some_fail; assumption|assumption].
  - destruct (write_some_budget buf w f Hw Hne) as (n & w1 & E & Hn & Hnf & Hacc & Hw1).
    rewrite (write_all_step _ _ _ _ _ E Hne).
    apply IH with (f := (f - n)%nat); [assumption|rewrite skipn_length; lia|lia].
Qed.

Theorem write_all_fault buf w f : wfail w = Some f -> (f < length buf)%nat ->
  write_all (S (length buf)) buf w = inr WFail.
Proof. intros. apply write_all_fault_gen with (f := f); auto; lia. Qed.

Lemma write_all_budget_gen fuel : forall buf w f, wfail w = Some f -> (length buf <= f)%nat ->
  (length buf <= fuel)%nat ->
  exists w', write_all fuel buf w = inl w' /\ accepted w' = accepted w ++ buf /\
             wfail w' = Some (f - length buf)%nat.
Proof.
  induction fuel as [|fuel IH]; intros buf w f Hw Hlen Hf.
  - apply Nat.le_0_r, length_zero_nil in Hf. subst buf. exists w.
    rewrite app_nil_r, write_all_nil. cbn [length]. rewrite Nat.sub_0_r. auto.
  - destruct buf as [|c l] eqn:Eb.
    { exists w. rewrite app_nil_r, write_all_nil. cbn [length]. rewrite Nat.sub_0_r. auto. }
    rewrite <- Eb in *.
    assert (Hne : buf <> []) by (rewrite Eb; discriminate).
    pose proof (nonnil_length _ Hne) as Hpos.
    destruct f as [|f]; [lia|].
    destruct (write_some_budget buf w f Hw Hne) as (n & w1 & E & Hn & Hnf & Hacc & Hw1).
    rewrite (write_all_step _ _ _ _ _ E Hne).
    destruct (IH (skipn (S n) buf) w1 (f - n)%nat) as (w2 & E2 & Hacc2 & Hw2);
      [assumption|rewrite skipn_length; lia|rewrite skipn_length; lia|].
    exists w2. split; [assumption|]. split.
    + rewrite Hacc2, Hacc, <- app_assoc, firstn_skipn. reflexivity.
    + rewrite Hw2, skipn_length. f_equal. lia.
Qed.

Theorem write_all_within_budget buf w f : wfail w = Some f -> (length buf <= f)%nat ->
  exists w', write_all (S (length buf)) buf w = inl w' /\ accepted w' = accepted w ++ buf /\
             wfail w' = Some (f - length buf)%nat.
Proof. intros. apply write_all_budget_gen; auto. Qed.

Lemma write_pieces_nf ps : forall w, wfail w = None ->
  exists w', write_pieces ps w = inl w' /\ accepted w' = accepted w ++ concat ps /\ wfail w' = None.
Proof.
  induction ps as [|p t IH]; intros w Hw.
  - exists w. cbn [write_pieces concat]. rewrite app_nil_r. auto.
  - destruct (write_all_sched_free p w Hw) as (w1 & E & Hacc & Hw1).
    cbn [write_pieces]. rewrite E.
    destruct (IH w1 Hw1) as (w2 & E2 & Hacc2 & Hw2). exists w2. split; [assumption|]. split; [|assumption].
    rewrite Hacc2, Hacc, <- app_assoc. reflexivity.
Qed.

Lemma write_pieces_fault ps : forall w f, wfail w = Some f -> (f < length (concat ps))%nat ->
  write_pieces ps w = inr WFail.
Proof.
  induction ps as [|p t IH]; intros w f Hw Hlen; [cbn [concat length] in Hlen; lia|].
  cbn [concat] in Hlen. rewrite app_length in Hlen. cbn [write_pieces].
  destruct (Nat.le_gt_cases (length p) f) as [Hle|Hgt].
  - destruct (write_all_within_budget p w f Hw Hle) as (w1 & E & _ & Hw1). rewrite E.
    apply IH with (f := (f - length p)%nat); [assumption|lia].
  - rewrite (write_all_fault p w f Hw Hgt). reflexivity.
Qed.

Lemma concat_npy_pieces sh vals : concat (npy_pieces sh vals) = write_npy sh vals.
Proof.
  unfold npy_pieces, write_npy, write_header. cbv zeta.
  rewrite concat_app, flat_map_concat_map. cbn [concat]. rewrite app_nil_r, <- !app_assoc. reflexivity.
Qed.

Theorem write_npy_sched_free sh vals sch :
  exists w', write_pieces (npy_pieces sh vals) (mk_writer sch None) = inl w' /\ accepted w' = write_npy sh vals.
Proof.
  destruct (write_pieces_nf (npy_pieces sh vals) (mk_writer sch None) eq_refl) as (w' & E & Hacc & _).
  exists w'. split; [assumption|]. rewrite Hacc, concat_npy_pieces. reflexivity.
Qed.

Theorem write_npy_fault sh vals sch f : (f < length (write_npy sh vals))%nat ->
  write_pieces (npy_pieces sh vals) (mk_writer sch (Some f)) = inr WFail.
Proof.
  intro H. apply write_pieces_fault with (f := f); [reflexivity|]. rewrite concat_npy_pieces. assumption.
Qed.

(* ---- container detection needs the magic bytes in the first chunk ---- *)
Section Detect.
Variable gunzip_prefix : bytes -> option bytes.

Lemma detect_stream_whole data :
  detect_stream_first_chunk gunzip_prefix (mk_reader data [] None) = inl (detect_container gunzip_prefix data).
Proof.
  unfold detect_stream_first_chunk, fill_buf, mk_reader. cbn [avail rest sched failin Nat.ltb Nat.leb].
  rewrite Nat.min_id, firstn_all. reflexivity.
Qed.

(* when the first chunk is the whole stream, detection sees the container's magic *)
Theorem detect_whole_vcf data : (match data with 31 :: 139 :: _ => False | 66 :: 67 :: 70 :: _ => False | _ => True end) ->
  detect_stream_first_chunk gunzip_prefix (mk_reader data [] None) = inl CVcf.
Proof.
  intro H. rewrite detect_stream_whole. f_equal. unfold detect_container.
  repeat (match goal with
          | |- context [match ?x with _ => _ end] => is_var x; destruct x
          end; cbn beta iota in * ); try reflexivity; try (exfalso; exact H).
Qed.
Theorem detect_whole_bcf data : detect_stream_first_chunk gunzip_prefix (mk_reader (66 :: 67 :: 70 :: data) [] None) = inl CBcf.
Proof. rewrite detect_stream_whole. reflexivity. Qed.
(* refutation of schedule independence for detection: a first chunk of one byte hides the magic *)
Theorem detect_short_first_chunk_refuted :
  exists data sch, detect_stream_first_chunk gunzip_prefix (mk_reader data sch None) <> detect_stream_first_chunk gunzip_prefix (mk_reader data [] None).
Proof. exists [66; 67; 70], [1%nat]. intro H. vm_compute in H. discriminate H. Qed.
End Detect.
