(* Proofs about the array API model (property C19, shared with C04). *)
From Sfs Require Import Index ArrayM IndexP.
From Coq Require Import Lia.

Set Implicit Arguments.

(* ------------------------------------------------------------------------------------------ *)
(* mixed-radix digits, least significant axis first: the order in which the odometer works *)

Fixpoint rdigits (rsh : list nat) (k : nat) : list nat :=
  match rsh with [] => [] | n :: r => (k mod n) :: rdigits r (k / n) end.

Lemma elements_app a b : elements (a ++ b) = elements a * elements b.
Proof. induction a as [|n a IH]; cbn [app elements]; [lia|]. rewrite IH. lia. Qed.

Lemma elements_rev sh : elements (rev sh) = elements sh.
Proof. induction sh as [|n t IH]; [reflexivity|]. cbn [rev elements]. rewrite elements_app, IH. cbn. lia. Qed.

Lemma positive_rev sh : positive_shape sh -> positive_shape (rev sh).
Proof. unfold positive_shape. rewrite !Forall_forall. intros H x Hx. apply H. now apply in_rev. Qed.

Lemma positive_app a b : positive_shape (a ++ b) <-> positive_shape a /\ positive_shape b.
Proof. unfold positive_shape. apply Forall_app. Qed.

Lemma rdigits_length rsh k : length (rdigits rsh k) = length rsh.
Proof. revert k; induction rsh as [|n r IH]; intros k; cbn; auto. Qed.

Lemma rdigits_0 rsh : positive_shape rsh -> rdigits rsh 0 = repeat 0 (length rsh).
Proof.
  induction rsh as [|n r IH]; intros Hp; [reflexivity|].
  apply positive_shape_cons in Hp as [Hn Hr].
  cbn [rdigits length repeat]. rewrite Nat.mod_0_l, Nat.div_0_l by lia. now rewrite IH.
Qed.

Lemma dot_zeros st d : dot st (repeat 0 d) = 0.
Proof. revert d; induction st as [|s st IH]; intros [|d]; cbn [repeat dot]; auto. rewrite IH. lia. Qed.

Lemma div_div_nat a b c : a / b / c = a / (b * c).
Proof.
  destruct c as [|c]; [now rewrite Nat.mul_0_r|]. destruct b as [|b]; [reflexivity|].
  apply Nat.div_div; lia.
Qed.

Lemma rdigits_app a b k : rdigits (a ++ b) k = rdigits a k ++ rdigits b (k / elements a).
Proof.
  revert k; induction a as [|n a IH]; intros k; cbn [app rdigits elements].
  - now rewrite Nat.div_1_r.
  - rewrite IH. now rewrite div_div_nat.
Qed.

Lemma rdigits_mod a k : positive_shape a -> rdigits a (k mod elements a) = rdigits a k.
Proof.
  revert k; induction a as [|n a IH]; intros k Hp; [reflexivity|].
  apply positive_shape_cons in Hp as [Hn Ha]. pose proof (elements_pos _ Ha) as He.
  cbn [rdigits elements]. rewrite Nat.mod_mul_r by lia.
  rewrite (Nat.mul_comm n ((k / n) mod elements a)). f_equal.
  - rewrite Nat.mod_add by lia. apply Nat.mod_mod. lia.
  - rewrite Nat.div_add by lia.
    rewrite (Nat.div_small (k mod n)) by (apply Nat.mod_upper_bound; lia).
    cbn [Nat.add]. now apply IH.
Qed.

Lemma rdigits_unflat sh k : positive_shape sh -> k < elements sh -> rev (rdigits (rev sh) k) = unflat sh k.
Proof.
  revert k; induction sh as [|n t IH]; intros k Hp Hk; [reflexivity|].
  apply positive_shape_cons in Hp as [Hn Ht]. pose proof (elements_pos _ Ht) as He.
  cbn [rev unflat elements] in *. rewrite rdigits_app, rev_app_distr. cbn [rdigits rev app].
  rewrite elements_rev. f_equal.
  - apply Nat.mod_small. apply Nat.div_lt_upper_bound; lia.
  - rewrite <- (IH (k mod elements t)) by (auto; apply Nat.mod_upper_bound; lia).
    f_equal. rewrite <- (elements_rev t). symmetry. apply rdigits_mod. now apply positive_rev.
Qed.

Lemma dot_app a b c d : length a = length c -> dot (a ++ b) (c ++ d) = dot a c + dot b d.
Proof.
  revert c; induction a as [|x a IH]; intros [|y c] H; cbn in *; try discriminate; auto.
  rewrite IH by lia. lia.
Qed.

Lemma dot_rev st idx : length st = length idx -> dot (rev st) (rev idx) = dot st idx.
Proof.
  revert idx; induction st as [|s st IH]; intros [|i idx] H; cbn [length] in *; try discriminate; auto.
  cbn [rev]. rewrite dot_app by (rewrite !rev_length; lia). rewrite IH by lia. cbn. lia.
Qed.

(* one odometer step = successor of the flat position *)
Lemma odo_step rsh rst k :
  positive_shape rsh -> length rst = length rsh -> S k < elements rsh ->
  odo rsh rst (rdigits rsh k) (dot rst (rdigits rsh k)) =
    (rdigits rsh (S k), dot rst (rdigits rsh (S k)), true).
Proof.
  revert rst k; induction rsh as [|n r IH]; intros rst k Hp Hl Hk.
  - cbn in Hk. lia.
  - destruct rst as [|st rst]; cbn [length] in Hl; [discriminate|].
    apply positive_shape_cons in Hp as [Hn Hr]. pose proof (elements_pos _ Hr) as He.
    cbn [elements] in Hk. cbn [rdigits odo dot].
    pose proof (Nat.div_mod k n ltac:(lia)) as Hdm.
    pose proof (Nat.mod_upper_bound k n ltac:(lia)) as Hmb.
    destruct (S (k mod n) <? n) eqn:Hc.
    + apply Nat.ltb_lt in Hc.
      assert (Hq : S k / n = k / n) by (symmetry; apply (Nat.div_unique (S k) n (k / n) (S (k mod n))); lia).
      assert (Hr' : S k mod n = S (k mod n)) by (symmetry; apply (Nat.mod_unique (S k) n (k / n) (S (k mod n))); lia).
      rewrite Hq, Hr'. f_equal. f_equal. lia.
    + apply Nat.ltb_ge in Hc. assert (Hm : k mod n = n - 1) by lia.
      assert (Hq : S k / n = S (k / n)) by (symmetry; apply (Nat.div_unique (S k) n (S (k / n)) 0); lia).
      assert (Hr' : S k mod n = 0) by (symmetry; apply (Nat.mod_unique (S k) n (S (k / n)) 0); lia).
      assert (Hk' : S (k / n) < elements r) by nia.
      destruct r as [|m r'].
      * cbn in Hk'. lia.
      * replace (st * (k mod n) + dot rst (rdigits (m :: r') (k / n)) - st * (n - 1))
          with (dot rst (rdigits (m :: r') (k / n))) by (rewrite Hm; lia).
        rewrite (IH rst (k / n)) by (auto; lia).
        rewrite Hq, Hr'. f_equal. f_equal. lia.
Qed.

Lemma nth_error_skipn' {B} n (l : list B) m : nth_error (skipn n l) m = nth_error l (n + m).
Proof.
  revert l; induction n as [|n IH]; intros l; [reflexivity|].
  destruct l as [|x l]; [now destruct m|]. cbn [skipn Nat.add nth_error]. apply IH.
Qed.

Lemma map_seq_done {B} (f : nat -> option B) E j j' k :
  (forall m, E <= m -> f m = None) -> E <= j -> E <= j' -> map f (seq j k) = map f (seq j' k).
Proof.
  intros Hf. revert j j'; induction k as [|k IH]; intros j j' Hj Hj'; [reflexivity|].
  cbn [seq map]. rewrite !Hf by assumption. f_equal. apply IH; lia.
Qed.

(* ------------------------------------------------------------------------------------------ *)
Section Get.
Variable A : Type.
Implicit Types x : arr A.

Lemma get_spec x idx :
  get x idx = if inb (ashape x) idx then nth_error (adata x) (flat (ashape x) idx) else None.
Proof.
  unfold get, dimensions, astrides. rewrite flat_index_spec.
  destruct (inb (ashape x) idx) eqn:Hin.
  - apply inb_length in Hin. rewrite Hin, Nat.eqb_refl. reflexivity.
  - now destruct (length idx =? length (ashape x)).
Qed.

Lemma get_unflat x i :
  positive_shape (ashape x) -> i < elements (ashape x) -> get x (unflat (ashape x) i) = nth_error (adata x) i.
Proof. intros Hp Hi. rewrite get_spec, inb_unflat, flat_unflat by assumption. reflexivity. Qed.

Lemma get_none_iff x idx : wf x -> (get x idx = None <-> inb (ashape x) idx = false).
Proof.
  intros Hwf. rewrite get_spec. destruct (inb (ashape x) idx) eqn:Hin.
  - split; [|discriminate]. intros H. apply nth_error_None in H.
    pose proof (flat_lt _ _ Hin). unfold wf in Hwf. lia.
  - split; auto.
Qed.

Lemma get_axis_none_iff x a i :
  get_axis x a i = None <-> (dimensions x <= a \/ nth a (ashape x) 0 <= i).
Proof.
  unfold get_axis.
  destruct (dimensions x <=? a) eqn:E1; [apply Nat.leb_le in E1|apply Nat.leb_gt in E1]; cbn [orb].
  - split; auto.
  - destruct (nth a (ashape x) 0 <=? i) eqn:E2; [apply Nat.leb_le in E2|apply Nat.leb_gt in E2].
    + split; auto.
    + split; [discriminate|lia].
Qed.

Lemma get_axis_some x a i v :
  get_axis x a i = Some v ->
  a < dimensions x /\ i < nth a (ashape x) 0 /\
  v = {| vdata := skipn (i * nth a (astrides x) 0) (adata x);
         vshape := remove_axis a (ashape x); vstrides := remove_axis a (astrides x) |}.
Proof.
  unfold get_axis.
  destruct (dimensions x <=? a) eqn:E1; [discriminate|apply Nat.leb_gt in E1]; cbn [orb].
  destruct (nth a (ashape x) 0 <=? i) eqn:E2; [discriminate|apply Nat.leb_gt in E2].
  intros H; inversion H; auto.
Qed.

(* --- IndicesIter --- *)
Fixpoint ind_run (k : nat) (sh : shape) (index total : nat) : list (option (list nat)) * nat :=
  match k with
  | O => ([], index)
  | S k' => let '(i', o) := ind_next sh index total in
            let '(os, i'') := ind_run k' sh i' total in (o :: os, i'')
  end.

Lemma ind_run_spec sh k j :
  positive_shape sh -> j <= elements sh ->
  ind_run k sh j (elements sh) =
    (map (fun m => if m <? elements sh then Some (unflat sh m) else None) (seq j k),
     Nat.min (j + k) (elements sh)).
Proof.
  intros Hp. revert j; induction k as [|k IH]; intros j Hj.
  - cbn. f_equal. lia.
  - cbn [ind_run seq map]. unfold ind_next.
    destruct (j <? elements sh) eqn:E; [apply Nat.ltb_lt in E|apply Nat.ltb_ge in E].
    + rewrite IH by lia. rewrite index_from_flat_unflat by assumption. f_equal. lia.
    + rewrite IH by lia. f_equal; [|lia].
      destruct (j <? elements sh) eqn:E'; [apply Nat.ltb_lt in E'; lia|]. f_equal.
      apply (@map_seq_done _ _ (elements sh)); try lia.
      intros m Hm. destruct (m <? elements sh) eqn:E''; [apply Nat.ltb_lt in E''; lia|reflexivity].
Qed.

(* --- view::Iter --- *)
Definition vst_of (v : view A) (j : nat) : vstate :=
  {| rcoords := rdigits (rev (vshape v)) (j - 1);
     voffset := dot (rev (vstrides v)) (rdigits (rev (vshape v)) (j - 1));
     vindex := j |}.

Definition vout (v : view A) (m : nat) : option A :=
  if m <? elements (vshape v) then nth_error (vdata v) (dot (vstrides v) (unflat (vshape v) m)) else None.

Lemma vnext_first v :
  positive_shape (vshape v) -> length (vstrides v) = length (vshape v) ->
  vnext v (viter_new v) = (vst_of v 1, vout v 0).
Proof.
  intros Hp Hl. pose proof (elements_pos _ Hp) as He.
  unfold vnext, viter_new, vout. cbn [vindex rcoords voffset].
  destruct (elements (vshape v) <=? 0) eqn:E; [apply Nat.leb_le in E; lia|].
  cbn [Nat.eqb]. destruct (0 <? elements (vshape v)) eqn:E2; [|apply Nat.ltb_ge in E2; lia].
  unfold vst_of. cbn [Nat.sub]. rewrite rdigits_0 by now apply positive_rev.
  rewrite rev_length, dot_zeros. f_equal.
  f_equal. rewrite <- (rdigits_unflat (sh:=vshape v) (k:=0)) by assumption.
  rewrite rdigits_0 by now apply positive_rev.
  assert (forall d, rev (repeat 0 d) = repeat 0 d) as Hrr.
  { induction d as [|d IHd]; [reflexivity|]. cbn [repeat rev]. rewrite IHd.
    clear. induction d; cbn; [reflexivity|]. now f_equal. }
  rewrite Hrr, dot_zeros. reflexivity.
Qed.

Lemma vnext_step v j :
  positive_shape (vshape v) -> length (vstrides v) = length (vshape v) ->
  1 <= j -> j < elements (vshape v) ->
  vnext v (vst_of v j) = (vst_of v (S j), vout v j).
Proof.
  intros Hp Hl H1 Hj.
  unfold vnext, vst_of, vout. cbn [vindex rcoords voffset].
  destruct (elements (vshape v) <=? j) eqn:E; [apply Nat.leb_le in E; lia|].
  destruct (j =? 0) eqn:E0; [apply Nat.eqb_eq in E0; lia|].
  destruct (j <? elements (vshape v)) eqn:E2; [|apply Nat.ltb_ge in E2; lia].
  replace j with (S (j - 1)) at 5 6 by lia.
  assert (Hodo := @odo_step (rev (vshape v)) (rev (vstrides v)) (j - 1)).
  rewrite Hodo; [| now apply positive_rev | rewrite !rev_length; assumption | rewrite elements_rev; lia].
  replace (S (j - 1)) with j by lia. cbn [Nat.sub]. rewrite Nat.sub_0_r.
  f_equal. f_equal.
  rewrite <- (rdigits_unflat (sh:=vshape v) (k:=j)) by assumption.
  rewrite <- (dot_rev (vstrides v)) by (rewrite rev_length, rdigits_length, rev_length; assumption).
  now rewrite rev_involutive.
Qed.

Lemma vnext_done (v : view A) j s :
  vindex s = j -> elements (vshape v) <= j -> vnext v s = (s, None).
Proof.
  intros Hs Hj. unfold vnext. rewrite Hs.
  destruct (elements (vshape v) <=? j) eqn:E; [reflexivity|apply Nat.leb_gt in E; lia].
Qed.

Lemma vrun_from v k j :
  positive_shape (vshape v) -> length (vstrides v) = length (vshape v) ->
  1 <= j -> j <= elements (vshape v) ->
  vrun k v (vst_of v j) = (map (vout v) (seq j k), vst_of v (Nat.min (j + k) (elements (vshape v)))).
Proof.
  intros Hp Hl. revert j; induction k as [|k IH]; intros j H1 Hj.
  - cbn [vrun seq map]. f_equal. f_equal. lia.
  - cbn [vrun seq map].
    destruct (Nat.eq_dec j (elements (vshape v))) as [->|Hne].
    + rewrite (@vnext_done v (elements (vshape v))) by (reflexivity || lia).
      rewrite IH by lia. f_equal.
      * assert (Hnone : forall m, elements (vshape v) <= m -> vout v m = None).
        { intros m Hm. unfold vout. destruct (m <? elements (vshape v)) eqn:E'; [apply Nat.ltb_lt in E'; lia|reflexivity]. }
        rewrite Hnone by lia. f_equal. apply (@map_seq_done _ _ (elements (vshape v))); (assumption || lia).
      * f_equal. lia.
    + rewrite vnext_step by (assumption || lia). rewrite IH by lia. f_equal. f_equal. lia.
Qed.

Lemma vrun_spec v k :
  positive_shape (vshape v) -> length (vstrides v) = length (vshape v) ->
  fst (vrun k v (viter_new v)) = map (vout v) (seq 0 k) /\
  vlen v (snd (vrun k v (viter_new v))) = elements (vshape v) - k.
Proof.
  intros Hp Hl. pose proof (elements_pos _ Hp) as He. destruct k as [|k].
  - split; [reflexivity|]. unfold vlen, viter_new. cbn [vrun snd vindex]. lia.
  - cbn [vrun seq map]. rewrite vnext_first by assumption.
    rewrite vrun_from by (assumption || lia). cbn [fst snd]. split; [reflexivity|].
    unfold vlen, vst_of. cbn [vindex]. lia.
Qed.

Lemma vcollect_from v fuel j :
  positive_shape (vshape v) -> length (vstrides v) = length (vshape v) ->
  1 <= j -> j <= elements (vshape v) -> elements (vshape v) - j < fuel ->
  (forall m, m < elements (vshape v) -> vout v m <> None) ->
  map Some (vcollect fuel v (vst_of v j)) = map (vout v) (seq j (elements (vshape v) - j)).
Proof.
  intros Hp Hl. revert j; induction fuel as [|f IH]; intros j H1 Hj Hf Hsome; [lia|].
  cbn [vcollect].
  destruct (Nat.eq_dec j (elements (vshape v))) as [->|Hne].
  - rewrite (@vnext_done v (elements (vshape v))) by (reflexivity || lia).
    now rewrite Nat.sub_diag.
  - rewrite vnext_step by (assumption || lia).
    destruct (vout v j) eqn:Ho; [|exfalso; apply (Hsome j); [lia|assumption]].
    replace (elements (vshape v) - j) with (S (elements (vshape v) - S j)) by lia.
    cbn [seq map]. rewrite Ho. f_equal. apply IH; (assumption || lia).
Qed.

Lemma view_items_spec v :
  positive_shape (vshape v) -> length (vstrides v) = length (vshape v) ->
  (forall m, m < elements (vshape v) -> vout v m <> None) ->
  map Some (view_items v) = map (vout v) (seq 0 (elements (vshape v))).
Proof.
  intros Hp Hl Hsome. pose proof (elements_pos _ Hp) as He.
  unfold view_items. cbn [vcollect]. rewrite vnext_first by assumption.
  destruct (vout v 0) eqn:Ho; [|exfalso; apply (Hsome 0); [lia|assumption]].
  replace (elements (vshape v)) with (S (elements (vshape v) - 1)) at 2 by lia.
  cbn [seq map]. rewrite Ho. f_equal. apply vcollect_from; (assumption || lia).
Qed.

(* the items of the view at (a,i) are exactly the array elements whose a-th index is i *)
Lemma vout_get x a i v m :
  wf x -> positive_shape (ashape x) -> get_axis x a i = Some v ->
  vout v m = if m <? elements (remove_axis a (ashape x))
             then get x (insert_axis a i (unflat (remove_axis a (ashape x)) m)) else None.
Proof.
  intros Hwf Hp Hga. apply get_axis_some in Hga as (Ha & Hi & ->).
  unfold vout. cbn [vshape vstrides vdata]. unfold dimensions in Ha.
  destruct (m <? elements (remove_axis a (ashape x))) eqn:Hm; [apply Nat.ltb_lt in Hm|reflexivity].
  pose proof (positive_remove_axis a _ Hp) as Hp'.
  rewrite get_spec, inb_insert_axis by assumption.
  apply Nat.ltb_lt in Hi. rewrite Hi. cbn [andb]. rewrite inb_unflat by assumption.
  rewrite flat_insert_axis by (try assumption; rewrite unflat_length, remove_axis_length by assumption; reflexivity).
  unfold astrides. rewrite nth_error_skipn'. reflexivity.
Qed.

Lemma get_inb_some x idx : wf x -> inb (ashape x) idx = true -> get x idx <> None.
Proof. intros Hwf Hin H. apply get_none_iff in H; [congruence|assumption]. Qed.

Lemma view_wf x a i v :
  get_axis x a i = Some v ->
  vshape v = remove_axis a (ashape x) /\ length (vstrides v) = length (vshape v).
Proof.
  intros Hga. apply get_axis_some in Hga as (Ha & Hi & ->). cbn [vshape vstrides]. split; [reflexivity|].
  unfold dimensions in Ha. unfold astrides.
  rewrite !remove_axis_length by (rewrite ?strides_length; assumption). now rewrite strides_length.
Qed.

Theorem view_iter_spec x a i v k :
  wf x -> positive_shape (ashape x) -> get_axis x a i = Some v ->
  let sh' := remove_axis a (ashape x) in
  fst (vrun k v (viter_new v)) =
    map (fun m => if m <? elements sh' then get x (insert_axis a i (unflat sh' m)) else None) (seq 0 k)
  /\ vlen v (snd (vrun k v (viter_new v))) = elements sh' - k.
Proof.
  intros Hwf Hp Hga sh'. destruct (view_wf _ _ _ Hga) as [Hsh Hl].
  pose proof (positive_remove_axis a _ Hp) as Hp'.
  destruct (@vrun_spec v k) as [H1 H2]; [rewrite Hsh; assumption | assumption |].
  split.
  - rewrite H1. apply map_ext. intros m. now apply vout_get.
  - rewrite H2, Hsh. reflexivity.
Qed.

(* every yielded item is Some for in-range positions: the iterator never stops early *)
Lemma view_iter_yields x a i v m :
  wf x -> positive_shape (ashape x) -> get_axis x a i = Some v ->
  m < elements (remove_axis a (ashape x)) -> vout v m <> None.
Proof.
  intros Hwf Hp Hga Hm. erewrite vout_get by eassumption.
  apply Nat.ltb_lt in Hm as Hm'. rewrite Hm'.
  apply get_axis_some in Hga as (Ha & Hi & _). unfold dimensions in Ha.
  apply get_inb_some; [assumption|].
  rewrite inb_insert_axis by assumption. apply Nat.ltb_lt in Hi. rewrite Hi. cbn [andb].
  apply inb_unflat; [now apply positive_remove_axis|assumption].
Qed.

Theorem view_items_get x a i v :
  wf x -> positive_shape (ashape x) -> get_axis x a i = Some v ->
  map Some (view_items v) =
    map (fun idx' => get x (insert_axis a i idx')) (indices (remove_axis a (ashape x))).
Proof.
  intros Hwf Hp Hga. destruct (view_wf _ _ _ Hga) as [Hsh Hl].
  pose proof (positive_remove_axis a _ Hp) as Hp'.
  rewrite view_items_spec; [| rewrite Hsh; assumption | assumption |
    intros m Hm; rewrite Hsh in Hm; eapply view_iter_yields; eassumption].
  rewrite Hsh, indices_unflat, map_map by assumption.
  apply map_ext_in. intros m Hm. apply in_seq in Hm.
  erewrite vout_get by eassumption. destruct (m <? _) eqn:E; [reflexivity|apply Nat.ltb_ge in E; lia].
Qed.

(* --- AxisIter --- *)
Fixpoint axis_run (k : nat) x (a i : nat) : list (option (view A)) * nat :=
  match k with
  | O => ([], i)
  | S k' => let '(i', o) := axis_next x a i in
            let '(os, i'') := axis_run k' x a i' in (o :: os, i'')
  end.

Lemma axis_run_spec x a k j :
  j <= nth a (ashape x) 0 ->
  axis_run k x a j = (map (fun m => get_axis x a m) (seq j k), Nat.min (j + k) (nth a (ashape x) 0)).
Proof.
  revert j; induction k as [|k IH]; intros j Hj.
  - cbn. f_equal. lia.
  - cbn [axis_run seq map]. unfold axis_next.
    destruct (get_axis x a j) eqn:E.
    + assert (j < nth a (ashape x) 0).
      { apply get_axis_some in E as (_ & Hi & _). exact Hi. }
      rewrite IH by lia. f_equal. lia.
    + assert (Hn : get_axis x a j = None) by exact E.
      apply get_axis_none_iff in Hn.
      assert (Hge : nth a (ashape x) 0 <= j).
      { destruct Hn as [Hd|Hd]; [|exact Hd]. unfold dimensions in Hd. rewrite (nth_overflow _ _ Hd). lia. }
      assert (j = nth a (ashape x) 0) as Hj' by lia.
      rewrite IH by lia. f_equal; [|lia]. f_equal.
      apply (@map_seq_done _ _ (nth a (ashape x) 0)); try lia.
      intros m Hm. apply get_axis_none_iff. now right.
Qed.

Lemma axis_views_spec x a :
  a < dimensions x ->
  map Some (axis_views x a) = map (fun i => get_axis x a i) (seq 0 (nth a (ashape x) 0)).
Proof.
  intros Ha. unfold axis_views.
  assert (forall fuel j, j <= nth a (ashape x) 0 -> nth a (ashape x) 0 - j < fuel ->
            map Some (axis_collect fuel x a j) = map (fun i => get_axis x a i) (seq j (nth a (ashape x) 0 - j))) as H.
  { induction fuel as [|f IH]; intros j Hj Hf; [lia|]. cbn [axis_collect]. unfold axis_next.
    destruct (get_axis x a j) eqn:E.
    - assert (j < nth a (ashape x) 0) by (apply get_axis_some in E as (_ & Hi & _); exact Hi).
      replace (nth a (ashape x) 0 - j) with (S (nth a (ashape x) 0 - S j)) by lia.
      cbn [seq map]. rewrite E. f_equal. apply IH; lia.
    - assert (Hn : get_axis x a j = None) by exact E. apply get_axis_none_iff in Hn.
      assert (j = nth a (ashape x) 0) as -> by lia. now rewrite Nat.sub_diag. }
  rewrite H by lia. now rewrite Nat.sub_0_r.
Qed.

(* --- Array::sum --- *)
Variable zero : A.
Variable add : A -> A -> A.

Definition getd x idx : A := match get x idx with Some v => v | None => zero end.

Lemma zipadd_length acc ys : length (zipadd add acc ys) = length acc.
Proof. revert ys; induction acc as [|a acc IH]; intros [|y ys]; cbn; auto. Qed.

Lemma zipadd_nth acc ys k :
  length ys = length acc -> k < length acc ->
  nth k (zipadd add acc ys) zero = add (nth k acc zero) (nth k ys zero).
Proof.
  revert ys k; induction acc as [|a acc IH]; intros [|y ys] k Hl Hk; cbn [length] in *; try lia.
  destruct k as [|k]; cbn [zipadd nth]; [reflexivity|]. apply IH; lia.
Qed.

Lemma fold_zipadd_nth vs acc k :
  Forall (fun v => length v = length acc) vs -> k < length acc ->
  nth k (fold_left (zipadd add) vs acc) zero = fold_left add (map (fun v => nth k v zero) vs) (nth k acc zero)
  /\ length (fold_left (zipadd add) vs acc) = length acc.
Proof.
  revert acc; induction vs as [|v vs IH]; intros acc Hall Hk; cbn [fold_left map]; [auto|].
  inversion Hall as [|? ? Hv Hall']; subst.
  destruct (IH (zipadd add acc v)) as [IH1 IH2].
  - rewrite zipadd_length. exact Hall'.
  - now rewrite zipadd_length.
  - rewrite IH1, IH2, zipadd_length, zipadd_nth by assumption. auto.
Qed.

Lemma map_Some_inj {B} (l l' : list B) : map Some l = map Some l' -> l = l'.
Proof.
  revert l'; induction l as [|a l IH]; intros [|b l'] H; cbn in H; try discriminate; [reflexivity|].
  inversion H; subst. f_equal. now apply IH.
Qed.

Lemma view_items_nth x a i v k :
  wf x -> positive_shape (ashape x) -> get_axis x a i = Some v ->
  k < elements (remove_axis a (ashape x)) ->
  length (view_items v) = elements (remove_axis a (ashape x)) /\
  nth k (view_items v) zero = getd x (insert_axis a i (unflat (remove_axis a (ashape x)) k)).
Proof.
  intros Hwf Hp Hga Hk. pose proof (view_items_get _ _ Hwf Hp Hga) as H.
  pose proof (positive_remove_axis a _ Hp) as Hp'.
  assert (Hlen : length (view_items v) = elements (remove_axis a (ashape x))).
  { rewrite <- (map_length Some), H, map_length. apply indices_length. }
  split; [exact Hlen|].
  assert (Hn : nth_error (map Some (view_items v)) k = Some (nth_error (view_items v) k)).
  { rewrite nth_error_map. destruct (nth_error (view_items v) k) eqn:E; [reflexivity|].
    apply nth_error_None in E. lia. }
  rewrite H in Hn. rewrite nth_error_map in Hn.
  rewrite <- (nth_indices _ _ Hp' Hk).
  assert (Hk' : k < length (indices (remove_axis a (ashape x)))) by (rewrite indices_length; exact Hk).
  rewrite (nth_error_nth' _ [] Hk') in Hn. cbn [option_map] in Hn. inversion Hn as [Hn'].
  unfold getd. rewrite Hn'.
  destruct (nth_error (view_items v) k) eqn:E; [now apply nth_error_nth|].
  apply nth_error_None in E. lia.
Qed.

Theorem sum_axis_spec x a idx' :
  wf x -> positive_shape (ashape x) -> a < dimensions x ->
  inb (remove_axis a (ashape x)) idx' = true ->
  get (sum_axis zero add x a) idx' =
    Some (fold_left add (map (fun i => getd x (insert_axis a i idx')) (seq 0 (nth a (ashape x) 0))) zero).
Proof.
  intros Hwf Hp Ha Hin. set (sh' := remove_axis a (ashape x)) in *.
  pose proof (positive_remove_axis a _ Hp) as Hp'. fold sh' in Hp'.
  pose proof (flat_lt _ _ Hin) as Hk.
  rewrite get_spec. unfold sum_axis. cbn [ashape adata]. fold sh'. rewrite Hin.
  pose proof (axis_views_spec x Ha) as Hviews.
  assert (Hall : Forall (fun v => length v = length (repeat zero (elements sh')))
                        (map (@view_items A) (axis_views x a))).
  { rewrite Forall_forall. intros l Hl. apply in_map_iff in Hl as [v [<- Hv]].
    rewrite repeat_length.
    assert (In (Some v) (map Some (axis_views x a))) as Hv' by now apply in_map.
    rewrite Hviews in Hv'. apply in_map_iff in Hv' as [i [Hga _]].
    now destruct (@view_items_nth x a i v _ Hwf Hp Hga Hk). }
  assert (Hfold : forall (vs : list (view A)) acc,
            fold_left (fun acc v => zipadd add acc (view_items v)) vs acc =
            fold_left (zipadd add) (map (@view_items A) vs) acc).
  { induction vs as [|v vs IHvs]; intros acc; cbn [fold_left map]; [reflexivity|apply IHvs]. }
  rewrite Hfold.
  destruct (@fold_zipadd_nth (map (@view_items A) (axis_views x a)) (repeat zero (elements sh')) (flat sh' idx'))
    as [Hnth Hlen]; [exact Hall | now rewrite repeat_length |].
  rewrite repeat_length in Hlen.
  rewrite (nth_error_nth' _ zero) by (rewrite Hlen; exact Hk). f_equal.
  rewrite Hnth, map_map. rewrite nth_repeat.
  (* relate the views to the axis positions *)
  assert (Hgen : forall (vs : list (view A)) (is : list nat),
            map Some vs = map (fun i => get_axis x a i) is ->
            map (fun v => nth (flat sh' idx') (view_items v) zero) vs =
            map (fun i => getd x (insert_axis a i idx')) is).
  { induction vs as [|v vs IHvs]; intros [|i is] Hm; cbn [map] in *; try discriminate; [reflexivity|].
    inversion Hm as [[Hga Hm']]. f_equal; [|now apply IHvs].
    symmetry in Hga. destruct (@view_items_nth x a i v _ Hwf Hp Hga Hk) as [_ Hn].
    fold sh' in Hn. rewrite Hn. now rewrite unflat_flat. }
  now rewrite (Hgen _ _ Hviews).
Qed.

End Get.
