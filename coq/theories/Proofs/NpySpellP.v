(* Property C15, reader side: the header dict is accepted in every spelling numpy (or a hand-written writer) may use -
   either quote character, any number of spaces/tabs around ':' and ',', after '{' and before '}', any order of the three
   keys, with or without trailing commas, the numpy shape tuple `(n,)` / `(a, b)` - and yields exactly the dtype, order flag
   and shape that were written. Statements are FIXED; replace every Admitted by a proof. If a statement is FALSE as
   written, do not change it silently: prove the others, put the false one in a comment `(* FALSE: ... *)` with the
   counterexample and prove a corrected `<name>_fixed` (minimal change). *)
From Sfs Require Import Index Npy NpyP.
From Coq Require Import Lia.

Close Scope string_scope. Open Scope N_scope.

(* horizontal whitespace as accepted by nom's space0 *)
Definition hspace (s : bytes) : Prop := Forall (fun c => c = 32 \/ c = 9) s.

Definition quote_ok (q : N) : Prop := q = 39 \/ q = 34.
Definition q_str (q : N) (s : bytes) : bytes := [q] ++ s ++ [q].

Definition endian_char (e : endian) (c : N) : Prop :=
  match e with Little => c = 60 \/ c = 124 | Big => c = 62 end.       (* '<' or '|' ; '>' *)
Definition type_str (t : ntype) : bytes :=
  match t with F4 => str "f4" | F8 => str "f8" | I1 => str "i1" | I2 => str "i2" | I4 => str "i4" | I8 => str "i8"
             | U1 => str "u1" | U2 => str "u2" | U4 => str "u4" | U8 => str "u8" end.

(* key : value with arbitrary horizontal space around the colon *)
Definition kv (q : N) (key : bytes) (s1 s2 value : bytes) : bytes := q_str q key ++ s1 ++ [58] ++ s2 ++ value.

Definition descr_entry (q q' : N) (ec : N) (t : ntype) (s1 s2 : bytes) : bytes := kv q (str "descr") s1 s2 (q_str q' (ec :: type_str t)).
Definition fortran_entry (q : N) (f : bool) (s1 s2 : bytes) : bytes := kv q (str "fortran_order") s1 s2 (if f then str "True" else str "False").
(* the shape tuple: elements separated by `sp_l , sp_r`, optional trailing separator *)
Fixpoint shape_items (sh : list N) (l r : bytes) : bytes :=
  match sh with
  | [] => []
  | [n] => dec n
  | n :: t => dec n ++ l ++ [44] ++ r ++ shape_items t l r
  end.
Definition shape_entry (q : N) (sh : list N) (s1 s2 l r : bytes) (trailing : bool) : bytes :=
  kv q (str "shape") s1 s2 ([40] ++ shape_items sh l r ++ (if trailing then l ++ [44] ++ r else []) ++ [41]).

Arguments N.add : simpl never.
Arguments N.sub : simpl never.
Arguments N.mul : simpl never.
Arguments N.eqb : simpl never.
Arguments N.ltb : simpl never.
Arguments N.leb : simpl never.

Lemma space0_hspace s r : hspace s -> (match r with c :: _ => c <> 32 /\ c <> 9 | [] => True end) -> space0 (s ++ r) = r.
Proof.
  intros Hs Hr. induction Hs as [|c s Hc Hs IH]; cbn [app].
  - destruct r as [|x r]; [reflexivity|]. cbn [space0]. destruct Hr as [H1 H2].
    destruct (N.eqb_spec x 32); [congruence|]. destruct (N.eqb_spec x 9); [congruence|]. reflexivity.
  - cbn [space0]. destruct Hc as [-> | ->].
    + change (32 =? 32) with true. cbn [orb]. exact IH.
    + change (9 =? 32) with false. change (9 =? 9) with true. cbn [orb]. exact IH.
Qed.
Lemma ws_sep_hspace c s1 s2 r : hspace s1 -> hspace s2 -> c <> 32 -> c <> 9 ->
  (match r with x :: _ => x <> 32 /\ x <> 9 | [] => True end) -> ws_sep c (s1 ++ [c] ++ s2 ++ r) = Some r.
Proof.
  intros H1 H2 Hc1 Hc2 Hr. unfold ws_sep.
  rewrite (space0_hspace s1 ([c] ++ s2 ++ r)) by (try assumption; cbn [app]; split; assumption).
  cbn [app tag]. rewrite N.eqb_refl. apply f_equal. apply space0_hspace; assumption.
Qed.

(* ---------------------------------------------------------------- helpers *)
Definition head_ns (r : bytes) : Prop := match r with c :: _ => c <> 32 /\ c <> 9 | [] => True end.
Definition head_nd (r : bytes) : Prop := match r with c :: _ => is_digit c = false | [] => True end.

Lemma take_until_app q s r : Forall (fun c => c <> q) s -> take_until q (s ++ q :: r) = (s, q :: r).
Proof.
  induction 1 as [|c s Hc Hs IH]; cbn [app take_until].
  - rewrite N.eqb_refl. reflexivity.
  - destruct (N.eqb_spec c q); [congruence|]. rewrite IH. reflexivity.
Qed.

Lemma quote_q q s r : s <> [] -> Forall (fun c => c <> q) s -> quote q (q :: s ++ q :: r) = Some (s, r).
Proof.
  intros Hne HF. unfold quote. cbn [tag]. rewrite N.eqb_refl. rewrite take_until_app by assumption.
  destruct s; [congruence|]. cbn [tag]. rewrite N.eqb_refl. reflexivity.
Qed.

Definition noqb (s : bytes) : bool := forallb (fun c => negb (c =? 39) && negb (c =? 34)) s.

Lemma noqb_Forall s q : quote_ok q -> noqb s = true -> Forall (fun c => c <> q) s.
Proof.
  intros Hq. unfold noqb. induction s as [|c s IH]; cbn [forallb]; intro H; constructor.
  - apply andb_true_iff in H. destruct H as [H _]. apply andb_true_iff in H. destruct H as [H1 H2].
    apply negb_true_iff in H1, H2. apply N.eqb_neq in H1, H2. destruct Hq; subst q; assumption.
  - apply andb_true_iff in H. destruct H as [_ H]. apply IH; assumption.
Qed.

Lemma parse_string_q q s r : quote_ok q -> s <> [] -> noqb s = true ->
  parse_string (q :: s ++ q :: r) = Some (s, r).
Proof.
  intros Hq Hne Hs. pose proof (noqb_Forall s q Hq Hs) as HF. unfold parse_string.
  destruct Hq as [-> | ->].
  - rewrite quote_q by assumption. reflexivity.
  - change (quote 39 (34 :: s ++ 34 :: r)) with (@None (bytes * bytes)). apply quote_q; assumption.
Qed.

Lemma bytes_eqb_refl s : bytes_eqb s s = true.
Proof. induction s as [|c s IH]; cbn [bytes_eqb]; [reflexivity|]. rewrite N.eqb_refl, IH. reflexivity. Qed.

Lemma kv_eq q key s1 s2 v r : kv q key s1 s2 v ++ r = q :: key ++ q :: (s1 ++ [58] ++ s2 ++ v ++ r).
Proof. unfold kv, q_str. rewrite <- !app_assoc. reflexivity. Qed.

Lemma q_str_eq q s r : q_str q s ++ r = q :: s ++ q :: r.
Proof. unfold q_str. rewrite <- !app_assoc. reflexivity. Qed.

Lemma target_kv q key t s1 s2 v r : quote_ok q -> key <> [] -> noqb key = true ->
  target_string t (kv q key s1 s2 v ++ r) = if bytes_eqb key t then Some (s1 ++ [58] ++ s2 ++ v ++ r) else None.
Proof.
  intros Hq Hne Hk. rewrite kv_eq. unfold target_string. rewrite parse_string_q by assumption. reflexivity.
Qed.

Lemma ws_colon s1 s2 R : hspace s1 -> hspace s2 -> head_ns R -> ws_sep 58 (s1 ++ [58] ++ s2 ++ R) = Some R.
Proof. intros. apply ws_sep_hspace; try assumption; discriminate. Qed.

Lemma ws_comma s1 s2 R : hspace s1 -> hspace s2 -> head_ns R -> ws_sep 44 (s1 ++ [44] ++ s2 ++ R) = Some R.
Proof. intros. apply ws_sep_hspace; try assumption; discriminate. Qed.

Lemma head_ns_app e R : (match e with c :: _ => c <> 32 /\ c <> 9 | [] => False end) -> head_ns (e ++ R).
Proof. destruct e; [contradiction|]. intro H; exact H. Qed.

Lemma parse_descr_value_ok q' ec e t r : quote_ok q' -> endian_char e ec ->
  parse_descr_value (q_str q' (ec :: type_str t) ++ r) = Some (e, t, r).
Proof.
  intros Hq He. rewrite q_str_eq. unfold parse_descr_value.
  assert (Hs : noqb (ec :: type_str t) = true).
  { destruct e; cbn [endian_char] in He; [destruct He as [-> | ->]|subst ec]; destruct t; vm_compute; reflexivity. }
  rewrite parse_string_q by (assumption || discriminate).
  destruct e; cbn [endian_char] in He; [destruct He as [-> | ->]|subst ec]; destruct t; reflexivity.
Qed.


(* each entry, in any spelling, followed by anything, parses to the entry and leaves the rest *)
Theorem parse_descr_entry q q' ec e t s1 s2 r : quote_ok q -> quote_ok q' -> endian_char e ec -> hspace s1 -> hspace s2 ->
  parse_entry (descr_entry q q' ec t s1 s2 ++ r) = Some (EDescr e t, r).
Proof.
  intros Hq Hq' He H1 H2. unfold parse_entry, descr_entry.
  rewrite !target_kv by (assumption || discriminate || reflexivity).
  change (bytes_eqb (str "descr") (str "descr")) with true. cbv iota.
  rewrite ws_colon; [|assumption|assumption|].
  - rewrite (parse_descr_value_ok q' ec e t r Hq' He). reflexivity.
  - rewrite q_str_eq. destruct Hq' as [-> | ->]; split; discriminate.
Qed.
Theorem parse_fortran_entry q f s1 s2 r : quote_ok q -> hspace s1 -> hspace s2 ->
  parse_entry (fortran_entry q f s1 s2 ++ r) = Some (EFortran f, r).
Proof.
  intros Hq H1 H2. unfold parse_entry, fortran_entry.
  rewrite !target_kv by (assumption || discriminate || reflexivity).
  change (bytes_eqb (str "fortran_order") (str "descr")) with false.
  change (bytes_eqb (str "fortran_order") (str "fortran_order")) with true. cbv iota.
  rewrite ws_colon; [|assumption|assumption|].
  - destruct f; reflexivity.
  - destruct f; split; discriminate.
Qed.

(* ---- the shape tuple ---- *)
Definition items_rest (t : list N) (l r : bytes) : bytes := flat_map (fun m => l ++ [44] ++ r ++ dec m) t.

Lemma shape_items_cons n t l r : shape_items (n :: t) l r = dec n ++ items_rest t l r.
Proof.
  revert n; induction t as [|b t IH]; intro n.
  - cbn [shape_items items_rest flat_map]. rewrite app_nil_r. reflexivity.
  - change (shape_items (n :: b :: t) l r) with (dec n ++ l ++ [44] ++ r ++ shape_items (b :: t) l r).
    rewrite IH. unfold items_rest. cbn [flat_map]. rewrite <- !app_assoc. reflexivity.
Qed.

Lemma hspace_nd c : c = 32 \/ c = 9 -> is_digit c = false.
Proof. intros [-> | ->]; reflexivity. Qed.

Lemma head_nd_sep l X : hspace l -> head_nd (l ++ [44] ++ X).
Proof.
  intro Hl. destruct Hl as [|c l Hc Hl]; cbn [app head_nd]; [reflexivity|]. apply hspace_nd; assumption.
Qed.

Lemma head_ns_dec n X : head_ns (dec n ++ X).
Proof.
  destruct (dec_digits n) as [Hne HF]. destruct (dec n) as [|c ds]; [congruence|].
  inversion HF as [|? ? Hc _]; subst. cbn [app head_ns].
  unfold is_digit in Hc. apply andb_true_iff in Hc. rewrite !N.leb_le in Hc. lia.
Qed.

Lemma head_nd_items t l r Y : hspace l -> head_nd Y -> head_nd (items_rest t l r ++ Y).
Proof.
  intros Hl HY. destruct t as [|b t]; [exact HY|].
  unfold items_rest. cbn [flat_map]. rewrite <- !app_assoc. apply head_nd_sep; assumption.
Qed.

Lemma usize_list_rest_items l r Y : hspace l -> hspace r -> head_nd Y ->
  (forall f, usize_list_rest f Y = ([], Y)) ->
  forall t fuel, (length t <= fuel)%nat -> Forall (fun n => n <= u64_max) t ->
  usize_list_rest fuel (items_rest t l r ++ Y) = (t, Y).
Proof.
  intros Hl Hr HY Hend. induction t as [|b t IH]; intros fuel Hf HF.
  - cbn [items_rest flat_map app]. apply Hend.
  - destruct fuel as [|f]; [cbn [length] in Hf; lia|].
    inversion HF as [|? ? Hb HF']; subst.
    unfold items_rest. cbn [flat_map]. rewrite <- !app_assoc. fold (items_rest t l r).
    cbn [usize_list_rest].
    rewrite ws_comma by (assumption || apply head_ns_dec).
    rewrite parse_u64_dec by (assumption || (apply head_nd_items; assumption)).
    rewrite IH; [reflexivity| cbn [length] in Hf; lia | assumption].
Qed.

Lemma items_rest_length t l r : (length t <= length (items_rest t l r))%nat.
Proof.
  induction t as [|b t IH]; cbn [items_rest flat_map length]; [lia|].
  fold (items_rest t l r). rewrite !app_length. cbn [length]. lia.
Qed.

Definition trail_of (trailing : bool) (l r : bytes) : bytes := if trailing then l ++ [44] ++ r else [].

Lemma trail_end trailing l rr r : hspace l -> hspace rr ->
  forall f, usize_list_rest f (trail_of trailing l rr ++ [41] ++ r) = ([], trail_of trailing l rr ++ [41] ++ r).
Proof.
  intros Hl Hr f. destruct f as [|f]; [reflexivity|]. cbn [usize_list_rest].
  destruct trailing; cbn [trail_of].
  - rewrite <- !app_assoc. rewrite ws_comma by (assumption || (split; discriminate)). reflexivity.
  - reflexivity.
Qed.

Lemma trail_opt trailing l rr r : hspace l -> hspace rr ->
  match ws_sep 44 (trail_of trailing l rr ++ [41] ++ r) with Some x => x | None => trail_of trailing l rr ++ [41] ++ r end
  = 41 :: r.
Proof.
  intros Hl Hr. destruct trailing; cbn [trail_of].
  - rewrite <- !app_assoc. rewrite ws_comma by (assumption || (split; discriminate)). reflexivity.
  - reflexivity.
Qed.

Lemma head_nd_trail trailing l rr r : hspace l -> head_nd (trail_of trailing l rr ++ [41] ++ r).
Proof.
  intro Hl. destruct trailing; cbn [trail_of].
  - rewrite <- !app_assoc. apply head_nd_sep; assumption.
  - reflexivity.
Qed.

Lemma parse_shape_ok sh l rr trailing r : hspace l -> hspace rr -> sh <> [] -> Forall (fun n => n <= u64_max) sh ->
  parse_shape ([40] ++ shape_items sh l rr ++ trail_of trailing l rr ++ [41] ++ r) = Some (sh, r).
Proof.
  intros Hl Hr Hne HF. destruct sh as [|n t]; [congruence|]. inversion HF as [|? ? Hn HF']; subst.
  rewrite shape_items_cons, <- app_assoc.
  set (Y := trail_of trailing l rr ++ [41] ++ r).
  assert (HY : head_nd Y) by (apply head_nd_trail; assumption).
  unfold parse_shape. cbn [app tag]. rewrite N.eqb_refl.
  unfold parse_usize_sequence.
  rewrite parse_u64_dec by (assumption || (apply head_nd_items; assumption)).
  rewrite (usize_list_rest_items l rr Y Hl Hr HY (trail_end trailing l rr r Hl Hr)).
  - unfold Y. rewrite trail_opt by assumption. cbn [tag]. rewrite N.eqb_refl. reflexivity.
  - rewrite app_length. pose proof (items_rest_length t l rr). lia.
  - assumption.
Qed.

Theorem parse_shape_entry q sh s1 s2 l rr trailing r : quote_ok q -> hspace s1 -> hspace s2 -> hspace l -> hspace rr ->
  sh <> [] -> Forall (fun n => n <= u64_max) sh ->
  (length sh = 1%nat -> trailing = true \/ True) ->
  parse_entry (shape_entry q sh s1 s2 l rr trailing ++ r) = Some (EShape sh, r).
Proof.
  intros Hq H1 H2 Hl Hr Hne HF _. unfold parse_entry, shape_entry.
  rewrite !target_kv by (assumption || discriminate || reflexivity).
  change (bytes_eqb (str "shape") (str "descr")) with false.
  change (bytes_eqb (str "shape") (str "fortran_order")) with false.
  change (bytes_eqb (str "shape") (str "shape")) with true. cbv iota.
  rewrite ws_colon; [|assumption|assumption|split; discriminate].
  rewrite <- !app_assoc. change (if trailing then l ++ [44] ++ rr else []) with (trail_of trailing l rr).
  rewrite (parse_shape_ok sh l rr trailing r Hl Hr Hne HF). reflexivity.
Qed.

(* a whole dict: `{` sp e1 sep e2 sep e3 [sep] sp `}` followed by anything (padding, newline) *)
Definition dict_text (a e1 sepa e2 sepb e3 tail b rest : bytes) : bytes :=
  [123] ++ a ++ e1 ++ sepa ++ e2 ++ sepb ++ e3 ++ tail ++ b ++ [125] ++ rest.
Definition sep_ok (s : bytes) : Prop := exists l r, hspace l /\ hspace r /\ s = l ++ [44] ++ r.
Definition tail_ok (s : bytes) : Prop := s = [] \/ sep_ok s.

Lemma tag1 c X : tag [c] ([c] ++ X) = Some X.
Proof. cbn [app tag]. rewrite N.eqb_refl. reflexivity. Qed.

Theorem parse_dict_any_order a sepa sepb tail b rest e1 e2 e3 x1 x2 x3 :
  hspace a -> hspace b -> sep_ok sepa -> sep_ok sepb -> tail_ok tail ->
  (forall r, parse_entry (e1 ++ r) = Some (x1, r)) -> (forall r, parse_entry (e2 ++ r) = Some (x2, r)) ->
  (forall r, parse_entry (e3 ++ r) = Some (x3, r)) ->
  (match e1 with c :: _ => c <> 32 /\ c <> 9 | [] => False end) ->
  (match e2 with c :: _ => c <> 32 /\ c <> 9 | [] => False end) ->
  (match e3 with c :: _ => c <> 32 /\ c <> 9 | [] => False end) ->
  parse_dict (dict_text a e1 sepa e2 sepb e3 tail b rest) = Some [x1; x2; x3].
Proof.
  intros Ha Hb (la & ra & Hla & Hra & ->) (lb & rb & Hlb & Hrb & ->) Ht P1 P2 P3 N1 N2 N3.
  set (Z := tail ++ b ++ [125] ++ rest).
  assert (Hclose : head_ns ([125] ++ rest)) by (split; discriminate).
  assert (Hsp : space0 (b ++ [125] ++ rest) = [125] ++ rest) by (apply space0_hspace; assumption).
  assert (Hend : forall f, entry_list_rest f Z = ([], Z)).
  { intro f. destruct f as [|f]; [reflexivity|]. cbn [entry_list_rest]. unfold Z.
    destruct Ht as [-> | (lt & rt & Hlt & Hrt & ->)].
    - change ([] ++ b ++ [125] ++ rest) with (b ++ [125] ++ rest). unfold ws_sep. rewrite Hsp. reflexivity.
    - replace ((lt ++ [44] ++ rt) ++ b ++ [125] ++ rest) with (lt ++ [44] ++ (rt ++ b) ++ [125] ++ rest)
        by (rewrite <- !app_assoc; reflexivity).
      rewrite ws_comma by (assumption || (apply Forall_app; split; assumption)).
      change ([125] ++ rest) with (125 :: rest). rewrite parse_entry_close. reflexivity. }
  assert (Hopt : tag [125] (space0 (match ws_sep 44 Z with Some x => x | None => Z end)) = Some rest).
  { unfold Z. destruct Ht as [-> | (lt & rt & Hlt & Hrt & ->)].
    - change ([] ++ b ++ [125] ++ rest) with (b ++ [125] ++ rest). unfold ws_sep. rewrite Hsp.
      change (tag [44] ([125] ++ rest)) with (@None bytes). cbv iota. rewrite Hsp. reflexivity.
    - replace ((lt ++ [44] ++ rt) ++ b ++ [125] ++ rest) with (lt ++ [44] ++ (rt ++ b) ++ [125] ++ rest)
        by (rewrite <- !app_assoc; reflexivity).
      rewrite ws_comma by (assumption || (apply Forall_app; split; assumption)).
      reflexivity. }
  unfold dict_text. fold Z. clearbody Z.
  unfold parse_dict. rewrite tag1.
  rewrite space0_hspace by (assumption || (apply head_ns_app; assumption)).
  rewrite P1.
  set (fuel := length _).
  assert (Hfuel : (2 <= fuel)%nat).
  { unfold fuel. rewrite !app_length. cbn [length]. destruct e2; [contradiction|]. cbn [length]. lia. }
  clearbody fuel. destruct fuel as [|[|f]]; try lia.
  cbn [entry_list_rest]. rewrite <- !app_assoc.
  rewrite ws_comma by (assumption || (apply head_ns_app; assumption)).
  rewrite P2.
  rewrite ws_comma by (assumption || (apply head_ns_app; assumption)).
  rewrite P3. rewrite Hend. rewrite Hopt. reflexivity.
Qed.

(* whatever the order of the three keys, the header record is the same *)
Theorem dict_of_entries_perm e t f sh :
  let d := EDescr e t in let fo := EFortran f in let s := EShape sh in
  forall l, In l [[d; fo; s]; [d; s; fo]; [fo; d; s]; [fo; s; d]; [s; d; fo]; [s; fo; d]] ->
  dict_of_entries l = Some {| h_endian := e; h_type := t; h_fortran := f; h_shape := sh |}.
Proof.
  intros d fo s l H. subst d fo s. cbn [In] in H.
  repeat (destruct H as [<- | H]; [reflexivity|]). contradiction.
Qed.
