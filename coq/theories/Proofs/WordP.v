(* The 64-bit layer refines the unbounded index model: statements are FIXED; proofs only. *)
From Sfs Require Import Index Word.
From Coq Require Import NArith Lia List Bool Arith.
Open Scope N_scope.

(* ---------------------------------------------------------------- Array::new's checked element count *)
Arguments N.mul : simpl never.
Arguments N.add : simpl never.
Arguments N.leb : simpl never.
Arguments N.ltb : simpl never.

Lemma wmax_ge1 : 1 <= wmax.
Proof. vm_compute. discriminate. Qed.

Lemma checked_mul_some a b : a * b <= wmax -> checked_mul a b = Some (a * b).
Proof. intros H. unfold checked_mul, fits. destruct (N.leb_spec (a * b) wmax); auto. lia. Qed.

Lemma checked_mul_inv a b c : checked_mul a b = Some c -> c = a * b /\ c <= wmax.
Proof.
  unfold checked_mul, fits. destruct (N.leb_spec (a * b) wmax) as [L|L]; intros E; [|discriminate].
  inversion E; subst. split; auto.
Qed.

Lemma checked_mul_none a b : wmax < a * b -> checked_mul a b = None.
Proof. intros H. unfold checked_mul, fits. destruct (N.leb_spec (a * b) wmax); auto. lia. Qed.

Lemma checked_add_some a b : a + b <= wmax -> checked_add a b = Some (a + b).
Proof. intros H. unfold checked_add, fits. destruct (N.leb_spec (a + b) wmax); auto. lia. Qed.

Lemma mul_le_l (a b : N) : 0 < b -> a <= b * a.
Proof. intros H. nia. Qed.

Lemma mul_le_r (a b : N) : 0 < b -> a <= a * b.
Proof. intros H. nia. Qed.

Lemma lt_mul_add (i n f p : N) : i < n -> f < p -> i * p + f < n * p.
Proof. intros H1 H2. nia. Qed.

Lemma prodN_pos sh : Forall (fun v => 0 < v) sh -> 0 < prodN sh.
Proof.
  induction 1 as [|v t Hv Ft IH]; cbn [prodN]; [lia|]. apply N.mul_pos_pos; auto.
Qed.

Lemma elements_w_sound_gen sh : forall acc n,
  acc <= wmax -> elements_w acc sh = Some n -> n = acc * prodN sh /\ n <= wmax.
Proof.
  induction sh as [|v t IH]; intros acc n Hacc H; cbn [elements_w prodN] in *.
  - inversion H; subst. split; lia.
  - destruct (checked_mul acc v) as [a|] eqn:E; [|discriminate].
    apply checked_mul_inv in E. destruct E as [-> Hle].
    apply IH in H; auto. destruct H as [-> H]; split; auto. rewrite N.mul_assoc. reflexivity.
Qed.

Lemma elements_w_complete_gen sh : forall acc,
  Forall (fun v => 0 < v) sh -> acc * prodN sh <= wmax -> elements_w acc sh = Some (acc * prodN sh).
Proof.
  induction sh as [|v t IH]; intros acc F H; cbn [elements_w prodN] in *.
  - f_equal. lia.
  - inversion F as [|? ? Hv Ft]; subst.
    pose proof (prodN_pos t Ft) as Pt.
    rewrite N.mul_assoc in H.
    rewrite checked_mul_some.
    + rewrite IH; auto. rewrite N.mul_assoc. reflexivity.
    + eapply N.le_trans; [apply (mul_le_r (acc * v) (prodN t) Pt) | exact H].
Qed.

Lemma elements_w_overflow_gen sh : forall acc,
  acc <= wmax -> wmax < acc * prodN sh -> elements_w acc sh = None.
Proof.
  induction sh as [|v t IH]; intros acc Ha H; cbn [elements_w prodN] in *.
  - lia.
  - rewrite N.mul_assoc in H.
    destruct (checked_mul acc v) as [a|] eqn:E; auto.
    apply checked_mul_inv in E. destruct E as [-> Hle]. apply IH; auto.
Qed.

Lemma elements_w_app pre : forall acc l,
  Forall (fun v => 0 < v) pre -> acc * prodN pre <= wmax ->
  elements_w acc (pre ++ l) = elements_w (acc * prodN pre) l.
Proof.
  induction pre as [|v t IH]; intros acc l F H; cbn [app elements_w prodN] in *.
  - f_equal. lia.
  - inversion F as [|? ? Hv Ft]; subst.
    pose proof (prodN_pos t Ft) as Pt.
    rewrite N.mul_assoc in H.
    rewrite checked_mul_some.
    + rewrite IH; auto. rewrite N.mul_assoc. reflexivity.
    + eapply N.le_trans; [apply (mul_le_r (acc * v) (prodN t) Pt) | exact H].
Qed.

Lemma elements_w_zero post : elements_w 0 post = Some 0.
Proof.
  induction post as [|v t IH]; cbn [elements_w]; [reflexivity|].
  rewrite checked_mul_some; rewrite N.mul_0_l; [exact IH | apply N.le_0_l].
Qed.

Lemma elements_w_sound sh n : elements_w 1 sh = Some n -> n = prodN sh /\ n <= wmax.
Proof.
  intros H. apply elements_w_sound_gen in H; [|apply wmax_ge1]. destruct H; split; lia.
Qed.

Lemma elements_w_complete sh :
  Forall (fun v => 0 < v) sh -> prodN sh <= wmax -> elements_w 1 sh = Some (prodN sh).
Proof.
  intros F H. rewrite elements_w_complete_gen; auto; [f_equal; lia | lia].
Qed.

Lemma elements_w_overflow sh : wmax < prodN sh -> elements_w 1 sh = None.
Proof.
  intros H. apply elements_w_overflow_gen; [apply wmax_ge1 | lia].
Qed.

(* Array::new never accepts on a wrapped product (F12): accepted => the true product is the data length and fits *)
Theorem array_new_w_sound len sh : array_new_w len sh = true -> prodN sh = len /\ len <= wmax.
Proof.
  unfold array_new_w. intros H. destruct (elements_w 1 sh) as [n|] eqn:E; [|discriminate].
  apply elements_w_sound in E. apply N.eqb_eq in H. destruct E; split; lia.
Qed.

Theorem array_new_w_complete len sh :
  Forall (fun v => 0 < v) sh -> prodN sh = len -> len <= wmax -> array_new_w len sh = true.
Proof.
  intros F H L. unfold array_new_w. rewrite elements_w_complete; auto; [|lia]. apply N.eqb_eq; auto.
Qed.

(* an empty array (some axis 0) is accepted whenever the product of the axes BEFORE the first zero fits *)
Theorem array_new_w_zero_axis pre post :
  Forall (fun v => 0 < v) pre -> prodN pre <= wmax -> array_new_w 0 (pre ++ 0 :: post) = true.
Proof.
  intros F L. unfold array_new_w. rewrite elements_w_app; auto; [|lia].
  cbn [elements_w]. rewrite checked_mul_some; [|rewrite N.mul_0_r; apply N.le_0_l].
  rewrite N.mul_0_r, elements_w_zero. reflexivity.
Qed.

(* ---------------------------------------------------------------- Shape::strides *)
(* never overflows, whatever the shape (F22) *)
Lemma saturating_mul_fit a b : saturating_mul a b <= wmax.
Proof. unfold saturating_mul, fits. destruct (N.leb_spec (a * b) wmax); auto. apply N.le_refl. Qed.

Lemma satprod_fit t : satprod t <= wmax.
Proof.
  destruct t as [|v t]; unfold satprod; cbn [fold_right]; [apply wmax_ge1 | apply saturating_mul_fit].
Qed.

Lemma satprod_exact t : Forall (fun v => 0 < v) t -> prodN t <= wmax -> satprod t = prodN t.
Proof.
  induction t as [|v t IH]; intros F L; auto.
  inversion F as [|? ? Hv Ft]; subst.
  change (satprod (v :: t)) with (saturating_mul (satprod t) v).
  cbn [prodN] in *.
  assert (Lt : prodN t <= wmax) by (eapply N.le_trans; [apply (mul_le_l (prodN t) v Hv) | exact L]).
  rewrite IH; auto. unfold saturating_mul, fits.
  rewrite (N.mul_comm (prodN t) v).
  destruct (N.leb_spec (v * prodN t) wmax); auto. lia.
Qed.

Theorem strides_w_fit sh : Forall (fun s => s <= wmax) (strides_w sh).
Proof.
  induction sh as [|v t IH]; cbn [strides_w]; constructor; auto. apply satprod_fit.
Qed.

Theorem strides_w_length sh : length (strides_w sh) = length sh.
Proof.
  induction sh as [|v t IH]; cbn [strides_w length]; auto.
Qed.

(* and is exact on every non-empty array that Array::new accepts *)
Theorem strides_w_exact sh :
  Forall (fun v => 0 < v) sh -> prodN sh <= wmax -> strides_w sh = stridesN sh.
Proof.
  induction sh as [|v t IH]; intros F L; cbn [strides_w stridesN]; auto.
  inversion F as [|? ? Hv Ft]; subst. cbn [prodN] in L.
  assert (Lt : prodN t <= wmax) by (eapply N.le_trans; [apply (mul_le_l (prodN t) v Hv) | exact L]).
  rewrite satprod_exact, IH; auto.
Qed.

(* the code before the repair overflowed on an accepted (empty) array: kept on record *)
Theorem strides_unrepaired_overflow_refuted :
  array_new_w 0 [0; wmax; 2] = true /\ chkprod [wmax; 2] = None /\ strides_w [0; wmax; 2] = [wmax; 2; 1].
Proof.
  vm_compute; repeat split; reflexivity.
Qed.

(* ---------------------------------------------------------------- Strides::flat_index *)
Lemma all_ltN_positive idx sh :
  length idx = length sh -> all_ltN idx sh = true -> Forall (fun v => 0 < v) sh.
Proof.
  revert sh; induction idx as [|i r IH]; intros [|n t] Hl H; cbn [length all_ltN] in *; try discriminate.
  - constructor.
  - apply andb_prop in H. destruct H as [H1 H2]. apply N.ltb_lt in H1. constructor; [lia|].
    apply IH; auto.
Qed.

Lemma flatN_lt sh idx : length idx = length sh -> all_ltN idx sh = true -> flatN sh idx < prodN sh.
Proof.
  revert sh; induction idx as [|i r IH]; intros [|n t] Hl H; cbn [length all_ltN flatN prodN] in *; try discriminate.
  - lia.
  - apply andb_prop in H. destruct H as [H1 H2]. apply N.ltb_lt in H1.
    assert (Hr : flatN t r < prodN t) by (apply IH; auto).
    apply lt_mul_add; auto.
Qed.

(* for every array Array::new accepts and every index: no overflow, and the row-major position *)
Lemma dot_w_exact sh : forall idx acc,
  length idx = length sh -> all_ltN idx sh = true -> acc + flatN sh idx <= wmax ->
  dot_w acc (stridesN sh) idx = Some (acc + flatN sh idx).
Proof.
  induction sh as [|n t IH]; intros [|i r] acc Hl A H; cbn [length] in Hl; try discriminate;
    cbn [stridesN dot_w flatN all_ltN] in *.
  - f_equal. lia.
  - apply andb_prop in A. destruct A as [A1 A2].
    rewrite (N.mul_comm i (prodN t)) in *.
    rewrite checked_mul_some by lia.
    rewrite checked_add_some by lia.
    rewrite IH; auto; [f_equal; lia | lia].
Qed.

Theorem flat_index_w_exact len sh idx :
  array_new_w len sh = true ->
  flat_index_w (strides_w sh) sh idx =
    if Nat.eqb (length sh) (length idx) && all_ltN idx sh then WSome (flatN sh idx) else WNone.
Proof.
  intros H. unfold flat_index_w. rewrite strides_w_length, Nat.eqb_refl. cbn [andb].
  destruct (Nat.eqb (length sh) (length idx)) eqn:E; cbn [andb]; [|reflexivity].
  destruct (all_ltN idx sh) eqn:A; [|reflexivity].
  apply Nat.eqb_eq in E. symmetry in E.
  pose proof (all_ltN_positive _ _ E A) as P.
  pose proof (flatN_lt _ _ E A) as Lt.
  apply array_new_w_sound in H. destruct H as [Hp Hl].
  rewrite (strides_w_exact sh P) by lia.
  rewrite (dot_w_exact sh idx 0 E A) by lia. rewrite N.add_0_l. reflexivity.
Qed.

Theorem flat_index_w_in_data len sh idx f :
  array_new_w len sh = true -> flat_index_w (strides_w sh) sh idx = WSome f -> f < len.
Proof.
  intros H. rewrite (flat_index_w_exact len); auto.
  destruct (Nat.eqb (length sh) (length idx)) eqn:E; cbn [andb]; [|discriminate].
  destruct (all_ltN idx sh) eqn:A; [|discriminate].
  intros Hf. inversion Hf; subst f.
  apply Nat.eqb_eq in E. symmetry in E.
  pose proof (flatN_lt _ _ E A) as Lt.
  apply array_new_w_sound in H. destruct H as [Hp Hl]. lia.
Qed.

Theorem flat_index_w_never_overflows len sh idx :
  array_new_w len sh = true -> flat_index_w (strides_w sh) sh idx <> WOverflow.
Proof.
  intros H. rewrite (flat_index_w_exact len); auto.
  destruct (Nat.eqb (length sh) (length idx) && all_ltN idx sh); discriminate.
Qed.

(* ---------------------------------------------------------------- bridge to the nat model of Index.v *)
Lemma prodN_nat sh : prodN (map N.of_nat sh) = N.of_nat (elements sh).
Proof.
  induction sh as [|n t IH]; cbn [map prodN elements]; auto. rewrite IH, Nat2N.inj_mul. reflexivity.
Qed.

Lemma stridesN_nat sh : stridesN (map N.of_nat sh) = map N.of_nat (strides sh).
Proof.
  induction sh as [|n t IH]; cbn [map stridesN strides]; auto. rewrite IH, prodN_nat. reflexivity.
Qed.

Lemma all_ltN_nat idx sh : all_ltN (map N.of_nat idx) (map N.of_nat sh) = all_lt idx sh.
Proof.
  revert sh; induction idx as [|i r IH]; intros [|n t]; cbn [map all_ltN all_lt]; auto.
  rewrite IH. f_equal.
  destruct (N.ltb_spec (N.of_nat i) (N.of_nat n)), (Nat.ltb_spec i n); auto; lia.
Qed.

(* the word-level Array::get index computation IS Index.flat_index on every accepted array *)
Lemma strides_length_nat sh : length (strides sh) = length sh.
Proof. induction sh as [|n t IH]; cbn [strides length]; auto. Qed.

Lemma flatN_nat sh : forall idx,
  flatN (map N.of_nat sh) (map N.of_nat idx) = N.of_nat (dot (strides sh) idx).
Proof.
  induction sh as [|n t IH]; intros [|i r]; cbn [map flatN strides dot]; auto.
  rewrite IH, prodN_nat, Nat2N.inj_add, Nat2N.inj_mul. lia.
Qed.

Theorem flat_index_w_refines len (sh idx : list nat) :
  array_new_w len (map N.of_nat sh) = true ->
  flat_index_w (strides_w (map N.of_nat sh)) (map N.of_nat sh) (map N.of_nat idx) =
    match flat_index (strides sh) sh idx with Some f => WSome (N.of_nat f) | None => WNone end.
Proof.
  intros H. rewrite (flat_index_w_exact len); auto. unfold flat_index.
  rewrite !map_length, all_ltN_nat, strides_length_nat, Nat.eqb_refl. cbn [andb].
  destruct (Nat.eqb (length sh) (length idx)) eqn:E; cbn [andb]; [|reflexivity].
  destruct (all_lt idx sh) eqn:A; [|reflexivity].
  rewrite flatN_nat. reflexivity.
Qed.

(* ---------------------------------------------------------------- Array::get_axis *)
Lemma axis_stride_lt sh : forall a i,
  Forall (fun v => 0 < v) sh -> (a < length sh)%nat -> i < nth a sh 0 ->
  i * nth a (stridesN sh) 0 < prodN sh.
Proof.
  induction sh as [|n t IH]; intros a i F Ha Hi; cbn [length] in Ha; [inversion Ha|].
  inversion F as [|? ? Hn Ft]; subst.
  pose proof (prodN_pos t Ft) as Pt.
  destruct a as [|a]; cbn [nth stridesN prodN] in *.
  - apply N.mul_lt_mono_pos_r; assumption.
  - apply Nat.succ_lt_mono in Ha.
    eapply N.lt_le_trans; [apply (IH a i Ft Ha Hi) | apply mul_le_l; exact Hn].
Qed.

Lemma nth_map_of_nat (l : list nat) a : nth a (map N.of_nat l) 0 = N.of_nat (nth a l 0%nat).
Proof. exact (map_nth N.of_nat l 0%nat a). Qed.

(* on a non-empty accepted array the start of the view is index * stride, inside the data, as in ArrayM.get_axis *)
Theorem axis_offset_w_exact len sh a i :
  array_new_w len sh = true -> Forall (fun v => 0 < v) sh -> (a < length sh)%nat -> i < nth a sh 0 ->
  axis_offset_w len sh a i = Some (i * nth a (stridesN sh) 0) /\ i * nth a (stridesN sh) 0 < len.
Proof.
  intros H F Ha Hi.
  pose proof (axis_stride_lt sh a i F Ha Hi) as Lt.
  apply array_new_w_sound in H. destruct H as [Hp Hl].
  split; [|lia].
  unfold axis_offset_w.
  apply Nat.ltb_lt in Ha. apply N.ltb_lt in Hi. rewrite Ha, Hi. cbn [andb].
  rewrite (strides_w_exact sh F) by lia.
  rewrite checked_mul_some by lia.
  f_equal. apply N.min_l. lia.
Qed.

(* on an empty array every view that exists is empty: it starts at the end of the (empty) data, whatever the strides *)
Theorem axis_offset_w_empty sh a i :
  array_new_w 0 sh = true -> (a < length sh)%nat -> i < nth a sh 0 -> axis_offset_w 0 sh a i = Some 0.
Proof.
  intros _ Ha Hi. unfold axis_offset_w.
  apply Nat.ltb_lt in Ha. apply N.ltb_lt in Hi. rewrite Ha, Hi. cbn [andb].
  destruct (checked_mul i (nth a (strides_w sh) 0)) as [o|]; [|reflexivity].
  f_equal. apply N.min_r. apply N.le_0_l.
Qed.

(* a view exists exactly for an axis of the array and a position on it - no other outcome, in particular no overflow *)
Theorem axis_offset_w_some_iff len sh a i :
  (exists o, axis_offset_w len sh a i = Some o /\ o <= len) <-> ((a < length sh)%nat /\ i < nth a sh 0).
Proof.
  unfold axis_offset_w. split.
  - intros [o [E _]].
    destruct (Nat.ltb a (length sh)) eqn:Ha; cbn [andb] in E; [|discriminate].
    destruct (i <? nth a sh 0) eqn:Hi; [|discriminate].
    apply Nat.ltb_lt in Ha. apply N.ltb_lt in Hi. split; assumption.
  - intros [Ha Hi].
    apply Nat.ltb_lt in Ha. apply N.ltb_lt in Hi. rewrite Ha, Hi. cbn [andb].
    destruct (checked_mul i (nth a (strides_w sh) 0)) as [o|].
    + exists (N.min o len). split; [reflexivity | apply N.le_min_r].
    + exists len. split; [reflexivity | apply N.le_refl].
Qed.

(* before the repair, the same request on an accepted (empty) array overflowed: F27, kept on record *)
Theorem axis_offset_unrepaired_overflow_refuted :
  array_new_w 0 [0; 3; wmax] = true /\ axis_offset_unrepaired_w [0; 3; wmax] 1 2 = WOverflow /\
  axis_offset_w 0 [0; 3; wmax] 1 2 = Some 0.
Proof.
  vm_compute; repeat split; reflexivity.
Qed.

(* the unrepaired computation was right on every non-empty accepted array (which is why it went unnoticed) *)
Theorem axis_offset_unrepaired_positive len sh a i :
  array_new_w len sh = true -> Forall (fun v => 0 < v) sh -> (a < length sh)%nat -> i < nth a sh 0 ->
  axis_offset_unrepaired_w sh a i = WSome (i * nth a (stridesN sh) 0).
Proof.
  intros H F Ha Hi.
  pose proof (axis_stride_lt sh a i F Ha Hi) as Lt.
  apply array_new_w_sound in H. destruct H as [Hp Hl].
  unfold axis_offset_unrepaired_w.
  apply Nat.ltb_lt in Ha. apply N.ltb_lt in Hi. rewrite Ha, Hi. cbn [andb].
  rewrite (strides_w_exact sh F) by lia.
  rewrite checked_mul_some by lia. reflexivity.
Qed.

(* bridge: the start of the view in ArrayM.get_axis (skipn (i * nth a (strides sh) 0)) *)
Theorem axis_offset_w_refines len (sh : list nat) a i :
  array_new_w len (map N.of_nat sh) = true -> Forall (fun v => (0 < v)%nat) sh -> (a < length sh)%nat -> (i < nth a sh 0%nat)%nat ->
  axis_offset_w len (map N.of_nat sh) a (N.of_nat i) = Some (N.of_nat (i * nth a (strides sh) 0%nat)).
Proof.
  intros H F Ha Hi.
  assert (FN : Forall (fun v => 0 < v) (map N.of_nat sh)).
  { apply Forall_forall. intros x Hx. apply in_map_iff in Hx. destruct Hx as [y [<- Hy]].
    rewrite Forall_forall in F. specialize (F y Hy). lia. }
  assert (HaN : (a < length (map N.of_nat sh))%nat) by (rewrite map_length; exact Ha).
  assert (HiN : N.of_nat i < nth a (map N.of_nat sh) 0) by (rewrite nth_map_of_nat; lia).
  destruct (axis_offset_w_exact len _ a (N.of_nat i) H FN HaN HiN) as [E _].
  rewrite E. rewrite stridesN_nat, nth_map_of_nat, Nat2N.inj_mul. reflexivity.
Qed.

(* non-vacuity *)
Example word_examples :
  array_new_w 24 [2; 3; 4] = true /\ strides_w [2; 3; 4] = [12; 4; 1] /\
  flat_index_w (strides_w [2; 3; 4]) [2; 3; 4] [1; 2; 3] = WSome 23 /\
  array_new_w 0 [4294967296; 4294967296] = false /\ array_new_w 0 [9223372036854775808; 4; 0] = false.
Proof.
  vm_compute; repeat split; reflexivity.
Qed.
