(* C18/C12: the repaired container detection (prefix gathered across chunks) is independent of the chunk schedule. *)
From Sfs Require Import Index Npy Text Stream NpyP StreamP.
From Coq Require Import Lia.

Close Scope string_scope. Open Scope N_scope.

Lemma read_prefix_nf fuel : forall n r, (n <= fuel)%nat -> reader_ok r -> no_fail r ->
  exists r', read_prefix fuel n r = inl (firstn n (rest r), r') /\ rest r' = skipn n (rest r) /\ reader_ok r' /\ no_fail r'.
Proof.
  induction fuel as [|fuel IH]; intros n r Hn Hok Hnf.
  - assert (n = O) by lia. subst. exists r. cbn. repeat split; assumption.
  - destruct n as [|n].
    + exists r. cbn. repeat split; assumption.
    + cbn [read_prefix].
      destruct (read_some_nf (S n) r Hok Hnf) as (k & r1 & E & Hrest & Hok1 & Hnf1 & Hk1 & Hk2 & Hpos).
      rewrite E.
      destruct (rest r) as [|b bs] eqn:Er.
      * (* nothing left *)
        assert (k = O) by (cbn in Hk2; lia). subst k. cbn [firstn].
        exists r1. rewrite Hrest. cbn. repeat split; assumption.
      * assert (Hk : (1 <= k)%nat) by (apply Hpos; [discriminate | lia]).
        destruct (firstn k (b :: bs)) as [|g gs] eqn:Eg.
        { destruct k; [lia | discriminate]. }
        assert (Hlen : length (g :: gs) = k).
        { rewrite <- Eg. apply firstn_length_le. exact Hk2. }
        destruct (IH (S n - k)%nat r1 ltac:(lia) Hok1 Hnf1) as (r2 & E2 & Hrest2 & Hok2 & Hnf2).
        rewrite Hlen. rewrite E2. exists r2.
        rewrite Hrest in *. rewrite <- Eg.
        split; [|split; [|split]]; try assumption.
        -- f_equal. f_equal. rewrite firstn_firstn_skipn. f_equal. lia.
        -- rewrite Hrest2, skipn_add. f_equal. lia.
Qed.

Section Detect.
Variable gunzip_prefix : bytes -> option bytes.

(* for every chunk schedule, the repaired detection sees the first 64 KiB of the stream *)
Theorem detect_sched_free data sch :
  detect_stream gunzip_prefix (mk_reader data sch None) =
  inl (detect_container gunzip_prefix (firstn detect_prefix_len data)).
Proof.
  unfold detect_stream.
  destruct (read_prefix_nf (S detect_prefix_len) detect_prefix_len (mk_reader data sch None)
              ltac:(lia) (mk_reader_ok data sch None) eq_refl) as (r' & E & _).
  rewrite E. reflexivity.
Qed.

(* hence the container kind follows from the magic numbers alone *)
Theorem detect_bcf data sch : detect_stream gunzip_prefix (mk_reader (66 :: 67 :: 70 :: data) sch None) = inl CBcf.
Proof.
  rewrite detect_sched_free. unfold detect_prefix_len.
  assert (H : exists k, N.to_nat 65536 = S (S (S k))) by (exists (N.to_nat 65533); lia).
  destruct H as [k ->]. reflexivity.
Qed.
Lemma detect_container_prefix k data :
  (match data with 31 :: 139 :: _ => False | _ => True end) ->
  detect_container gunzip_prefix (firstn (S (S (S k))) data) = detect_container gunzip_prefix data.
Proof.
  intro H. destruct data as [|a [|b [|c t]]]; cbn [firstn]; try reflexivity.
  unfold detect_container.
  repeat (match goal with
          | |- context [match ?x with _ => _ end] => is_var x; destruct x
          end; cbn beta iota in * ); try reflexivity; try (exfalso; exact H).
Qed.
Theorem detect_plain data sch :
  (match data with 31 :: 139 :: _ => False | 66 :: 67 :: 70 :: _ => False | _ => True end) ->
  detect_stream gunzip_prefix (mk_reader data sch None) = inl CVcf.
Proof.
  intro H. rewrite detect_sched_free. unfold detect_prefix_len.
  assert (Hk : exists k, N.to_nat 65536 = S (S (S k))) by (exists (N.to_nat 65533); lia).
  destruct Hk as [k ->]. f_equal.
  rewrite detect_container_prefix.
  - pose proof (detect_whole_vcf gunzip_prefix data H) as Hw.
    rewrite detect_stream_whole in Hw. now inversion Hw.
  - repeat (match goal with
            | |- context [match ?x with _ => _ end] => is_var x; destruct x
            end; cbn beta iota in * ); try exact I; try exact H.
Qed.
End Detect.
