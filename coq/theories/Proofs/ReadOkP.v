(* What every accepted spectrum file satisfies: at least one axis (from the grammars), no axis of length zero,
   as many values as the product of the shape - the guard [read_ok] of the panic skeleton (C17). *)
From Sfs Require Import Index Npy Text NpyP TextP.
From Coq Require Import Lia.

Close Scope string_scope. Open Scope N_scope.

Lemma split_on_nonempty sep l : split_on sep l <> [].
Proof.
  induction l as [|c t IH]; cbn [split_on]; [discriminate|].
  destruct (c =? sep); [discriminate|]. destruct (split_on sep t); [contradiction|discriminate].
Qed.

Lemma all_some_length {A} (l : list (option A)) r : all_some l = Some r -> length r = length l.
Proof.
  revert r; induction l as [|[a|] t IH]; intros r H; cbn [all_some] in H; try discriminate.
  - inversion H. reflexivity.
  - destruct (all_some t) as [r'|]; [|discriminate]. inversion H. cbn. now rewrite (IH r').
Qed.

Lemma parse_text_header_nonempty line sh : parse_text_header line = Some sh -> sh <> [].
Proof.
  unfold parse_text_header. intros H. apply all_some_length in H. rewrite map_length in H.
  pose proof (split_on_nonempty 47 (trim_non_numeric line)) as Hn.
  destruct sh; [|discriminate]. destruct (split_on 47 (trim_non_numeric line)); [contradiction|discriminate].
Qed.

Definition entry_ok (e : entry) : Prop := match e with EShape l => l <> [] | _ => True end.

Lemma parse_usize_sequence_nonempty inp l r : parse_usize_sequence inp = Some (l, r) -> l <> [].
Proof.
  unfold parse_usize_sequence. destruct (parse_u64 inp) as [[n r0]|]; [|discriminate].
  destruct (usize_list_rest (length r0) r0) as [l0 r1]. intros H. inversion H. discriminate.
Qed.

Lemma parse_entry_ok inp e r : parse_entry inp = Some (e, r) -> entry_ok e.
Proof.
  unfold parse_entry.
  destruct (target_string (str "descr") inp) as [r1|].
  - destruct (ws_sep 58 r1) as [r2|].
    + destruct (parse_descr_value r2) as [[[en t] r3]|]; [intros H; inversion H; exact I|].
      all: try (destruct (target_string (str "fortran_order") inp) as [q1|];
        [destruct (ws_sep 58 q1) as [q2|]; [destruct (parse_bool q2) as [[b q3]|]; [intros H; inversion H; exact I|]|]|]);
      try (destruct (target_string (str "shape") inp) as [s1|]; [|discriminate];
           destruct (ws_sep 58 s1) as [s2|]; [|discriminate];
           unfold parse_shape; destruct (tag [40] s2) as [s3|]; [|discriminate];
           destruct (parse_usize_sequence s3) as [[l s4]|] eqn:E; [|discriminate];
           destruct (tag [41] s4); [|discriminate]; intros H; inversion H; subst; cbn;
           eapply parse_usize_sequence_nonempty; exact E).
    + try (destruct (target_string (str "fortran_order") inp) as [q1|];
        [destruct (ws_sep 58 q1) as [q2|]; [destruct (parse_bool q2) as [[b q3]|]; [intros H; inversion H; exact I|]|]|]);
      try (destruct (target_string (str "shape") inp) as [s1|]; [|discriminate];
           destruct (ws_sep 58 s1) as [s2|]; [|discriminate];
           unfold parse_shape; destruct (tag [40] s2) as [s3|]; [|discriminate];
           destruct (parse_usize_sequence s3) as [[l s4]|] eqn:E; [|discriminate];
           destruct (tag [41] s4); [|discriminate]; intros H; inversion H; subst; cbn;
           eapply parse_usize_sequence_nonempty; exact E).
  - try (destruct (target_string (str "fortran_order") inp) as [q1|];
        [destruct (ws_sep 58 q1) as [q2|]; [destruct (parse_bool q2) as [[b q3]|]; [intros H; inversion H; exact I|]|]|]);
      try (destruct (target_string (str "shape") inp) as [s1|]; [|discriminate];
           destruct (ws_sep 58 s1) as [s2|]; [|discriminate];
           unfold parse_shape; destruct (tag [40] s2) as [s3|]; [|discriminate];
           destruct (parse_usize_sequence s3) as [[l s4]|] eqn:E; [|discriminate];
           destruct (tag [41] s4); [|discriminate]; intros H; inversion H; subst; cbn;
           eapply parse_usize_sequence_nonempty; exact E).
Qed.

Lemma entry_list_rest_ok fuel : forall inp, Forall entry_ok (fst (entry_list_rest fuel inp)).
Proof.
  induction fuel as [|f IH]; intros inp; cbn [entry_list_rest]; [constructor|].
  destruct (ws_sep 44 inp) as [r|]; [|constructor].
  destruct (parse_entry r) as [[e r']|] eqn:E; [|constructor].
  specialize (IH r'). destruct (entry_list_rest f r') as [l r'']. cbn [fst] in *.
  constructor; [eapply parse_entry_ok; exact E | exact IH].
Qed.

Lemma parse_dict_ok inp es : parse_dict inp = Some es -> Forall entry_ok es.
Proof.
  unfold parse_dict. destruct (tag [123] inp) as [r|]; [|discriminate].
  destruct (parse_entry (space0 r)) as [[e r']|] eqn:E; [|discriminate].
  pose proof (entry_list_rest_ok (length r') r') as Hl.
  destruct (entry_list_rest (length r') r') as [l r'']. cbn [fst] in Hl.
  destruct (tag [125] _); [|discriminate]. intros H. inversion H. subst.
  constructor; [eapply parse_entry_ok; exact E | exact Hl].
Qed.

Lemma dict_of_entries_shape_nonempty es h : Forall entry_ok es -> dict_of_entries es = Some h -> h_shape h <> [].
Proof.
  unfold dict_of_entries.
  set (step := fun (acc : option (endian * ntype) * option bool * option (list N)) e =>
                 let '(d, f, s) := acc in
                 match e with EDescr en t => (Some (en, t), f, s) | EFortran b => (d, Some b, s) | EShape sh => (d, f, Some sh) end).
  assert (Hgen : forall es acc, Forall entry_ok es ->
            (match snd acc with Some s => s <> [] | None => True end) ->
            match snd (fold_left step es acc) with Some s => s <> [] | None => True end).
  { induction es0 as [|e es0 IH]; intros acc Hall Hacc; cbn [fold_left]; [exact Hacc|].
    inversion Hall as [|? ? He Hall']; subst. apply IH; [exact Hall'|].
    destruct acc as [[d f] s]. destruct e; cbn [step snd] in *; auto. }
  intros Hall. specialize (Hgen es (None, None, None) Hall I).
  destruct (fold_left step es (None, None, None)) as [[d f] s]. cbn [snd] in Hgen.
  destruct d as [[en t]|]; [|discriminate]. destruct f; [|discriminate]. destruct s as [s|]; [|discriminate].
  intros H. inversion H. cbn. exact Hgen.
Qed.

Lemma read_npy_shape_nonempty inp sh vals : read_npy inp = inl (sh, vals) -> sh <> [].
Proof.
  unfold read_npy.
  destruct (read_exact 6 inp) as [[m r1]|]; [|discriminate].
  destruct (negb (bytes_eqb m magic)); [discriminate|].
  destruct (read_exact 2 r1) as [[v r2]|]; [|discriminate].
  destruct (negb _); [discriminate|].
  destruct (read_exact _ r2) as [[lb r3]|]; [|discriminate].
  destruct (read_exact _ r3) as [[dict_buf r4]|]; [|discriminate].
  destruct (negb (forallb _ dict_buf)); [discriminate|].
  destruct (parse_dict dict_buf) as [es|] eqn:Ed; [|discriminate].
  destruct (dict_of_entries es) as [h|] eqn:Eh; [|discriminate].
  destruct (h_fortran h); [discriminate|].
  destruct (read_values _ _ _ r4) as [vs|]; [|discriminate].
  destruct (_ =? _); [|discriminate]. intros H. inversion H. subst.
  eapply dict_of_entries_shape_nonempty; [eapply parse_dict_ok; exact Ed | exact Eh].
Qed.

Lemma read_text_shape_nonempty inp sh vals : read_text inp = inl (sh, vals) -> sh <> [].
Proof.
  unfold read_text. destruct (negb (forallb _ inp)); [discriminate|].
  destruct (read_line inp) as [line rest].
  destruct (parse_text_header line) as [sh0|] eqn:E; [|discriminate].
  destruct (all_some _) as [vs|]; [|discriminate]. destruct (_ =? _); [|discriminate].
  intros H. inversion H. subst. eapply parse_text_header_nonempty. exact E.
Qed.

(* everything the panic skeleton assumes about an accepted spectrum *)
Theorem read_spectrum_ok inp sh vals : read_spectrum inp = inl (sh, vals) ->
  sh <> [] /\ existsb (N.eqb 0) sh = false /\ N.of_nat (length vals) = nelements sh.
Proof.
  intros H. destruct (read_spectrum_count _ _ _ H) as [Hc Hz]. split; [|split; assumption].
  revert H. unfold read_spectrum. destruct (detect_format inp) as [[|]|]; [| |discriminate].
  - destruct (read_npy inp) as [[sh0 v0]|e] eqn:E; [|discriminate].
    destruct (existsb (N.eqb 0) sh0); [discriminate|]. intros H. inversion H. subst.
    eapply read_npy_shape_nonempty. exact E.
  - destruct (read_text inp) as [[sh0 v0]|e] eqn:E; [|discriminate].
    destruct (existsb (N.eqb 0) sh0); [discriminate|]. intros H. inversion H. subst.
    eapply read_text_shape_nonempty. exact E.
Qed.

(* ... which is the guard of the panic skeleton *)
From Sfs Require Import Panic IndexP.

Lemma elements_map_to_nat sh : elements (map N.to_nat sh) = N.to_nat (nelements sh).
Proof.
  induction sh as [|n t IH]; cbn [map elements nelements fold_right]; [reflexivity|].
  fold (nelements t). rewrite IH. now rewrite N2Nat.inj_mul.
Qed.

Theorem read_spectrum_read_ok inp sh vals : read_spectrum inp = inl (sh, vals) ->
  read_ok (map N.to_nat sh) (length vals).
Proof.
  intros H. destruct (read_spectrum_ok _ _ _ H) as (Hne & Hz & Hc). unfold read_ok. split; [|split].
  - destruct sh; [contradiction|discriminate].
  - unfold positive_shape. apply Forall_forall. intros x Hx. apply in_map_iff in Hx as [n [<- Hn]].
    assert (n <> 0).
    { intros ->. assert (existsb (N.eqb 0) sh = true) as Hc'; [|congruence].
      apply existsb_exists. exists 0. split; [exact Hn|reflexivity]. }
    lia.
  - rewrite elements_map_to_nat, <- Hc. now rewrite Nat2N.id.
Qed.
