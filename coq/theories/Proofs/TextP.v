(* Proofs for C07/C16 (text format, format detection). Statements are FIXED; replace every Admitted by a proof. If a
   statement is FALSE as written, do not change it silently: prove the others, put the false one in a comment
   `(* FALSE: ... counterexample ... *)` and prove a corrected `<name>_fixed` (minimal change).
   NpyP.v in your copy has statements still Admitted (another worker proves them): use them freely, do not prove
   them here. *)
From Sfs Require Import Index Npy Text NpyP.
From Coq Require Import Lia ZifyN ZifyBool.

Close Scope string_scope. Open Scope N_scope.

Arguments N.add : simpl never.
Arguments N.sub : simpl never.
Arguments N.mul : simpl never.
Arguments N.div : simpl never.
Arguments N.modulo : simpl never.
Arguments N.pow : simpl never.
Arguments N.eqb : simpl never.
Arguments N.ltb : simpl never.
Arguments N.leb : simpl never.

(* ---- round to nearest even of a quotient ---- *)
Lemma rne_div_bound num den : 0 < den ->
  2 * (rne_div num den * den) <= 2 * num + den /\ 2 * num <= 2 * (rne_div num den * den) + den.
Proof.
  intros Hd. unfold rne_div.
  pose proof (N.div_mod num den ltac:(lia)) as E.
  pose proof (N.mod_lt num den ltac:(lia)) as L.
  set (q := num / den) in *. set (r := num mod den) in *. clearbody q r. subst num.
  destruct ((den <? 2 * r) || ((den =? 2 * r) && N.odd q)) eqn:B.
  - assert (den <= 2 * r) by lia. nia.
  - assert (2 * r <= den) by lia. nia.
Qed.
Lemma rne_div_exact q den : 0 < den -> rne_div (q * den) den = q.
Proof.
  intros Hd. unfold rne_div. rewrite N.div_mul by lia. rewrite N.mod_mul by lia.
  replace (2 * 0) with 0 by lia.
  destruct (N.ltb_spec den 0); [lia|]. destruct (N.eqb_spec den 0); [lia|]. reflexivity.
Qed.

(* ---- `{:.p}`: shape of the printed string ---- *)
Definition no_ws (s : bytes) : Prop := Forall (fun c => is_ascii_ws c = false) s.
Definition okc (c : N) : Prop := is_ascii_ws c = false /\ c < 128.
Ltac okc_tac := repeat (apply Forall_cons; [split; reflexivity|]); apply Forall_nil.
Lemma digit_okc c : is_digit c = true -> okc c.
Proof. unfold is_digit, okc, is_ascii_ws. lia. Qed.
Lemma okc_split s : Forall okc s -> no_ws s /\ Forall (fun c => c < 128) s.
Proof.
  intros H. split; (eapply Forall_impl; [|exact H]); intros a [H1 H2]; assumption.
Qed.
Lemma fixed_body_ok (sg : bool) scaled p :
  let ds := pad_zeros (S p) (dec scaled) in
  let body := (if sg then [45] else []) ++ firstn (length ds - p) ds ++
              (match p with O => [] | S _ => 46 :: skipn (length ds - p) ds end) in
  body <> [] /\ Forall okc body.
Proof.
  intros ds body.
  assert (Hd : Forall (fun c => is_digit c = true) ds).
  { unfold ds, pad_zeros. apply Forall_app. split.
    - apply Forall_forall. intros c Hc. apply repeat_spec in Hc. subst c. reflexivity.
    - apply dec_digits. }
  assert (Hl : (S p <= length ds)%nat).
  { unfold ds, pad_zeros. rewrite app_length, repeat_length. lia. }
  pose proof (firstn_skipn (length ds - p) ds) as Hfs.
  assert (Hip : firstn (length ds - p) ds <> []).
  { intro E. apply (f_equal (@length N)) in E. rewrite firstn_length in E. cbn [length] in E. lia. }
  unfold body. clear body.
  set (ip := firstn (length ds - p) ds) in *. set (fp := skipn (length ds - p) ds) in *.
  clearbody ip fp. rewrite <- Hfs in Hd. apply Forall_app in Hd. destruct Hd as [Hdi Hdf].
  split.
  - destruct sg; [discriminate|]. destruct ip; [congruence|discriminate].
  - apply Forall_app. split; [destruct sg; okc_tac|].
    apply Forall_app. split.
    + eapply Forall_impl; [|exact Hdi]. apply digit_okc.
    + destruct p; [constructor|]. constructor; [split; reflexivity|].
      eapply Forall_impl; [|exact Hdf]. apply digit_okc.
Qed.
Lemma print_fixed_ok w p : print_fixed w p <> [] /\ Forall okc (print_fixed w p).
Proof.
  unfold print_fixed.
  destruct (f_is_nan w).
  { change (str "NaN") with [78;97;78]. split; [discriminate|okc_tac]. }
  destruct (f_is_inf w).
  { destruct (f_sign w).
    - change (str "-inf") with [45;105;110;102]. split; [discriminate|okc_tac].
    - change (str "inf") with [105;110;102]. split; [discriminate|okc_tac]. }
  cbv zeta. apply fixed_body_ok.
Qed.
Lemma print_fixed_nonempty_no_ws w p : print_fixed w p <> [] /\ no_ws (print_fixed w p) /\ Forall (fun c => c < 128) (print_fixed w p).
Proof.
  destruct (print_fixed_ok w p) as [H1 H2]. apply okc_split in H2. tauto.
Qed.
Lemma print_fixed_special p :
  print_fixed (N.shiftl 2047 52) p = str "inf" /\ print_fixed (sign_bit + N.shiftl 2047 52) p = str "-inf" /\
  forall w, f_is_nan w = true -> print_fixed w p = str "NaN".
Proof.
  assert (A1 : f_is_nan (N.shiftl 2047 52) = false) by (vm_compute; reflexivity).
  assert (A2 : f_is_inf (N.shiftl 2047 52) = true) by (vm_compute; reflexivity).
  assert (A3 : f_sign (N.shiftl 2047 52) = false) by (vm_compute; reflexivity).
  assert (B1 : f_is_nan (sign_bit + N.shiftl 2047 52) = false) by (vm_compute; reflexivity).
  assert (B2 : f_is_inf (sign_bit + N.shiftl 2047 52) = true) by (vm_compute; reflexivity).
  assert (B3 : f_sign (sign_bit + N.shiftl 2047 52) = true) by (vm_compute; reflexivity).
  split; [|split].
  - unfold print_fixed. rewrite A1, A2, A3. reflexivity.
  - unfold print_fixed. rewrite B1, B2, B3. reflexivity.
  - intros w Hw. unfold print_fixed. rewrite Hw. reflexivity.
Qed.
Lemma parse_f64_special :
  parse_f64 (str "inf") = Some (N.shiftl 2047 52) /\ parse_f64 (str "-inf") = Some (sign_bit + N.shiftl 2047 52) /\
  exists w, parse_f64 (str "NaN") = Some w /\ f_is_nan w = true.
Proof.
  split; [vm_compute; reflexivity|]. split; [vm_compute; reflexivity|].
  exists (N.shiftl 2047 52 + N.shiftl 1 51). split; vm_compute; reflexivity.
Qed.

(* the digits printed for a finite value are round-half-even of value * 10^p: for x < 0 the integer `scaled` satisfies
   |scaled * 2^-x  -  M * 10^p| <= 2^-x / 2 ; for x >= 0 it is exact *)
Definition scaled_of (w : N) (p : nat) : N :=
  match f_x w with
  | Zneg e => rne_div (f_M w * 10 ^ N.of_nat p) (2 ^ Npos e)
  | x => f_M w * 2 ^ Z.to_N x * 10 ^ N.of_nat p
  end.
Theorem print_fixed_digits w p : f_is_nan w = false -> f_is_inf w = false ->
  print_fixed w p =
    (if f_sign w then [45] else []) ++
    (let ds := pad_zeros (S p) (dec (scaled_of w p)) in
     firstn (length ds - p) ds ++ (match p with O => [] | S _ => 46 :: skipn (length ds - p) ds end)).
Proof.
  intros Hn Hi. unfold print_fixed, scaled_of. rewrite Hn, Hi. cbv zeta.
  destruct (f_x w); reflexivity.
Qed.
Theorem scaled_half_unit w p e : f_x w = Zneg e ->
  2 * (scaled_of w p * 2 ^ Npos e) <= 2 * (f_M w * 10 ^ N.of_nat p) + 2 ^ Npos e /\
  2 * (f_M w * 10 ^ N.of_nat p) <= 2 * (scaled_of w p * 2 ^ Npos e) + 2 ^ Npos e.
Proof.
  intros H. unfold scaled_of. rewrite H. apply rne_div_bound.
  apply N.neq_0_lt_0. apply N.pow_nonzero. lia.
Qed.

(* ---- text header round trip ---- *)
Lemma split_on_nosep sep s : Forall (fun c => (c =? sep) = false) s -> split_on sep s = [s].
Proof.
  induction 1 as [|c s Hc Hs IH]; [reflexivity|].
  cbn [split_on]. rewrite Hc, IH. reflexivity.
Qed.
Lemma split_on_app sep s t : Forall (fun c => (c =? sep) = false) s ->
  split_on sep (s ++ sep :: t) = s :: split_on sep t.
Proof.
  induction 1 as [|c s Hc Hs IH].
  - cbn [app split_on]. rewrite N.eqb_refl. reflexivity.
  - cbn [app split_on]. rewrite Hc, IH. reflexivity.
Qed.
Lemma split_on_join sep (l : list bytes) : l <> [] -> Forall (fun s => Forall (fun c => (c =? sep) = false) s) l ->
  split_on sep (join [sep] l) = l.
Proof.
  intros Hne H. induction H as [|a l Ha Hl IH]; [exfalso; apply Hne; reflexivity|].
  destruct l as [|b l'].
  - cbn [join]. apply split_on_nosep. exact Ha.
  - change (join [sep] (a :: b :: l')) with (a ++ sep :: join [sep] (b :: l')).
    rewrite split_on_app by exact Ha. rewrite IH by discriminate. reflexivity.
Qed.
Definition ndf (c : N) : bool := negb (is_digit c).
Definition sd (l : bytes) : Prop := match l with c :: _ => is_digit c = true | [] => False end.
Lemma drop_while_all f a b : Forall (fun c => f c = true) a -> drop_while f (a ++ b) = drop_while f b.
Proof.
  induction 1 as [|c a Hc Ha IH]; [reflexivity|]. cbn [app drop_while]. rewrite Hc. exact IH.
Qed.
Lemma sd_app l r : sd l -> sd (l ++ r).
Proof. destruct l; [intros []|]. cbn [app sd]. auto. Qed.
Lemma drop_nd_sd l : sd l -> drop_while ndf l = l.
Proof.
  destruct l as [|c l]; [intros []|]. cbn [sd drop_while]. intros H. unfold ndf. rewrite H. reflexivity.
Qed.
Lemma trim_core pre J post : Forall (fun c => ndf c = true) pre -> Forall (fun c => ndf c = true) post ->
  sd J -> sd (rev J) -> trim_non_numeric (pre ++ J ++ post) = J.
Proof.
  intros Hpre Hpost HJ HrJ. unfold trim_non_numeric. fold ndf.
  rewrite drop_while_all by exact Hpre.
  rewrite (drop_nd_sd (J ++ post)) by (apply sd_app; exact HJ).
  rewrite rev_app_distr.
  rewrite drop_while_all by (apply Forall_rev; exact Hpost).
  rewrite drop_nd_sd by exact HrJ. apply rev_involutive.
Qed.
Lemma join_sd sep l : l <> [] -> Forall sd l -> sd (join sep l).
Proof.
  intros Hne H. destruct H as [|a l Ha Hl]; [exfalso; apply Hne; reflexivity|].
  destruct l; cbn [join]; [exact Ha|]. apply sd_app. exact Ha.
Qed.
Lemma join_rev_sd sep l : l <> [] -> Forall (fun s => sd (rev s)) l -> sd (rev (join sep l)).
Proof.
  intros Hne H. induction H as [|a l Ha Hl IH]; [exfalso; apply Hne; reflexivity|].
  destruct l as [|b l']; cbn [join]; [exact Ha|].
  rewrite !rev_app_distr. rewrite <- app_assoc. apply sd_app. apply IH. discriminate.
Qed.
Lemma sd_of_digits s : s <> [] -> Forall (fun c => is_digit c = true) s -> sd s.
Proof. intros Hne H. destruct H; [exfalso; apply Hne; reflexivity|]. assumption. Qed.
Lemma dec_sd n : sd (dec n) /\ sd (rev (dec n)).
Proof.
  destruct (dec_digits n) as [Hne Hd]. split.
  - apply sd_of_digits; assumption.
  - apply sd_of_digits; [|apply Forall_rev; exact Hd].
    intro E. apply (f_equal (@rev N)) in E. rewrite rev_involutive in E. cbn [rev] in E. congruence.
Qed.
Lemma not_43 (c : N) (t : bytes) : c <> 43 ->
  (match c :: t with 43 :: t' => t' | _ => c :: t end) = c :: t.
Proof.
  intros H. destruct c as [|q]; [reflexivity|].
  repeat (destruct q as [q|q|]; try reflexivity; try congruence).
Qed.
Lemma parse_usize_dec n : n <= u64_max -> parse_usize_str (dec n) = Some n.
Proof.
  intros Hn. pose proof (parse_u64_dec n [] Hn I) as HP. rewrite app_nil_r in HP.
  destruct (dec_digits n) as [Hne Hd]. unfold parse_usize_str.
  destruct (dec n) as [|c t] eqn:E; [congruence|].
  rewrite not_43.
  - rewrite HP. reflexivity.
  - intros ->. inversion Hd as [|? ? Hc ?]. vm_compute in Hc. discriminate.
Qed.
Lemma all_some_usize sh : Forall (fun n => n <= u64_max) sh ->
  all_some (map parse_usize_str (map dec sh)) = Some sh.
Proof.
  induction 1 as [|n sh Hn Hs IH]; [reflexivity|].
  cbn [map all_some]. rewrite parse_usize_dec by exact Hn. rewrite IH. reflexivity.
Qed.
Lemma digit_not c k : is_digit c = true -> k < 48 \/ 57 < k -> (c =? k) = false.
Proof. unfold is_digit. lia. Qed.
Definition Hdr (sh : list N) : bytes := str "#SHAPE=<" ++ join [47] (map dec sh) ++ str ">".
Lemma header_trim sh : shape_ok sh ->
  trim_non_numeric (str "#SHAPE=<" ++ join [47] (map dec sh) ++ str ">" ++ [10]) = join [47] (map dec sh).
Proof.
  intros [Hne Hall]. apply trim_core.
  - change (str "#SHAPE=<") with [35;83;72;65;80;69;61;60]. repeat (constructor; [reflexivity|]). constructor.
  - change (str ">" ++ [10]) with [62;10]. repeat (constructor; [reflexivity|]). constructor.
  - apply join_sd; [destruct sh; [congruence|discriminate]|].
    apply Forall_map. apply Forall_forall. intros n _. apply dec_sd.
  - apply join_rev_sd; [destruct sh; [congruence|discriminate]|].
    apply Forall_map. apply Forall_forall. intros n _. apply dec_sd.
Qed.
Theorem text_header_roundtrip sh : shape_ok sh ->
  parse_text_header (str "#SHAPE=<" ++ join [47] (map dec sh) ++ str ">" ++ [10]) = Some sh.
Proof.
  intros Hok. unfold parse_text_header. rewrite header_trim by exact Hok.
  destruct Hok as [Hne Hall].
  rewrite split_on_join.
  - apply all_some_usize. exact Hall.
  - destruct sh; [congruence|discriminate].
  - apply Forall_map. apply Forall_forall. intros n _.
    eapply Forall_impl; [|apply dec_digits]. intros c Hc. apply digit_not; [exact Hc|lia].
Qed.

(* ---- whole-file structure: reading back what was written parses every printed value ---- *)
Lemma split_ws_aux_word s rest cur : no_ws s -> split_ws_aux (s ++ rest) cur = split_ws_aux rest (rev s ++ cur).
Proof.
  intros H. revert cur. induction H as [|c s Hc Hs IH]; intros cur; [reflexivity|].
  cbn [app split_ws_aux rev]. rewrite Hc. rewrite IH. rewrite <- app_assoc. reflexivity.
Qed.
Lemma rev_nonempty (s : bytes) : s <> [] -> rev s <> [].
Proof.
  intros H E. apply (f_equal (@rev N)) in E. rewrite rev_involutive in E. cbn [rev] in E. congruence.
Qed.
Lemma split_ws_aux_sep c t cur : is_ascii_ws c = true -> cur <> [] ->
  split_ws_aux (c :: t) cur = rev cur :: split_ws_aux t [].
Proof.
  intros Hc Hn. cbn [split_ws_aux]. rewrite Hc. destruct cur; [congruence|reflexivity].
Qed.
Lemma split_ws_word_sep s c t : s <> [] -> no_ws s -> is_ascii_ws c = true ->
  split_ws_aux (s ++ c :: t) [] = s :: split_ws_aux t [].
Proof.
  intros Hne Hs Hc. rewrite split_ws_aux_word by exact Hs. rewrite app_nil_r.
  rewrite split_ws_aux_sep by (auto using rev_nonempty). rewrite rev_involutive. reflexivity.
Qed.
Lemma split_ws_join (l : list bytes) : Forall (fun s => s <> [] /\ no_ws s) l ->
  split_ascii_whitespace (join [32] l ++ [10]) = l.
Proof.
  unfold split_ascii_whitespace. intros H. induction H as [|a l [Hne Ha] Hl IH].
  - reflexivity.
  - destruct l as [|b l'].
    + cbn [join]. rewrite split_ws_word_sep by (auto; reflexivity). reflexivity.
    + change (join [32] (a :: b :: l') ++ [10]) with ((a ++ 32 :: join [32] (b :: l')) ++ [10]).
      rewrite <- app_assoc. change ((32 :: join [32] (b :: l')) ++ [10]) with (32 :: (join [32] (b :: l') ++ [10])).
      rewrite split_ws_word_sep by (auto; reflexivity). rewrite IH. reflexivity.
Qed.
Lemma Forall_join (P : N -> Prop) sep l : Forall P sep -> Forall (Forall P) l -> Forall P (join sep l).
Proof.
  intros Hs H. induction H as [|a l Ha Hl IH]; [constructor|].
  destruct l as [|b l']; cbn [join]; [exact Ha|].
  apply Forall_app. split; [exact Ha|]. apply Forall_app. split; [exact Hs|exact IH].
Qed.
Lemma read_line_app s rest : Forall (fun c => (c =? 10) = false) s -> read_line (s ++ 10 :: rest) = (s ++ [10], rest).
Proof.
  induction 1 as [|c s Hc Hs IH].
  - cbn [app read_line]. rewrite N.eqb_refl. reflexivity.
  - cbn [app read_line]. rewrite Hc, IH. reflexivity.
Qed.
Lemma Hdr_chars (P : N -> Prop) sh : Forall P [35;83;72;65;80;69;61;60;62;47] -> (forall c, is_digit c = true -> P c) ->
  Forall P (Hdr sh).
Proof.
  intros HP Hd. unfold Hdr.
  change (str "#SHAPE=<") with [35;83;72;65;80;69;61;60]. change (str ">") with [62].
  pose proof (proj1 (Forall_forall _ _) HP) as HI.
  apply Forall_app. split.
  { apply Forall_forall. intros c Hc. apply HI. cbn [In] in *. tauto. }
  apply Forall_app. split.
  - apply Forall_join.
    + constructor; [|constructor]. apply HI. cbn [In]. tauto.
    + apply Forall_map. apply Forall_forall. intros n _.
      eapply Forall_impl; [|apply dec_digits]. exact Hd.
  - constructor; [|constructor]. apply HI. cbn [In]. tauto.
Qed.
Lemma write_text_eq sh vals p :
  write_text sh vals p = Hdr sh ++ 10 :: (join [32] (map (fun v => print_fixed v p) vals) ++ [10]).
Proof.
  unfold write_text, Hdr. rewrite <- !app_assoc. reflexivity.
Qed.
Lemma header_roundtrip' sh : shape_ok sh -> parse_text_header (Hdr sh ++ [10]) = Some sh.
Proof.
  intros H. unfold Hdr. rewrite <- !app_assoc. apply text_header_roundtrip. exact H.
Qed.
Lemma all_some_parse (f : N -> bytes) vals : (forall v, In v vals -> parse_f64 (f v) <> None) ->
  all_some (map parse_f64 (map f vals)) =
  Some (map (fun v => match parse_f64 (f v) with Some w => w | None => 0 end) vals).
Proof.
  induction vals as [|v vals IH]; intros H; [reflexivity|].
  cbn [map all_some]. rewrite IH by (intros; apply H; right; assumption).
  destruct (parse_f64 (f v)) eqn:E; [reflexivity|]. exfalso. apply (H v); [left; reflexivity|exact E].
Qed.
Theorem text_roundtrip_struct sh vals p : shape_ok sh -> N.of_nat (length vals) = nelements sh ->
  (forall v, In v vals -> parse_f64 (print_fixed v p) <> None) ->
  read_text (write_text sh vals p) =
    inl (sh, map (fun v => match parse_f64 (print_fixed v p) with Some w => w | None => 0 end) vals).
Proof.
  intros Hok Hlen Hp. unfold read_text.
  assert (Hascii : forallb (fun c => c <? 128) (write_text sh vals p) = true).
  { apply forallb_forall. apply Forall_forall. rewrite write_text_eq.
    apply Forall_app. split.
    - apply Hdr_chars; [repeat (constructor; [reflexivity|]); constructor|].
      intros c Hc. unfold is_digit in Hc. lia.
    - constructor; [reflexivity|]. apply Forall_app. split; [|repeat constructor].
      apply Forall_join; [repeat constructor|].
      apply Forall_map. apply Forall_forall. intros v _.
      eapply Forall_impl; [|apply (print_fixed_nonempty_no_ws v p)]. cbv beta. intros c Hc. lia. }
  rewrite Hascii. cbn [negb]. rewrite write_text_eq.
  rewrite read_line_app.
  2:{ apply Hdr_chars; [repeat (constructor; [reflexivity|]); constructor|].
      intros c Hc. apply digit_not; [exact Hc|lia]. }
  rewrite header_roundtrip' by exact Hok.
  rewrite split_ws_join.
  2:{ apply Forall_map. apply Forall_forall. intros v _.
      destruct (print_fixed_nonempty_no_ws v p) as [H1 [H2 _]]. split; assumption. }
  rewrite all_some_parse by exact Hp.
  rewrite map_length, Hlen, N.eqb_refl. reflexivity.
Qed.
Theorem read_text_count inp sh vals : read_text inp = inl (sh, vals) -> N.of_nat (length vals) = nelements sh.
Proof.
  unfold read_text. destruct (negb _); [discriminate|].
  destruct (read_line inp) as [line rest].
  destruct (parse_text_header line) as [sh'|]; [|discriminate].
  destruct (all_some _) as [vals'|]; [|discriminate].
  destruct (N.eqb_spec (N.of_nat (length vals')) (nelements sh')) as [E|E]; [|discriminate].
  intros H. inversion H. subst. exact E.
Qed.

(* ---- format detection: the tool reads what it writes ---- *)
Lemma starts_with_app pre r : starts_with pre (pre ++ r) = true.
Proof.
  unfold starts_with. induction pre as [|a pre IH]; [reflexivity|].
  cbn [app tag]. rewrite N.eqb_refl. exact IH.
Qed.
Lemma starts_with_ne a t b r : a <> b -> starts_with (a :: t) (b :: r) = false.
Proof.
  intros H. unfold starts_with. cbn [tag]. apply N.eqb_neq in H. rewrite H. reflexivity.
Qed.
Lemma tag_short t inp : (length inp < length t)%nat -> tag t inp = None.
Proof.
  revert inp. induction t as [|a t IH]; intros inp H; [cbn [length] in H; lia|].
  destruct inp as [|b inp]; [reflexivity|]. cbn [tag]. destruct (a =? b); [|reflexivity].
  apply IH. cbn [length] in H. lia.
Qed.
Theorem detect_write_npy sh vals : detect_format (write_npy sh vals) = Some FNpy.
Proof.
  unfold detect_format, npy_magic, text_start, write_npy, write_header. cbv zeta.
  rewrite <- app_assoc. rewrite starts_with_app.
  change (str "#SHAPE") with [35;83;72;65;80;69]. unfold magic at 1. cbn [app].
  rewrite starts_with_ne by lia. reflexivity.
Qed.
Theorem detect_write_text sh vals p : detect_format (write_text sh vals p) = Some FText.
Proof.
  unfold detect_format, npy_magic, text_start, write_text.
  change (str "#SHAPE=<") with (str "#SHAPE" ++ [61;60]). rewrite <- app_assoc.
  rewrite starts_with_app.
  change (str "#SHAPE") with [35;83;72;65;80;69]. unfold magic. cbn [app].
  rewrite starts_with_ne by lia. reflexivity.
Qed.
Theorem detect_short inp : (length inp < 6)%nat -> detect_format inp = None.
Proof.
  intros H. unfold detect_format, starts_with.
  rewrite (tag_short npy_magic inp) by exact H.
  rewrite (tag_short text_start inp) by exact H. reflexivity.
Qed.
Theorem read_spectrum_npy sh vals : file_ok sh vals -> existsb (N.eqb 0) sh = false ->
  read_spectrum (write_npy sh vals) = inl (sh, vals).
Proof.
  intros H Hz. unfold read_spectrum. rewrite detect_write_npy, npy_roundtrip by exact H. rewrite Hz. reflexivity.
Qed.
(* an accepted spectrum has as many values as its shape says, and no axis of length zero *)
Theorem read_spectrum_count inp sh vals : read_spectrum inp = inl (sh, vals) ->
  N.of_nat (length vals) = nelements sh /\ existsb (N.eqb 0) sh = false.
Proof.
  unfold read_spectrum. destruct (detect_format inp) as [[|]|]; [| |discriminate].
  - destruct (read_npy inp) as [[sh0 v0]|e] eqn:E; [|discriminate].
    destruct (existsb (N.eqb 0) sh0) eqn:Ez; [discriminate|]. intros H. inversion H. subst.
    split; [eapply read_npy_count; exact E | exact Ez].
  - destruct (read_text inp) as [[sh0 v0]|e] eqn:E; [|discriminate].
    destruct (existsb (N.eqb 0) sh0) eqn:Ez; [discriminate|]. intros H. inversion H. subst.
    split; [eapply read_text_count; exact E | exact Ez].
Qed.
